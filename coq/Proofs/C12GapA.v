(* C12 — gap closing, part A.  The property text compared with the theorems of Properties/C12.v (as of ChannelX1..X7).

   clause of the statement / quantifier                  existing theorem(s)                          gap -> closed here / left
   --------------------------------------------------------------------------------------------------------------------------
   "under every interleaving of concurrent senders,      C12_schedules_reachable (run_final c= Reach), all headline theorems are about ONE reachable state with
    a closer, and receivers"                             C12_termination, C12_maximal_run_quiescent    [closed], [quiescent], "a loop task returned" as separate
                                                                                                      hypotheses; no theorem says "every run of the configuration that
                                                                                                      cannot be extended ..."  -> delivery_every_run, closed_run_all_finish
   "each item whose send completed before the channel    C12_delivery (repaired code, no cancel)       (a) only for c_pinned = false although without cancellation the pinned
    was closed is received by exactly one receiver"      C12_no_strand(_items) (pinned too, but only   code takes the same steps: conserve / exactly_once / fifo / receiver_order /
                                                         membership, no receiver)                      one_receiver / delivery / no_value_error / outcomes are all missing for
                                                                                                      the PINNED tree -> *_g under [cfg_sound] = not pinned \/ no cancel, which is
                                                                                                      exact (sound_exact_refuted)
                                                                                                      (b) "before the channel was closed" is a state observation
                                                                                                      (firstn npre sent): nothing says it is FIXED once closed
                                                                                                      -> before_close_frozen(_run)
                                                                                                      (c) the hypothesis "a receive LOOP returned" is only shown sufficient
                                                                                                      -> delivery_needs_loop_refuted (single receive()s leave an item queued)
   "no item is received twice or invented"               C12_exactly_once, C12_one_receiver            pinned tree without cancellation -> received_once_g, one_receiver_g
   "items from one sender are received in the            C12_fifo, C12_receiver_order                  same -> fifo_g, receiver_order_g
    order sent"
   "once the channel is closed every blocked or future   C12_no_blocked_receiver(_cancel),             [closed] is needed: -> no_close_strands_refuted.  What the tasks that are
    receive / iteration terminates (None, ChannelDone    C12_receivers_terminate(_nocancel),           NOT finished at the end are (BlkPut) is only excluded nowhere -> with an
    or end of iteration)"                                C12_receive_when_done, C12_sentinel_ends_..   unbounded buffer every task finishes: unbounded_all_finish,
                                                                                                      closed_run_all_finish; bounded: C12_obs_sender_blocked is the witness
   "every later send raises ChannelClosed"               C12_send_after_close (ONE step, the task is   nothing about the trace: that no item of a send begun after close() ever
                                                         Ready at the send)                            enters the channel -> part B (closed_idle_sent_frozen;
                                                                                                      sent_after_close_refuted for a sender past its check)
   "cancelling or timing out a blocked receiver          C12_cancel_safe (one step), C12_no_value_     "THAT cancellation / timeout": nothing ties OTimeout to the wait_for flag or a
    surfaces as that cancellation / timeout and leaves   error, C12_no_blocked_receiver_cancel,        cancel outcome to a cancel() that named the task -> STILL OPEN (vocabulary
    the channel usable with no item lost"                C12_conserve, K6 refutation                   cfg_tmo / cancel_target in Model/C12Gap.v).  "usable": -> part B receive_gets_head
   quantifier: 1..2 senders x 1..3 items, 1..3           all theorems: ANY configuration                none (the theorems are stronger than the quantifier)
    receivers, close anywhere, (un)bounded, one cancel

   Left open: delivery WITH cancellation is false (K6, C12_cancel_strands_refuted); the asyncio loop itself is mirrored, not verified. *)
From BP Require Import Base.Prelude Model.Channel Model.C12X Model.C12Gap.
From BP Require Import Proofs.ChannelP1 Proofs.ChannelP2 Proofs.ChannelP3 Proofs.ChannelP4 Proofs.ChannelP5 Proofs.ChannelP6
                       Proofs.ChannelP7 Proofs.ChannelP8.
From BP Require Import Proofs.ChannelX2 Proofs.ChannelX4 Proofs.ChannelX5 Proofs.ChannelX6.
From Coq Require Import Arith Lia Sorted.
Local Open Scope nat_scope.

(* ---------------------------------------------------------------- (A) the pinned tree without cancellation *)
Lemma cfg_sound_cases : forall c, cfg_sound c = true -> c_pinned c = false \/ cfg_nocancel c = true.
Proof. intros c H. unfold cfg_sound in H. apply orb_true_iff in H as [H|H]; [left; apply negb_true_iff; exact H|right; exact H]. Qed.

Lemma hist_g : forall c s, Reach c s -> cfg_sound c = true -> hist_body s.
Proof.
  intros c s R H. destruct (cfg_sound_cases c H) as [P|NC].
  - destruct (reach_gen _ _ R) as [_ _ _ _ _ _ IHh]. apply IHh. rewrite (reach_pinned c); auto.
  - destruct (reach_nc _ _ R NC) as [_ HB _ _ _ _]. exact HB.
Qed.

Theorem conserve_g : forall c s, Reach c s -> cfg_sound c = true ->
  sent s = received s ++ reals (q s) /\ NoDup (sent s) /\ unfin s = length (q s).
Proof.
  intros c s R H. destruct (hist_g c s R H) as [E U]. split; [exact E|]. split; [eapply sent_nodup; eauto|exact U].
Qed.

Theorem received_once_g : forall c s, Reach c s -> cfg_sound c = true ->
  NoDup (received s) /\ (forall x, In x (received s) -> In x (sent s)) /\
  (forall x, In x (sent s) -> In x (received s) \/ In x (q s)) /\
  (forall x, In x (received s) -> ~ In x (q s)).
Proof.
  intros c s R P. destruct (conserve_g c s R P) as (E & ND & _). rewrite E in ND. repeat split.
  - eapply NoDup_app_l; eauto.
  - intros x Hx. rewrite E. apply in_or_app; auto.
  - intros x Hx. rewrite E in Hx. apply in_app_or in Hx as [H|H]; auto. right. apply filter_In in H. tauto.
  - intros x Hx Hq. assert (Hr : In x (reals (q s))).
    { apply filter_In. split; auto. destruct x; auto. exfalso.
      assert (HS : In Flush (sent s)) by (rewrite E; apply in_or_app; auto).
      pose proof (reach_real_sent c s R) as RS. unfold real_sent in RS. rewrite forallb_forall in RS.
      specialize (RS _ HS). discriminate. }
    clear - ND Hx Hr. induction (received s) as [|a l IH]; [contradiction|].
    cbn in ND. inversion ND as [|? ? NI ND']; subst. destruct Hx as [->|Hx]; auto.
    apply NI. apply in_or_app; auto.
Qed.

Theorem fifo_g : forall c s, Reach c s -> cfg_sound c = true -> forall v,
  filter (from v) (received s) = map (Msg v) (seq 0 (length (filter (from v) (received s)))) /\
  length (filter (from v) (received s)) <= nsent_of s v.
Proof.
  intros c s R P v. destruct (conserve_g c s R P) as (E & _).
  destruct (reach_gen _ _ R) as [_ _ _ _ _ IN _]. specialize (IN v). rewrite E, filter_app in IN.
  split; [eapply prefix_map_seq; eauto|].
  apply (f_equal (@length item)) in IN. rewrite app_length, map_length, seq_length in IN.
  unfold nsent_of. fold (nso (tasks s) v). lia.
Qed.

Theorem receiver_order_g : forall c s, Reach c s -> cfg_sound c = true -> forall r,
  sublist (received_by s r) (received s) /\ NoDup (received_by s r) /\
  forall v, sublist (filter (from v) (received_by s r)) (map (Msg v) (seq 0 (nsent_of s v))) /\
            StronglySorted lt (map msg_num (filter (from v) (received_by s r))).
Proof.
  intros c s R P r.
  assert (SL : sublist (received_by s r) (received s)) by (apply sublist_filter_map).
  destruct (received_once_g c s R P) as (ND & _). split; [exact SL|]. split; [eapply sublist_NoDup; eauto|].
  intros v. destruct (fifo_g c s R P v) as [F L].
  assert (S1 : sublist (filter (from v) (received_by s r)) (map (Msg v) (seq 0 (length (filter (from v) (received s))))))
    by (rewrite <- F; apply sublist_filter; exact SL).
  split.
  - eapply sublist_trans; [|exact S1]. apply map_seq_prefix. exact L.
  - eapply sublist_map_seq; eauto.
Qed.

Theorem one_receiver_g : forall c s, Reach c s -> cfg_sound c = true ->
  (forall r1 r2 x, In x (received_by s r1) -> In x (received_by s r2) -> r1 = r2) /\
  (forall x, In x (received s) <-> exists r, In x (received_by s r)).
Proof.
  intros c s R P. destruct (received_once_g c s R P) as (ND & _). split.
  - intros r1 r2 x H1 H2. apply in_received_by in H1, H2. eapply NoDup_snd_unique; eauto.
  - intros x. split.
    + intros HI. unfold received in HI. apply in_map_iff in HI as ([r y] & E & HI). cbn in E. subst y.
      exists r. apply in_received_by. exact HI.
    + intros [r HI]. apply in_received_by in HI. unfold received. change x with (snd (r, x)). apply in_map. exact HI.
Qed.

(* the delivery clause, pinned or repaired code, no cancellation *)
Theorem delivery_g : forall c s i T, Reach c s -> cfg_nocancel c = true ->
  closed s = true -> quiescent s = true ->
  loop_task c i = true -> nth_error (tasks s) i = Some T -> st T = Fin ORet ->
  sent_before_close s = firstn (npre s) (received s) /\
  forall x, In x (sent_before_close s) ->
    exists r, In x (received_by s r) /\ forall r', In x (received_by s r') -> r' = r.
Proof.
  intros c s i T R NC CL Q HL HT HS. pose proof (loop_drains c s i T R HL HT HS) as D.
  assert (P : cfg_sound c = true) by (unfold cfg_sound; rewrite NC; apply orb_true_r).
  destruct (no_strand c s R NC CL Q) as [_ K]. split; [exact (K D)|].
  intros x Hx. pose proof (no_strand_items c s R NC CL Q D x Hx) as HR.
  destruct (one_receiver_g c s R P) as [U1 U2]. apply U2 in HR as [r Hr]. exists r. split; [exact Hr|].
  intros r' Hr'. eapply U1; eauto.
Qed.

(* outcomes: the generalisation of outcome_step to "repaired, or nothing cancelled" *)
Lemma outcome_step_g : forall (okb : outcome -> bool) s t s', step s t = Some s' ->
  okb ORet = true -> okb OClosed = true -> okb ODone = true ->
  pinned s = false \/ nocancel_state s -> unfin s = length (q s) ->
  nocancel_state s \/ (okb OCancelled = true /\ okb OTimeout = true) ->
  alltasks (okT okb) (tasks s) -> alltasks (okT okb) (tasks s').
Proof.
  intros okb s t s' H K1 K2 K3 PN HU NC A. step_inv H; simp_proj.
  all: try match goal with E : pinned _ = true |- _ => destruct PN as [PN|PN]; [congruence|nocancel_contra] end.
  all: repeat match goal with E : q _ = _ |- _ => rewrite E in *; clear E end; cbn [length] in *; try (exfalso; lia).
  all: try apply alltasks_app1; repeat (apply alltasks_upd);
       try (apply alltasks_wakeup; [reflexivity|intros ? ?; apply okT_nonfin; reflexivity|]); try exact A.
  all: try match goal with |- context [after_item ?o _] => destruct o; cbn [after_item fst snd] in * end.
  all: try (apply okT_nonfin; cbn [st set_prog set_mc set_st flush_task]; try match goal with E1 : st ?T = _ |- context [st ?T] => rewrite E1 end; reflexivity).
  all: try (intros o Ho; cbn [st finished] in Ho; injection Ho as <-; assumption).
  all: destruct NC as [NC|[C1 C2]]; [nocancel_contra|].
  all: intros o Ho; cbn [st finished] in Ho; injection Ho as <-; unfold cancel_out; destruct (tmo t0); assumption.
Qed.

Theorem no_value_error_g : forall c s t o, Reach c s -> cfg_sound c = true -> outcome_of s t = Some o ->
  outcome_is_error o = false.
Proof.
  intros c s t o R P H.
  assert (A : alltasks (okT (fun o => negb (outcome_is_error o))) (tasks s)).
  { clear t o H. induction R as [|s t s' R IH Hs]; [apply init_okT|].
    destruct (hist_g c s R P) as [_ HU].
    eapply outcome_step_g; eauto.
    destruct (cfg_sound_cases c P) as [P1|NC]; [left; rewrite (reach_pinned c); auto|].
    right. destruct (reach_nc _ _ R NC) as [JN _ _ _ _ _]. exact JN. }
  apply negb_true_iff. eapply (okT_outcome _ s A); eauto.
Qed.

Theorem outcomes_nocancel_g : forall c s t o, Reach c s -> cfg_nocancel c = true ->
  outcome_of s t = Some o -> o = ORet \/ o = OClosed \/ o = ODone.
Proof.
  intros c s t o R NC H.
  assert (P : cfg_sound c = true) by (unfold cfg_sound; rewrite NC; apply orb_true_r).
  assert (A : alltasks (okT (fun o => negb (outcome_is_error o) && negb (outcome_is_cancel o))) (tasks s)).
  { clear t o H. induction R as [|s t s' R IH Hs]; [apply init_okT|].
    destruct (hist_g c s R P) as [_ HU]. destruct (reach_nc _ _ R NC) as [JN _ _ _ _ _].
    eapply outcome_step_g; eauto. }
  pose proof (okT_outcome _ s A t o H) as K. destruct o; cbn in K; try discriminate; auto.
Qed.

(* [cfg_sound] is exact: pinned code with a cancellation loses an item — the conservation equation fails *)
Theorem sound_exact_refuted : exists c s,
  cfg_sound c = false /\ Reach c s /\ sent s <> received s ++ reals (q s) /\
  (exists t, outcome_of s t = Some OValueErr).
Proof.
  exists (cfg_f10_loss true), (final (cfg_f10_loss true) [0; 1; 2; 0; 3; 4]).
  split; [reflexivity|]. split; [apply final_reach; vm_compute; reflexivity|].
  split; [vm_compute; intros H; discriminate H|]. exists 3. vm_compute. reflexivity.
Qed.

(* ---------------------------------------------------------------- (B) "before the channel was closed" is fixed by close() *)
Definition pre_inv (s : state) : Prop := npre s <= length (sent s) /\ (closed s = false -> npre s = 0).

Lemma pre_step : forall s t s', step s t = Some s' -> pre_inv s ->
  pre_inv s' /\ (exists l, sent s' = sent s ++ l) /\ (closed s = true -> npre s' = npre s).
Proof.
  intros s t s' H [I1 I2]. unfold pre_inv. step_inv H; simp_proj.
  all: (split; [split|split]).
  all: try (exists []; rewrite app_nil_r; reflexivity); try (eexists; reflexivity).
  all: rewrite ?app_length; cbn [length]; try lia; try (intros; congruence); auto.
  all: try (intros HC; specialize (I2 HC); lia).
Qed.

Lemma reach_pre : forall c s, Reach c s -> pre_inv s.
Proof.
  induction 1 as [|s t s' R IH Hs]; [split; cbn; auto|]. destruct (pre_step _ _ _ Hs IH) as [K _]. exact K.
Qed.

Lemma firstn_app_le : forall (A : Type) n (a b : list A), n <= length a -> firstn n (a ++ b) = firstn n a.
Proof. intros A n a b H. rewrite firstn_app. replace (n - length a) with 0 by lia. cbn. apply app_nil_r. Qed.

Theorem before_close_frozen : forall c s t s', Reach c s -> closed s = true -> step s t = Some s' ->
  sent_before_close s' = sent_before_close s /\ npre s' = npre s /\ exists l, sent s' = sent s ++ l.
Proof.
  intros c s t s' R CL H. destruct (reach_pre c s R) as [I1 I2].
  destruct (pre_step _ _ _ H (conj I1 I2)) as (_ & [l E] & N). specialize (N CL).
  split; [|split; [exact N|exists l; exact E]].
  unfold sent_before_close. rewrite N, E. apply firstn_app_le. exact I1.
Qed.

Theorem before_close_frozen_run : forall c sch s s', Reach c s -> closed s = true -> exec s sch = Some s' ->
  sent_before_close s' = sent_before_close s /\ npre s' = npre s /\ exists l, sent s' = sent s ++ l.
Proof.
  intros c sch. induction sch as [|t r IH]; intros s s' R CL H; cbn in H.
  - injection H as <-. repeat split; auto. exists []. rewrite app_nil_r. reflexivity.
  - destruct (step s t) as [s1|] eqn:E; [|discriminate].
    destruct (before_close_frozen c s t s1 R CL E) as (A1 & A2 & [l1 A3]).
    assert (R1 : Reach c s1) by (econstructor; eauto).
    destruct (IH s1 s' R1 (closed_stable _ _ _ E CL) H) as (B1 & B2 & [l2 B3]).
    split; [congruence|]. split; [congruence|]. exists (l1 ++ l2). rewrite B3, A3, app_assoc. reflexivity.
Qed.

(* before close() nothing is "before close" yet, and close() records exactly the sends completed so far *)
Theorem before_close_def : forall c s, Reach c s ->
  npre s <= length (sent s) /\ (closed s = false -> sent_before_close s = []).
Proof.
  intros c s R. destruct (reach_pre c s R) as [I1 I2]. split; [exact I1|].
  intros HC. unfold sent_before_close. rewrite (I2 HC). reflexivity.
Qed.

(* ---------------------------------------------------------------- (C) every run that cannot be extended *)
Theorem delivery_every_run : forall c sch s i T, exec (init c) sch = Some s -> stuck s ->
  cfg_nocancel c = true -> closed s = true ->
  loop_task c i = true -> nth_error (tasks s) i = Some T -> st T = Fin ORet ->
  length sch <= bound c /\ quiescent s = true /\
  sent_before_close s = firstn (npre s) (received s) /\
  (forall x, In x (sent_before_close s) ->
     exists r, In x (received_by s r) /\ forall r', In x (received_by s r') -> r' = r) /\
  NoDup (received s) /\ (forall x, In x (received s) -> In x (sent s)) /\
  (forall v, filter (from v) (received s) = map (Msg v) (seq 0 (length (filter (from v) (received s))))).
Proof.
  intros c sch s i T H S NC CL HL HT HS.
  destruct (maximal_run_quiescent c (init c) sch s (R_init c) H S) as (Q & L & R).
  assert (P : cfg_sound c = true) by (unfold cfg_sound; rewrite NC; apply orb_true_r).
  destruct (delivery_g c s i T R NC CL Q HL HT HS) as [D1 D2].
  destruct (received_once_g c s R P) as (E1 & E2 & _).
  repeat (split; auto). intros v. apply (fifo_g c s R P v).
Qed.

(* unbounded buffer: nobody ever blocks in put, so once closed every run that cannot be extended ends with EVERY task
   finished — cancellation and timeouts included, pinned or repaired *)
Theorem unbounded_all_finish : forall c s, Reach c s -> c_maxsize c = 0 -> cfg_cancel_ok c = true ->
  closed s = true -> quiescent s = true -> all_finished s = true.
Proof.
  intros c s R M OK CL Q. unfold all_finished. apply forallb_forall. intros T HT.
  destruct (no_blocked_general_tasks c s R OK CL Q T HT) as [[o Ho]|HB]; [rewrite Ho; reflexivity|].
  exfalso. destruct (no_lost_wakeup c s R Q) as [_ K].
  assert (HP : sumf (is_st BlkPut) (tasks s) > 0).
  { apply In_nth_error in HT as [u HU]. pose proof (sumf_nth (is_st BlkPut) _ _ _ HU) as LE.
    unfold is_st in LE at 1. rewrite HB in LE. cbn in LE. lia. }
  specialize (K HP). apply full_true in K as [K _]. rewrite (reach_maxsize c s R) in K. lia.
Qed.

Theorem closed_run_all_finish : forall c s sch s', Reach c s -> c_maxsize c = 0 -> cfg_cancel_ok c = true ->
  closed s = true -> exec s sch = Some s' -> stuck s' ->
  length sch <= bound c /\ all_finished s' = true.
Proof.
  intros c s sch s' R M OK CL H S. destruct (maximal_run_quiescent c s sch s' R H S) as (Q & L & R').
  split; [exact L|]. apply (unbounded_all_finish c s' R' M OK); auto. eapply exec_closed; eauto.
Qed.

(* ---------------------------------------------------------------- (D) exactness of the hypotheses of the delivery clause *)
(* receivers that do NOT keep receiving until the channel is done: two single receive()s short of three items *)
Definition cfg_nl : config := mkC 0 false [([USend; USend; UClose], false); ([URecv], false)].

Theorem delivery_needs_loop_refuted : exists c s x,
  cfg_nocancel c = true /\ c_pinned c = false /\ Reach c s /\ closed s = true /\ quiescent s = true /\
  all_finished s = true /\ (forall i, loop_task c i = false) /\
  In x (sent_before_close s) /\ ~ In x (received s) /\ In x (q s).
Proof.
  exists cfg_nl, (final cfg_nl [0; 1; 2]), (Msg 0 1).
  split; [reflexivity|]. split; [reflexivity|]. split; [apply final_reach; vm_compute; reflexivity|].
  split; [vm_compute; reflexivity|]. split; [vm_compute; reflexivity|]. split; [vm_compute; reflexivity|].
  split; [intros [|[|[|i]]]; reflexivity|].
  split; [vm_compute; auto|]. split; [|vm_compute; auto].
  vm_compute; intros H; repeat (destruct H as [H|H]; [discriminate|]); exact H.
Qed.

(* [closed] is needed for "no stranded receiver": nobody closes, the receiver waits for ever *)
Definition cfg_nc : config := mkC 0 false [([USend], false); ([URecvLoop], false)].

Theorem no_close_strands_refuted : exists c s,
  cfg_nocancel c = true /\ Reach c s /\ closed s = false /\ quiescent s = true /\
  sumf (is_st BlkGet) (tasks s) = 1 /\ received s = sent s.
Proof.
  exists cfg_nc, (final cfg_nc [0; 1]).
  split; [reflexivity|]. split; [apply final_reach; vm_compute; reflexivity|]. vm_compute. auto.
Qed.

(* non-vacuity: a PINNED configuration without cancellation, run to the end *)
Definition cfg_exp : config :=
  mkC 0 true [([USend; UYield; USendFrom 2 false], false); ([USend; USend], false); ([UYield; UClose], false);
              ([URecvLoop], false); ([UIter true], false); ([URecv; URecv], false)].

Example ex_pinned_delivery :
  let s := final cfg_exp sch_ex in
  c_pinned cfg_exp = true /\ cfg_sound cfg_exp = true /\ cfg_nocancel cfg_exp = true /\ Reach cfg_exp s /\
  closed s = true /\ quiescent s = true /\ loop_task cfg_exp 3 = true /\ outcome_of s 3 = Some ORet /\
  sent_before_close s = [Msg 1 0; Msg 1 1; Msg 0 0; Msg 0 1; Msg 0 2] /\ all_finished s = true /\
  c_maxsize cfg_exp = 0 /\ cfg_cancel_ok cfg_exp = true.
Proof.
  cbv zeta. split; [reflexivity|]. split; [reflexivity|]. split; [reflexivity|].
  split; [apply final_reach; vm_compute; reflexivity|]. vm_compute. repeat split; reflexivity.
Qed.

Example ex_frozen :
  let s := final cfg_obs [1; 0; 0; 1; 2; 1; 3] in
  Reach cfg_obs s /\ closed s = true /\ sent_before_close s = [Msg 0 0] /\
  exists s', exec s [2; 0] = Some s' /\ sent s' = [Msg 0 0; Msg 0 1] /\ sent_before_close s' = [Msg 0 0].
Proof.
  cbv zeta. split; [apply final_reach; vm_compute; reflexivity|]. split; [vm_compute; reflexivity|].
  split; [vm_compute; reflexivity|]. eexists. split; [vm_compute; reflexivity|]. vm_compute. auto.
Qed.
