(* C02: storing one decoded value (getattr-with-default, then setattr / append / map-merge)
   preserves the simulation invariant.  Singular fields here; repeated and map fields below. *)
From BP Require Import Base.Prelude Model.Types Model.Varint Model.Scalar Model.Float Model.Utf8.
From BP Require Import Model.Object Model.Eq Model.TimeCore Model.Decode Model.WellFormed.
From BP Require Import Spec.Varint Spec.Wire.
From BP Require Import Proofs.BytesP Proofs.C02Abs Proofs.C02WireP Proofs.C02LeafP Proofs.C02LoadP Proofs.C02ListP Proofs.C02StepP Proofs.C02SimP Proofs.C02ElemP.
From BP Require Import gen.Tables.
From Coq Require Import ZifyBool ZifyN.

(* ------------------------------------------------------------------ add_payload, position by position *)
Lemma add_payload_length i f p fs : forall j st, length st = length fs -> length (add_payload i f p j fs st) = length fs.
Proof.
  induction fs as [|f0 fs IH]; intros j [|ps st] L; cbn in *; try reflexivity; try discriminate.
  f_equal. apply IH. lia.
Qed.

Lemma add_payload_nth i f p fs : forall j st k fk ps,
  nth_error fs k = Some fk -> nth_error st k = Some ps ->
  nth_error (add_payload i f p j fs st) k =
  Some (if Nat.eqb (j + k) i then ps ++ [p] else if same_group f fk then [] else ps).
Proof.
  induction fs as [|f0 fs IH]; intros j st k fk ps Hf Hp; [destruct k; discriminate|].
  destruct st as [|ps0 st]; [destruct k; discriminate|].
  destruct k as [|k]; cbn in *.
  - injection Hf as <-. injection Hp as <-. now rewrite Nat.add_0_r.
  - rewrite (IH (S j) st k fk ps Hf Hp). replace (S j + k)%nat with (j + S k)%nat by lia. reflexivity.
Qed.

(* ------------------------------------------------------------------ abs_field and _group_current *)
Lemma abs_field_cur sc cur cur' k fk x :
  (forall g, card_of fk = Oneof g -> nth g cur' None = nth g cur None) ->
  abs_field sc cur' k fk x = abs_field sc cur k fk x.
Proof. intros H. unfold abs_field. destruct (card_of fk) eqn:C; try reflexivity. now rewrite (H g eq_refl). Qed.

Lemma nth_set_nth_same {A} g (x d : A) l : (g < length l)%nat -> nth g (set_nth g x l) d = x.
Proof. intros H. apply nth_of_nth_error. now apply set_nth_same. Qed.

Lemma nth_set_nth_other {A} g g' (x d : A) l : g' <> g -> nth g' (set_nth g x l) d = nth g' l d.
Proof.
  intros H. destruct (nth_error l g') eqn:E.
  - rewrite (nth_of_nth_error _ _ _ d E). apply nth_of_nth_error. now rewrite set_nth_other.
  - rewrite !nth_overflow; [reflexivity | now apply nth_error_None | rewrite set_nth_length; now apply nth_error_None].
Qed.

Lemma set_nth_idem {A} g (x : A) l : set_nth g x (set_nth g x l) = set_nth g x l.
Proof. revert g; induction l as [|y l IH]; intros [|g]; cbn; auto. now rewrite IH. Qed.

Lemma cur_after_idem f i cur : cur_after f i (cur_after f i cur) = cur_after f i cur.
Proof. unfold cur_after. destruct (fgroup f); [apply set_nth_idem | reflexivity]. Qed.

Lemma cur_after_length f i cur : length (cur_after f i cur) = length cur.
Proof. unfold cur_after. destruct (fgroup f); [apply set_nth_length | reflexivity]. Qed.

Lemma group_card sc ng fk g : wf_field sc ng fk = true -> fgroup fk = Some g -> card_of fk = Oneof g /\ (g < ng)%nat.
Proof.
  unfold wf_field, card_of. intros W G. rewrite G in *.
  destruct (fhint fk); bsplit; try discriminate.
  split; [reflexivity | now apply Nat.ltb_lt].
Qed.

Lemma card_group fk g : card_of fk = Oneof g -> fgroup fk = Some g.
Proof.
  unfold card_of. destruct (fhint fk); try discriminate. destruct (fgroup fk); [intros [= ->]; reflexivity|].
  destruct (fty fk); discriminate.
Qed.

(* ------------------------------------------------------------------ the shape of store on a singular field *)
Lemma getattr_cases sc c raw sow unk cur i f x :
  nth_error (cfields (get_class sc c)) i = Some f -> nth_error raw i = Some x ->
  group_selects cur f i <> Some false ->
  (x = PPlaceholder /\
   getattr sc (Obj c raw sow unk cur) i = (Obj c (set_nth i (default_of sc f) raw) sow unk cur, Ok (default_of sc f))) \/
  (x <> PPlaceholder /\ getattr sc (Obj c raw sow unk cur) i = (Obj c raw sow unk cur, Ok x)).
Proof.
  intros Hf Hx G. rewrite (getattr_spec sc c raw sow unk cur i f x Hf Hx G).
  destruct x; [left; split; reflexivity | ..]; right; split; try discriminate; reflexivity.
Qed.

Lemma not_list_match {A} (v : pv) (a : list pv -> A) (b : A) :
  (forall l, v <> PList l) -> match v with PList l => a l | _ => b end = b.
Proof. intros H. destruct v; try reflexivity. exfalso. eapply H. reflexivity. Qed.

Section Store.
  Variable sc : schema.
  Hypothesis WF : wf_schema sc = true.
  Variable c : nat.
  Let fs := cfields (get_class sc c).

  Lemma store_singular_shape raw unk cur i f x v :
    nth_error fs i = Some f -> nth_error raw i = Some x -> length raw = length fs ->
    match card_of f with Repeated | MapOf => False | _ => True end ->
    (forall l, x <> PList l) ->
    exists raw2,
      store sc (Obj c raw true unk cur) i f v = Ok (Obj c raw2 true unk (cur_after f i cur)) /\
      length raw2 = length raw /\
      forall k fk xk, nth_error fs k = Some fk -> nth_error raw k = Some xk ->
        nth_error raw2 k = Some (if Nat.eqb k i then norm_value sc v
                                 else if same_group f fk then PPlaceholder else xk).
  Proof.
    unfold fs. intros Hf Hx L C Hxl. pose proof (wf_field_get sc c i f WF Hf) as W.
    destruct (wf_singular sc _ f W C) as (NotMap & Dl & _).
    unfold store.
    destruct (group_selects cur f i) as [[|]|] eqn:GS.
    2:{ (* AttributeError: default stored through setattr, then the value *)
      rewrite (getattr_unselected sc c raw true unk cur i f Hf GS).
      destruct (setattr_spec sc c raw true unk cur i f (default_of sc f) Hf L) as (raw1 & E1 & L1 & P1).
      rewrite E1, NotMap. rewrite (not_list_match _ _ _ Dl).
      destruct (setattr_spec sc c raw1 true unk (cur_after f i cur) i f v Hf ltac:(lia)) as (raw2 & E2 & L2 & P2).
      rewrite E2, cur_after_idem. exists raw2. split; [reflexivity|]. split; [lia|].
      intros k fk xk Hk Hxk. rewrite (P2 k fk _ Hk (P1 k fk xk Hk Hxk)).
      destruct (Nat.eqb k i); [reflexivity|]. destruct (same_group f fk); reflexivity. }
    all: assert (GS' : group_selects cur f i <> Some false) by (rewrite GS; discriminate).
    all: destruct (getattr_cases sc c raw true unk cur i f x Hf Hx GS') as [[Ex E]|[Ex E]]; rewrite E, NotMap.
    (* placeholder: the default is written back first *)
    1,3: rewrite (not_list_match _ _ _ Dl);
      destruct (setattr_spec sc c (set_nth i (default_of sc f) raw) true unk cur i f v Hf ltac:(rewrite set_nth_length; lia))
        as (raw2 & E2 & L2 & P2);
      rewrite E2; exists raw2; split; [reflexivity|]; split; [rewrite set_nth_length in L2; lia|];
      intros k fk xk Hk Hxk; destruct (Nat.eqb_spec k i) as [->|Hne];
      [ rewrite (P2 i fk _ Hk (set_nth_same i _ raw (nth_error_Some_lt _ _ _ Hxk))); now rewrite Nat.eqb_refl
      | rewrite (P2 k fk xk Hk ltac:(rewrite set_nth_other by exact Hne; exact Hxk));
        replace (Nat.eqb k i) with false by (symmetry; now apply Nat.eqb_neq); reflexivity ].
    all: rewrite (not_list_match _ _ _ Hxl);
      destruct (setattr_spec sc c raw true unk cur i f v Hf L) as (raw2 & E2 & L2 & P2);
      rewrite E2; exists raw2; split; [reflexivity|]; split; [exact L2|];
      intros k fk xk Hk Hxk; exact (P2 k fk xk Hk Hxk).
  Qed.
End Store.

(* ------------------------------------------------------------------ the invariant after a singular store *)
Section InvStore.
  Variable sc : schema.
  Hypothesis WF : wf_schema sc = true.
  Variable nested : nat -> list byte -> option aval.
  Variable c : nat.
  Let fs := cfields (get_class sc c).

  Lemma shape_not_list f x :
    match card_of f with Repeated | MapOf => False | _ => True end -> shape_ok f x -> forall l, x <> PList l.
  Proof. unfold shape_ok. destruct (card_of f); try contradiction; intros _ H; [exact H | exact (proj1 H) | exact H]. Qed.

  Lemma Inv_store_singular o st urs i f p v :
    Inv sc nested c o st urs -> nth_error fs i = Some f ->
    match card_of f with Repeated | MapOf => False | _ => True end ->
    (forall ps, nth_error st i = Some ps ->
       interp_field nested sc f (ps ++ [p]) = Some (abs_field sc (cur_after f i (ocur o)) i f (norm_value sc v))) ->
    shape_ok f (norm_value sc v) ->
    exists o', store sc o i f v = Ok o' /\ Inv sc nested c o' (add_payload i f p 0 fs st) urs.
  Proof.
    unfold fs. intros I Hf C Hi Hsh. destruct o as [c0 raw sow unk cur].
    pose proof (i_cls _ _ _ _ _ _ I) as Ec. pose proof (i_sow _ _ _ _ _ _ I) as Es.
    pose proof (i_raw _ _ _ _ _ _ I) as Lr. pose proof (i_st _ _ _ _ _ _ I) as Ls.
    pose proof (i_cur _ _ _ _ _ _ I) as Lc. cbn [ocls osow oraw ocur] in *. subst c0 sow.
    pose proof (nth_error_Some_lt _ _ _ Hf) as Li.
    destruct (nth_error_ex raw i ltac:(lia)) as (x & Hx). destruct (nth_error_ex st i ltac:(lia)) as (ps & Hps).
    destruct (i_fld _ _ _ _ _ _ I i f x ps Hf Hx Hps) as (_ & Shx).
    destruct (store_singular_shape sc WF c raw unk cur i f x v Hf Hx Lr C (shape_not_list f x C Shx))
      as (raw2 & E & L2 & P2).
    exists (Obj c raw2 true unk (cur_after f i cur)). split; [exact E|].
    pose proof (wf_field_get sc c i f WF Hf) as W.
    constructor; cbn [ocls osow oraw ounk ocur]; try reflexivity.
    - lia.
    - now apply add_payload_length.
    - now rewrite cur_after_length.
    - exact (i_unk _ _ _ _ _ _ I).
    - intros k fk x2 ps2 Hk Hx2 Hps2.
      pose proof (nth_error_Some_lt _ _ _ Hk) as Lk.
      destruct (nth_error_ex raw k ltac:(lia)) as (xk & Hxk). destruct (nth_error_ex st k ltac:(lia)) as (psk & Hpsk).
      rewrite (P2 k fk xk Hk Hxk) in Hx2. injection Hx2 as <-.
      rewrite (add_payload_nth i f p _ 0 st k fk psk Hk Hpsk) in Hps2. cbn [Nat.add] in Hps2. injection Hps2 as <-.
      destruct (Nat.eqb_spec k i) as [->|Hne].
      + assert (fk = f) by congruence. subst fk. assert (psk = ps) by congruence. subst psk.
        split; [now apply Hi | exact Hsh].
      + destruct (i_fld _ _ _ _ _ _ I k fk xk psk Hk Hxk Hpsk) as (Hint & Shk).
        pose proof (wf_field_get sc c k fk WF Hk) as Wk.
        destruct (same_group f fk) eqn:SG.
        * (* a sibling of the oneof group: cleared on both sides *)
          unfold same_group in SG. destruct (fgroup f) as [g|] eqn:Gf; [|discriminate].
          destruct (fgroup fk) as [g'|] eqn:Gk; [|discriminate]. apply Nat.eqb_eq in SG. subst g'.
          destruct (group_card sc _ fk g Wk Gk) as (Ck & Lg).
          rewrite interp_empty. unfold empty_field, abs_field, shape_ok. rewrite Ck.
          unfold cur_after. rewrite Gf. rewrite nth_set_nth_same by lia. cbn [opt_nat_eqb].
          replace (Nat.eqb i k) with false by (symmetry; apply Nat.eqb_neq; congruence).
          split; [reflexivity | discriminate].
        * split; [|exact Shk]. rewrite Hint. f_equal. symmetry. apply abs_field_cur.
          intros g' Ck. unfold cur_after. destruct (fgroup f) as [g|] eqn:Gf; [|reflexivity].
          apply nth_set_nth_other. intros ->. apply card_group in Ck.
          unfold same_group in SG. rewrite Gf, Ck, Nat.eqb_refl in SG. discriminate.
  Qed.
End InvStore.

(* ------------------------------------------------------------------ repeated and map fields *)
Lemma wf_mapof sc ng f : wf_field sc ng f = true -> card_of f = MapOf ->
  exists k v kt vt, fhint f = HDict k v /\ fgroup f = None /\ ptype_eqb (fty f) TMap = true /\ fmap f = Some (kt, vt) /\
                    entry_class_ok sc f = true.
Proof.
  unfold wf_field, card_of. intros W C.
  destruct (fhint f) as [p|p|p|k v] eqn:H; try discriminate.
  - destruct (fgroup f); [discriminate|]. destruct (fty f); discriminate.
  - destruct (fmap f) as [[kt vt]|] eqn:M; bsplit; try discriminate.
    exists k, v, kt, vt. split; [reflexivity|]. split; [now apply is_some'_false|]. split; [assumption|]. split; [reflexivity | assumption].
Qed.

Section InvStore2.
  Variable sc : schema.
  Hypothesis WF : wf_schema sc = true.
  Variable nested : nat -> list byte -> option aval.
  Variable c : nat.
  Let fs := cfields (get_class sc c).

  (* the generic "only position i changes, _group_current does not" update *)
  Lemma Inv_set_only o st urs i f p x2 :
    Inv sc nested c o st urs -> nth_error fs i = Some f -> fgroup f = None ->
    (forall ps, nth_error st i = Some ps ->
       interp_field nested sc f (ps ++ [p]) = Some (abs_field sc (ocur o) i f x2)) ->
    shape_ok f x2 ->
    forall raw1, length raw1 = length (oraw o) ->
      (forall k, k <> i -> nth_error raw1 k = nth_error (oraw o) k) ->
      Inv sc nested c (Obj (ocls o) (set_nth i x2 raw1) (osow o) (ounk o) (ocur o)) (add_payload i f p 0 fs st) urs.
  Proof.
    unfold fs. intros I Hf Gf Hi Hsh raw1 L1 P1. destruct o as [c0 raw sow unk cur]. cbn [ocls osow oraw ounk ocur] in *.
    pose proof (i_raw _ _ _ _ _ _ I) as Lr. pose proof (i_st _ _ _ _ _ _ I) as Ls. cbn [oraw] in *.
    pose proof (nth_error_Some_lt _ _ _ Hf) as Li.
    constructor; cbn [ocls osow oraw ounk ocur].
    - exact (i_cls _ _ _ _ _ _ I).
    - exact (i_sow _ _ _ _ _ _ I).
    - rewrite set_nth_length. lia.
    - now apply add_payload_length.
    - exact (i_cur _ _ _ _ _ _ I).
    - exact (i_unk _ _ _ _ _ _ I).
    - intros k fk xk2 ps2 Hk Hx2 Hps2.
      pose proof (nth_error_Some_lt _ _ _ Hk) as Lk.
      destruct (nth_error_ex st k ltac:(lia)) as (psk & Hpsk).
      rewrite (add_payload_nth i f p _ 0 st k fk psk Hk Hpsk) in Hps2. cbn [Nat.add] in Hps2. injection Hps2 as <-.
      destruct (Nat.eqb_spec k i) as [->|Hne].
      + rewrite set_nth_same in Hx2 by lia. injection Hx2 as <-. assert (fk = f) by congruence. subst fk.
        split; [now apply Hi | exact Hsh].
      + rewrite set_nth_other in Hx2 by exact Hne. rewrite (P1 k Hne) in Hx2.
        unfold same_group. rewrite Gf.
        exact (i_fld _ _ _ _ _ _ I k fk xk2 psk Hk Hx2 Hpsk).
  Qed.

  Lemma Inv_store_repeated o st urs i f p v :
    Inv sc nested c o st urs -> nth_error fs i = Some f -> card_of f = Repeated ->
    (forall ps l, nth_error st i = Some ps ->
       interp_field nested sc f ps = Some (AList (map (abs_elem sc f) l)) ->
       interp_field nested sc f (ps ++ [p]) =
         Some (AList (map (abs_elem sc f) (l ++ match v with PList vs => vs | _ => [v] end)))) ->
    exists o', store sc o i f v = Ok o' /\ Inv sc nested c o' (add_payload i f p 0 fs st) urs.
  Proof.
    unfold fs. intros I Hf C Hi. pose proof (wf_field_get sc c i f WF Hf) as W.
    destruct (wf_repeated sc _ f W C) as (py & Hh & Gf & _ & _ & NotMap & _).
    destruct o as [c0 raw sow unk cur].
    pose proof (i_cls _ _ _ _ _ _ I) as Ec. pose proof (i_raw _ _ _ _ _ _ I) as Lr. pose proof (i_st _ _ _ _ _ _ I) as Ls.
    cbn [ocls oraw] in *. subst c0.
    pose proof (nth_error_Some_lt _ _ _ Hf) as Li.
    destruct (nth_error_ex raw i ltac:(lia)) as (x & Hx). destruct (nth_error_ex st i ltac:(lia)) as (ps & Hps).
    destruct (i_fld _ _ _ _ _ _ I i f x ps Hf Hx Hps) as (Hint & Shx).
    unfold shape_ok in Shx. rewrite C in Shx. cbn [ocur] in Hint.
    assert (GS : group_selects cur f i <> Some false) by (unfold group_selects; rewrite Gf; discriminate).
    unfold store. rewrite (getattr_spec sc c raw sow unk cur i f x Hf Hx GS).
    assert (Dd : default_of sc f = PList []) by (unfold default_of; now rewrite Hh).
    destruct Shx as [->|(l & ->)].
    - (* first occurrence: the default [] is stored, then extended *)
      rewrite Dd, NotMap.
      eexists. split; [reflexivity|].
      unfold abs_field in Hint. rewrite C in Hint.
      pose proof (Inv_set_only _ st urs i f p (PList ([] ++ match v with PList vs => vs | _ => [v] end)) I Hf Gf) as U.
      cbn [ocls osow oraw ounk ocur] in U.
      assert (E : (match v with PList vs => [] ++ vs | _ => [] ++ [v] end) = [] ++ match v with PList vs => vs | _ => [v] end)
        by (destruct v; reflexivity).
      rewrite E. apply U.
      + intros ps' Hps'. assert (ps' = ps) by congruence. subst ps'.
        unfold abs_field. rewrite C. apply (Hi ps [] Hps). exact Hint.
      + unfold shape_ok. rewrite C. right. eexists; reflexivity.
      + now rewrite set_nth_length.
      + intros k Hne. now apply set_nth_other.
    - rewrite NotMap. eexists. split; [reflexivity|].
      unfold abs_field in Hint. rewrite C in Hint.
      pose proof (Inv_set_only _ st urs i f p (PList (l ++ match v with PList vs => vs | _ => [v] end)) I Hf Gf) as U.
      cbn [ocls osow oraw ounk ocur] in U.
      assert (E : (match v with PList vs => l ++ vs | _ => l ++ [v] end) = l ++ match v with PList vs => vs | _ => [v] end)
        by (destruct v; reflexivity).
      rewrite E. apply U.
      + intros ps' Hps'. assert (ps' = ps) by congruence. subst ps'.
        unfold abs_field. rewrite C. apply (Hi ps l Hps). exact Hint.
      + unfold shape_ok. rewrite C. right. eexists; reflexivity.
      + reflexivity.
      + reflexivity.
  Qed.

  Definition abs_kv (f : fdesc) (kv : pv * pv) : aval * aval :=
    (abs_scalar (fst kv), abs_elem sc (value_field sc f) (snd kv)).

  Lemma Inv_store_map o st urs i f p e k v :
    Inv sc nested c o st urs -> nth_error fs i = Some f -> card_of f = MapOf ->
    snd (getattr sc e 0) = Ok k -> snd (getattr sc e 1) = Ok v ->
    (forall ps d, nth_error st i = Some ps ->
       interp_field nested sc f ps = Some (AMap (map (abs_kv f) d)) ->
       interp_field nested sc f (ps ++ [p]) = Some (AMap (map (abs_kv f) (dict_set d sc k v)))) ->
    exists o', store sc o i f (PMsg e) = Ok o' /\ Inv sc nested c o' (add_payload i f p 0 fs st) urs.
  Proof.
    unfold fs. intros I Hf C Hk Hv Hi. pose proof (wf_field_get sc c i f WF Hf) as W.
    destruct (wf_mapof sc _ f W C) as (pk & pv' & kt & vt & Hh & Gf & IsMap & _).
    destruct o as [c0 raw sow unk cur].
    pose proof (i_cls _ _ _ _ _ _ I) as Ec. pose proof (i_raw _ _ _ _ _ _ I) as Lr. pose proof (i_st _ _ _ _ _ _ I) as Ls.
    cbn [ocls oraw] in *. subst c0.
    pose proof (nth_error_Some_lt _ _ _ Hf) as Li.
    destruct (nth_error_ex raw i ltac:(lia)) as (x & Hx). destruct (nth_error_ex st i ltac:(lia)) as (ps & Hps).
    destruct (i_fld _ _ _ _ _ _ I i f x ps Hf Hx Hps) as (Hint & Shx).
    unfold shape_ok in Shx. rewrite C in Shx. cbn [ocur] in Hint.
    assert (GS : group_selects cur f i <> Some false) by (unfold group_selects; rewrite Gf; discriminate).
    unfold store. rewrite (getattr_spec sc c raw sow unk cur i f x Hf Hx GS).
    assert (Dd : default_of sc f = PDict []) by (unfold default_of; now rewrite Hh).
    destruct (getattr sc e 0) as [e0 r0]. destruct (getattr sc e 1) as [e1 r1]. cbn [snd] in Hk, Hv. subst r0 r1.
    unfold abs_field in Hint. rewrite C in Hint.
    destruct Shx as [->|(d & ->)].
    - rewrite Dd, IsMap. eexists. split; [reflexivity|].
      pose proof (Inv_set_only _ st urs i f p (PDict (dict_set [] sc k v)) I Hf Gf) as U.
      cbn [ocls osow oraw ounk ocur] in U. apply U.
      + intros ps' Hps'. assert (ps' = ps) by congruence. subst ps'.
        unfold abs_field. rewrite C. apply (Hi ps [] Hps). exact Hint.
      + unfold shape_ok. rewrite C. right. eexists; reflexivity.
      + now rewrite set_nth_length.
      + intros j Hne. now apply set_nth_other.
    - rewrite IsMap. eexists. split; [reflexivity|].
      pose proof (Inv_set_only _ st urs i f p (PDict (dict_set d sc k v)) I Hf Gf) as U.
      cbn [ocls osow oraw ounk ocur] in U. apply U.
      + intros ps' Hps'. assert (ps' = ps) by congruence. subst ps'.
        unfold abs_field. rewrite C. apply (Hi ps d Hps). exact Hint.
      + unfold shape_ok. rewrite C. right. eexists; reflexivity.
      + reflexivity.
      + reflexivity.
  Qed.
End InvStore2.
