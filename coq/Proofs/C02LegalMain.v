(* C02, encoder side, assembly: every slot shape ([slot_all2]), the induction over nested values, and the
   message-level theorem: bytes(m) is a legal proto3 serialisation whose denotation under the specification is m. *)
From BP Require Import Base.Prelude Model.Types Model.Varint Model.Scalar Model.Float Model.Utf8.
From BP Require Import Model.Object Model.Eq Model.TimeCore Model.Encode Model.Decode Model.WellFormed Model.C01Def.
From BP Require Import Spec.Varint Spec.Wire.
From BP Require Import Proofs.BytesP Proofs.LenP Proofs.C02Abs Proofs.C02WireP Proofs.C02ListP Proofs.C02StepP Proofs.C02SimP Proofs.C02MapP.
From BP Require Import Proofs.C01Frame Proofs.C01Elem Proofs.C01Builtin Proofs.C01Unfold Proofs.C01Value Proofs.C01Slot Proofs.C01Slot2
     Proofs.C01Dict Proofs.C01Msg Proofs.C01Main Proofs.C01Stable.
From BP Require Import Proofs.C02LegalSpec Proofs.C02LegalLeaf Proofs.C02LegalWalk Proofs.C02LegalFlat Proofs.C02LegalElem
     Proofs.C02LegalSlot Proofs.C02LegalDict.
From BP Require Import gen.Tables.

Section Main2.
  Variable sc : schema.
  Hypothesis Hsc : c01_schema_ok sc = true.

  Lemma slot_all2 c cur i f x :
    wf_field sc (cngroups (get_class sc c)) f = true -> entry_hints_ok sc f = true ->
    slot_in_range sc f x = true -> subP (Good2 sc) x -> slot_legal sc cur i f x.
  Proof.
    intros Hwf Hent Hr HG.
    destruct (group_selects cur f i) as [[|]|] eqn:Hsel.
    2:{ apply (slot_unselected2 sc cur i f x Hsel). }
    all: destruct (is_singular x) eqn:Hx.
    1,3: (apply (slot_sing_all sc Hsc c cur i f Hwf x Hx); [rewrite Hsel; discriminate | exact Hr |];
          destruct x; try discriminate Hx; try exact I; exact HG).
    all: destruct x as [| |z|b|bits|s|b|us|us|l|d|o]; try discriminate Hx.
    - apply (slot_placeholder_selected2 sc Hsc c cur i f Hwf Hsel).
    - apply slot_none2.
    - assert (Hh : exists p, fhint f = HList p).
      { unfold slot_in_range in Hr. destruct (fhint f) as [p|p|p|pk pv'] eqn:Hh; eauto;
          rewrite ?elem_in_range_list in Hr; discriminate Hr. }
      destruct Hh as (p & Hh). apply (slot_list2 sc Hsc c cur i f Hwf p Hh l Hr HG).
    - assert (Hh : exists pk pv', fhint f = HDict pk pv').
      { unfold slot_in_range in Hr. destruct (fhint f) as [p|p|p|pk pv'] eqn:Hh; eauto;
          rewrite ?elem_in_range_dict in Hr; discriminate Hr. }
      destruct Hh as (pk & pv' & Hh). apply (slot_dict2 sc Hsc c cur i f Hwf Hent pk pv' Hh d Hr HG).
    - apply (slot_placeholder_unselected2 sc c cur i f Hwf Hsel).
    - apply slot_none2.
    - assert (Hh : exists p, fhint f = HList p).
      { unfold slot_in_range in Hr. destruct (fhint f) as [p|p|p|pk pv'] eqn:Hh; eauto;
          rewrite ?elem_in_range_list in Hr; discriminate Hr. }
      destruct Hh as (p & Hh). apply (slot_list2 sc Hsc c cur i f Hwf p Hh l Hr HG).
    - assert (Hh : exists pk pv', fhint f = HDict pk pv').
      { unfold slot_in_range in Hr. destruct (fhint f) as [p|p|p|pk pv'] eqn:Hh; eauto;
          rewrite ?elem_in_range_dict in Hr; discriminate Hr. }
      destruct Hh as (pk & pv' & Hh). apply (slot_dict2 sc Hsc c cur i f Hwf Hent pk pv' Hh d Hr HG).
  Qed.

  Lemma good_step2 c raw sow unk cur :
    value_ok sc (Obj c raw sow unk cur) ->
    Forall (subP (fun o => value_ok sc o -> Good2 sc o)) raw ->
    Good2 sc (Obj c raw sow unk cur).
  Proof.
    intros Hv HP. pose proof (value_ok_slots sc (Good2 sc) c raw sow unk cur Hv HP) as HG.
    apply (good2_of_slots sc c raw sow unk cur Hsc Hv).
    intros k x f Hx Hf.
    destruct Hv as (Hr & _). rewrite in_range_unfold in Hr. apply andb_true_iff in Hr as [_ Hsl].
    destruct (schema_class_facts sc c Hsc) as (Hwf & _ & Hent).
    apply (slot_all2 c cur k f x).
    - eapply forallb_nth_error; eauto.
    - eapply forallb_nth_error; eauto.
    - eapply slots_in_range_nth; eauto.
    - eapply Forall_nth_error; eauto.
  Qed.

  Theorem all_good2 : forall o, value_ok sc o -> Good2 sc o.
  Proof.
    apply (obj_nested_ind (fun o => value_ok sc o -> Good2 sc o)).
    intros c raw s u g HP Hv. apply good_step2; assumption.
  Qed.
End Main2.

(* the statement Properties/C02.v quotes *)
Theorem c02_encode_legal sc m :
  c01_schema_ok sc = true -> c01_value_ok sc m = true ->
  exists bs, enc_obj sc m = Ok bs /\
    (Zlength bs < 2 ^ 35 ->
     exists rs a, parse_wire bs = Some rs /\
       sem (S (length bs)) sc (ocls m) rs = Some a /\ a = abs_obj sc (norm_obj sc m) /\
       supported (S (length bs)) sc (ocls m) rs = true).
Proof.
  intros Hsc Hv. apply c01_value_ok_spec in Hv.
  destruct (all_good sc Hsc m Hv) as (bs & Eb & _).
  exists bs. split; [exact Eb|]. intros Hs.
  destruct (all_good2 sc Hsc m Hv bs Eb Hs) as (rs & W & H).
  destruct (H (S (length bs)) ltac:(lia)) as (Sm & Sp).
  exists rs, (abs_obj sc (norm_obj sc m)). split; [apply wire_ok_parse; exact W|]. auto.
Qed.

(* the relational form *)
Corollary c02_encode_legal_rel sc m bs :
  c01_schema_ok sc = true -> c01_value_ok sc m = true -> enc_obj sc m = Ok bs -> Zlength bs < 2 ^ 35 ->
  exists rs, wire_ok bs rs /\
    forall n, (length bs < n)%nat ->
      sem n sc (ocls m) rs = Some (abs_obj sc (norm_obj sc m)) /\ supported n sc (ocls m) rs = true.
Proof. intros Hsc Hv Eb Hs. apply c01_value_ok_spec in Hv. exact (all_good2 sc Hsc m Hv bs Eb Hs). Qed.
