(* C18: Message.load (Model/Decode.v) is the named loop of Model/C07Step.v for EVERY value of [size] (C07UnfoldP has
   size = None) -- checked by conversion, hence its own file. *)
From BP Require Import Base.Prelude Model.Types Model.Varint Model.Object Model.Eq Model.Decode Model.C07Step.
From BP Require Import gen.Tables.

Definition c18_size (size : option Z) (s : list byte) : result (option Z * list byte) :=
  match size with
  | Some n => if n =? SIZE_DELIMITED then do (n', _, s') <- load_varint s; Ok (Some n', s') else Ok (Some n, s)
  | None => Ok (None, s)
  end.

Lemma load_unfold_size fuel' sc c raw sow unk cur s size :
  load (S fuel') sc (Obj c raw sow unk cur) s size =
  (do (size', s') <- c18_size size s;
   match size' with
   | Some 0 => Ok (Obj c raw true unk cur, s')
   | _ => c7_loop fuel' sc size' (get_class sc c) (S (length s')) (Obj c raw true unk cur) s' 0
   end).
Proof. reflexivity. Qed.
