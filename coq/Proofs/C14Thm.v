(* C14, part 7: the property-level statements, assembled from the invariance of is_default / == / the encoder /
   the presence report under [mat] and from "every observer, copy and deepcopy is an instance of [mat]". *)
From BP Require Import Base.Prelude Model.Types Model.Float Model.Object Model.Eq Model.Encode Model.Decode Model.History Model.C14Ops.
From BP Require Import Model.WellFormed Proofs.BytesP Proofs.C14Ind Proofs.C14Mat Proofs.C14Eq Proofs.C14Enc Proofs.C14Obs Proofs.C14Pres Proofs.C14Refl.
From Coq Require Import Lia.

(* bool(m) *)
Definition bool_go (sc : schema) :=
  fix go (raw : list pv) (fs : list fdesc) {struct raw} : bool :=
    match raw, fs with
    | x :: raw', f :: fs' => (match x with PPlaceholder => false | _ => negb (is_default sc f x) end) || go raw' fs'
    | _, _ => false
    end.

Lemma obj_bool_eq sc c raw sow unk cur : obj_bool sc (Obj c raw sow unk cur) = bool_go sc raw (cfields (get_class sc c)).
Proof. reflexivity. Qed.

Lemma bool_go_frel sc fs raw raw' :
  frel (fun f x x' => isdef' sc f x' = isdef' sc f x) fs raw raw' -> bool_go sc raw' fs = bool_go sc raw fs.
Proof.
  induction 1 as [fs|f fs x x' r r' Hx Hr IH|x r r' Hr IH]; cbn [bool_go]; try reflexivity.
  rewrite IH. f_equal. unfold isdef' in Hx. destruct x, x'; try reflexivity; try (rewrite Hx; reflexivity);
    try (rewrite <- Hx; reflexivity).
Qed.

Section Wf.
  Variable sc : schema.
  Hypothesis Hwf : wf_schema sc = true.

  Let Hopt : schema_opt_ok sc = true := wf_schema_opt_ok sc Hwf.

  (* ---- the key lemma, field level ---- *)
  Lemma key_lemma f v v' :
    mat sc f v v' = true -> v <> PPlaceholder ->
    (forall g, is_default sc g v' = is_default sc g v) /\
    (forall y, pv_eq sc v' y = pv_eq sc v y /\ pv_eq sc y v' = pv_eq sc y v) /\
    (forall sel, skipped sc f sel v' = skipped sc f sel v) /\
    (v <> PNone -> forall sel, emit_field (enc_obj sc) sc f sel v' = emit_field (enc_obj sc) sc f sel v).
  Proof.
    intros Hm Hn. split; [|split; [|split]].
    - intros g. apply (mat_is_default_any sc Hopt f v v' g Hm Hn).
    - intros y. apply (proj1 (mat_pv_eq sc Hopt v' f v Hm) Hn y).
    - intros sel. apply (mat_skipped sc Hopt f sel v v' Hm Hn).
    - intros Hn' sel. apply (mat_emit_field sc Hopt f sel v v' Hm Hn Hn').
  Qed.

  (* ... and for the PLACEHOLDER itself: the stored default is the field default as far as ==, the skip test and
     the encoder can tell *)
  Lemma key_lemma_placeholder f v' :
    mat sc f PPlaceholder v' = true -> v' <> PPlaceholder ->
    is_default sc f v' = true /\
    (forall y, y <> PPlaceholder -> (pv_eq sc v' y || (pv_is_nan v' && pv_is_nan y)) = is_default sc f y /\
                                    (pv_eq sc y v' || (pv_is_nan y && pv_is_nan v')) = is_default sc f y) /\
    (forall sel, femit sc f sel v' = femit sc f sel PPlaceholder).
  Proof.
    intros Hm Hn. split; [|split].
    - pose proof (mat_isdef' sc Hopt f _ _ Hm) as H. destruct v'; try exact H. contradiction Hn; reflexivity.
    - intros y Hy. split.
      + destruct (proj2 (mat_pv_eq sc Hopt v' f _ Hm) y) as [H _]. rewrite (fcmp_np_l sc f v' y Hn) in H.
        destruct y; try exact H. contradiction Hy; reflexivity.
      + destruct (proj2 (mat_pv_eq sc Hopt v' f _ Hm) y) as [_ H]. rewrite (fcmp_np_r sc f v' y Hn) in H.
        destruct y; try exact H. contradiction Hy; reflexivity.
    - apply (proj2 (mat_enc sc Hopt v' f _ Hm)).
  Qed.

  (* ---- everything a materialised state cannot be told apart by ---- *)
  Lemma mat_obj_bool o o' : mat_obj sc o o' = true -> obj_bool sc o' = obj_bool sc o.
  Proof.
    intros H. destruct (mat_obj_inv sc o o' H) as (c & raw & raw' & sow & unk & cur & -> & -> & Hg).
    rewrite !obj_bool_eq. apply bool_go_frel.
    assert (Hf : Forall (fun x' => forall f x, mat sc f x x' = true -> isdef' sc f x' = isdef' sc f x) raw').
    { apply Forall_forall. intros x' _ f x Hm. apply (mat_isdef' sc Hopt f x x' Hm). }
    eapply frel_impl; [|apply (mat_go_frel sc _ raw' Hf raw _ Hg)]. intros f x x' [_ Hx]. exact Hx.
  Qed.

  Definition indistinguishable (o o' : obj) : Prop :=
    enc_obj sc o' = enc_obj sc o /\
    (forall x, obj_eq sc o' x = obj_eq sc o x /\ obj_eq sc x o' = obj_eq sc x o) /\
    obj_bool sc o' = obj_bool sc o /\
    (forall p, presence_at sc o' p = presence_at sc o p) /\
    ounk o' = ounk o /\ ocls o' = ocls o.

  Theorem mat_indistinguishable o o' : mat_obj sc o o' = true -> indistinguishable o o'.
  Proof.
    intros H. unfold indistinguishable. repeat split.
    - apply (mat_obj_enc sc Hopt o o' H).
    - apply (mat_obj_eq sc Hopt o o' H x).
    - apply (mat_obj_eq sc Hopt o o' H x).
    - apply (mat_obj_bool o o' H).
    - apply (mat_presence sc o o' H).
    - destruct (mat_obj_inv sc o o' H) as (c & raw & raw' & sow & unk & cur & -> & -> & _). reflexivity.
    - destruct (mat_obj_inv sc o o' H) as (c & raw & raw' & sow & unk & cur & -> & -> & _). reflexivity.
  Qed.

  (* ---- observers ---- *)
  Theorem observer_enc o b : enc_obj sc (observe sc o b) = enc_obj sc o.
  Proof. apply (mat_obj_enc sc Hopt). apply observe_mat. Qed.

  Theorem observer_eq o b x :
    obj_eq sc (observe sc o b) x = obj_eq sc o x /\ obj_eq sc x (observe sc o b) = obj_eq sc x o.
  Proof. apply (mat_obj_eq sc Hopt). apply observe_mat. Qed.

  Theorem observer_presence o b p : presence_at sc (observe sc o b) p = presence_at sc o p.
  Proof. apply mat_presence. apply observe_mat. Qed.

  Theorem observers_pure o bs : indistinguishable o (observe_all sc o bs).
  Proof. apply mat_indistinguishable. apply observe_all_mat. Qed.

  Theorem observer_is_set o b i :
    nth i (oraw o) PPlaceholder <> PPlaceholder -> is_set sc (observe sc o b) i = is_set sc o i.
  Proof. intros H. apply mat_is_set; [apply observe_mat | exact H]. Qed.

  (* ---- copy / deepcopy ---- *)
  Theorem copy_faithful o :
    shaped_top sc o = true ->
    indistinguishable o (copy sc o) /\ osow (copy sc o) = osow o /\ ocur (copy sc o) = ocur o.
  Proof.
    intros Hs. split; [apply mat_indistinguishable; apply (copy_mat sc Hopt o Hs)|].
    destruct o as [c raw sow unk cur]. split; reflexivity.
  Qed.

  Theorem deepcopy_faithful o :
    shaped_obj sc o = true ->
    indistinguishable o (deepcopy sc o) /\ osow (deepcopy sc o) = osow o /\ ocur (deepcopy sc o) = ocur o.
  Proof.
    intros Hs. split; [apply mat_indistinguishable; apply (deepcopy_mat sc Hopt o Hs)|].
    destruct o as [c raw sow unk cur]. split; reflexivity.
  Qed.

  Theorem copy_equal o :
    shaped_top sc o = true -> eq_refl_ok sc (PMsg o) = true ->
    obj_eq sc (copy sc o) o = true /\ obj_eq sc o (copy sc o) = true.
  Proof.
    intros Hs Hr. destruct (copy_faithful o Hs) as [(_ & He & _) _]. destruct (He o) as [E1 E2].
    rewrite E1, E2. split; apply obj_eq_refl; exact Hr.
  Qed.

  Theorem deepcopy_equal o :
    shaped_obj sc o = true -> eq_refl_ok sc (PMsg o) = true ->
    obj_eq sc (deepcopy sc o) o = true /\ obj_eq sc o (deepcopy sc o) = true.
  Proof.
    intros Hs Hr. destruct (deepcopy_faithful o Hs) as [(_ & He & _) _]. destruct (He o) as [E1 E2].
    rewrite E1, E2. split; apply obj_eq_refl; exact Hr.
  Qed.

  (* copies of observed objects: observers and copies in any order *)
  Theorem copy_after_observers o bs :
    shaped_top sc (observe_all sc o bs) = true -> indistinguishable o (copy sc (observe_all sc o bs)).
  Proof.
    intros Hs. apply mat_indistinguishable. eapply mat_obj_trans; [apply observe_all_mat|]. apply (copy_mat sc Hopt _ Hs).
  Qed.

  Theorem deepcopy_after_observers o bs :
    shaped_obj sc (observe_all sc o bs) = true -> indistinguishable o (deepcopy sc (observe_all sc o bs)).
  Proof.
    intros Hs. apply mat_indistinguishable. eapply mat_obj_trans; [apply observe_all_mat|]. apply (deepcopy_mat sc Hopt _ Hs).
  Qed.

  (* ---- pickle ---- *)
  Theorem pickle_after_observers o bs : pickle_rt sc (observe_all sc o bs) = pickle_rt sc o.
  Proof.
    destruct (observers_pure o bs) as (He & _ & _ & _ & _ & Hc). unfold pickle_rt. rewrite He, Hc. reflexivity.
  Qed.

  Theorem pickle_of_mat o o' : mat_obj sc o o' = true -> pickle_rt sc o' = pickle_rt sc o.
  Proof.
    intros H. destruct (mat_indistinguishable o o' H) as (He & _ & _ & _ & _ & Hc). unfold pickle_rt. rewrite He, Hc. reflexivity.
  Qed.
End Wf.

(* pickle is faithful wherever the binary round trip (C01) is: the round trip is taken as a premise *)
Section Pickle.
  Variable sc : schema.
  Variable ok : obj -> bool.
  Hypothesis roundtrip : forall o, ok o = true ->
    exists bs o', enc_obj sc o = Ok bs /\ parse sc (ocls o) bs = Ok o' /\
                  obj_eq sc o' o = true /\ obj_eq sc o o' = true /\ enc_obj sc o' = Ok bs.

  Theorem pickle_faithful o :
    ok o = true ->
    exists o', pickle_rt sc o = Ok o' /\ obj_eq sc o' o = true /\ obj_eq sc o o' = true /\ enc_obj sc o' = enc_obj sc o.
  Proof.
    intros H. destruct (roundtrip o H) as (bs & o' & He & Hp & E1 & E2 & He').
    exists o'. unfold pickle_rt. rewrite He. cbn [bind]. rewrite Hp, He'. repeat split; assumption.
  Qed.
End Pickle.
