(* C12 extension — after close every maximal run ends with no receiver blocked (termination + no_blocked), and the
   concrete schedules: refutations for the stability of done(), non-vacuity of the extension theorems. *)
From BP Require Import Base.Prelude Model.Channel Model.C12X.
From BP Require Import Proofs.ChannelP1 Proofs.ChannelP2 Proofs.ChannelP3 Proofs.ChannelP4 Proofs.ChannelP5 Proofs.ChannelP6
                       Proofs.ChannelP7 Proofs.ChannelP8.
From BP Require Import Proofs.ChannelX1 Proofs.ChannelX2 Proofs.ChannelX3 Proofs.ChannelX4.
From Coq Require Import Arith Lia.
Local Open Scope nat_scope.

Lemma exec_closed : forall sch s s', exec s sch = Some s' -> closed s = true -> closed s' = true.
Proof.
  induction sch as [|t r IH]; intros s s' H C; cbn [exec] in H.
  - injection H as <-. exact C.
  - destruct (step s t) as [s1|] eqn:E; [|discriminate]. eapply IH; eauto. eapply closed_stable; eauto.
Qed.

(* once the channel is closed, every run that cannot be extended is at most [bound c] segments long and ends with every
   task finished or (bounded buffer) blocked in put: every blocked or future receive / iteration has terminated.
   Cancellation / timeouts of user tasks included, pinned or repaired code. *)
Theorem receivers_terminate : forall c s sch s', Reach c s -> cfg_cancel_ok c = true -> closed s = true ->
  exec s sch = Some s' -> stuck s' ->
  length sch <= bound c /\ quiescent s' = true /\
  forall T, In T (tasks s') -> (exists o, st T = Fin o) \/ st T = BlkPut.
Proof.
  intros c s sch s' R OK CL H S. destruct (maximal_run_quiescent c s sch s' R H S) as (Q & L & R').
  split; [exact L|]. split; [exact Q|]. apply (no_blocked_general_tasks c s' R' OK); auto. eapply exec_closed; eauto.
Qed.

Lemma nocancel_cancel_ok : forall c, cfg_nocancel c = true -> cfg_cancel_ok c = true.
Proof.
  intros c H. unfold cfg_nocancel, cfg_cancel_ok in *. rewrite forallb_forall in *. intros pb HI. specialize (H pb HI).
  rewrite forallb_forall in *. intros o Ho. specialize (H o Ho). destruct o; cbn in *; auto; discriminate.
Qed.

(* ... and without cancellation, on the repaired code, each of them ended by returning (an item, None, end of the loop /
   iteration) or with ChannelDone / ChannelClosed *)
Theorem receivers_terminate_nocancel : forall c s sch s', Reach c s -> cfg_nocancel c = true -> c_pinned c = false ->
  closed s = true -> exec s sch = Some s' -> stuck s' ->
  length sch <= bound c /\
  forall t T, nth_error (tasks s') t = Some T ->
    (exists o, st T = Fin o /\ (o = ORet \/ o = OClosed \/ o = ODone)) \/ st T = BlkPut.
Proof.
  intros c s sch s' R NC P CL H S.
  destruct (receivers_terminate c s sch s' R (nocancel_cancel_ok c NC) CL H S) as (L & Q & K). split; [exact L|].
  intros t T HT. destruct (K T (nth_error_In _ _ HT)) as [[o Ho]|HB]; [left|right; exact HB].
  exists o. split; [exact Ho|]. apply (outcomes_nocancel c s' t o); auto; [eapply exec_reach; eauto|].
  unfold outcome_of. rewrite HT, Ho. reflexivity.
Qed.

(* ---------------------------------------------------------------- runs given as lists of atomic segments *)
Definition xfinal (c : config) (sch : list nat) : state :=
  match exec (init c) sch with Some s => s | None => init c end.

Lemma xfinal_reach : forall c sch, Reach c (xfinal c sch).
Proof.
  intros c sch. unfold xfinal. destruct (exec (init c) sch) as [s|] eqn:E; [|constructor].
  eapply exec_reach; [constructor|exact E].
Qed.

(* ---------------------------------------------------------------- done() is not monotone *)
(* receiver 0 blocks in get(); task 1 sends (the item is handed to receiver 0: WokeGet) and closes: qsize 1 <= W 1, done();
   task 2 cancels receiver 0 before it runs; receiver 0 resumes with CancelledError, W drops to 0 and the item is still
   queued: done() is false again *)
Definition cfg_dc : config := mkC 0 false [([URecv], false); ([USend; UClose], false); ([UCancel 0], false)].

Theorem done_cancel_refuted : exists c s t T s',
  c_pinned c = false /\ Reach c s /\ done s = true /\ senders_idle s = true /\ sentinels_fit s = true /\
  nth_error (tasks s) t = Some T /\ st T = WokeGet /\ mc T = true /\
  step s t = Some s' /\ outcome_of s' t = Some OCancelled /\ q s' = q s /\ W s' = W s - 1 /\ done s' = false.
Proof.
  exists cfg_dc, (final cfg_dc [0; 1; 2]), 0. eexists. eexists.
  split; [reflexivity|]. split; [apply final_reach; vm_compute; reflexivity|].
  repeat (split; [vm_compute; reflexivity|]). vm_compute; reflexivity.
Qed.

(* the K6 schedule shows the other face: the receiver was cancelled while still blocked (CancGet) *)
Theorem done_cancel_blocked_refuted : exists s t T s',
  Reach cfg_k6 s /\ done s = true /\ nth_error (tasks s) t = Some T /\ st T = CancGet /\
  step s t = Some s' /\ q s' = q s /\ done s' = false.
Proof.
  exists (final cfg_k6 [1; 2; 0]), 1. eexists. eexists.
  split; [apply final_reach; vm_compute; reflexivity|].
  repeat (split; [vm_compute; reflexivity|]). vm_compute; reflexivity.
Qed.

(* no cancellation, bounded buffer (real ready-queue schedule): sender 0 puts its first item and blocks in the second
   put (full) — past its closed-check; task 1 closes; receiver 2 takes the item and returns: closed, qsize 0 <= W 0, done();
   the woken sender completes its put: qsize 1 > W 0, done() is false again *)
Definition cfg_db : config := mkC 1 false [([USend; USend], false); ([UClose], false); ([URecv], false)].

Theorem done_nocancel_refuted : exists c s t s',
  cfg_nocancel c = true /\ c_pinned c = false /\ Reach c s /\ done s = true /\
  sentinels_fit s = true /\ no_cancel_pending s = true /\ senders_idle s = false /\
  step s t = Some s' /\ done s' = false /\ q s' = [Msg 0 1].
Proof.
  exists cfg_db, (final cfg_db [0; 1; 2]), 0. eexists.
  split; [reflexivity|]. split; [reflexivity|]. split; [apply final_reach; vm_compute; reflexivity|].
  repeat (split; [vm_compute; reflexivity|]). vm_compute; reflexivity.
Qed.

(* no cancellation, no sender at work any more, and still not monotone: _flush_queue committed to one sentinel for the
   blocked receiver 0, a send_from past its closed-check then served that receiver; closed, qsize 0 <= W 0, done();
   the surplus sentinel goes in: qsize 1 > W 0.  (Schedule of atomic segments: send_from suspended between its
   closed-check and its put, as with an async source.) *)
Definition cfg_dsn : config := mkC 0 false [([URecv], false); ([USendFrom 1 false], false); ([UClose], false)].

Theorem done_sentinel_refuted : exists c s t s',
  cfg_nocancel c = true /\ c_pinned c = false /\ Reach c s /\ done s = true /\
  senders_idle s = true /\ no_cancel_pending s = true /\ sentinels_fit s = false /\
  step s t = Some s' /\ done s' = false /\ q s' = [Flush].
Proof.
  exists cfg_dsn, (xfinal cfg_dsn [0; 1; 2; 2; 3; 1; 0]), 3. eexists.
  split; [reflexivity|]. split; [reflexivity|]. split; [apply xfinal_reach|].
  repeat (split; [vm_compute; reflexivity|]). vm_compute; reflexivity.
Qed.

(* ---------------------------------------------------------------- non-vacuity *)
(* capacity: buffer_limit 1, two blocked receivers, close(): _flush_queue puts one sentinel and blocks in the second put *)
Definition cfg_fb : config := mkC 1 false [([URecv], false); ([URecv], false); ([UClose], false)].

Example ex_capacity_flush_blocks :
  let s := final cfg_fb [0; 1; 2; 3] in
  Reach cfg_fb s /\ c_maxsize cfg_fb = 1 /\ q s = [Flush] /\ full s = true /\ W s = 2 /\ putters s = [3] /\
  (exists T, nth_error (tasks s) 3 = Some T /\ st T = BlkPut /\ prog T = [IPutFlush]) /\
  quiescent (final cfg_fb [0; 1; 2; 3; 0; 3; 1]) = true /\
  forallb (fun T => is_fin (st T)) (tasks (final cfg_fb [0; 1; 2; 3; 0; 3; 1])) = true.
Proof.
  cbv zeta. split; [apply final_reach; vm_compute; reflexivity|]. vm_compute. repeat split; eauto.
Qed.

(* close() with two blocked receivers: the hypotheses of close_never_fails *)
Example ex_close_hyp :
  let s := final cfg_fb [0; 1] in
  sumf (is_st BlkGet) (tasks s) = 2 /\
  exists T, nth_error (tasks s) 2 = Some T /\ st T = Ready /\ mc T = false /\ prog T = [IClose].
Proof. cbv zeta. vm_compute. split; eauto. Qed.

Example ex_capacity_attained :
  let s := final cfg_obs [1; 0; 0; 1; 2; 1; 3; 2; 0] in
  Reach cfg_obs s /\ within_capacity s = true /\ length (q s) = c_maxsize cfg_obs.
Proof. cbv zeta. split; [apply final_reach; vm_compute; reflexivity|]. vm_compute. auto. Qed.

(* termination *)
Example ex_bounds : bound cfg_ex = 51 /\ bound cfg_k6 = 23 /\ bound (cfg_f10 false) = 9 /\ bound cfg_obs = 30.
Proof. vm_compute. auto. Qed.

Example ex_drive :
  quiescent (drive pick_first (bound cfg_ex) (init cfg_ex)) = true /\
  quiescent (drive pick_first (bound cfg_k6) (init cfg_k6)) = true /\
  quiescent (init cfg_ex) = false /\ measure (final cfg_ex sch_ex) = 0.
Proof. vm_compute. auto. Qed.

(* done(): a settled state that can still move (the woken receiver takes the item, _flush_queue runs) *)
Definition cfg_st : config := mkC 0 false [([URecvLoop], false); ([USend; UClose], false)].

Example ex_done_settled :
  let s := final cfg_st [0; 1] in
  Reach cfg_st s /\ cfg_nocancel cfg_st = true /\ cfg_atomic_send cfg_st = true /\ done_settled s = true /\ q s = [Msg 1 0] /\
  (exists s', step s 0 = Some s' /\ done s' = true /\ q s' = []) /\ (exists s', step s 2 = Some s' /\ done s' = true).
Proof.
  cbv zeta. split; [apply final_reach; vm_compute; reflexivity|]. vm_compute. repeat split; eauto.
Qed.

(* what each receiver of cfg_ex saw *)
Example ex_receiver_logs :
  let s := final cfg_ex sch_ex in
  received s = [Msg 1 0; Msg 1 1; Msg 0 0; Msg 0 1; Msg 0 2] /\
  received_by s 3 = [Msg 0 0; Msg 0 2] /\ received_by s 4 = [Msg 0 1] /\ received_by s 5 = [Msg 1 0; Msg 1 1].
Proof. vm_compute. auto. Qed.

Example ex_outcomes :
  map (outcome_of (final cfg_ex sch_ex)) [0; 1; 2; 3; 4; 5; 6] = repeat (Some ORet) 7 /\
  outcome_of (final (mkC 0 false [([UClose], false); ([URecv], false)]) [0; 1]) 1 = Some ODone.
Proof. vm_compute. auto. Qed.
