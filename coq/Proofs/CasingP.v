(* Lemmas about Model/Casing.v (C19). *)
From BP Require Import Base.Prelude Model.Casing Proofs.BytesP.
From BP Require gen.Tables.

Lemma regexes_ok : regexes_as_modelled = true.
Proof. vm_compute. reflexivity. Qed.
