(* Lemmas about Model/Casing.v (C19), part 1: characters, the scanner as a transducer,
   shape of the words, snake_case / sanitize_name / safe_snake_case. *)
From BP Require Import Base.Prelude Model.Casing Proofs.BytesP.
From BP Require gen.Tables.

Lemma regexes_ok : regexes_as_modelled = true.
Proof. vm_compute. reflexivity. Qed.

Lemma code_fast_eq s h : code_fast s h = code s h.
Proof. reflexivity. Qed.

(* ---------------------------------------------------------------- characters *)
Definition is_upper_b (b : byte) : bool := match classify b with Upper => true | _ => false end.

Lemma byte_eqb_eq a b : byte_eqb a b = true <-> a = b.
Proof.
  unfold byte_eqb. rewrite N.eqb_eq. split; [|intros ->; reflexivity].
  intros H. assert (Some a = Some b) as E by (rewrite <- (Byte.of_to_N a), <- (Byte.of_to_N b), H; reflexivity).
  injection E; auto.
Qed.

Lemma str_eqb_eq a : forall b, str_eqb a b = true <-> a = b.
Proof.
  induction a as [|x a IH]; intros [|y b]; cbn [str_eqb]; try (split; congruence).
  rewrite andb_true_iff, byte_eqb_eq, IH. split; [intros [-> ->]; reflexivity|intros H; injection H; auto].
Qed.

Lemma str_eqb_refl a : str_eqb a a = true.
Proof. apply str_eqb_eq. reflexivity. Qed.

Lemma is_us_eq b : is_us b = true <-> b = us.
Proof. split; [destruct b; cbn; intros H; try discriminate H; reflexivity | intros ->; reflexivity]. Qed.

Lemma classify_us : classify us = Sym.
Proof. reflexivity. Qed.

(* to_lower / to_upper and the classes *)
Lemma to_lower_class b :
  match classify b with
  | Upper => classify (to_lower b) = Lower
  | _ => to_lower b = b
  end.
Proof. destruct b; reflexivity. Qed.

Lemma to_upper_class b :
  match classify b with
  | Lower => classify (to_upper b) = Upper
  | _ => to_upper b = b
  end.
Proof. destruct b; reflexivity. Qed.

Lemma to_lower_idem b : to_lower (to_lower b) = to_lower b.
Proof. destruct b; reflexivity. Qed.

Lemma to_lower_upper b : to_lower (to_upper b) = to_lower b.
Proof. destruct b; reflexivity. Qed.

Lemma to_upper_lower b : to_upper (to_lower b) = to_upper b.
Proof. destruct b; reflexivity. Qed.

Lemma to_upper_idem b : to_upper (to_upper b) = to_upper b.
Proof. destruct b; reflexivity. Qed.

Lemma lower_app a b : lower (a ++ b) = lower a ++ lower b.
Proof. apply map_app. Qed.

Lemma lower_idem w : lower (lower w) = lower w.
Proof. unfold lower. rewrite map_map. apply map_ext. intros; apply to_lower_idem. Qed.

Lemma lower_capitalize w : lower (capitalize w) = lower w.
Proof.
  destruct w as [|c r]; [reflexivity|]. cbn [capitalize lower map].
  rewrite to_lower_upper. fold (lower r). fold (lower (lower r)). rewrite lower_idem. reflexivity.
Qed.

Lemma capitalize_lower w : capitalize (lower w) = capitalize w.
Proof.
  destruct w as [|c r]; [reflexivity|]. cbn [capitalize lower map].
  rewrite to_upper_lower. fold (lower r). fold (lower (lower r)). rewrite lower_idem. reflexivity.
Qed.

Definition lows (l : list byte) : Prop := forallb is_lower_b l = true.
Definition digs (l : list byte) : Prop := forallb is_digit_b l = true.

Lemma lows_app a b : lows (a ++ b) <-> lows a /\ lows b.
Proof. unfold lows. rewrite forallb_app, andb_true_iff. reflexivity. Qed.
Lemma digs_app a b : digs (a ++ b) <-> digs a /\ digs b.
Proof. unfold digs. rewrite forallb_app, andb_true_iff. reflexivity. Qed.

Lemma lower_fix_char b : is_lower_b b = true \/ is_digit_b b = true -> to_lower b = b.
Proof.
  unfold is_lower_b, is_digit_b. pose proof (to_lower_class b) as H.
  destruct (classify b); intros [E|E]; try discriminate E; exact H.
Qed.

Lemma lower_fix_lows l : lows l -> lower l = l.
Proof.
  unfold lows. induction l as [|c r IH]; [reflexivity|]. cbn [forallb lower map].
  rewrite andb_true_iff. intros [Hc Hr]. rewrite lower_fix_char by auto. fold (lower r). rewrite IH by exact Hr. reflexivity.
Qed.
Lemma lower_fix_digs l : digs l -> lower l = l.
Proof.
  unfold digs. induction l as [|c r IH]; [reflexivity|]. cbn [forallb lower map].
  rewrite andb_true_iff. intros [Hc Hr]. rewrite lower_fix_char by auto. fold (lower r). rewrite IH by exact Hr. reflexivity.
Qed.

(* ---------------------------------------------------------------- the scanner as a transducer *)
Fixpoint run (s : st) (l : list byte) : list (list byte) * st :=
  match l with
  | [] => ([], s)
  | c :: r => let '(o, s') := step s c in let '(o', s'') := run s' r in (o ++ o', s'')
  end.

Lemma scan_run s : forall st0, scan st0 s = fst (run st0 s) ++ flush (snd (run st0 s)).
Proof.
  induction s as [|c r IH]; intros st0; [reflexivity|].
  cbn [scan run]. destruct (step st0 c) as [o s']. rewrite IH.
  destruct (run s' r) as [o' s'']. cbn [fst snd]. rewrite app_assoc. reflexivity.
Qed.

Lemma run_app a : forall st0 b,
  run st0 (a ++ b) = (fst (run st0 a) ++ fst (run (snd (run st0 a)) b), snd (run (snd (run st0 a)) b)).
Proof.
  induction a as [|c r IH]; intros st0 b.
  - cbn [run app fst snd]. destruct (run st0 b); reflexivity.
  - cbn [run app]. destruct (step st0 c) as [o s']. rewrite IH.
    destruct (run s' r) as [o' s'']. cbn [fst snd]. rewrite app_assoc. reflexivity.
Qed.

Lemma scan_app a st0 b : scan st0 (a ++ b) = fst (run st0 a) ++ scan (snd (run st0 a)) b.
Proof.
  rewrite (scan_run (a ++ b)), run_app. cbn [fst snd].
  rewrite (scan_run b). rewrite app_assoc. reflexivity.
Qed.

Lemma scan_us_end st0 : scan st0 [us] = flush st0.
Proof. destruct st0; cbn; rewrite ?app_nil_r; reflexivity. Qed.

Lemma scan_snoc_us st0 a : scan st0 (a ++ [us]) = scan st0 a.
Proof. rewrite scan_app, scan_us_end, (scan_run a). reflexivity. Qed.

Lemma words_us_cons a : words (us :: a) = words a.
Proof. reflexivity. Qed.

Lemma words_snoc_us a : words (a ++ [us]) = words a.
Proof. apply scan_snoc_us. Qed.

(* a state holding exactly the (complete so far) word w, which an upper-case letter or a symbol ends *)
Definition pend (s : st) (w : list byte) : Prop := s = SL w \/ s = SD w.

Lemma pend_flush s w : pend s w -> flush s = [w].
Proof. intros [->| ->]; reflexivity. Qed.

Lemma run_SL_lows l : forall w, lows l -> run (SL w) l = ([], SL (w ++ l)).
Proof.
  induction l as [|c r IH]; intros w H.
  - cbn. rewrite app_nil_r. reflexivity.
  - unfold lows in H. cbn [forallb] in H. apply andb_true_iff in H. destruct H as [Hc Hr].
    cbn [run step]. unfold is_lower_b in Hc. destruct (classify c); try discriminate Hc.
    rewrite IH by exact Hr. rewrite <- app_assoc. reflexivity.
Qed.

Lemma run_SD_digs d : forall w, digs d -> run (SD w) d = ([], SD (w ++ d)).
Proof.
  induction d as [|c r IH]; intros w H.
  - cbn. rewrite app_nil_r. reflexivity.
  - unfold digs in H. cbn [forallb] in H. apply andb_true_iff in H. destruct H as [Hc Hr].
    cbn [run step]. unfold is_digit_b in Hc. destruct (classify c); try discriminate Hc.
    rewrite IH by exact Hr. rewrite <- app_assoc. reflexivity.
Qed.

(* from inside the lower-case part: lower-case letters, then digits *)
Lemma run_SL_lows_digs l d w : lows l -> digs d ->
  exists s', run (SL w) (l ++ d) = ([], s') /\ pend s' (w ++ l ++ d).
Proof.
  intros Hl Hd. rewrite run_app, run_SL_lows by exact Hl. cbn [fst snd app].
  destruct d as [|c r].
  - exists (SL (w ++ l)). cbn [run fst snd]. rewrite app_nil_r. split; [reflexivity|left; reflexivity].
  - unfold digs in Hd. cbn [forallb] in Hd. apply andb_true_iff in Hd. destruct Hd as [Hc Hr].
    cbn [run step]. unfold is_digit_b in Hc. destruct (classify c) eqn:E; try discriminate Hc.
    rewrite run_SD_digs by exact Hr. cbn [fst snd].
    exists (SD ((w ++ l) ++ [c] ++ r)). split; [rewrite <- !app_assoc; reflexivity|right].
    rewrite <- !app_assoc. reflexivity.
Qed.

(* a lower-cased word: lower-case letters then digits, not empty *)
Definition lword (w : list byte) : Prop :=
  exists l d, w = l ++ d /\ lows l /\ digs d /\ w <> [].

Lemma run_S0_lword w : lword w -> exists s', run S0 w = ([], s') /\ pend s' w.
Proof.
  intros (l & d & -> & Hl & Hd & Hne).
  destruct l as [|c l'].
  - destruct d as [|c d']; [contradiction Hne; reflexivity|].
    pose proof Hd as Hd0. unfold digs in Hd. cbn [forallb] in Hd. apply andb_true_iff in Hd. destruct Hd as [Hc Hr].
    cbn [app run step]. unfold is_digit_b in Hc. destruct (classify c) eqn:E; try discriminate Hc.
    rewrite run_SD_digs by exact Hr. exists (SD ([c] ++ d')). split; [reflexivity|right; reflexivity].
  - pose proof Hl as Hl0. unfold lows in Hl. cbn [forallb] in Hl. apply andb_true_iff in Hl. destruct Hl as [Hc Hr].
    cbn [app run step]. unfold is_lower_b in Hc. destruct (classify c) eqn:E; try discriminate Hc.
    destruct (run_SL_lows_digs l' d [c] Hr Hd) as (s' & R & P). rewrite R. exists s'. split; [reflexivity|exact P].
Qed.

Lemma step_pend_us s w : pend s w -> step s us = ([w], S0).
Proof. intros [->| ->]; reflexivity. Qed.

(* scanning "_".join of lower-cased words gives the words back *)
Lemma scan_join ws : Forall lword ws -> scan S0 (join [us] ws) = ws.
Proof.
  induction ws as [|w r IH]; intros H; [reflexivity|].
  inversion H as [|? ? Hw Hr]; subst.
  destruct (run_S0_lword w Hw) as (s' & R & P).
  destruct r as [|w' r'].
  - cbn [join]. rewrite scan_run, R. cbn [fst snd app]. apply pend_flush. exact P.
  - change (join [us] (w :: w' :: r')) with (w ++ [us] ++ join [us] (w' :: r')).
    rewrite scan_app, R. cbn [fst snd app scan]. rewrite (step_pend_us s' w P).
    cbn [app]. rewrite IH by exact Hr. reflexivity.
Qed.

(* ---------------------------------------------------------------- shape of the words the scanner emits *)
Definition uppers (l : list byte) : Prop := forallb is_upper_b l = true.

Lemma lows_lower_uppers l : uppers l -> lows (lower l).
Proof.
  unfold uppers, lows. induction l as [|c r IH]; [reflexivity|]. cbn [forallb lower map].
  rewrite !andb_true_iff. intros [Hc Hr]. split; [|apply IH; exact Hr].
  unfold is_upper_b in Hc. unfold is_lower_b. pose proof (to_lower_class c) as H.
  destruct (classify c); try discriminate Hc. rewrite H. reflexivity.
Qed.

Lemma lword_lows l : lows l -> l <> [] -> lword l.
Proof. intros H N. exists l, []. rewrite app_nil_r. repeat split; auto. Qed.

Definition stinv (s : st) : Prop :=
  match s with
  | S0 => True
  | SU pre u => uppers pre /\ is_upper_b u = true
  | SL w => w <> [] /\ lows (lower w)
  | SD w => lword (lower w)
  end.

Lemma app_ne_nil_r {A} (a : list A) x : a ++ [x] <> [].
Proof. destruct a; discriminate. Qed.

Lemma lword_snoc_digit w c : lword w \/ w = [] -> is_digit_b c = true -> lword (w ++ [c]).
Proof.
  intros [(l & d & -> & Hl & Hd & _)| ->] Hc.
  - exists l, (d ++ [c]). rewrite app_assoc. repeat split; auto.
    + apply digs_app. split; [exact Hd|]. unfold digs. cbn. rewrite Hc. reflexivity.
    + apply app_ne_nil_r.
  - exists [], [c]. repeat split; try reflexivity; try discriminate. unfold digs. cbn. rewrite Hc. reflexivity.
Qed.

Lemma stinv_flush s : stinv s -> Forall lword (map lower (flush s)).
Proof.
  destruct s as [|pre u|w|w]; cbn [stinv flush map].
  - constructor.
  - intros [Hp Hu]. constructor; [|constructor]. apply lword_lows.
    + apply lows_lower_uppers. unfold uppers. rewrite forallb_app. cbn. rewrite Hu. unfold uppers in Hp. rewrite Hp. reflexivity.
    + rewrite lower_app. apply app_ne_nil_r.
  - intros [Hn Hl]. constructor; [|constructor]. apply lword_lows; [exact Hl|]. destruct w; [contradiction Hn; reflexivity|discriminate].
  - intros H. constructor; [exact H|constructor].
Qed.

Lemma stinv_step s c : stinv s ->
  Forall lword (map lower (fst (step s c))) /\ stinv (snd (step s c)).
Proof.
  pose proof (to_lower_class c) as TL.
  destruct s as [|pre u|w|w]; cbn [stinv]; intros H; unfold step; destruct (classify c) eqn:E; cbn [fst snd map stinv].
  - split; [constructor|]. split; [reflexivity|]. unfold is_upper_b. rewrite E. reflexivity.
  - split; [constructor|]. split; [discriminate|]. unfold lows. cbn. rewrite TL. unfold is_lower_b. rewrite E. reflexivity.
  - split; [constructor|]. cbn. rewrite TL. apply (lword_snoc_digit []); [right; reflexivity|]. unfold is_digit_b. rewrite E. reflexivity.
  - split; [constructor|exact I].
  - (* SU, Upper *) destruct H as [Hp Hu]. split; [constructor|]. split.
    + unfold uppers. rewrite forallb_app. cbn. rewrite Hu. unfold uppers in Hp. rewrite Hp. reflexivity.
    + unfold is_upper_b. rewrite E. reflexivity.
  - (* SU, Lower *) destruct H as [Hp Hu]. split.
    + destruct pre as [|p0 pre']; [constructor|]. constructor; [|constructor].
      apply lword_lows; [apply lows_lower_uppers; exact Hp|discriminate].
    + split; [discriminate|]. unfold lows. cbn. rewrite TL.
      pose proof (to_lower_class u) as TU. unfold is_upper_b in Hu. destruct (classify u); try discriminate Hu.
      unfold is_lower_b. rewrite TU, E. reflexivity.
  - (* SU, Digit *) destruct H as [Hp Hu]. split; [constructor|].
    replace (pre ++ [u; c]) with ((pre ++ [u]) ++ [c]) by (rewrite <- app_assoc; reflexivity).
    rewrite lower_app. cbn [lower map]. rewrite TL. apply lword_snoc_digit.
    + left. apply lword_lows; [|rewrite lower_app; apply app_ne_nil_r].
      apply lows_lower_uppers. unfold uppers. rewrite forallb_app. cbn. rewrite Hu. unfold uppers in Hp. rewrite Hp. reflexivity.
    + unfold is_digit_b. rewrite E. reflexivity.
  - (* SU, Sym *) split; [|exact I]. apply (stinv_flush (SU pre u)). exact H.
  - (* SL, Upper *) split; [apply (stinv_flush (SL w)); exact H|]. split; [reflexivity|]. unfold is_upper_b. rewrite E. reflexivity.
  - (* SL, Lower *) destruct H as [Hn Hl]. split; [constructor|]. split; [apply app_ne_nil_r|].
    rewrite lower_app. apply lows_app. split; [exact Hl|]. unfold lows. cbn. rewrite TL. unfold is_lower_b. rewrite E. reflexivity.
  - (* SL, Digit *) destruct H as [Hn Hl]. split; [constructor|].
    rewrite lower_app. cbn [lower map]. rewrite TL. apply lword_snoc_digit.
    + left. apply lword_lows; [exact Hl|]. destruct w; [contradiction Hn; reflexivity|discriminate].
    + unfold is_digit_b. rewrite E. reflexivity.
  - (* SL, Sym *) split; [apply (stinv_flush (SL w)); exact H|exact I].
  - (* SD, Upper *) split; [apply (stinv_flush (SD w)); exact H|]. split; [reflexivity|]. unfold is_upper_b. rewrite E. reflexivity.
  - (* SD, Lower *) split; [apply (stinv_flush (SD w)); exact H|]. split; [discriminate|].
    unfold lows. cbn. rewrite TL. unfold is_lower_b. rewrite E. reflexivity.
  - (* SD, Digit *) split; [constructor|]. rewrite lower_app. cbn [lower map]. rewrite TL. apply lword_snoc_digit.
    + left. exact H.
    + unfold is_digit_b. rewrite E. reflexivity.
  - (* SD, Sym *) split; [apply (stinv_flush (SD w)); exact H|exact I].
Qed.

Lemma scan_lwords l : forall s, stinv s -> Forall lword (map lower (scan s l)).
Proof.
  induction l as [|c r IH]; intros s H.
  - apply stinv_flush. exact H.
  - cbn [scan]. destruct (stinv_step s c H) as [Ho Hs]. destruct (step s c) as [o s']. cbn [fst snd] in *.
    rewrite map_app. apply Forall_app. split; [exact Ho|apply IH; exact Hs].
Qed.

Lemma words_lwords s : Forall lword (map lower (words s)).
Proof. apply scan_lwords. exact I. Qed.

(* ---------------------------------------------------------------- snake_case *)
Lemma map_lower_idem ws : map lower (map lower ws) = map lower ws.
Proof. rewrite map_map. apply map_ext. intros; apply lower_idem. Qed.

Lemma words_snake s : words (snake_case s) = map lower (words s).
Proof. unfold snake_case. apply scan_join. apply words_lwords. Qed.

Lemma snake_snake s : snake_case (snake_case s) = snake_case s.
Proof. unfold snake_case at 1. rewrite words_snake, map_lower_idem. reflexivity. Qed.

Lemma snake_us_cons x : snake_case (us :: x) = snake_case x.
Proof. reflexivity. Qed.
Lemma snake_snoc_us x : snake_case (x ++ [us]) = snake_case x.
Proof. unfold snake_case. rewrite words_snoc_us. reflexivity. Qed.

Lemma snake_sanitize x : snake_case (sanitize_name x) = snake_case x.
Proof.
  unfold sanitize_name. destruct (is_keyword x); [apply snake_snoc_us|].
  destruct (negb (is_identifier x)); [apply snake_us_cons|reflexivity].
Qed.

Lemma safe_snake_idem s : safe_snake_case (safe_snake_case s) = safe_snake_case s.
Proof. unfold safe_snake_case. rewrite snake_sanitize, snake_snake. reflexivity. Qed.

(* characters of snake_case's result: lower-case letters, digits, "_" *)
Definition snake_char (b : byte) : bool := is_lower_b b || is_digit_b b || is_us b.

Lemma lword_chars w : lword w -> forallb snake_char w = true.
Proof.
  intros (l & d & -> & Hl & Hd & _). rewrite forallb_app. apply andb_true_iff. split.
  - unfold lows in Hl. rewrite forallb_forall in *. intros x Hx. unfold snake_char. rewrite (Hl x Hx). reflexivity.
  - unfold digs in Hd. rewrite forallb_forall in *. intros x Hx. unfold snake_char. rewrite (Hd x Hx), orb_true_r. reflexivity.
Qed.

Lemma join_chars ws : Forall lword ws -> forallb snake_char (join [us] ws) = true.
Proof.
  induction ws as [|w r IH]; intros H; [reflexivity|]. inversion H as [|? ? Hw Hr]; subst.
  destruct r as [|w' r'].
  - cbn [join]. apply lword_chars. exact Hw.
  - change (join [us] (w :: w' :: r')) with (w ++ [us] ++ join [us] (w' :: r')).
    rewrite !forallb_app, (lword_chars w Hw), (IH Hr). reflexivity.
Qed.

Lemma snake_chars s : forallb snake_char (snake_case s) = true.
Proof. apply join_chars, words_lwords. Qed.

Lemma snake_char_ident b : snake_char b = true -> ident_char b = true.
Proof.
  unfold snake_char, ident_char, is_lower_b, is_digit_b. destruct (classify b) eqn:E; cbn; auto.
Qed.

Lemma snake_ident_chars s : ident_chars (snake_case s) = true.
Proof.
  unfold ident_chars. pose proof (snake_chars s) as H. rewrite forallb_forall in *.
  intros x Hx. apply snake_char_ident, H, Hx.
Qed.

(* snake_case's result never ends with "_" (so .rstrip("_") does nothing to it) *)
Lemma rstrip_us_last x c : is_us c = false -> rstrip_us (x ++ [c]) = x ++ [c].
Proof.
  intros H. unfold rstrip_us. rewrite rev_app_distr. cbn [rev app lstrip_us]. rewrite H.
  change (c :: rev x) with ([c] ++ rev x). rewrite rev_app_distr, rev_involutive. reflexivity.
Qed.

Lemma rstrip_us_no_us x : forallb (fun c => negb (is_us c)) x = true -> rstrip_us x = x.
Proof.
  destruct (rev x) as [|c r] eqn:E.
  - intros _. apply (f_equal (@rev byte)) in E. rewrite rev_involutive in E. subst x. reflexivity.
  - apply (f_equal (@rev byte)) in E. rewrite rev_involutive in E. cbn [rev] in E. subst x.
    rewrite forallb_app. cbn [forallb]. rewrite !andb_true_iff. intros (_ & H & _).
    apply rstrip_us_last. destruct (is_us c); [discriminate H|reflexivity].
Qed.

Lemma lword_no_us w : lword w -> forallb (fun c => negb (is_us c)) w = true.
Proof.
  intros (l & d & -> & Hl & Hd & _). rewrite forallb_app. apply andb_true_iff. split.
  - unfold lows in Hl. rewrite forallb_forall in *. intros x Hx. specialize (Hl x Hx). destruct x; try reflexivity; discriminate Hl.
  - unfold digs in Hd. rewrite forallb_forall in *. intros x Hx. specialize (Hd x Hx). destruct x; try reflexivity; discriminate Hd.
Qed.

Lemma lstrip_us_length q : (length (lstrip_us q) <= length q)%nat.
Proof. induction q as [|a q IH]; cbn [lstrip_us]; [lia|]. destruct (is_us a); cbn [length]; lia. Qed.

Lemma rstrip_us_app a t : rstrip_us t = t -> t <> [] -> rstrip_us (a ++ t) = a ++ t.
Proof.
  unfold rstrip_us. intros IH N.
  assert (lstrip_us (rev t) = rev t) as K.
  { apply (f_equal (@rev byte)) in IH. rewrite !rev_involutive in IH. exact IH. }
  rewrite rev_app_distr. destruct (rev t) as [|c q] eqn:E.
  - exfalso. apply (f_equal (@rev byte)) in E. rewrite rev_involutive in E. contradiction.
  - cbn [app lstrip_us] in *. destruct (is_us c) eqn:U.
    + exfalso. pose proof (lstrip_us_length q) as L. rewrite K in L. cbn [length] in L. lia.
    + change (c :: q ++ rev a) with ((c :: q) ++ rev a). rewrite <- E, <- rev_app_distr, rev_involutive. reflexivity.
Qed.

Lemma lword_ne w : lword w -> w <> [].
Proof. intros (l & d & _ & _ & _ & N). exact N. Qed.

Lemma join_ne_nil ws : Forall lword ws -> ws <> [] -> join [us] ws <> [].
Proof.
  destruct ws as [|w r]; intros H N; [contradiction N; reflexivity|].
  inversion H as [|? ? Hw Hr]; subst. apply lword_ne in Hw.
  destruct r; cbn [join]; [exact Hw|]. destruct w; [contradiction Hw; reflexivity|discriminate].
Qed.

Lemma join_last ws : Forall lword ws -> rstrip_us (join [us] ws) = join [us] ws.
Proof.
  induction ws as [|w r IH]; intros H; [reflexivity|]. inversion H as [|? ? Hw Hr]; subst.
  destruct r as [|w' r'].
  - cbn [join]. apply rstrip_us_no_us, lword_no_us, Hw.
  - change (join [us] (w :: w' :: r')) with (w ++ [us] ++ join [us] (w' :: r')). rewrite app_assoc.
    apply rstrip_us_app; [apply IH; exact Hr|apply join_ne_nil; [exact Hr|discriminate]].
Qed.

Lemma snake_key_snake s : rstrip_us (snake_case s) = snake_case s.
Proof. apply join_last, words_lwords. Qed.

(* ---------------------------------------------------------------- sanitize_name *)
Lemma existsb_str_eqb_in x l : existsb (str_eqb x) l = true <-> In x l.
Proof.
  rewrite existsb_exists. split.
  - intros (k & I & E). apply str_eqb_eq in E. subst. exact I.
  - intros I. exists x. split; [exact I|apply str_eqb_refl].
Qed.

Lemma is_keyword_in x : is_keyword x = true <-> In x Tables.kwlist.
Proof. apply existsb_str_eqb_in. Qed.

(* facts about the regenerated keyword table (finite; re-checked against the live list on every build) *)
Lemma kw_are_identifiers : forallb is_identifier Tables.kwlist = true.
Proof. vm_compute. reflexivity. Qed.
Lemma kw_plus_us_not_kw : forallb (fun k => negb (is_keyword (k ++ [us]))) Tables.kwlist = true.
Proof. vm_compute. reflexivity. Qed.
Lemma kw_no_leading_us : forallb (fun k => match k with c :: _ => negb (is_us c) | [] => false end) Tables.kwlist = true.
Proof. vm_compute. reflexivity. Qed.

Lemma is_identifier_snoc_us x : is_identifier x = true -> is_identifier (x ++ [us]) = true.
Proof.
  destruct x as [|c r]; [discriminate|]. cbn [is_identifier app]. rewrite !andb_true_iff, forallb_app.
  intros [Hc Hr]. split; [exact Hc|]. rewrite Hr. reflexivity.
Qed.

Lemma is_identifier_us_cons x : ident_chars x = true -> is_identifier (us :: x) = true.
Proof. intros H. cbn [is_identifier]. exact H. Qed.

Lemma sanitize_ok x : ident_chars x = true ->
  is_identifier (sanitize_name x) = true /\ is_keyword (sanitize_name x) = false.
Proof.
  intros H. unfold sanitize_name. destruct (is_keyword x) eqn:K.
  - apply is_keyword_in in K. split.
    + apply is_identifier_snoc_us. pose proof kw_are_identifiers as T. rewrite forallb_forall in T. apply T, K.
    + pose proof kw_plus_us_not_kw as T. rewrite forallb_forall in T. specialize (T x K).
      destruct (is_keyword (x ++ [us])); [discriminate T|reflexivity].
  - destruct (is_identifier x) eqn:I; cbn [negb].
    + split; [exact I|exact K].
    + split; [apply is_identifier_us_cons, H|].
      destruct (is_keyword (us :: x)) eqn:K'; [|reflexivity]. apply is_keyword_in in K'.
      pose proof kw_no_leading_us as T. rewrite forallb_forall in T. specialize (T _ K'). discriminate T.
Qed.

Lemma safe_snake_ok s :
  is_identifier (safe_snake_case s) = true /\ is_keyword (safe_snake_case s) = false.
Proof. apply sanitize_ok, snake_ident_chars. Qed.

(* the snake_case key of a generated field name always maps back *)
Lemma snake_key_back s :
  safe_snake_case (snake_key (safe_snake_case s)) = safe_snake_case s.
Proof.
  unfold snake_key, safe_snake_case. rewrite snake_sanitize, snake_snake, snake_key_snake, snake_snake. reflexivity.
Qed.
