(* Proofs about Model/Time.v against Spec/Time.v (property C15). *)
From BP Require Import Base.Prelude Model.Varint Model.Scalar Model.Time Spec.Varint Spec.Time.
From BP Require Import Proofs.BytesP Proofs.VarintP Proofs.ScalarP.
From Coq Require Import ZifyBool ZifyN.
Ltac Zify.zify_post_hook ::= Z.to_euclidean_division_equations.

(* ====================================================================================== *)
(* 1. the (seconds, nanos) pairs                                                           *)
(* ====================================================================================== *)

(* CPython's normal form loses nothing: days / seconds / microseconds recompose to the span *)
Lemma td_recompose u :
  (td_days u * 24 * 60 * 60 + td_seconds u) * 10 ^ 6 + td_microseconds u = u.
Proof.
  unfold td_days, td_seconds, td_microseconds, DAY_US.
  change (10 ^ 6) with 1000000. lia.
Qed.

Theorem from_datetime_is_spec dt : from_datetime dt = ts_of_us (instant dt).
Proof.
  assert (E : dt_sub dt DATETIME_ZERO = instant dt) by (unfold dt_sub, DATETIME_ZERO, instant; cbn [wall off]; lia).
  unfold from_datetime, ts_of_us. rewrite E, td_recompose. reflexivity.
Qed.

(* any two aware datetimes denoting the same instant are converted alike: the offset cancels *)
Theorem from_datetime_tz a b : instant a = instant b -> from_datetime a = from_datetime b.
Proof. intros H. rewrite !from_datetime_is_spec, H. reflexivity. Qed.

Theorem from_datetime_shift w o o' : from_datetime (mkdt (w + o) o) = from_datetime (mkdt (w + o') o').
Proof. apply from_datetime_tz. unfold instant; cbn [wall off]. lia. Qed.

(* the executable specification meets the relational one, and the relational one determines the pair *)
Lemma ts_of_us_normal t : let '(s, n) := ts_of_us t in ts_normal s n /\ denotes_us s n t /\ n mod 1000 = 0.
Proof. unfold ts_of_us, ts_normal, denotes_us. lia. Qed.

Lemma ts_pair_unique s n s' n' t :
  ts_normal s n -> denotes_us s n t -> ts_normal s' n' -> denotes_us s' n' t -> s = s' /\ n = n'.
Proof. unfold ts_normal, denotes_us. lia. Qed.

Lemma dur_of_us_normal d : let '(s, n) := dur_of_us d in dur_normal s n /\ denotes_us s n d /\ n mod 1000 = 0.
Proof. unfold dur_of_us, dur_normal, denotes_us. lia. Qed.

Lemma dur_pair_unique s n s' n' d :
  dur_normal s n -> denotes_us s n d -> dur_normal s' n' -> denotes_us s' n' d -> s = s' /\ n = n'.
Proof. unfold dur_normal, denotes_us. lia. Qed.

(* quot / rem in terms of floor division, the way the repaired code computes them *)
Lemma quot_rem_floor d :
  (Z.quot d 1000000, Z.rem d 1000000) =
  if (d / 1000000 <? 0) && (0 <? d mod 1000000) then (d / 1000000 + 1, d mod 1000000 - 1000000)
  else (d / 1000000, d mod 1000000).
Proof. destruct ((d / 1000000 <? 0) && (0 <? d mod 1000000)) eqn:C; f_equal; lia. Qed.

Theorem from_timedelta_is_spec d : from_timedelta d = dur_of_us d.
Proof.
  unfold from_timedelta, dur_of_us. change (10 ^ 6) with 1000000.
  pose proof (quot_rem_floor d) as E.
  destruct ((d / 1000000 <? 0) && (0 <? d mod 1000000)); injection E as -> ->; reflexivity.
Qed.

(* ---- back ---- *)
Lemma ts_range_days t : in_ts_range t -> Z.abs (td_days t) <= 999999999.
Proof. unfold in_ts_range, TS_MIN_US, TS_MAX_US, td_days, DAY_US. lia. Qed.

Theorem to_from_datetime dt :
  in_ts_range (instant dt) ->
  let '(s, n) := from_datetime dt in to_datetime s n = Ok (mkdt (instant dt) 0).
Proof.
  intros R. rewrite from_datetime_is_spec. unfold ts_of_us, to_datetime, timedelta_new.
  set (t := instant dt) in *.
  replace (t / 1000000 * 1000000 + t mod 1000000 * 1000 / 1000) with t by lia.
  pose proof (ts_range_days t R) as D.
  replace (Z.abs (td_days t) >? 999999999) with false by lia.
  cbn [bind]. unfold dt_add, DATETIME_ZERO; cbn [wall off].
  unfold in_ts_range, TS_MIN_US, TS_MAX_US in R. unfold DT_MIN_US, DT_MAX_US.
  replace ((0 + t <? -62135596800000000) || (253402300799999999 <? 0 + t)) with false by lia.
  reflexivity.
Qed.

(* outside the datetime range the decoder reports OverflowError instead of a wrong value *)
Theorem to_datetime_out_of_range s n :
  0 <= n < 1000000000 -> ~ in_ts_range (ts_to_us s n) -> to_datetime s n = Err EOverflow.
Proof.
  intros Hn R. unfold to_datetime, timedelta_new, ts_to_us in *.
  destruct (Z.abs (td_days (s * 1000000 + n / 1000)) >? 999999999) eqn:E; [reflexivity|].
  cbn [bind]. unfold dt_add, DATETIME_ZERO; cbn [wall off].
  unfold in_ts_range, TS_MIN_US, TS_MAX_US in R. unfold DT_MIN_US, DT_MAX_US.
  replace ((0 + (s * 1000000 + n / 1000) <? -62135596800000000) || (253402300799999999 <? 0 + (s * 1000000 + n / 1000))) with true by lia.
  reflexivity.
Qed.

(* every well-formed Timestamp in range (sub-microsecond nanos included) decodes to the reference's value *)
Theorem to_datetime_is_spec s n :
  in_ts_range (ts_to_us s n) -> to_datetime s n = Ok (mkdt (ts_to_us s n) 0).
Proof.
  intros R. unfold to_datetime, timedelta_new, ts_to_us in *.
  pose proof (ts_range_days _ R) as D.
  replace (Z.abs (td_days (s * 1000000 + n / 1000)) >? 999999999) with false by lia.
  cbn [bind]. unfold dt_add, DATETIME_ZERO; cbn [wall off].
  unfold in_ts_range, TS_MIN_US, TS_MAX_US in R. unfold DT_MIN_US, DT_MAX_US.
  replace ((0 + (s * 1000000 + n / 1000) <? -62135596800000000) || (253402300799999999 <? 0 + (s * 1000000 + n / 1000))) with false by lia.
  reflexivity.
Qed.

Lemma abs_div_quot n : (if 0 <=? n then Z.abs n / 1000 else - (Z.abs n / 1000)) = Z.quot n 1000.
Proof. destruct (0 <=? n) eqn:E; lia. Qed.

Theorem to_timedelta_is_spec s n :
  Z.abs (td_days (dur_to_us s n)) <= 999999999 -> to_timedelta s n = Ok (dur_to_us s n).
Proof.
  intros D. unfold to_timedelta, timedelta_new, dur_to_us in *. rewrite abs_div_quot.
  replace (Z.abs (td_days (s * 1000000 + Z.quot n 1000)) >? 999999999) with false by lia.
  reflexivity.
Qed.

Lemma dur_range_days d : in_dur_range d -> Z.abs (td_days d) <= 999999999.
Proof. unfold in_dur_range, DUR_MAX_S, td_days, DAY_US. lia. Qed.

Lemma dur_to_of_us d : let '(s, n) := dur_of_us d in dur_to_us s n = d.
Proof. unfold dur_of_us, dur_to_us. lia. Qed.

Theorem to_from_timedelta d :
  Z.abs (td_days d) <= 999999999 ->
  let '(s, n) := from_timedelta d in to_timedelta s n = Ok d.
Proof.
  intros D. rewrite from_timedelta_is_spec.
  pose proof (dur_to_of_us d) as E. destruct (dur_of_us d) as [s n].
  rewrite to_timedelta_is_spec; rewrite E; [reflexivity|assumption].
Qed.

(* ====================================================================================== *)
(* 2. the wire form                                                                         *)
(* ====================================================================================== *)
Lemma key_of_arith fno wt : 0 <= fno -> 0 <= wt < 8 -> key_of fno wt = wt + fno * 8.
Proof.
  intros Hf Hw. unfold key_of. rewrite Z.lor_comm.
  rewrite lor_shiftl_add by (change (2 ^ 3) with 8; lia). reflexivity.
Qed.

Lemma key_num fno wt : 0 <= wt < 8 -> Z.shiftr (wt + fno * 8) 3 = fno.
Proof. intros. rewrite Z.shiftr_div_pow2 by lia. change (2 ^ 3) with 8. lia. Qed.

Lemma key_wt fno wt : 0 <= wt < 8 -> Z.land (wt + fno * 8) 7 = wt.
Proof. intros. change 7 with (Z.ones 3). rewrite Z.land_ones by lia. change (2 ^ 3) with 8. lia. Qed.

Lemma encode_nonempty v bs : - 2 ^ 63 <= v < 2 ^ 64 -> encode_varint v = Ok bs -> bs <> [].
Proof.
  intros Hv E. destruct (encode_in_range v Hv) as (bs' & E' & (Sh & _) & _).
  rewrite E in E'. injection E' as <-. apply varint_shape_nonempty, Sh.
Qed.

Lemma encode_load v bs rest :
  - 2 ^ 63 <= v < 2 ^ 64 -> encode_varint v = Ok bs -> load_varint (bs ++ rest) = Ok (v mod 2 ^ 64, bs, rest).
Proof.
  intros Hv E. destruct (encode_load_inverse v rest Hv) as (bs' & E' & L).
  rewrite E in E'. injection E' as <-. exact L.
Qed.

Lemma load_loop_cons {A} (h : A -> Z -> Z -> pval -> result A) f bs st :
  bs <> [] -> load_loop h (S f) bs st = load_step h (load_loop h f) bs st.
Proof. destruct bs; [congruence|reflexivity]. Qed.

(* one varint field, consumed whole *)
Lemma load_step_varint {A} (h : A -> Z -> Z -> pval -> result A) rec fno v kb vb rest st st' :
  0 < fno < 2 ^ 60 -> encode_varint (key_of fno 0) = Ok kb ->
  - 2 ^ 63 <= v < 2 ^ 64 -> encode_varint v = Ok vb ->
  h st fno 0 (PVar (v mod 2 ^ 64)) = Ok st' ->
  load_step h rec (kb ++ vb ++ rest) st = rec rest st'.
Proof.
  intros Hf Ek Hv Ev Hh. unfold load_step.
  rewrite key_of_arith in Ek by lia.
  assert (Hk : - 2 ^ 63 <= 0 + fno * 8 < 2 ^ 64) by lia.
  rewrite (encode_load _ _ _ Hk Ek). cbn [bind].
  rewrite Z.mod_small by lia. rewrite key_num, key_wt by lia.
  replace (fno =? 0) with false by lia.
  unfold read_payload. cbn [Z.eqb]. rewrite (encode_load _ _ _ Hv Ev). cbn [bind].
  rewrite Hh. reflexivity.
Qed.

Lemma read_exactly_app p rest : read_exactly (Zlength p) (p ++ rest) = Ok (p, rest).
Proof.
  unfold read_exactly, Zlength. rewrite app_length, Nat2Z.inj_add.
  replace (Z.of_nat (length p) + Z.of_nat (length rest) <? Z.of_nat (length p)) with false by lia.
  rewrite Nat2Z.id, firstn_app, Nat.sub_diag, firstn_all, skipn_app_exact. cbn [firstn]. rewrite app_nil_r. reflexivity.
Qed.

(* one length-delimited field, consumed whole *)
Lemma load_step_lendelim {A} (h : A -> Z -> Z -> pval -> result A) rec fno kb lb p rest st st' :
  0 < fno < 2 ^ 60 -> encode_varint (key_of fno 2) = Ok kb ->
  Zlength p < 2 ^ 64 -> encode_varint (Zlength p) = Ok lb ->
  h st fno 2 (PRaw p) = Ok st' ->
  load_step h rec (kb ++ lb ++ p ++ rest) st = rec rest st'.
Proof.
  intros Hf Ek Hp El Hh. unfold load_step.
  rewrite key_of_arith in Ek by lia.
  assert (Hk : - 2 ^ 63 <= 2 + fno * 8 < 2 ^ 64) by lia.
  rewrite (encode_load _ _ _ Hk Ek). cbn [bind].
  rewrite Z.mod_small by lia. rewrite key_num, key_wt by lia.
  replace (fno =? 0) with false by lia.
  unfold read_payload. cbn [Z.eqb].
  assert (Hl0 : 0 <= Zlength p) by (unfold Zlength; lia).
  assert (Hl : - 2 ^ 63 <= Zlength p < 2 ^ 64) by lia.
  rewrite (encode_load _ _ _ Hl El). cbn [bind].
  rewrite Z.mod_small by lia. rewrite read_exactly_app. cbn [bind].
  cbn [Z.eqb Pos.eqb bind]. rewrite Hh. reflexivity.
Qed.

Lemma enc_key_1_0 : encode_varint (key_of 1 0) = Ok [x08].
Proof. vm_compute. reflexivity. Qed.
Lemma enc_key_2_0 : encode_varint (key_of 2 0) = Ok [x10].
Proof. vm_compute. reflexivity. Qed.

Lemma ser_varint_field_1 s : - 2 ^ 63 <= s < 2 ^ 63 -> s <> 0 ->
  exists b, encode_varint s = Ok b /\ ser_varint_field 1 s = Ok (x08 :: b) /\ canonical (s mod 2 ^ 64) b /\ (length b <= 10)%nat.
Proof.
  intros Hs Hz. destruct (encode_in_range s ltac:(lia)) as (b & E & C & L).
  exists b. unfold ser_varint_field. replace (s =? 0) with false by lia.
  rewrite enc_key_1_0, E. cbn [bind app]. auto.
Qed.

Lemma ser_varint_field_2 n : - 2 ^ 63 <= n < 2 ^ 63 -> n <> 0 ->
  exists b, encode_varint n = Ok b /\ ser_varint_field 2 n = Ok (x10 :: b) /\ canonical (n mod 2 ^ 64) b /\ (length b <= 10)%nat.
Proof.
  intros Hs Hz. destruct (encode_in_range n ltac:(lia)) as (b & E & C & L).
  exists b. unfold ser_varint_field. replace (n =? 0) with false by lia.
  rewrite enc_key_2_0, E. cbn [bind app]. auto.
Qed.

Lemma h_sn_1 s0 n0 s : - 2 ^ 63 <= s < 2 ^ 63 -> h_sn (s0, n0) 1 0 (PVar (s mod 2 ^ 64)) = Ok (s, n0).
Proof. intros H. cbn [h_sn Z.eqb andb]. rewrite (sign_recover_correct 64 s) by (change (2 ^ (64 - 1)) with (2 ^ 63); lia). reflexivity. Qed.

Lemma h_sn_2 s0 n0 n : - 2 ^ 31 <= n < 2 ^ 31 -> h_sn (s0, n0) 2 0 (PVar (n mod 2 ^ 64)) = Ok (s0, n).
Proof. intros H. cbn [h_sn Z.eqb andb]. rewrite (sign_recover_correct 32 n) by (change (2 ^ (32 - 1)) with (2 ^ 31); lia). reflexivity. Qed.

(* the two-field message: encoder meets the wire specification, decoder inverts it *)
Theorem bytes_parse_sn s n :
  - 2 ^ 63 <= s < 2 ^ 63 -> - 2 ^ 31 <= n < 2 ^ 31 ->
  exists bs, bytes_sn s n = Ok bs /\ sn_wire s n bs /\ parse_sn bs = Ok (s, n) /\ (length bs <= 22)%nat /\
             (bs = [] <-> s = 0 /\ n = 0).
Proof.
  intros Hs Hn. unfold bytes_sn, parse_sn.
  destruct (Z.eq_dec s 0) as [->|Hs0]; destruct (Z.eq_dec n 0) as [->|Hn0].
  - exists []. cbn. repeat split; try lia; try reflexivity.
    exists [], []. repeat split; left; auto.
  - destruct (ser_varint_field_2 n ltac:(lia) Hn0) as (b & E & F & C & L).
    exists (x10 :: b). rewrite F. cbn [ser_varint_field Z.eqb bind app].
    split; [reflexivity|]. split; [|split; [|split; [cbn [length]; lia|split; [congruence|lia]]]].
    + exists [], (x10 :: b). repeat split; [left; auto|right; split; [exact Hn0|exists b; auto]].
    + cbn [length]. rewrite load_loop_cons by congruence.
      change (x10 :: b) with ([x10] ++ b ++ []). rewrite app_nil_r.
      replace ([x10] ++ b) with ([x10] ++ b ++ []) by (rewrite app_nil_r; reflexivity).
      rewrite (load_step_varint h_sn _ 2 n [x10] b [] (0, 0) (0, n)); try lia; try assumption.
      * destruct (length b); reflexivity.
      * exact enc_key_2_0.
      * apply h_sn_2, Hn.
  - destruct (ser_varint_field_1 s Hs Hs0) as (b & E & F & C & L).
    exists (x08 :: b). rewrite F. cbn [ser_varint_field Z.eqb bind app]. rewrite app_nil_r.
    split; [reflexivity|]. split; [|split; [|split; [cbn [length]; lia|split; [congruence|lia]]]].
    + exists (x08 :: b), []. rewrite app_nil_r. repeat split; [right; split; [exact Hs0|exists b; auto]|left; auto].
    + cbn [length]. rewrite load_loop_cons by congruence.
      replace (x08 :: b) with ([x08] ++ b ++ []) by (rewrite app_nil_r; reflexivity).
      rewrite (load_step_varint h_sn _ 1 s [x08] b [] (0, 0) (s, 0)); try lia; try assumption.
      * destruct (length b); reflexivity.
      * exact enc_key_1_0.
      * apply h_sn_1, Hs.
  - destruct (ser_varint_field_1 s Hs Hs0) as (b1 & E1 & F1 & C1 & L1).
    destruct (ser_varint_field_2 n ltac:(lia) Hn0) as (b2 & E2 & F2 & C2 & L2).
    exists ((x08 :: b1) ++ (x10 :: b2)). rewrite F1, F2. cbn [bind].
    split; [reflexivity|]. split; [|split; [|split; [rewrite app_length; cbn [length]; lia|split; [cbn; congruence|lia]]]].
    + exists (x08 :: b1), (x10 :: b2). repeat split; right; split; auto; eexists; eauto.
    + assert (Hl : exists f, length ((x08 :: b1) ++ x10 :: b2) = S (S f)).
      { rewrite app_length. cbn [length]. exists (length b1 + length b2)%nat. lia. }
      destruct Hl as (f & ->).
      rewrite load_loop_cons by (cbn; congruence).
      replace ((x08 :: b1) ++ x10 :: b2) with ([x08] ++ b1 ++ (x10 :: b2)) by reflexivity.
      rewrite (load_step_varint h_sn _ 1 s [x08] b1 (x10 :: b2) (0, 0) (s, 0)); try lia; try assumption;
        [|exact enc_key_1_0|apply h_sn_1, Hs].
      rewrite load_loop_cons by congruence.
      replace (x10 :: b2) with ([x10] ++ b2 ++ []) by (rewrite app_nil_r; reflexivity).
      rewrite (load_step_varint h_sn _ 2 n [x10] b2 [] (s, 0) (s, n)); try lia; try assumption;
        [|exact enc_key_2_0|apply h_sn_2, Hn].
      destruct f; reflexivity.
Qed.
