(* Proofs about Model/Time.v against Spec/Time.v (property C15). *)
From BP Require Import Base.Prelude Model.Varint Model.Scalar Model.Time Spec.Varint Spec.Time.
From BP Require Import Proofs.BytesP Proofs.VarintP Proofs.ScalarP.
From Coq Require Import ZifyBool ZifyN.
Ltac Zify.zify_post_hook ::= Z.to_euclidean_division_equations.

(* ====================================================================================== *)
(* 1. the (seconds, nanos) pairs                                                           *)
(* ====================================================================================== *)

(* CPython's normal form loses nothing: days / seconds / microseconds recompose to the span *)
Lemma td_recompose u :
  (td_days u * 24 * 60 * 60 + td_seconds u) * 10 ^ 6 + td_microseconds u = u.
Proof.
  unfold td_days, td_seconds, td_microseconds, DAY_US.
  change (10 ^ 6) with 1000000. lia.
Qed.

Theorem from_datetime_is_spec dt : from_datetime dt = ts_of_us (instant dt).
Proof.
  assert (E : dt_sub dt DATETIME_ZERO = instant dt) by (unfold dt_sub, DATETIME_ZERO, instant; cbn [wall off]; lia).
  unfold from_datetime, ts_of_us. rewrite E, td_recompose. reflexivity.
Qed.

(* any two aware datetimes denoting the same instant are converted alike: the offset cancels *)
Theorem from_datetime_tz a b : instant a = instant b -> from_datetime a = from_datetime b.
Proof. intros H. rewrite !from_datetime_is_spec, H. reflexivity. Qed.

Theorem from_datetime_shift w o o' : from_datetime (mkdt (w + o) o) = from_datetime (mkdt (w + o') o').
Proof. apply from_datetime_tz. unfold instant; cbn [wall off]. lia. Qed.

(* the executable specification meets the relational one, and the relational one determines the pair *)
Lemma ts_of_us_normal t : let '(s, n) := ts_of_us t in ts_normal s n /\ denotes_us s n t /\ n mod 1000 = 0.
Proof. unfold ts_of_us, ts_normal, denotes_us. lia. Qed.

Lemma ts_pair_unique s n s' n' t :
  ts_normal s n -> denotes_us s n t -> ts_normal s' n' -> denotes_us s' n' t -> s = s' /\ n = n'.
Proof. unfold ts_normal, denotes_us. lia. Qed.

Lemma dur_of_us_normal d : let '(s, n) := dur_of_us d in dur_normal s n /\ denotes_us s n d /\ n mod 1000 = 0.
Proof. unfold dur_of_us, dur_normal, denotes_us. lia. Qed.

Lemma dur_pair_unique s n s' n' d :
  dur_normal s n -> denotes_us s n d -> dur_normal s' n' -> denotes_us s' n' d -> s = s' /\ n = n'.
Proof. unfold dur_normal, denotes_us. lia. Qed.

(* quot / rem in terms of floor division, the way the repaired code computes them *)
Lemma quot_rem_floor d :
  (Z.quot d 1000000, Z.rem d 1000000) =
  if (d / 1000000 <? 0) && (0 <? d mod 1000000) then (d / 1000000 + 1, d mod 1000000 - 1000000)
  else (d / 1000000, d mod 1000000).
Proof. destruct ((d / 1000000 <? 0) && (0 <? d mod 1000000)) eqn:C; f_equal; lia. Qed.

Theorem from_timedelta_is_spec d : from_timedelta d = dur_of_us d.
Proof.
  unfold from_timedelta, dur_of_us. change (10 ^ 6) with 1000000.
  pose proof (quot_rem_floor d) as E.
  destruct ((d / 1000000 <? 0) && (0 <? d mod 1000000)); injection E as -> ->; reflexivity.
Qed.

(* ---- back ---- *)
Lemma ts_range_days t : in_ts_range t -> Z.abs (td_days t) <= 999999999.
Proof. unfold in_ts_range, TS_MIN_US, TS_MAX_US, td_days, DAY_US. lia. Qed.

Theorem to_from_datetime dt :
  in_ts_range (instant dt) ->
  let '(s, n) := from_datetime dt in to_datetime s n = Ok (mkdt (instant dt) 0).
Proof.
  intros R. rewrite from_datetime_is_spec. unfold ts_of_us, to_datetime, timedelta_new.
  set (t := instant dt) in *.
  replace (t / 1000000 * 1000000 + t mod 1000000 * 1000 / 1000) with t by lia.
  pose proof (ts_range_days t R) as D.
  replace (Z.abs (td_days t) >? 999999999) with false by lia.
  cbn [bind]. unfold dt_add, DATETIME_ZERO; cbn [wall off].
  unfold in_ts_range, TS_MIN_US, TS_MAX_US in R. unfold DT_MIN_US, DT_MAX_US.
  replace ((0 + t <? -62135596800000000) || (253402300799999999 <? 0 + t)) with false by lia.
  reflexivity.
Qed.

(* outside the datetime range the decoder reports OverflowError instead of a wrong value *)
Theorem to_datetime_out_of_range s n :
  0 <= n < 1000000000 -> ~ in_ts_range (ts_to_us s n) -> to_datetime s n = Err EOverflow.
Proof.
  intros Hn R. unfold to_datetime, timedelta_new, ts_to_us in *.
  destruct (Z.abs (td_days (s * 1000000 + n / 1000)) >? 999999999) eqn:E; [reflexivity|].
  cbn [bind]. unfold dt_add, DATETIME_ZERO; cbn [wall off].
  unfold in_ts_range, TS_MIN_US, TS_MAX_US in R. unfold DT_MIN_US, DT_MAX_US.
  replace ((0 + (s * 1000000 + n / 1000) <? -62135596800000000) || (253402300799999999 <? 0 + (s * 1000000 + n / 1000))) with true by lia.
  reflexivity.
Qed.

(* every well-formed Timestamp in range (sub-microsecond nanos included) decodes to the reference's value *)
Theorem to_datetime_is_spec s n :
  in_ts_range (ts_to_us s n) -> to_datetime s n = Ok (mkdt (ts_to_us s n) 0).
Proof.
  intros R. unfold to_datetime, timedelta_new, ts_to_us in *.
  pose proof (ts_range_days _ R) as D.
  replace (Z.abs (td_days (s * 1000000 + n / 1000)) >? 999999999) with false by lia.
  cbn [bind]. unfold dt_add, DATETIME_ZERO; cbn [wall off].
  unfold in_ts_range, TS_MIN_US, TS_MAX_US in R. unfold DT_MIN_US, DT_MAX_US.
  replace ((0 + (s * 1000000 + n / 1000) <? -62135596800000000) || (253402300799999999 <? 0 + (s * 1000000 + n / 1000))) with false by lia.
  reflexivity.
Qed.

Lemma abs_div_quot n : (if 0 <=? n then Z.abs n / 1000 else - (Z.abs n / 1000)) = Z.quot n 1000.
Proof. destruct (0 <=? n) eqn:E; lia. Qed.

Theorem to_timedelta_is_spec s n :
  Z.abs (td_days (dur_to_us s n)) <= 999999999 -> to_timedelta s n = Ok (dur_to_us s n).
Proof.
  intros D. unfold to_timedelta, timedelta_new, dur_to_us in *. rewrite abs_div_quot.
  replace (Z.abs (td_days (s * 1000000 + Z.quot n 1000)) >? 999999999) with false by lia.
  reflexivity.
Qed.

Lemma dur_range_days d : in_dur_range d -> Z.abs (td_days d) <= 999999999.
Proof. unfold in_dur_range, DUR_MAX_S, td_days, DAY_US. lia. Qed.

Lemma dur_to_of_us d : let '(s, n) := dur_of_us d in dur_to_us s n = d.
Proof. unfold dur_of_us, dur_to_us. lia. Qed.

Theorem to_from_timedelta d :
  Z.abs (td_days d) <= 999999999 ->
  let '(s, n) := from_timedelta d in to_timedelta s n = Ok d.
Proof.
  intros D. rewrite from_timedelta_is_spec.
  pose proof (dur_to_of_us d) as E. destruct (dur_of_us d) as [s n].
  rewrite to_timedelta_is_spec; rewrite E; [reflexivity|assumption].
Qed.

(* ====================================================================================== *)
(* 2. the wire form                                                                         *)
(* ====================================================================================== *)
Lemma key_of_arith fno wt : 0 <= fno -> 0 <= wt < 8 -> key_of fno wt = wt + fno * 8.
Proof.
  intros Hf Hw. unfold key_of. rewrite Z.lor_comm.
  rewrite lor_shiftl_add by (change (2 ^ 3) with 8; lia). reflexivity.
Qed.

Lemma key_num fno wt : 0 <= wt < 8 -> Z.shiftr (wt + fno * 8) 3 = fno.
Proof. intros. rewrite Z.shiftr_div_pow2 by lia. change (2 ^ 3) with 8. lia. Qed.

Lemma key_wt fno wt : 0 <= wt < 8 -> Z.land (wt + fno * 8) 7 = wt.
Proof. intros. change 7 with (Z.ones 3). rewrite Z.land_ones by lia. change (2 ^ 3) with 8. lia. Qed.

Lemma encode_nonempty v bs : - 2 ^ 63 <= v < 2 ^ 64 -> encode_varint v = Ok bs -> bs <> [].
Proof.
  intros Hv E. destruct (encode_in_range v Hv) as (bs' & E' & (Sh & _) & _).
  rewrite E in E'. injection E' as <-. apply varint_shape_nonempty, Sh.
Qed.

Lemma encode_load v bs rest :
  - 2 ^ 63 <= v < 2 ^ 64 -> encode_varint v = Ok bs -> load_varint (bs ++ rest) = Ok (v mod 2 ^ 64, bs, rest).
Proof.
  intros Hv E. destruct (encode_load_inverse v rest Hv) as (bs' & E' & L).
  rewrite E in E'. injection E' as <-. exact L.
Qed.

Lemma load_loop_cons {A} (h : A -> Z -> Z -> pval -> result A) f bs st :
  bs <> [] -> load_loop h (S f) bs st = load_step h (load_loop h f) bs st.
Proof. destruct bs; [congruence|reflexivity]. Qed.

(* one varint field, consumed whole *)
Lemma load_step_varint {A} (h : A -> Z -> Z -> pval -> result A) rec fno v kb vb rest st st' :
  0 < fno < 2 ^ 60 -> encode_varint (key_of fno 0) = Ok kb ->
  - 2 ^ 63 <= v < 2 ^ 64 -> encode_varint v = Ok vb ->
  h st fno 0 (PVar (v mod 2 ^ 64)) = Ok st' ->
  load_step h rec (kb ++ vb ++ rest) st = rec rest st'.
Proof.
  intros Hf Ek Hv Ev Hh. unfold load_step.
  rewrite key_of_arith in Ek by lia.
  assert (Hk : - 2 ^ 63 <= 0 + fno * 8 < 2 ^ 64) by lia.
  rewrite (encode_load _ _ _ Hk Ek). cbn [bind].
  rewrite Z.mod_small by lia. rewrite key_num, key_wt by lia.
  replace (fno =? 0) with false by lia.
  unfold read_payload. cbn [Z.eqb]. rewrite (encode_load _ _ _ Hv Ev). cbn [bind].
  rewrite Hh. reflexivity.
Qed.

Lemma read_exactly_app p rest : read_exactly (Zlength p) (p ++ rest) = Ok (p, rest).
Proof.
  unfold read_exactly, Zlength. rewrite app_length, Nat2Z.inj_add.
  replace (Z.of_nat (length p) + Z.of_nat (length rest) <? Z.of_nat (length p)) with false by lia.
  rewrite Nat2Z.id, firstn_app, Nat.sub_diag, firstn_all, skipn_app_exact. cbn [firstn]. rewrite app_nil_r. reflexivity.
Qed.

(* one length-delimited field, consumed whole *)
Lemma load_step_lendelim {A} (h : A -> Z -> Z -> pval -> result A) rec fno kb lb p rest st st' :
  0 < fno < 2 ^ 60 -> encode_varint (key_of fno 2) = Ok kb ->
  Zlength p < 2 ^ 64 -> encode_varint (Zlength p) = Ok lb ->
  h st fno 2 (PRaw p) = Ok st' ->
  load_step h rec (kb ++ lb ++ p ++ rest) st = rec rest st'.
Proof.
  intros Hf Ek Hp El Hh. unfold load_step.
  rewrite key_of_arith in Ek by lia.
  assert (Hk : - 2 ^ 63 <= 2 + fno * 8 < 2 ^ 64) by lia.
  rewrite (encode_load _ _ _ Hk Ek). cbn [bind].
  rewrite Z.mod_small by lia. rewrite key_num, key_wt by lia.
  replace (fno =? 0) with false by lia.
  unfold read_payload. cbn [Z.eqb].
  assert (Hl0 : 0 <= Zlength p) by (unfold Zlength; lia).
  assert (Hl : - 2 ^ 63 <= Zlength p < 2 ^ 64) by lia.
  rewrite (encode_load _ _ _ Hl El). cbn [bind].
  rewrite Z.mod_small by lia. rewrite read_exactly_app. cbn [bind].
  cbn [Z.eqb Pos.eqb bind]. rewrite Hh. reflexivity.
Qed.

Lemma enc_key_1_0 : encode_varint (key_of 1 0) = Ok [x08].
Proof. vm_compute. reflexivity. Qed.
Lemma enc_key_2_0 : encode_varint (key_of 2 0) = Ok [x10].
Proof. vm_compute. reflexivity. Qed.

Lemma ser_varint_field_1 s : - 2 ^ 63 <= s < 2 ^ 63 -> s <> 0 ->
  exists b, encode_varint s = Ok b /\ ser_varint_field 1 s = Ok (x08 :: b) /\ canonical (s mod 2 ^ 64) b /\ (length b <= 10)%nat.
Proof.
  intros Hs Hz. destruct (encode_in_range s ltac:(lia)) as (b & E & C & L).
  exists b. unfold ser_varint_field. replace (s =? 0) with false by lia.
  rewrite enc_key_1_0, E. cbn [bind app]. auto.
Qed.

Lemma ser_varint_field_2 n : - 2 ^ 63 <= n < 2 ^ 63 -> n <> 0 ->
  exists b, encode_varint n = Ok b /\ ser_varint_field 2 n = Ok (x10 :: b) /\ canonical (n mod 2 ^ 64) b /\ (length b <= 10)%nat.
Proof.
  intros Hs Hz. destruct (encode_in_range n ltac:(lia)) as (b & E & C & L).
  exists b. unfold ser_varint_field. replace (n =? 0) with false by lia.
  rewrite enc_key_2_0, E. cbn [bind app]. auto.
Qed.

Lemma h_sn_1 s0 n0 s : - 2 ^ 63 <= s < 2 ^ 63 -> h_sn (s0, n0) 1 0 (PVar (s mod 2 ^ 64)) = Ok (s, n0).
Proof. intros H. cbn [h_sn Z.eqb andb]. rewrite (sign_recover_correct 64 s) by (change (2 ^ (64 - 1)) with (2 ^ 63); lia). reflexivity. Qed.

Lemma h_sn_2 s0 n0 n : - 2 ^ 31 <= n < 2 ^ 31 -> h_sn (s0, n0) 2 0 (PVar (n mod 2 ^ 64)) = Ok (s0, n).
Proof. intros H. cbn [h_sn Z.eqb andb]. rewrite (sign_recover_correct 32 n) by (change (2 ^ (32 - 1)) with (2 ^ 31); lia). reflexivity. Qed.

(* the two-field message: encoder meets the wire specification, decoder inverts it *)
Theorem bytes_parse_sn s n :
  - 2 ^ 63 <= s < 2 ^ 63 -> - 2 ^ 31 <= n < 2 ^ 31 ->
  exists bs, bytes_sn s n = Ok bs /\ sn_wire s n bs /\ parse_sn bs = Ok (s, n) /\ (length bs <= 22)%nat /\
             (bs = [] <-> s = 0 /\ n = 0).
Proof.
  intros Hs Hn. unfold bytes_sn, parse_sn.
  destruct (Z.eq_dec s 0) as [->|Hs0]; destruct (Z.eq_dec n 0) as [->|Hn0].
  - exists []. cbn. repeat split; try lia; try reflexivity.
    exists [], []. repeat split; left; auto.
  - destruct (ser_varint_field_2 n ltac:(lia) Hn0) as (b & E & F & C & L).
    exists (x10 :: b). rewrite F. cbn [ser_varint_field Z.eqb bind app].
    split; [reflexivity|]. split; [|split; [|split; [cbn [length]; lia|split; [congruence|lia]]]].
    + exists [], (x10 :: b). repeat split; [left; auto|right; split; [exact Hn0|exists b; auto]].
    + cbn [length]. rewrite load_loop_cons by congruence.
      replace (x10 :: b) with ([x10] ++ b ++ []) by (rewrite app_nil_r; reflexivity).
      rewrite (load_step_varint h_sn _ 2 n [x10] b [] (0, 0) (0, n)); try lia; try assumption.
      * destruct (length b); reflexivity.
      * exact enc_key_2_0.
      * apply h_sn_2, Hn.
  - destruct (ser_varint_field_1 s Hs Hs0) as (b & E & F & C & L).
    exists (x08 :: b). rewrite F. cbn [ser_varint_field Z.eqb bind app]. rewrite app_nil_r.
    split; [reflexivity|]. split; [|split; [|split; [cbn [length]; lia|split; [congruence|lia]]]].
    + exists (x08 :: b), []. rewrite app_nil_r. repeat split; [right; split; [exact Hs0|exists b; auto]|left; auto].
    + cbn [length]. rewrite load_loop_cons by congruence.
      replace (x08 :: b) with ([x08] ++ b ++ []) by (rewrite app_nil_r; reflexivity).
      rewrite (load_step_varint h_sn _ 1 s [x08] b [] (0, 0) (s, 0)); try lia; try assumption.
      * destruct (length b); reflexivity.
      * exact enc_key_1_0.
      * apply h_sn_1, Hs.
  - destruct (ser_varint_field_1 s Hs Hs0) as (b1 & E1 & F1 & C1 & L1).
    destruct (ser_varint_field_2 n ltac:(lia) Hn0) as (b2 & E2 & F2 & C2 & L2).
    exists ((x08 :: b1) ++ (x10 :: b2)). rewrite F1, F2. cbn [bind].
    split; [reflexivity|]. split; [|split; [|split; [rewrite app_length; cbn [length]; lia|split; [cbn; congruence|lia]]]].
    + exists (x08 :: b1), (x10 :: b2). repeat split; right; split; auto; eexists; eauto.
    + assert (Hl : exists f, length ((x08 :: b1) ++ x10 :: b2) = S (S f)).
      { rewrite app_length. cbn [length]. exists (length b1 + length b2)%nat. lia. }
      destruct Hl as (f & ->).
      rewrite load_loop_cons by (cbn; congruence).
      replace ((x08 :: b1) ++ x10 :: b2) with ([x08] ++ b1 ++ (x10 :: b2)) by reflexivity.
      rewrite (load_step_varint h_sn _ 1 s [x08] b1 (x10 :: b2) (0, 0) (s, 0)); try lia; try assumption;
        [|exact enc_key_1_0|apply h_sn_1, Hs].
      rewrite load_loop_cons by congruence.
      replace (x10 :: b2) with ([x10] ++ b2 ++ []) by (rewrite app_nil_r; reflexivity).
      rewrite (load_step_varint h_sn _ 2 n [x10] b2 [] (s, 0) (s, n)); try lia; try assumption;
        [|exact enc_key_2_0|apply h_sn_2, Hn].
      destruct f; reflexivity.
Qed.

(* a message-typed field: encoder meets the wire specification, Message.load finds the payload *)
Lemma outer_roundtrip {A} (conv : list byte -> result A) fno inner (st0 v : A) :
  0 < fno < 2 ^ 29 -> Zlength inner < 2 ^ 63 -> conv inner = Ok v ->
  exists bs, ser_msg_field fno inner = Ok bs /\ msg_field_wire fno inner bs /\
             load_loop (h_outer conv fno) (S (length bs)) bs st0 = Ok v.
Proof.
  intros Hf Hl Hc. unfold ser_msg_field.
  assert (Hl0 : 0 <= Zlength inner) by (unfold Zlength; lia).
  rewrite key_of_arith by lia.
  destruct (encode_in_range (2 + fno * 8) ltac:(lia)) as (kb & Ek & Ck & _).
  destruct (encode_in_range (Zlength inner) ltac:(lia)) as (lb & El & Cl & _).
  unfold wrap64 in *. rewrite Z.mod_small in Ck, Cl by lia.
  rewrite Ek, El. cbn [bind]. exists (kb ++ lb ++ inner).
  split; [reflexivity|]. split; [exists kb, lb; auto|].
  assert (Hne : kb ++ lb ++ inner <> []).
  { destruct Ck as (Sh & _). apply varint_shape_nonempty in Sh. destruct kb; [congruence|discriminate]. }
  rewrite load_loop_cons by exact Hne.
  replace (kb ++ lb ++ inner) with (kb ++ lb ++ inner ++ []) at 2 by (rewrite app_nil_r; reflexivity).
  rewrite (load_step_lendelim (h_outer conv fno) _ fno kb lb inner [] st0 v); try lia.
  - destruct (length (kb ++ lb ++ inner)) eqn:E; [|reflexivity].
    apply length_zero_iff_nil in E. contradiction.
  - rewrite key_of_arith by lia. exact Ek.
  - exact El.
  - unfold h_outer. replace ((fno =? fno) && (2 =? 2)) with true by lia. exact Hc.
Qed.

Lemma Zlength_le_22 (l : list byte) : (length l <= 22)%nat -> Zlength l < 2 ^ 63.
Proof. unfold Zlength. lia. Qed.

Theorem bytes_parse_ts fno dt :
  0 < fno < 2 ^ 29 -> in_ts_range (instant dt) ->
  exists bs, bytes_ts fno dt = Ok bs /\ ts_field_wire fno (instant dt) bs /\
             parse_ts fno bs = Ok (mkdt (instant dt) 0).
Proof.
  intros Hf R. unfold bytes_ts, parse_ts.
  destruct (instant dt =? 0) eqn:Z0.
  - exists []. split; [reflexivity|]. split; [left; split; [lia|reflexivity]|].
    cbn. replace (instant dt) with 0 by lia. reflexivity.
  - pose proof (to_from_datetime dt R) as T. rewrite from_datetime_is_spec in *.
    unfold ts_of_us in *. set (s := instant dt / 1000000) in *. set (n := instant dt mod 1000000 * 1000) in *.
    assert (Hs : - 2 ^ 63 <= s < 2 ^ 63) by (unfold in_ts_range, TS_MIN_US, TS_MAX_US in R; subst s; lia).
    assert (Hn : - 2 ^ 31 <= n < 2 ^ 31) by (subst n; lia).
    destruct (bytes_parse_sn s n Hs Hn) as (inner & Ei & Wi & Pi & Li & _).
    rewrite Ei. cbn [bind].
    destruct (outer_roundtrip (fun p => do (s, n) <- parse_sn p; to_datetime s n) fno inner DATETIME_ZERO
                (mkdt (instant dt) 0) Hf (Zlength_le_22 _ Li)) as (bs & Eb & Wb & Pb).
    { rewrite Pi. cbn [bind]. exact T. }
    exists bs. split; [exact Eb|]. split; [|exact Pb].
    right. split; [lia|]. exists inner. split; [exact Wb|]. exact Wi.
Qed.

Theorem bytes_parse_dur fno d :
  0 < fno < 2 ^ 29 -> Z.abs (td_days d) <= 999999999 ->
  exists bs, bytes_dur fno d = Ok bs /\ dur_field_wire fno d bs /\ parse_dur fno bs = Ok d.
Proof.
  intros Hf R. unfold bytes_dur, parse_dur.
  destruct (d =? 0) eqn:Z0.
  - exists []. split; [reflexivity|]. split; [left; split; [lia|reflexivity]|].
    cbn. f_equal. lia.
  - pose proof (to_from_timedelta d R) as T. rewrite from_timedelta_is_spec in *.
    unfold dur_of_us in *. set (s := Z.quot d 1000000) in *. set (n := Z.rem d 1000000 * 1000) in *.
    assert (Hs : - 2 ^ 63 <= s < 2 ^ 63) by (unfold td_days, DAY_US in R; subst s; lia).
    assert (Hn : - 2 ^ 31 <= n < 2 ^ 31) by (subst n; lia).
    destruct (bytes_parse_sn s n Hs Hn) as (inner & Ei & Wi & Pi & Li & _).
    rewrite Ei. cbn [bind].
    destruct (outer_roundtrip (fun p => do (s, n) <- parse_sn p; to_timedelta s n) fno inner 0 d Hf (Zlength_le_22 _ Li))
      as (bs & Eb & Wb & Pb).
    { rewrite Pi. cbn [bind]. exact T. }
    exists bs. split; [exact Eb|]. split; [|exact Pb].
    right. split; [lia|]. exists inner. split; [exact Wb|]. exact Wi.
Qed.

(* time zones: the bytes depend on the instant only *)
Theorem bytes_ts_tz fno a b : instant a = instant b -> bytes_ts fno a = bytes_ts fno b.
Proof. intros H. unfold bytes_ts. rewrite (from_datetime_tz a b H), H. reflexivity. Qed.

(* len(m) is the length of bytes(m), by the same walk *)
Theorem len_ts_bytes fno dt : match bytes_ts fno dt, len_ts fno dt with
                              | Ok b, Ok n => n = Zlength b | Err a, Err b => a = b | _, _ => False end.
Proof. unfold len_ts. destruct (bytes_ts fno dt); cbn [bind]; reflexivity. Qed.
Theorem len_dur_bytes fno d : match bytes_dur fno d, len_dur fno d with
                              | Ok b, Ok n => n = Zlength b | Err a, Err b => a = b | _, _ => False end.
Proof. unfold len_dur. destruct (bytes_dur fno d); cbn [bind]; reflexivity. Qed.

(* ====================================================================================== *)
(* 3. decimal notation                                                                     *)
(* ====================================================================================== *)
Lemma digit_byte d : 0 <= d <= 9 -> Z_of_byte (digit d) = 48 + d.
Proof. intros H. unfold digit. apply Z_of_byte_of_Z. lia. Qed.

Lemma digit_is_digit d : 0 <= d <= 9 -> is_digit (digit d) = true.
Proof. intros H. unfold is_digit. rewrite digit_byte by exact H. lia. Qed.

Lemma dval_app l b : dval (l ++ [b]) = 10 * dval l + (Z_of_byte b - 48).
Proof. unfold dval. rewrite fold_left_app. reflexivity. Qed.

Lemma dval_snoc_digit l d : 0 <= d <= 9 -> dval (l ++ [digit d]) = 10 * dval l + d.
Proof. intros H. rewrite dval_app, digit_byte by exact H. lia. Qed.

Lemma pad_length k n : length (pad k n) = k.
Proof. revert n; induction k as [|k IH]; intros n; cbn [pad]; [reflexivity|]. rewrite app_length, IH. cbn. lia. Qed.

Lemma pad_digits k n : Forall (fun b => is_digit b = true) (pad k n).
Proof.
  revert n; induction k as [|k IH]; intros n; cbn [pad]; [constructor|].
  apply Forall_app. split; [apply IH|]. constructor; [|constructor]. apply digit_is_digit. lia.
Qed.

Lemma dval_pad k n : 0 <= n -> dval (pad k n) = n mod 10 ^ Z.of_nat k.
Proof.
  revert n; induction k as [|k IH]; intros n Hn.
  - cbn. rewrite Z.mod_1_r. reflexivity.
  - cbn [pad]. rewrite dval_snoc_digit by lia. rewrite IH by lia.
    rewrite Nat2Z.inj_succ, Z.pow_succ_r by lia.
    assert (P : 0 < 10 ^ Z.of_nat k) by (apply Z.pow_pos_nonneg; lia).
    rewrite Z.rem_mul_r by lia. lia.
Qed.

Lemma pad_zero k : pad k 0 = repeat c0 k.
Proof.
  induction k as [|k IH]; [reflexivity|]. cbn [pad]. change (0 / 10) with 0. change (0 mod 10) with 0.
  rewrite IH. change (digit 0) with c0. symmetry. apply repeat_cons.
Qed.

Lemma digs_digits f n : 0 <= n -> Forall (fun b => is_digit b = true) (digs f n).
Proof.
  revert n; induction f as [|f IH]; intros n Hn; cbn [digs]; [constructor|].
  apply Forall_app. split.
  - destruct (n / 10 =? 0); [constructor|]. apply IH. lia.
  - constructor; [|constructor]. apply digit_is_digit. lia.
Qed.

Lemma dval_digs f n : 0 <= n < 10 ^ Z.of_nat f -> dval (digs f n) = n.
Proof.
  revert n; induction f as [|f IH]; intros n Hn.
  - cbn in Hn. assert (n = 0) by lia. subst. reflexivity.
  - cbn [digs]. rewrite dval_snoc_digit by lia.
    rewrite Nat2Z.inj_succ, Z.pow_succ_r in Hn by lia.
    destruct (n / 10 =? 0) eqn:E.
    + cbn. lia.
    + rewrite IH by lia. lia.
Qed.

Lemma digs_nonempty f n : digs (S f) n <> [].
Proof. cbn [digs]. destruct (if n / 10 =? 0 then [] else digs f (n / 10)); discriminate. Qed.

Lemma dec_fuel n : 0 <= n -> n < 10 ^ Z.of_nat (S (Z.to_nat (Z.log2 n))).
Proof.
  intros Hn. destruct (Z.eq_dec n 0) as [->|Hne]; [cbn; lia|].
  pose proof (Z.log2_spec n ltac:(lia)) as [_ Hs]. pose proof (Z.log2_nonneg n).
  rewrite Nat2Z.inj_succ, Z2Nat.id by lia.
  apply Z.lt_le_trans with (2 ^ Z.succ (Z.log2 n)); [exact Hs|].
  apply Z.pow_le_mono_l. lia.
Qed.

Lemma dval_dec n : 0 <= n -> dval (dec n) = n.
Proof. intros Hn. apply dval_digs. split; [exact Hn|apply dec_fuel, Hn]. Qed.
Lemma dec_digits n : 0 <= n -> Forall (fun b => is_digit b = true) (dec n).
Proof. intros Hn. apply digs_digits, Hn. Qed.
Lemma dec_nonempty n : dec n <> [].
Proof. apply digs_nonempty. Qed.

(* f"{x:0kd}" prints exactly k digits when x < 10^k *)
Lemma fmt0_digs k : forall f x, 0 <= x < 10 ^ Z.of_nat (S k) -> x < 10 ^ Z.of_nat (S f) ->
  repeat c0 (S k - length (digs (S f) x)) ++ digs (S f) x = pad (S k) x.
Proof.
  induction k as [|k IH]; intros f x Hx Hf.
  - change (Z.of_nat 1) with 1 in Hx. rewrite Z.pow_1_r in Hx.
    cbn [digs pad]. replace (x / 10 =? 0) with true by lia. cbn. reflexivity.
  - change (pad (S (S k)) x) with (pad (S k) (x / 10) ++ [digit (x mod 10)]).
    change (digs (S f) x) with ((if x / 10 =? 0 then [] else digs f (x / 10)) ++ [digit (x mod 10)]).
    rewrite (Nat2Z.inj_succ (S k)), Z.pow_succ_r in Hx by lia.
    destruct (x / 10 =? 0) eqn:E.
    + cbn [app length]. replace (x / 10) with 0 by lia. rewrite pad_zero.
      replace (S (S k) - 1)%nat with (S k) by lia. reflexivity.
    + destruct f as [|f].
      { change (Z.of_nat 1) with 1 in Hf. rewrite Z.pow_1_r in Hf. lia. }
      rewrite (Nat2Z.inj_succ (S f)), Z.pow_succ_r in Hf by lia.
      rewrite app_length. cbn [length].
      replace (S (S k) - (length (digs (S f) (x / 10)) + 1))%nat with (S k - length (digs (S f) (x / 10)))%nat by lia.
      rewrite app_assoc. rewrite IH by lia. reflexivity.
Qed.

Lemma fmt0_pad k x : 0 <= x < 10 ^ Z.of_nat (S k) -> fmt0 (S k) x = pad (S k) x.
Proof.
  intros Hx. unfold fmt0, dec. apply fmt0_digs; [exact Hx|apply dec_fuel; lia].
Qed.

Lemma span_digits_app ds rest :
  Forall (fun b => is_digit b = true) ds ->
  match rest with [] => True | c :: _ => is_digit c = false end ->
  span_digits (ds ++ rest) = (ds, rest).
Proof.
  intros Hd Hr. induction Hd as [|d ds Hd1 _ IH].
  - cbn [app]. destruct rest as [|c r]; [reflexivity|]. cbn [span_digits]. rewrite Hr. reflexivity.
  - cbn [app span_digits]. rewrite Hd1, IH. reflexivity.
Qed.

Lemma digit_not b c : is_digit b = true -> is_digit c = false -> Byte.eqb b c = false.
Proof.
  intros Hb Hc. destruct (Byte.eqb b c) eqn:E; [|reflexivity].
  apply Byte.byte_dec_bl in E. subst. congruence.
Qed.

(* ====================================================================================== *)
(* 4. JSON forms                                                                            *)
(* ====================================================================================== *)
Lemma is_nil_pad k n : is_nil (pad (S k) n) = false.
Proof. cbn [pad]. destruct (pad k (n / 10)); reflexivity. Qed.
Lemma is_nil_dec n : is_nil (dec n) = false.
Proof. pose proof (dec_nonempty n). destruct (dec n); [congruence|reflexivity]. Qed.

(* timestamp_to_json never takes its broken last branch and writes the RFC 3339 form of the instant *)
Theorem timestamp_to_json_is_spec cal dt :
  timestamp_to_json cal dt = Ok (ts_json cal (snd (ts_of_us (instant dt)))).
Proof.
  unfold timestamp_to_json, timestamp_to_json_us, ts_json, ts_of_us, frac. cbn [snd].
  set (u := instant dt mod 1000000). assert (Hu : 0 <= u < 1000000) by (subst u; lia).
  destruct (u * 1000 mod 1000000000 =? 0) eqn:E1; [reflexivity|].
  destruct (u * 1000 mod 1000000 =? 0) eqn:E2.
  - rewrite (fmt0_pad 2) by (change (10 ^ Z.of_nat 3) with 1000; lia). reflexivity.
  - replace (u * 1000 mod 1000 =? 0) with true by lia.
    rewrite (fmt0_pad 5) by (change (10 ^ Z.of_nat 6) with 1000000; lia). reflexivity.
Qed.

(* reading the suffix back gives the microsecond *)
Theorem ts_suffix_roundtrip u : 0 <= u < 1000000 -> ts_suffix_parse (frac (u * 1000) ++ [cZ]) = Some u.
Proof.
  intros Hu. unfold frac.
  destruct (u * 1000 mod 1000000000 =? 0) eqn:E1.
  - cbn. f_equal. lia.
  - assert (Hz : is_digit cZ = false) by reflexivity.
    destruct (u * 1000 mod 1000000 =? 0) eqn:E2; [|replace (u * 1000 mod 1000 =? 0) with true by lia];
      cbn [app]; unfold ts_suffix_parse;
      change (Byte.eqb cDOT cZ) with false; change (Byte.eqb cDOT cDOT) with true; cbv iota;
      rewrite span_digits_app by (try apply pad_digits; exact Hz);
      rewrite is_nil_pad; change (Byte.eqb cZ cZ && is_nil []) with true; cbv iota;
      rewrite firstn_all2 by (rewrite pad_length; lia); rewrite pad_length, dval_pad by lia; f_equal.
    + change (10 ^ Z.of_nat 3) with 1000. change (10 ^ (6 - Z.of_nat 3)) with 1000. lia.
    + change (10 ^ Z.of_nat 6) with 1000000. change (10 ^ (6 - Z.of_nat 6)) with 1. lia.
Qed.

(* Duration: outside whole seconds the string is the reference's *)
Theorem delta_to_json_is_spec d : d mod 1000000 <> 0 ->
  delta_to_json d = dur_json (fst (dur_of_us d)) (snd (dur_of_us d)).
Proof.
  intros Hd. unfold delta_to_json, dur_json, dur_of_us, frac. cbn [fst snd].
  change (10 ^ 6) with 1000000.
  replace ((Z.quot d 1000000 <? 0) || (Z.rem d 1000000 * 1000 <? 0)) with (d <? 0) by lia.
  replace (Z.abs (Z.quot d 1000000)) with (Z.abs d / 1000000) by lia.
  replace (Z.abs (Z.rem d 1000000 * 1000)) with (Z.abs d mod 1000000 * 1000) by lia.
  set (u := Z.abs d mod 1000000). assert (Hu : 0 < u < 1000000) by (subst u; lia).
  replace (u * 1000 mod 1000000000 =? 0) with false by lia.
  replace (u * 1000 mod 1000000 =? 0) with (u mod 1000 =? 0) by lia.
  destruct (u mod 1000 =? 0) eqn:E.
  - rewrite (fmt0_pad 2) by (change (10 ^ Z.of_nat 3) with 1000; lia).
    replace (u * 1000 / 1000000) with (u / 1000) by lia. reflexivity.
  - replace (u * 1000 mod 1000 =? 0) with true by lia.
    rewrite (fmt0_pad 5) by (change (10 ^ Z.of_nat 6) with 1000000; lia).
    replace (u * 1000 / 1000) with u by lia. reflexivity.
Qed.

(* the shape of every string delta_to_json writes: sign, integer part, ".", k digits, "s" *)
Lemma delta_to_json_shape d :
  exists k x, (k = 2%nat /\ x = Z.abs d mod 1000000 / 1000 /\ Z.abs d mod 1000 = 0 \/ k = 5%nat /\ x = Z.abs d mod 1000000) /\
    delta_to_json d = (if d <? 0 then [cMINUS] else []) ++ dec (Z.abs d / 1000000) ++ [cDOT] ++ pad (S k) x ++ [cS].
Proof.
  unfold delta_to_json. change (10 ^ 6) with 1000000.
  set (u := Z.abs d mod 1000000). assert (Hu : 0 <= u < 1000000) by (subst u; lia).
  destruct (u mod 1000 =? 0) eqn:E.
  - exists 2%nat, (u / 1000). split; [left; repeat split; subst u; lia|].
    rewrite (fmt0_pad 2) by (change (10 ^ Z.of_nat 3) with 1000; lia). reflexivity.
  - exists 5%nat, u. split; [right; split; reflexivity|].
    rewrite (fmt0_pad 5) by (change (10 ^ Z.of_nat 6) with 1000000; lia). reflexivity.
Qed.

Lemma dur_parse_shape (neg : bool) S k x :
  0 <= S -> 0 <= x -> (k < 9)%nat ->
  dur_parse ((if neg then [cMINUS] else []) ++ dec S ++ [cDOT] ++ pad (Datatypes.S k) x ++ [cS]) =
  let sgn := if neg then -1 else 1 in
  Some (sgn * S, sgn * (x mod 10 ^ Z.of_nat (Datatypes.S k) * 10 ^ (9 - Z.of_nat (Datatypes.S k)))).
Proof.
  intros HS Hx Hk.
  assert (Hbody : dur_parse_unsigned neg (dec S ++ [cDOT] ++ pad (Datatypes.S k) x ++ [cS]) =
                  let sgn := if neg then -1 else 1 in
                  Some (sgn * S, sgn * (x mod 10 ^ Z.of_nat (Datatypes.S k) * 10 ^ (9 - Z.of_nat (Datatypes.S k))))).
  { unfold dur_parse_unsigned.
    rewrite span_digits_app by (try apply dec_digits; try exact HS; reflexivity).
    rewrite is_nil_dec. cbn [app].
    change (Byte.eqb cDOT cS) with false. change (Byte.eqb cDOT cDOT) with true. cbv iota.
    rewrite span_digits_app by (try apply pad_digits; reflexivity).
    rewrite is_nil_pad. change (Byte.eqb cS cS && is_nil []) with true. rewrite pad_length.
    replace (true && (Z.of_nat (Datatypes.S k) <=? 9)) with true by lia. cbv iota.
    rewrite dval_dec, dval_pad by lia. reflexivity. }
  destruct neg.
  - cbn [app]. unfold dur_parse. change (Byte.eqb cMINUS cMINUS) with true. cbv iota. exact Hbody.
  - cbn [app]. unfold dur_parse.
    pose proof (dec_digits S HS) as Hd. pose proof (dec_nonempty S) as Hn.
    destruct (dec S) as [|b l] eqn:E; [congruence|].
    cbn [app]. inversion Hd as [|? ? Hb _]; subst.
    rewrite (digit_not b cMINUS Hb) by reflexivity.
    exact Hbody.
Qed.

(* a conforming reader (the reference's FromJsonString) reads every string delta_to_json writes as
   the reference's pair - the whole-second strings "N.000s" included *)
Theorem dur_parse_delta_to_json d : dur_parse (delta_to_json d) = Some (dur_of_us d).
Proof.
  destruct (delta_to_json_shape d) as (k & x & Hkx & ->).
  assert (Hx : 0 <= x) by (destruct Hkx as [(_ & -> & _)|(_ & ->)]; lia).
  rewrite (dur_parse_shape (d <? 0) (Z.abs d / 1000000) k x) by (destruct Hkx as [(-> & _)|(-> & _)]; lia).
  cbv zeta. unfold dur_of_us. f_equal.
  destruct Hkx as [(-> & -> & H0)|(-> & ->)].
  - change (10 ^ Z.of_nat 3) with 1000. change (10 ^ (9 - Z.of_nat 3)) with 1000000.
    destruct (d <? 0) eqn:E; f_equal; lia.
  - change (10 ^ Z.of_nat 6) with 1000000. change (10 ^ (9 - Z.of_nat 6)) with 1000.
    destruct (d <? 0) eqn:E; f_equal; lia.
Qed.

(* from_dict reads back what to_dict wrote, exactly *)
Lemma dec_tokens_shape (neg : bool) S k x :
  0 <= S -> dec_tokens ((if neg then [cMINUS] else []) ++ dec S ++ [cDOT] ++ pad (Datatypes.S k) x) =
            Some (neg, dec S, pad (Datatypes.S k) x).
Proof.
  intros HS. unfold dec_tokens.
  assert (Hb : forall r0, r0 = dec S ++ [cDOT] ++ pad (Datatypes.S k) x ->
    (let '(ip, r1) := span_digits r0 in
     let '(fp, r2) := match r1 with b :: r => if Byte.eqb b cDOT then span_digits r else ([], r1) | [] => ([], r1) end in
     if is_nil r2 && negb (is_nil (ip ++ fp)) then Some (neg, ip, fp) else None) = Some (neg, dec S, pad (Datatypes.S k) x)).
  { intros r0 ->. rewrite span_digits_app by (try apply dec_digits; try exact HS; reflexivity).
    cbn [app]. change (Byte.eqb cDOT cDOT) with true. cbv iota.
    rewrite <- (app_nil_r (pad (Datatypes.S k) x)) at 1.
    rewrite span_digits_app by (try apply pad_digits; exact I).
    pose proof (dec_nonempty S). destruct (dec S); [congruence|]. reflexivity. }
  destruct neg.
  - cbn [app]. change (Byte.eqb cMINUS cMINUS) with true. cbv iota. apply Hb. reflexivity.
  - cbn [app]. pose proof (dec_digits S HS) as Hd. pose proof (dec_nonempty S) as Hn.
    destruct (dec S) as [|b l] eqn:E; [congruence|].
    cbn [app]. inversion Hd as [|? ? Hb' _]; subst.
    rewrite (digit_not b cMINUS Hb'), (digit_not b cPLUS Hb') by reflexivity.
    apply Hb. reflexivity.
Qed.

Theorem parse_duration_delta_to_json d :
  Z.abs (td_days d) <= 999999999 -> parse_duration (delta_to_json d) = Ok d.
Proof.
  intros R. destruct (delta_to_json_shape d) as (k & x & Hkx & ->).
  unfold parse_duration.
  rewrite !app_assoc, removelast_last, <- !app_assoc.
  rewrite dec_tokens_shape by lia. rewrite dval_dec by lia. change (10 ^ 6) with 1000000.
  assert (E : dval (firstn 6 (pad (S k) x ++ repeat c0 6)) = Z.abs d mod 1000000).
  { destruct Hkx as [(-> & -> & H0)|(-> & ->)].
    - replace (firstn 6 (pad 3 (Z.abs d mod 1000000 / 1000) ++ repeat c0 6))
        with (pad 3 (Z.abs d mod 1000000 / 1000) ++ [c0; c0; c0]).
      + change [c0; c0; c0] with ([c0] ++ [c0] ++ [c0]). rewrite !app_assoc.
        change c0 with (digit 0). rewrite !dval_snoc_digit by lia. rewrite dval_pad by lia.
        change (10 ^ Z.of_nat 3) with 1000. lia.
      + rewrite firstn_app, pad_length. rewrite firstn_all2 by (rewrite pad_length; lia). reflexivity.
    - rewrite firstn_app, pad_length. rewrite firstn_all2 by (rewrite pad_length; lia).
      cbn [Nat.sub firstn]. rewrite app_nil_r, dval_pad by lia. change (10 ^ Z.of_nat 6) with 1000000. lia. }
  rewrite E. unfold timedelta_new.
  replace (0 * 1000000 + (if d <? 0 then - (Z.abs d / 1000000 * 1000000 + Z.abs d mod 1000000) else Z.abs d / 1000000 * 1000000 + Z.abs d mod 1000000))
    with d by (destruct (d <? 0) eqn:Hs; lia).
  replace (Z.abs (td_days d) >? 999999999) with false by lia. reflexivity.
Qed.

(* ====================================================================================== *)
(* 5. uniqueness of the wire form: the bytes are THE canonical proto3 bytes               *)
(* ====================================================================================== *)
Lemma field_varint_unique key v a b : field_varint key v a -> field_varint key v b -> a = b.
Proof.
  intros [(Hz & ->)|(Hn & x & -> & Cx)] [(Hz' & ->)|(Hn' & y & -> & Cy)]; try congruence.
  f_equal. eapply canonical_unique; eassumption.
Qed.

Lemma field_varint_head key v a : field_varint key v a -> a = [] \/ exists t, a = key :: t.
Proof. intros [(_ & ->)|(_ & x & -> & _)]; [left; reflexivity|right; eexists; reflexivity]. Qed.

Theorem sn_wire_unique s n a b : sn_wire s n a -> sn_wire s n b -> a = b.
Proof.
  intros (a1 & a2 & -> & A1 & A2) (b1 & b2 & -> & B1 & B2).
  rewrite (field_varint_unique _ _ _ _ A1 B1), (field_varint_unique _ _ _ _ A2 B2). reflexivity.
Qed.

(* ====================================================================================== *)
(* 6. the pinned (float) code: refutations, computed on the exact binary64 model          *)
(* ====================================================================================== *)
Definition str (l : list byte) := l.

(* timedelta(seconds=-1.5): seconds and nanos of opposite sign; the pair reads back as -0.5 s *)
Lemma pinned_negfrac :
  from_timedelta_pinned (-1500000) = (-1, 500000000) /\ dur_of_us (-1500000) = (-1, -500000000) /\
  (do b <- bytes_dur_pinned 1 (-1500000); parse_dur_pinned 1 b) = Ok (-500000) /\
  from_timedelta_pinned (-1) = (0, 999999000) /\ dur_of_us (-1) = (0, -1000) /\
  (do b <- bytes_dur_pinned 1 (-1); parse_dur_pinned 1 b) = Ok 999999.
Proof. vm_compute. repeat split. Qed.

(* beyond 2^53 us the microsecond digit is lost; near the range end the seconds round up *)
Lemma pinned_2p53 :
  from_timedelta_pinned (2 ^ 53 + 1) = (9007199254, 740992000) /\ dur_of_us (2 ^ 53 + 1) = (9007199254, 740993000) /\
  from_timedelta_pinned 315575999999999999 = (315576000000, 0) /\ dur_of_us 315575999999999999 = (315575999999, 999999000).
Proof. vm_compute. repeat split. Qed.

(* sub-microsecond nanos: half-to-even instead of toward zero *)
Lemma pinned_to_timedelta_rounds :
  to_timedelta_pinned 0 1500 = Ok 2 /\ dur_to_us 0 1500 = 1 /\ to_timedelta 0 1500 = Ok 1 /\
  to_timedelta_pinned 0 999999999 = Ok 1000000 /\ dur_to_us 0 999999999 = 999999.
Proof. vm_compute. repeat split. Qed.

(* JSON: exponent notation; lost precision *)
Lemma pinned_json_exp :
  delta_to_json_pinned 1 = [x31; x65; x2d; x30; x36; x73] (* "1e-06s" *) /\ dur_parse (delta_to_json_pinned 1) = None /\
  delta_to_json_pinned 15 = [x31; x2e; x35; x65; x2d; x30; x35; x30; x73] (* "1.5e-050s" *) /\
  dur_json 0 1000 = [x30; x2e; x30; x30; x30; x30; x30; x31; x73] (* "0.000001s" *) /\ delta_to_json 1 = dur_json 0 1000.
Proof. vm_compute. repeat split. Qed.

Lemma pinned_json_precision :
  dur_parse (delta_to_json_pinned 315575999999999999) = Some (315576000000, 0) /\
  dur_of_us 315575999999999999 = (315575999999, 999999000) /\
  parse_duration_pinned (delta_to_json 315575999999999999) = Ok 315576000000000000 /\
  parse_duration (delta_to_json 315575999999999999) = Ok 315575999999999999.
Proof. vm_compute. repeat split. Qed.

(* a UTC offset that is not a whole number of seconds: the pinned code prints the local fraction *)
Lemma pinned_ts_json_offset :
  let cal := [x31; x39; x36; x39] in   (* stands for the calendar text; any text will do *)
  let dt := mkdt 499999 500000 in      (* instant -1 us, written at UTC+00:00:00.5 *)
  timestamp_to_json_pinned cal dt = Ok (ts_json cal 499999000) /\
  timestamp_to_json cal dt = Ok (ts_json cal 999999000) /\ snd (ts_of_us (instant dt)) = 999999000.
Proof. vm_compute. repeat split. Qed.

(* the repaired code, whole seconds: three fractional digits where the reference has none (known finding K15-1) *)
Lemma whole_seconds_json :
  delta_to_json 1000000 = [x31; x2e; x30; x30; x30; x73] (* "1.000s" *) /\ dur_json 1 0 = [x31; x73] (* "1s" *) /\
  dur_parse (delta_to_json 1000000) = Some (1, 0).
Proof. vm_compute. repeat split. Qed.

(* ====================================================================================== *)
(* 7. the binary64 model [rn] against Coq's primitive (hardware) floats                     *)
(*    (these checks use PrimFloat primitives; none of the property theorems depends on them) *)
(* ====================================================================================== *)
From Coq Require PrimFloat Uint63.

Definition prim_of_fl (x : fl) : PrimFloat.float :=
  let '(m, e) := x in
  let a := PrimFloat.of_uint63 (Uint63.of_Z (Z.abs m)) in
  let v := PrimFloat.ldshiftexp a (Uint63.of_Z (e + 2101)) in
  if m <? 0 then PrimFloat.opp v else v.

Definition prim_of_Z (z : Z) : PrimFloat.float :=
  let a := PrimFloat.of_uint63 (Uint63.of_Z (Z.abs z)) in if z <? 0 then PrimFloat.opp a else a.

(* int -> float, float division, float multiplication agree with the hardware on these operands *)
Definition rn_conv_ok (z : Z) : bool := PrimFloat.eqb (prim_of_Z z) (prim_of_fl (rn z 1)).
Definition rn_div_ok (a b : Z) : bool :=   (* a, b exactly representable *)
  PrimFloat.eqb (PrimFloat.div (prim_of_Z a) (prim_of_Z b)) (prim_of_fl (rn a b)).
Definition rn_mul_ok (a : Z) (x : fl) : bool :=
  PrimFloat.eqb (PrimFloat.mul (prim_of_Z a) (prim_of_fl x)) (prim_of_fl (rn (a * fl_num x) (fl_den x))).

Definition cross_values : list Z :=
  [1; 3; 15; 99; 1500000; 999999; 123456789; 2 ^ 53 - 1; 2 ^ 53; 2 ^ 53 + 1; 2 ^ 53 + 3; 2 ^ 54 + 2; 2 ^ 54 + 6;
   315575999999999999; 315576000000000000; 9007199254740993; 17179869183999999; 2 ^ 62 + 2 ^ 9; 2 ^ 62 + 2 ^ 9 + 1; 86399999999999999].

Example rn_matches_hardware :
  forallb rn_conv_ok (cross_values ++ map Z.opp cross_values) = true /\
  forallb (fun z => rn_div_ok (fl_trunc (rn z 1)) 1000000) (cross_values ++ map Z.opp cross_values) = true /\
  forallb (fun z => rn_div_ok z 1000) [1; 1500; 2500; 999999999; -1500; -1; 123456789; 2147483647; -2147483648] = true /\
  forallb (fun z => rn_mul_ok 1000000 (rn (z mod 1000000) 1000000)) cross_values = true.
Proof. vm_compute. repeat split. Qed.

(* ====================================================================================== *)
(* 8. decoding what any conforming writer sends (not only our own encoder's output)        *)
(* ====================================================================================== *)
Lemma canonical_load n bs rest : 0 <= n < 2 ^ 64 -> canonical n bs -> load_varint (bs ++ rest) = Ok (n, bs, rest).
Proof.
  intros Hn C. apply load_varint_rep. destruct C as (Sh & Va & Mi).
  repeat split; try assumption. apply (canonical_length_lt_2p64 n bs); [repeat split; assumption|exact Hn].
Qed.

Lemma load_step_lendelim_wire {A} (h : A -> Z -> Z -> pval -> result A) rec fno kb lb p rest st :
  0 < fno < 2 ^ 60 -> canonical (2 + fno * 8) kb -> Zlength p < 2 ^ 64 -> canonical (Zlength p) lb ->
  load_step h rec (kb ++ lb ++ p ++ rest) st = (do st' <- h st fno 2 (PRaw p); rec rest st').
Proof.
  intros Hf Ck Hp Cl. unfold load_step.
  assert (Hk : 0 <= 2 + fno * 8 < 2 ^ 64) by lia.
  rewrite (canonical_load _ _ _ Hk Ck). cbn [bind].
  rewrite key_num, key_wt by lia. replace (fno =? 0) with false by lia.
  unfold read_payload. cbn [Z.eqb Pos.eqb].
  assert (Hl0 : 0 <= Zlength p < 2 ^ 64) by (unfold Zlength in *; lia).
  rewrite (canonical_load _ _ _ Hl0 Cl). cbn [bind].
  rewrite read_exactly_app. cbn [bind]. reflexivity.
Qed.

Lemma outer_wire {A} (conv : list byte -> result A) fno inner bs (st0 : A) :
  0 < fno < 2 ^ 29 -> Zlength inner < 2 ^ 63 -> msg_field_wire fno inner bs ->
  load_loop (h_outer conv fno) (S (length bs)) bs st0 = conv inner.
Proof.
  intros Hf Hl (kb & lb & -> & Ck & Cl).
  assert (Hne : kb ++ lb ++ inner <> []).
  { destruct Ck as (Sh & _). apply varint_shape_nonempty in Sh. destruct kb; [congruence|discriminate]. }
  rewrite load_loop_cons by exact Hne.
  replace (kb ++ lb ++ inner) with (kb ++ lb ++ inner ++ []) at 2 by (rewrite app_nil_r; reflexivity).
  rewrite (load_step_lendelim_wire (h_outer conv fno) _ fno kb lb inner [] st0); try lia; try assumption.
  unfold h_outer. replace ((fno =? fno) && (2 =? 2)) with true by lia.
  destruct (conv inner) as [v|k]; cbn [bind]; [|reflexivity].
  destruct (length (kb ++ lb ++ inner)) eqn:E; [|reflexivity].
  apply length_zero_iff_nil in E. contradiction.
Qed.

Lemma sn_wire_parse s n inner :
  - 2 ^ 63 <= s < 2 ^ 63 -> - 2 ^ 31 <= n < 2 ^ 31 -> sn_wire s n inner ->
  parse_sn inner = Ok (s, n) /\ (length inner <= 22)%nat.
Proof.
  intros Hs Hn W. destruct (bytes_parse_sn s n Hs Hn) as (bs & _ & W' & P & L & _).
  rewrite (sn_wire_unique s n inner bs W W'). auto.
Qed.

(* a Timestamp field written canonically by anyone, nanos anywhere in int32: betterproto returns
   exactly to_datetime of the pair (whose value / OverflowError is characterised above) *)
Theorem parse_ts_wire fno s n inner bs :
  0 < fno < 2 ^ 29 -> - 2 ^ 63 <= s < 2 ^ 63 -> - 2 ^ 31 <= n < 2 ^ 31 ->
  sn_wire s n inner -> msg_field_wire fno inner bs -> parse_ts fno bs = to_datetime s n.
Proof.
  intros Hf Hs Hn W Wb. destruct (sn_wire_parse s n inner Hs Hn W) as (P & L).
  unfold parse_ts. rewrite (outer_wire _ fno inner bs _ Hf (Zlength_le_22 _ L) Wb).
  rewrite P. reflexivity.
Qed.

Theorem parse_dur_wire fno s n inner bs :
  0 < fno < 2 ^ 29 -> - 2 ^ 63 <= s < 2 ^ 63 -> - 2 ^ 31 <= n < 2 ^ 31 ->
  sn_wire s n inner -> msg_field_wire fno inner bs -> parse_dur fno bs = to_timedelta s n.
Proof.
  intros Hf Hs Hn W Wb. destruct (sn_wire_parse s n inner Hs Hn W) as (P & L).
  unfold parse_dur. rewrite (outer_wire _ fno inner bs _ Hf (Zlength_le_22 _ L) Wb).
  rewrite P. reflexivity.
Qed.

(* ====================================================================================== *)
(* 9. the decoder loop is total: its fuel never runs out                                   *)
(* ====================================================================================== *)
Lemma load_varint_shorter s v raw rest : load_varint s = Ok (v, raw, rest) -> (length rest < length s)%nat.
Proof.
  intros H. apply load_varint_sound in H as (-> & Sh & _).
  apply shape_length_pos in Sh. rewrite app_length. lia.
Qed.

Lemma read_exactly_len n l p r : read_exactly n l = Ok (p, r) -> (length r <= length l)%nat.
Proof.
  unfold read_exactly. destruct (Zlength l <? n); [discriminate|]. intros [= <- <-].
  rewrite skipn_length. lia.
Qed.

Lemma read_payload_len wt r1 pv r2 : read_payload wt r1 = Ok (pv, r2) -> (length r2 <= length r1)%nat.
Proof.
  unfold read_payload.
  destruct (wt =? 0).
  { destruct (load_varint r1) as [[[v raw] r]|] eqn:L; cbn [bind]; [|discriminate].
    intros [= <- <-]. apply load_varint_shorter in L. lia. }
  destruct (wt =? 1).
  { destruct (read_exactly 8 r1) as [[p r]|] eqn:L; cbn [bind]; [|discriminate].
    intros [= <- <-]. eapply read_exactly_len; eassumption. }
  destruct (wt =? 2).
  { destruct (load_varint r1) as [[[len raw] r]|] eqn:L; cbn [bind]; [|discriminate].
    destruct (read_exactly len r) as [[p r']|] eqn:L2; cbn [bind]; [|discriminate].
    intros [= <- <-]. apply load_varint_shorter in L. apply read_exactly_len in L2. lia. }
  destruct (wt =? 5).
  { destruct (read_exactly 4 r1) as [[p r]|] eqn:L; cbn [bind]; [|discriminate].
    intros [= <- <-]. eapply read_exactly_len; eassumption. }
  destruct (wt =? 3); discriminate.
Qed.

Lemma load_loop_no_fuel_error {A} (h : A -> Z -> Z -> pval -> result A) :
  (forall st num wt pv, h st num wt pv <> Err EFuel) ->
  forall f bs st, (length bs < f)%nat -> load_loop h f bs st <> Err EFuel.
Proof.
  intros Hh. induction f as [|f IH]; intros bs st Hl; [lia|].
  destruct bs as [|b bs']; [cbn; discriminate|].
  cbn [load_loop]. unfold load_step.
  destruct (load_varint (b :: bs')) as [[[key raw] r1]|k] eqn:L; cbn [bind].
  - apply load_varint_shorter in L.
    destruct (Z.shiftr key 3 =? 0); [discriminate|].
    destruct (read_payload (Z.land key 7) r1) as [[pv r2]|k] eqn:P; cbn [bind].
    + apply read_payload_len in P.
      destruct (h st (Z.shiftr key 3) (Z.land key 7) pv) as [st'|k] eqn:H; cbn [bind].
      * apply IH. lia.
      * intros E. apply (Hh st (Z.shiftr key 3) (Z.land key 7) pv). rewrite H, E. reflexivity.
    + unfold read_payload in P.
      destruct (Z.land key 7 =? 0).
      { destruct (load_varint r1) as [[[v' raw'] r']|k'] eqn:L2; cbn [bind] in P; [discriminate|].
        injection P as <-. destruct (load_go_total 10 0 0 [] r1) as [(x & Hx)|[Hx|Hx]];
          unfold load_varint in L2; rewrite Hx in L2; congruence. }
      destruct (Z.land key 7 =? 1).
      { unfold read_exactly in P. destruct (Zlength r1 <? 8); cbn [bind] in P; congruence. }
      destruct (Z.land key 7 =? 2).
      { destruct (load_varint r1) as [[[v' raw'] r']|k'] eqn:L2; cbn [bind] in P.
        - unfold read_exactly in P. destruct (Zlength r' <? v'); cbn [bind] in P; congruence.
        - injection P as <-. destruct (load_go_total 10 0 0 [] r1) as [(x & Hx)|[Hx|Hx]];
            unfold load_varint in L2; rewrite Hx in L2; congruence. }
      destruct (Z.land key 7 =? 5).
      { unfold read_exactly in P. destruct (Zlength r1 <? 4); cbn [bind] in P; congruence. }
      destruct (Z.land key 7 =? 3); congruence.
  - destruct (load_go_total 10 0 0 [] (b :: bs')) as [(x & Hx)|[Hx|Hx]];
      unfold load_varint in L; rewrite Hx in L; congruence.
Qed.

Lemma h_sn_no_fuel st num wt pv : h_sn st num wt pv <> Err EFuel.
Proof.
  destruct st as [s n]. unfold h_sn. destruct pv; [|discriminate].
  destruct ((num =? 1) && (wt =? 0)); [discriminate|]. destruct ((num =? 2) && (wt =? 0)); discriminate.
Qed.

Theorem parse_sn_no_fuel bs : parse_sn bs <> Err EFuel.
Proof. unfold parse_sn. apply load_loop_no_fuel_error; [apply h_sn_no_fuel|lia]. Qed.

Lemma to_datetime_no_fuel s n : to_datetime s n <> Err EFuel.
Proof.
  unfold to_datetime, timedelta_new. destruct (Z.abs _ >? 999999999); cbn [bind]; [discriminate|].
  unfold dt_add. destruct (_ || _); discriminate.
Qed.
Lemma to_timedelta_no_fuel s n : to_timedelta s n <> Err EFuel.
Proof. unfold to_timedelta, timedelta_new. destruct (Z.abs _ >? 999999999); discriminate. Qed.

Theorem parse_ts_no_fuel fno bs : parse_ts fno bs <> Err EFuel.
Proof.
  unfold parse_ts. apply load_loop_no_fuel_error; [|lia].
  intros st num wt pv. unfold h_outer. destruct pv; [discriminate|].
  destruct ((num =? fno) && (wt =? 2)); [|discriminate].
  pose proof (parse_sn_no_fuel b). destruct (parse_sn b) as [[s n]|k]; cbn [bind]; [apply to_datetime_no_fuel|congruence].
Qed.

Theorem parse_dur_no_fuel fno bs : parse_dur fno bs <> Err EFuel.
Proof.
  unfold parse_dur. apply load_loop_no_fuel_error; [|lia].
  intros st num wt pv. unfold h_outer. destruct pv; [discriminate|].
  destruct ((num =? fno) && (wt =? 2)); [|discriminate].
  pose proof (parse_sn_no_fuel b). destruct (parse_sn b) as [[s n]|k]; cbn [bind]; [apply to_timedelta_no_fuel|congruence].
Qed.

(* ====================================================================================== *)
(* 10. property-level forms                                                                *)
(* ====================================================================================== *)
Theorem bytes_parse_dur_range fno d :
  0 < fno < 2 ^ 29 -> in_dur_range d ->
  exists bs, bytes_dur fno d = Ok bs /\ dur_field_wire fno d bs /\ parse_dur fno bs = Ok d.
Proof. intros Hf R. apply bytes_parse_dur; [exact Hf|apply dur_range_days, R]. Qed.

Theorem to_from_timedelta_range d :
  in_dur_range d -> let '(s, n) := from_timedelta d in to_timedelta s n = Ok d.
Proof. intros R. apply to_from_timedelta, dur_range_days, R. Qed.

Theorem parse_duration_delta_to_json_range d : in_dur_range d -> parse_duration (delta_to_json d) = Ok d.
Proof. intros R. apply parse_duration_delta_to_json, dur_range_days, R. Qed.

Lemma negfrac_refuted :
  exists d, in_dur_range d /\ from_timedelta_pinned d <> dur_of_us d /\
            ~ dur_normal (fst (from_timedelta_pinned d)) (snd (from_timedelta_pinned d)) /\
            (do b <- bytes_dur_pinned 1 d; parse_dur_pinned 1 b) <> Ok d.
Proof.
  exists (-1500000). destruct pinned_negfrac as (E1 & E2 & E3 & _).
  split; [unfold in_dur_range, DUR_MAX_S; lia|]. rewrite E1, E2, E3. cbn [fst snd].
  split; [discriminate|]. split; [unfold dur_normal; lia|discriminate].
Qed.

Lemma minus_one_us_refuted :
  exists d, in_dur_range d /\ from_timedelta_pinned d = (0, 999999000) /\ dur_of_us d = (0, -1000) /\
            (do b <- bytes_dur_pinned 1 d; parse_dur_pinned 1 b) = Ok 999999.
Proof.
  exists (-1). destruct pinned_negfrac as (_ & _ & _ & E1 & E2 & E3).
  split; [unfold in_dur_range, DUR_MAX_S; lia|]. auto.
Qed.

Lemma two_p53_refuted :
  exists d, in_dur_range d /\ 0 < d /\ from_timedelta_pinned d <> dur_of_us d /\
            ~ denotes_us (fst (from_timedelta_pinned d)) (snd (from_timedelta_pinned d)) d.
Proof.
  exists (2 ^ 53 + 1). destruct pinned_2p53 as (E1 & E2 & _).
  split; [unfold in_dur_range, DUR_MAX_S; lia|]. split; [lia|]. rewrite E1, E2. cbn [fst snd].
  split; [discriminate|unfold denotes_us; lia].
Qed.

Lemma range_end_refuted :
  exists d, in_dur_range d /\ from_timedelta_pinned d = (315576000000, 0) /\ dur_of_us d = (315575999999, 999999000).
Proof.
  exists 315575999999999999. destruct pinned_2p53 as (_ & _ & E1 & E2).
  split; [unfold in_dur_range, DUR_MAX_S; lia|]. auto.
Qed.

Lemma subus_rounding_refuted :
  exists s n, dur_normal s n /\ to_timedelta_pinned s n <> Ok (dur_to_us s n) /\ to_timedelta s n = Ok (dur_to_us s n).
Proof.
  exists 0, 1500. destruct pinned_to_timedelta_rounds as (E1 & E2 & E3 & _).
  split; [unfold dur_normal; lia|]. rewrite E1, E2, E3. split; [discriminate|reflexivity].
Qed.

Lemma json_exp_refuted :
  exists d, in_dur_range d /\ delta_to_json_pinned d <> dur_json (fst (dur_of_us d)) (snd (dur_of_us d)) /\
            dur_parse (delta_to_json_pinned d) = None.
Proof.
  exists 1. destruct pinned_json_exp as (E1 & E2 & _ & E4 & _).
  split; [unfold in_dur_range, DUR_MAX_S; lia|]. split; [|exact E2].
  change (dur_of_us 1) with (0, 1000). cbn [fst snd]. rewrite E1, E4. discriminate.
Qed.

Lemma json_precision_refuted :
  exists d, in_dur_range d /\ dur_parse (delta_to_json_pinned d) <> Some (dur_of_us d) /\
            parse_duration_pinned (delta_to_json d) <> Ok d /\ parse_duration (delta_to_json d) = Ok d.
Proof.
  exists 315575999999999999. destruct pinned_json_precision as (E1 & E2 & E3 & E4).
  split; [unfold in_dur_range, DUR_MAX_S; lia|]. rewrite E1, E2, E3, E4.
  split; [discriminate|]. split; [discriminate|reflexivity].
Qed.

Lemma ts_json_offset_refuted :
  exists cal dt, in_ts_range (instant dt) /\
    timestamp_to_json_pinned cal dt <> Ok (ts_json cal (snd (ts_of_us (instant dt)))) /\
    timestamp_to_json cal dt = Ok (ts_json cal (snd (ts_of_us (instant dt)))).
Proof.
  exists [x31; x39; x36; x39], (mkdt 499999 500000).
  split; [unfold in_ts_range, TS_MIN_US, TS_MAX_US, instant; cbn [wall off]; lia|].
  split; [vm_compute; discriminate|apply timestamp_to_json_is_spec].
Qed.

Lemma whole_seconds_refuted :
  exists d, in_dur_range d /\ d mod 1000000 = 0 /\ delta_to_json d <> dur_json (fst (dur_of_us d)) (snd (dur_of_us d)) /\
            dur_parse (delta_to_json d) = Some (dur_of_us d).
Proof.
  exists 1000000. destruct whole_seconds_json as (E1 & E2 & E3).
  split; [unfold in_dur_range, DUR_MAX_S; lia|]. split; [reflexivity|].
  change (dur_of_us 1000000) with (1, 0). cbn [fst snd]. rewrite E1, E2. split; [discriminate|exact E3].
Qed.
