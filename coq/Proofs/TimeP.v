(* Proofs about Model/Time.v against Spec/Time.v (property C15). *)
From BP Require Import Base.Prelude Model.Varint Model.Scalar Model.Time Spec.Varint Spec.Time.
From BP Require Import Proofs.BytesP Proofs.VarintP Proofs.ScalarP.
From Coq Require Import ZifyBool ZifyN.
Ltac Zify.zify_post_hook ::= Z.to_euclidean_division_equations.

(* ====================================================================================== *)
(* 1. the (seconds, nanos) pairs                                                           *)
(* ====================================================================================== *)

(* CPython's normal form loses nothing: days / seconds / microseconds recompose to the span *)
Lemma td_recompose u :
  (td_days u * 24 * 60 * 60 + td_seconds u) * 10 ^ 6 + td_microseconds u = u.
Proof.
  unfold td_days, td_seconds, td_microseconds, DAY_US.
  change (10 ^ 6) with 1000000. lia.
Qed.

Theorem from_datetime_is_spec dt : from_datetime dt = ts_of_us (instant dt).
Proof.
  assert (E : dt_sub dt DATETIME_ZERO = instant dt) by (unfold dt_sub, DATETIME_ZERO, instant; cbn [wall off]; lia).
  unfold from_datetime, ts_of_us. rewrite E, td_recompose. reflexivity.
Qed.

(* any two aware datetimes denoting the same instant are converted alike: the offset cancels *)
Theorem from_datetime_tz a b : instant a = instant b -> from_datetime a = from_datetime b.
Proof. intros H. rewrite !from_datetime_is_spec, H. reflexivity. Qed.

Theorem from_datetime_shift w o o' : from_datetime (mkdt (w + o) o) = from_datetime (mkdt (w + o') o').
Proof. apply from_datetime_tz. unfold instant; cbn [wall off]. lia. Qed.

(* the executable specification meets the relational one, and the relational one determines the pair *)
Lemma ts_of_us_normal t : let '(s, n) := ts_of_us t in ts_normal s n /\ denotes_us s n t /\ n mod 1000 = 0.
Proof. unfold ts_of_us, ts_normal, denotes_us. lia. Qed.

Lemma ts_pair_unique s n s' n' t :
  ts_normal s n -> denotes_us s n t -> ts_normal s' n' -> denotes_us s' n' t -> s = s' /\ n = n'.
Proof. unfold ts_normal, denotes_us. lia. Qed.

Lemma dur_of_us_normal d : let '(s, n) := dur_of_us d in dur_normal s n /\ denotes_us s n d /\ n mod 1000 = 0.
Proof. unfold dur_of_us, dur_normal, denotes_us. lia. Qed.

Lemma dur_pair_unique s n s' n' d :
  dur_normal s n -> denotes_us s n d -> dur_normal s' n' -> denotes_us s' n' d -> s = s' /\ n = n'.
Proof. unfold dur_normal, denotes_us. lia. Qed.

(* quot / rem in terms of floor division, the way the repaired code computes them *)
Lemma quot_rem_floor d :
  (Z.quot d 1000000, Z.rem d 1000000) =
  if (d / 1000000 <? 0) && (0 <? d mod 1000000) then (d / 1000000 + 1, d mod 1000000 - 1000000)
  else (d / 1000000, d mod 1000000).
Proof. destruct ((d / 1000000 <? 0) && (0 <? d mod 1000000)) eqn:C; f_equal; lia. Qed.

Theorem from_timedelta_is_spec d : from_timedelta d = dur_of_us d.
Proof.
  unfold from_timedelta, dur_of_us. change (10 ^ 6) with 1000000.
  pose proof (quot_rem_floor d) as E.
  destruct ((d / 1000000 <? 0) && (0 <? d mod 1000000)); injection E as -> ->; reflexivity.
Qed.

(* ---- back ---- *)
Lemma ts_range_days t : in_ts_range t -> Z.abs (td_days t) <= 999999999.
Proof. unfold in_ts_range, TS_MIN_US, TS_MAX_US, td_days, DAY_US. lia. Qed.

Theorem to_from_datetime dt :
  in_ts_range (instant dt) ->
  let '(s, n) := from_datetime dt in to_datetime s n = Ok (mkdt (instant dt) 0).
Proof.
  intros R. rewrite from_datetime_is_spec. unfold ts_of_us, to_datetime, timedelta_new.
  set (t := instant dt) in *.
  replace (t / 1000000 * 1000000 + t mod 1000000 * 1000 / 1000) with t by lia.
  pose proof (ts_range_days t R) as D.
  replace (Z.abs (td_days t) >? 999999999) with false by lia.
  cbn [bind]. unfold dt_add, DATETIME_ZERO; cbn [wall off].
  unfold in_ts_range, TS_MIN_US, TS_MAX_US in R. unfold DT_MIN_US, DT_MAX_US.
  replace ((0 + t <? -62135596800000000) || (253402300799999999 <? 0 + t)) with false by lia.
  reflexivity.
Qed.

(* outside the datetime range the decoder reports OverflowError instead of a wrong value *)
Theorem to_datetime_out_of_range s n :
  0 <= n < 1000000000 -> ~ in_ts_range (ts_to_us s n) -> to_datetime s n = Err EOverflow.
Proof.
  intros Hn R. unfold to_datetime, timedelta_new, ts_to_us in *.
  destruct (Z.abs (td_days (s * 1000000 + n / 1000)) >? 999999999) eqn:E; [reflexivity|].
  cbn [bind]. unfold dt_add, DATETIME_ZERO; cbn [wall off].
  unfold in_ts_range, TS_MIN_US, TS_MAX_US in R. unfold DT_MIN_US, DT_MAX_US.
  replace ((0 + (s * 1000000 + n / 1000) <? -62135596800000000) || (253402300799999999 <? 0 + (s * 1000000 + n / 1000))) with true by lia.
  reflexivity.
Qed.

(* every well-formed Timestamp in range (sub-microsecond nanos included) decodes to the reference's value *)
Theorem to_datetime_is_spec s n :
  in_ts_range (ts_to_us s n) -> to_datetime s n = Ok (mkdt (ts_to_us s n) 0).
Proof.
  intros R. unfold to_datetime, timedelta_new, ts_to_us in *.
  pose proof (ts_range_days _ R) as D.
  replace (Z.abs (td_days (s * 1000000 + n / 1000)) >? 999999999) with false by lia.
  cbn [bind]. unfold dt_add, DATETIME_ZERO; cbn [wall off].
  unfold in_ts_range, TS_MIN_US, TS_MAX_US in R. unfold DT_MIN_US, DT_MAX_US.
  replace ((0 + (s * 1000000 + n / 1000) <? -62135596800000000) || (253402300799999999 <? 0 + (s * 1000000 + n / 1000))) with false by lia.
  reflexivity.
Qed.

Lemma abs_div_quot n : (if 0 <=? n then Z.abs n / 1000 else - (Z.abs n / 1000)) = Z.quot n 1000.
Proof. destruct (0 <=? n) eqn:E; lia. Qed.

Theorem to_timedelta_is_spec s n :
  Z.abs (td_days (dur_to_us s n)) <= 999999999 -> to_timedelta s n = Ok (dur_to_us s n).
Proof.
  intros D. unfold to_timedelta, timedelta_new, dur_to_us in *. rewrite abs_div_quot.
  replace (Z.abs (td_days (s * 1000000 + Z.quot n 1000)) >? 999999999) with false by lia.
  reflexivity.
Qed.

Lemma dur_range_days d : in_dur_range d -> Z.abs (td_days d) <= 999999999.
Proof. unfold in_dur_range, DUR_MAX_S, td_days, DAY_US. lia. Qed.

Lemma dur_to_of_us d : let '(s, n) := dur_of_us d in dur_to_us s n = d.
Proof. unfold dur_of_us, dur_to_us. lia. Qed.

Theorem to_from_timedelta d :
  Z.abs (td_days d) <= 999999999 ->
  let '(s, n) := from_timedelta d in to_timedelta s n = Ok d.
Proof.
  intros D. rewrite from_timedelta_is_spec.
  pose proof (dur_to_of_us d) as E. destruct (dur_of_us d) as [s n].
  rewrite to_timedelta_is_spec; rewrite E; [reflexivity|assumption].
Qed.
