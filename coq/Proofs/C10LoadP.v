(* C10, part 3: the loop of Message.load.
     step          : what one parsed record does to the object (dispatch with the identity continuation)
     loop_g_S      : one iteration, in "do o' <- step; if finished then stop else go on" form
     loop_fuel / load_fuel : with more fuel than stream bytes the fuel is irrelevant
     loop_consumes : a size-limited load that returns has consumed EXACTLY [size] bytes      (load_consumes_exactly)
     loop_widen    : the unlimited load of [u] (parse)    ==>  the limited load of [u ++ more] with size |u|
     loop_narrow   : the limited load of [used ++ rest]   ==>  the unlimited load of [used] *)
From BP Require Import Base.Prelude Model.Types Model.Varint Model.Scalar Model.Float Model.Utf8.
From BP Require Import Model.Object Model.Eq Model.TimeCore Model.Decode.
From BP Require Import gen.Tables Proofs.C10GenP Proofs.C10FieldP.

Definition step sc pn cd o p : result obj := dispatch sc pn cd o p (fun o' => Ok o').

Lemma dispatch_step {R} sc pn cd o p (k : obj -> result R) :
  dispatch sc pn cd o p k = bind (step sc pn cd o p) k.
Proof.
  unfold step, dispatch. destruct o as [c raw sow unk cur].
  destruct (field_by_number cd (pnum p)) as [[i f]|]; [|reflexivity].
  destruct (negb (wire_type_fits f (pwt p))); [reflexivity|].
  match goal with |- bind ?V _ = _ => destruct V as [value|] end; [|reflexivity]. cbn [bind].
  repeat match goal with
         | |- context [match ?x with _ => _ end] => destruct x
         end; reflexivity.
Qed.

(* the nested parser is only ever applied to the payload of the record at hand *)
Lemma post_len_ext sc pn1 pn2 f t ety w bs :
  (forall c, pn1 c bs = pn2 c bs) -> post_len_g sc pn1 f t ety w bs = post_len_g sc pn2 f t ety w bs.
Proof.
  intros H. unfold post_len_g. destruct (ptype_eqb t TString); [reflexivity|].
  destruct (ptype_eqb t TMessage); [|reflexivity].
  destruct ety, w; rewrite ?H; try reflexivity; destruct (wrapper_cls _); rewrite ?H; reflexivity.
Qed.

Lemma step_ext sc pn1 pn2 cd o p :
  (forall c, pn1 c (pbytes p) = pn2 c (pbytes p)) -> step sc pn1 cd o p = step sc pn2 cd o p.
Proof.
  intros H. unfold step, dispatch. destruct o as [c raw sow unk cur].
  destruct (field_by_number cd (pnum p)) as [[i f]|]; [|reflexivity].
  destruct (negb (wire_type_fits f (pwt p))); [reflexivity|].
  rewrite (post_len_ext sc pn1 pn2 _ _ _ _ _ H), H. reflexivity.
Qed.

Definition account (size : option Z) (read : Z) (p : parsed) : result Z :=
  match size with
  | Some sz => let read' := read + Zlength (praw p) in if sz <? read' then Err EValue else Ok read'
  | None => Ok read
  end.
Definition finished (size : option Z) (read : Z) : bool :=
  match size with Some sz => read =? sz | None => false end.

Lemma loop_g_S sc pn lf cd size n o s read :
  loop_g sc pn lf cd size (S n) o s read =
  match s with
  | [] => match size with
          | Some sz => if read <? sz then Err EValue else Ok (o, s)
          | None => Ok (o, s)
          end
  | _ => do (num_wire, r, s1) <- load_varint s;
         do (p, s2) <- lf s1 num_wire r;
         do read' <- account size read p;
         do o' <- step sc pn cd o p;
         if finished size read' then Ok (o', s2) else loop_g sc pn lf cd size n o' s2 read'
  end.
Proof.
  cbn [loop_g]. destruct s as [|b s0]; [reflexivity|].
  destruct (load_varint (b :: s0)) as [[[nw r] s1]|]; [|reflexivity]. cbn [bind].
  destruct (lf s1 nw r) as [[p s2]|]; [|reflexivity]. cbn [bind]. unfold account, finished.
  match goal with |- bind ?X _ = _ => destruct X as [read'|] end; [|reflexivity]. cbn [bind].
  apply dispatch_step.
Qed.

(* ---- fuel ---- *)
Lemma loop_fuel sc pn1 pn2 lf1 lf2 cd size : r_acct lf1 ->
  forall n o s read,
  (forall s' nw raw, (length s' < length s)%nat -> lf1 s' nw raw = lf2 s' nw raw) ->
  (forall c bs, (length bs < length s)%nat -> pn1 c bs = pn2 c bs) ->
  loop_g sc pn1 lf1 cd size n o s read = loop_g sc pn2 lf2 cd size n o s read.
Proof.
  intros AC. induction n as [|n IH]; intros o s read EL EP; [reflexivity|].
  rewrite !loop_g_S. destruct s as [|b s0]; [reflexivity|].
  destruct (load_varint (b :: s0)) as [[[nw r] s1]|] eqn:V; [|reflexivity]. cbn [bind].
  destruct (lv_sound _ _ _ _ V) as (Es & Lr & _).
  assert (Ls : length (b :: s0) = (length r + length s1)%nat) by (rewrite Es, app_length; reflexivity).
  rewrite <- EL by lia.
  destruct (lf1 s1 nw r) as [[p s2]|] eqn:F; [|reflexivity]. cbn [bind].
  destruct (acct_lengths _ AC _ _ _ _ _ F) as (L2 & LB & _).
  destruct (account size read p) as [read'|]; [|reflexivity]. cbn [bind].
  rewrite (step_ext sc pn1 pn2) by (intros c; apply EP; lia).
  destruct (step sc pn2 cd o p) as [o'|]; [|reflexivity]. cbn [bind].
  destruct (finished size read'); [reflexivity|].
  apply IH; [intros; apply EL | intros; apply EP]; lia.
Qed.

Lemma read_prefix_length size s size' s' :
  read_prefix size s = Ok (size', s') -> (length s' <= length s)%nat.
Proof.
  unfold read_prefix. destruct size as [n|]; [|intros H; injection H as <- <-; lia].
  destruct (n =? SIZE_DELIMITED); [|intros H; injection H as <- <-; lia].
  destruct (load_varint s) as [[[n' r] s1]|] eqn:V; [|discriminate]. cbn [bind].
  intros H. injection H as <- <-. destruct (lv_sound _ _ _ _ V) as (-> & _ & _). rewrite app_length. lia.
Qed.

Lemma load_fuel sc : forall f1 f2 o s size,
  (length s < f1)%nat -> (length s < f2)%nat -> load f1 sc o s size = load f2 sc o s size.
Proof.
  induction f1 as [|f1 IH]; intros f2 o s size L1 L2; [lia|]. destruct f2 as [|f2]; [lia|].
  rewrite !load_unfold. unfold load_body.
  destruct (read_prefix size s) as [[size' s']|] eqn:P; [|reflexivity]. cbn [bind].
  pose proof (read_prefix_length _ _ _ _ P) as Lp.
  destruct o as [c raw sow unk cur].
  assert (G : loop_g sc (pn_of f1 sc) (load_field f1) (get_class sc c) size' (S (length s')) (Obj c raw true unk cur) s' 0 =
              loop_g sc (pn_of f2 sc) (load_field f2) (get_class sc c) size' (S (length s')) (Obj c raw true unk cur) s' 0).
  { apply loop_fuel; [apply load_field_acct | |].
    - intros. apply load_field_fuel; lia.
    - intros c' bs Lb. unfold pn_of. rewrite (IH f2) by lia. reflexivity. }
  destruct size' as [[|z|z]|]; try reflexivity; exact G.
Qed.

(* ---- a size-limited load that returns has consumed exactly [size] bytes ---- *)
Lemma loop_consumes sc pn lf cd sz : r_acct lf -> forall n o s read o' s',
  loop_g sc pn lf cd (Some sz) n o s read = Ok (o', s') -> read < sz ->
  exists used, s = used ++ s' /\ read + Zlength used = sz.
Proof.
  intros AC. induction n as [|n IH]; intros o s read o' s' H Hr; [discriminate|].
  rewrite loop_g_S in H. destruct s as [|b s0].
  - replace (read <? sz) with true in H by lia. discriminate.
  - destruct (load_varint (b :: s0)) as [[[nw r] s1]|] eqn:V; [|discriminate]. cbn [bind] in H.
    destruct (lv_sound _ _ _ _ V) as (Es & _ & _).
    destruct (lf s1 nw r) as [[p s2]|] eqn:F; [|discriminate]. cbn [bind] in H.
    destruct (AC _ _ _ _ _ F) as (u & Es1 & Rp & _).
    unfold account in H. cbv zeta in H.
    destruct (sz <? read + Zlength (praw p)) eqn:Ov; [discriminate|]. cbn [bind] in H.
    destruct (step sc pn cd o p) as [o1|]; [|discriminate]. cbn [bind] in H.
    unfold finished in H. destruct (read + Zlength (praw p) =? sz) eqn:Fin.
    + injection H as <- <-. exists (r ++ u). rewrite Es, Es1, <- app_assoc. split; [reflexivity|].
      rewrite Rp in Fin. lia.
    + apply IH in H; [|lia]. destruct H as (u2 & -> & Hs). exists (r ++ u ++ u2).
      rewrite Es, Es1, <- !app_assoc. split; [reflexivity|].
      rewrite Rp in Hs. rewrite !Zlen_app in *. lia.
Qed.

(* an unlimited load that returns has read to the end of the stream *)
Lemma loop_unsized_end sc pn lf cd : forall n o s read o' s',
  loop_g sc pn lf cd None n o s read = Ok (o', s') -> s' = [].
Proof.
  induction n as [|n IH]; intros o s read o' s' H; [discriminate|].
  rewrite loop_g_S in H. destruct s as [|b s0]; [injection H as <- <-; reflexivity|].
  destruct (load_varint (b :: s0)) as [[[nw r] s1]|]; [|discriminate]. cbn [bind] in H.
  destruct (lf s1 nw r) as [[p s2]|]; [|discriminate]. cbn [bind] in H.
  destruct (step sc pn cd o p) as [o1|]; [|discriminate]. cbn [bind] in H.
  apply IH in H. exact H.
Qed.

(* ---- parse(u) returned  ==>  load(u ++ more, size = |u|) returns the same object and leaves [more] ---- *)
Lemma loop_widen sc pn lf cd : r_acct lf -> r_app lf ->
  forall n m o u read0 read o' u' more sz,
  loop_g sc pn lf cd None n o u read0 = Ok (o', u') -> (n <= m)%nat -> u <> [] -> sz = read + Zlength u ->
  loop_g sc pn lf cd (Some sz) m o (u ++ more) read = Ok (o', more).
Proof.
  intros AC AP. induction n as [|n IH]; intros m o u read0 read o' u' more sz H Lm Hu Hsz; [discriminate|].
  destruct m as [|m]; [lia|]. rewrite loop_g_S in *.
  destruct u as [|b u0]; [congruence|]. cbn [app].
  change (b :: u0 ++ more) with ((b :: u0) ++ more).
  destruct (load_varint (b :: u0)) as [[[nw r] s1]|] eqn:V; [|discriminate]. cbn [bind] in H.
  rewrite (lv_app _ _ _ _ more V). cbn [bind].
  destruct (lv_sound _ _ _ _ V) as (Es & _ & _).
  destruct (lf s1 nw r) as [[p s2]|] eqn:F; [|discriminate]. cbn [bind] in H.
  rewrite (AP _ _ _ _ _ more F). cbn [bind].
  destruct (AC _ _ _ _ _ F) as (uf & Es1 & Rp & _).
  assert (Hlen : Zlength (b :: u0) = Zlength (praw p) + Zlength s2).
  { rewrite Es, Es1, Rp, !Zlen_app. lia. }
  pose proof (Zlen_nonneg s2) as Hs2.
  unfold account. cbv zeta. replace (sz <? read + Zlength (praw p)) with false by lia. cbn [bind].
  unfold account in H. cbn [bind] in H.
  destruct (step sc pn cd o p) as [o1|]; [|discriminate]. cbn [bind] in *.
  unfold finished in *. destruct s2 as [|b2 s3].
  - (* the record ends the payload: stop here; the unlimited loop sees EOF next *)
    replace (read + Zlength (praw p) =? sz) with true by (unfold Zlength in *; cbn [length] in *; lia).
    destruct n as [|n]; [discriminate|]. rewrite loop_g_S in H. injection H as <- <-. reflexivity.
  - replace (read + Zlength (praw p) =? sz) with false by (unfold Zlength in *; cbn [length] in *; lia).
    apply (IH m o1 (b2 :: s3) read0 _ o' u' more sz H); [lia | discriminate | lia].
Qed.

(* ---- load(used ++ rest, size = |used|) returned  ==>  parse(used) returns the same object ---- *)
Lemma app_same_tail {A} (x y t : list A) : x ++ t = y ++ t -> x = y.
Proof. apply app_inv_tail. Qed.

Lemma loop_narrow sc pn lf cd : r_acct lf -> r_inv lf ->
  forall n m o used s' read read0 o' sz,
  loop_g sc pn lf cd (Some sz) n o (used ++ s') read = Ok (o', s') ->
  read < sz -> read + Zlength used = sz -> (length used < m)%nat ->
  loop_g sc pn lf cd None m o used read0 = Ok (o', []).
Proof.
  intros AC AI. induction n as [|n IH]; intros m o used s' read read0 o' sz H Hr Hsz Lm; [discriminate|].
  destruct m as [|m]; [lia|]. rewrite loop_g_S in *.
  destruct used as [|b u0]; [unfold Zlength in Hsz; cbn [length] in Hsz; lia|].
  cbn [app] in H. change (b :: u0 ++ s') with ((b :: u0) ++ s') in H.
  destruct (load_varint ((b :: u0) ++ s')) as [[[nw r] s1]|] eqn:V; [|discriminate]. cbn [bind] in H.
  destruct (lv_sound _ _ _ _ V) as (Es & _ & _).
  destruct (lf s1 nw r) as [[p s2]|] eqn:F; [|discriminate]. cbn [bind] in H.
  destruct (AC _ _ _ _ _ F) as (uf & Es1 & Rp & _).
  unfold account in H. cbv zeta in H.
  destruct (sz <? read + Zlength (praw p)) eqn:Ov; [discriminate|]. cbn [bind] in H.
  (* the record lies inside [used] *)
  assert (Hl : Zlength (b :: u0) + Zlength s' = Zlength (praw p) + Zlength s2).
  { rewrite <- Zlen_app, Es, Es1, Rp, !Zlen_app. lia. }
  assert (L2 : (length s' <= length s2)%nat) by (unfold Zlength in *; lia).
  assert (L1 : (length s' <= length s1)%nat) by (rewrite Es1, app_length; lia).
  destruct (lv_inv _ _ _ _ _ V L1) as (x1 & -> & V'). rewrite V'. cbn [bind].
  destruct (AI _ _ _ _ _ _ F L2) as (x2 & -> & F'). rewrite F'. cbn [bind].
  unfold account. cbn [bind].
  destruct (step sc pn cd o p) as [o1|]; [|discriminate]. cbn [bind] in *.
  destruct (lv_sound _ _ _ _ V') as (Eu & Lr & _).
  destruct (AC _ _ _ _ _ F') as (uf' & Ex1 & _ & _).
  assert (Lx : (length x2 < length (b :: u0))%nat) by (rewrite Eu, Ex1, !app_length; lia).
  unfold finished in *. destruct (read + Zlength (praw p) =? sz) eqn:Fin.
  - injection H as <- E2. apply (app_same_tail x2 [] s') in E2. subst x2.
    destruct m as [|m]; [cbn [length] in Lm; lia|]. rewrite loop_g_S. reflexivity.
  - apply (IH m o1 x2 s' _ read0 o' sz H); [lia | | lia].
    rewrite Zlen_app in Hl. lia.
Qed.

(* ---- over-run: the payload's complete records [u] stop short of [size] and the next record [rec]
        crosses it: ValueError ---- *)
Lemma loop_overrun sc pn lf cd : r_acct lf -> r_app lf ->
  forall n m o u read0 read o' u' rec rest sz nw r s1 p,
  loop_g sc pn lf cd None n o u read0 = Ok (o', u') -> (n <= m)%nat ->
  load_varint rec = Ok (nw, r, s1) -> lf s1 nw r = Ok (p, []) ->
  read + Zlength u < sz -> sz < read + Zlength u + Zlength rec ->
  loop_g sc pn lf cd (Some sz) m o (u ++ rec ++ rest) read = Err EValue.
Proof.
  intros AC AP. induction n as [|n IH]; intros m o u read0 read o' u' rec rest sz nw r s1 p H Lm Vr Fr Hlo Hhi; [discriminate|].
  destruct m as [|m]; [lia|]. rewrite loop_g_S in *.
  destruct u as [|b u0].
  - cbn [app]. destruct (lv_sound _ _ _ _ Vr) as (Er & Lr & _).
    destruct rec as [|b rec0]; [subst; destruct r; cbn [length] in Lr; [lia | discriminate]|].
    change ((b :: rec0) ++ rest) with ((b :: rec0) ++ rest).
    cbn [app]. change (b :: rec0 ++ rest) with ((b :: rec0) ++ rest).
    rewrite (lv_app _ _ _ _ rest Vr). cbn [bind]. rewrite (AP _ _ _ _ _ rest Fr). cbn [bind].
    destruct (AC _ _ _ _ _ Fr) as (uf & Es1 & Rp & _). rewrite app_nil_r in Es1. subst uf.
    unfold account. cbv zeta.
    replace (sz <? read + Zlength (praw p)) with true; [reflexivity|].
    rewrite Rp, <- Er. unfold Zlength in *. cbn [length] in *. lia.
  - cbn [app]. change (b :: u0 ++ rec ++ rest) with ((b :: u0) ++ rec ++ rest).
    destruct (load_varint (b :: u0)) as [[[nw' r'] s1']|] eqn:V; [|discriminate]. cbn [bind] in H.
    rewrite (lv_app _ _ _ _ (rec ++ rest) V). cbn [bind].
    destruct (lv_sound _ _ _ _ V) as (Es & _ & _).
    destruct (lf s1' nw' r') as [[p' s2]|] eqn:F; [|discriminate]. cbn [bind] in H.
    rewrite (AP _ _ _ _ _ (rec ++ rest) F). cbn [bind].
    destruct (AC _ _ _ _ _ F) as (uf & Es1 & Rp & _).
    assert (Hlen : Zlength (b :: u0) = Zlength (praw p') + Zlength s2).
    { rewrite Es, Es1, Rp, !Zlen_app. lia. }
    pose proof (Zlen_nonneg s2) as Hs2.
    unfold account. cbv zeta. replace (sz <? read + Zlength (praw p')) with false by lia. cbn [bind].
    unfold account in H. cbn [bind] in H.
    destruct (step sc pn cd o p') as [o1|]; [|discriminate]. cbn [bind] in *.
    unfold finished in *. replace (read + Zlength (praw p') =? sz) with false by lia.
    apply (IH m o1 s2 read0 _ o' u' rec rest sz nw r s1 p H); try assumption; lia.
Qed.
