(* Lemmas about Model/Casing.v (C19), part 3: the key table of from_dict (fixed code), enum member
   names, class names. *)
From BP Require Import Base.Prelude Model.Casing Proofs.BytesP Proofs.CasingP Proofs.CasingP2.
From BP Require gen.Tables.

(* ---------------------------------------------------------------- from_dict: table of camelCase keys *)
Lemma mem_bytes_in x l : mem_bytes x l = true <-> In x l.
Proof. apply existsb_str_eqb_in. Qed.

Lemma assoc_last_sound fs k x : assoc_last k (key_table fs) = Some x -> In x fs /\ camel_key x = k.
Proof.
  induction fs as [|g r IH]; cbn [key_table map assoc_last]; [discriminate|].
  fold (key_table r). destruct (assoc_last k (key_table r)) as [y|] eqn:E.
  - intros H. injection H as ->. destruct (IH eq_refl) as [I C]. split; [right; exact I|exact C].
  - destruct (str_eqb k (camel_key g)) eqn:Q; [|discriminate]. intros H. injection H as ->.
    apply str_eqb_eq in Q. split; [left; reflexivity|symmetry; exact Q].
Qed.

Lemma assoc_last_none fs k : assoc_last k (key_table fs) = None -> forall g, In g fs -> camel_key g <> k.
Proof.
  induction fs as [|f r IH]; cbn [key_table map assoc_last]; [intros _ g []|].
  fold (key_table r). destruct (assoc_last k (key_table r)) as [y|] eqn:E; [discriminate|].
  destruct (str_eqb k (camel_key f)) eqn:Q; [discriminate|]. intros _ g [<-|I].
  - intros C. rewrite C, str_eqb_refl in Q. discriminate Q.
  - apply IH; [reflexivity|exact I].
Qed.

Lemma field_for_key_back fs k f : In f fs ->
  (forall g, In g fs -> camel_key g = k -> g = f) ->
  camel_key f = k \/ safe_snake_case k = f ->
  field_for_key fs k = Some f.
Proof.
  intros I U D. unfold field_for_key.
  assert (mem_bytes f fs = true) as M by (apply mem_bytes_in; exact I).
  destruct (assoc_last k (key_table fs)) as [g|] eqn:E.
  - destruct (assoc_last_sound fs k g E) as [Ig Cg]. rewrite (U g Ig Cg), M. reflexivity.
  - destruct D as [C| <-]; [exfalso; exact (assoc_last_none fs k E f I C)|]. rewrite M. reflexivity.
Qed.

(* the value found is always a field of the class *)
Lemma field_for_key_in fs k f : field_for_key fs k = Some f -> In f fs.
Proof.
  unfold field_for_key. set (g := match assoc_last k (key_table fs) with Some g => g | None => safe_snake_case k end).
  destruct (mem_bytes g fs) eqn:M; [|discriminate]. intros H. injection H as <-. apply mem_bytes_in. exact M.
Qed.

Lemma field_for_key_pinned_back fs s : In (safe_snake_case s) fs -> key_safe s = true ->
  field_for_key_pinned fs (camel_key (safe_snake_case s)) = Some (safe_snake_case s).
Proof.
  intros I K. unfold field_for_key_pinned. rewrite (camel_key_back s K).
  apply mem_bytes_in in I. rewrite I. reflexivity.
Qed.

(* ---------------------------------------------------------------- enum member names *)
Lemma forallb_skipn {A} (f : A -> bool) n : forall l, forallb f l = true -> forallb f (skipn n l) = true.
Proof.
  induction n as [|n IH]; intros l H; [exact H|]. destruct l as [|a r]; [reflexivity|].
  cbn [skipn]. cbn [forallb] in H. apply andb_true_iff in H. apply IH, H.
Qed.

Lemma forallb_rev {A} (f : A -> bool) l : forallb f (rev l) = forallb f l.
Proof.
  induction l as [|a r IH]; [reflexivity|]. cbn [rev forallb]. rewrite forallb_app, IH. cbn [forallb].
  rewrite andb_true_r. apply andb_comm.
Qed.

Lemma forallb_lstrip_us (f : byte -> bool) l : forallb f l = true -> forallb f (lstrip_us l) = true.
Proof.
  induction l as [|a r IH]; [reflexivity|]. cbn [lstrip_us]. destruct (is_us a); [|auto].
  cbn [forallb]. rewrite andb_true_iff. intros [_ H]. apply IH, H.
Qed.

Lemma forallb_strip_us (f : byte -> bool) l : forallb f l = true -> forallb f (strip_us l) = true.
Proof.
  intros H. unfold strip_us, rstrip_us. rewrite forallb_rev. apply forallb_lstrip_us.
  rewrite forallb_rev. apply forallb_lstrip_us, H.
Qed.

Lemma forallb_after_first (f : byte -> bool) sub : forall l r,
  forallb f l = true -> after_first sub l = Some r -> forallb f r = true.
Proof.
  induction l as [|a t IH]; intros r H; cbn [after_first]; destruct (is_prefix sub _).
  - intros E. injection E as <-. apply forallb_skipn, H.
  - discriminate.
  - intros E. injection E as <-. apply forallb_skipn, H.
  - cbn [forallb] in H. apply andb_true_iff in H. apply IH, H.
Qed.

Lemma enum_member_ok name enum_name : ident_chars name = true ->
  is_identifier (pythonize_enum_member_name name enum_name) = true /\
  is_keyword (pythonize_enum_member_name name enum_name) = false.
Proof.
  intros H. unfold pythonize_enum_member_name. apply sanitize_ok.
  destruct (after_first _ name) as [r|] eqn:E; [|exact H].
  unfold ident_chars. apply forallb_strip_us. exact (forallb_after_first ident_char _ name r H E).
Qed.

(* ---------------------------------------------------------------- class names *)
Definition is_alnum (b : byte) : bool := match classify b with Sym => false | _ => true end.

Lemma is_alnum_to_upper b : is_alnum (to_upper b) = is_alnum b.
Proof. destruct b; reflexivity. Qed.
Lemma is_alnum_to_lower b : is_alnum (to_lower b) = is_alnum b.
Proof. destruct b; reflexivity. Qed.

Lemma alnum_lower w : forallb is_alnum (lower w) = forallb is_alnum w.
Proof. induction w as [|c r IH]; [reflexivity|]. cbn [lower map forallb]. rewrite is_alnum_to_lower. fold (lower r). rewrite IH. reflexivity. Qed.
Lemma alnum_capitalize w : forallb is_alnum (capitalize w) = forallb is_alnum w.
Proof. destruct w as [|c r]; [reflexivity|]. cbn [capitalize forallb]. rewrite is_alnum_to_upper, alnum_lower. reflexivity. Qed.

Lemma lword_alnum w : lword w -> forallb is_alnum w = true.
Proof.
  intros (l & d & -> & Hl & Hd & _). rewrite forallb_app. apply andb_true_iff. split.
  - unfold lows in Hl. rewrite forallb_forall in *. intros x Hx. specialize (Hl x Hx).
    unfold is_lower_b in Hl. unfold is_alnum. destruct (classify x); try discriminate Hl; reflexivity.
  - unfold digs in Hd. rewrite forallb_forall in *. intros x Hx. specialize (Hd x Hx).
    unfold is_digit_b in Hd. unfold is_alnum. destruct (classify x); try discriminate Hd; reflexivity.
Qed.

Lemma alnum_concat_cap ws : Forall lword ws -> forallb is_alnum (concat (map capitalize ws)) = true.
Proof.
  induction 1 as [|w r Hw Hr IH]; [reflexivity|]. cbn [map concat].
  rewrite forallb_app, alnum_capitalize, IH, (lword_alnum w Hw). reflexivity.
Qed.

Lemma alnum_ident_chars x : forallb is_alnum x = true -> forallb ident_char x = true.
Proof.
  rewrite !forallb_forall. intros H b I. specialize (H b I). unfold is_alnum in H. unfold ident_char.
  destruct (classify b); try reflexivity. discriminate H.
Qed.

Lemma map_capitalize_lower ws : map capitalize (map lower ws) = map capitalize ws.
Proof. rewrite map_map. apply map_ext. intros; apply capitalize_lower. Qed.

Lemma pascal_lws s : pascal_case s = concat (map capitalize (map lower (words s))).
Proof. unfold pascal_case. rewrite map_capitalize_lower. reflexivity. Qed.

Lemma starts_digit_lower w : starts_digit (lower w) = starts_digit w.
Proof. destruct w as [|c r]; [reflexivity|]. cbn [lower map starts_digit]. destruct c; reflexivity. Qed.

(* keywords that start with a capital continue in lower case (finite, regenerated table) *)
Lemma kw_capital_tail_lower :
  forallb (fun k => negb (starts_upper k) || forallb is_lower_b (tl k)) Tables.kwlist = true.
Proof. vm_compute. reflexivity. Qed.

Lemma lower_not_digit c : is_lower_b c = true -> is_digit_b c = true -> False.
Proof. unfold is_lower_b, is_digit_b. destruct (classify c); discriminate. Qed.

Lemma cap_head_not_lower w : lword w -> exists x t, capitalize w = x :: t /\ is_lower_b x = false.
Proof.
  intros H. pose proof (lword_ne w H) as N. pose proof (lword_alnum w H) as A.
  destruct H as (l & d & E & Hl & Hd & _). destruct w as [|c r]; [contradiction N; reflexivity|].
  exists (to_upper c), (lower r). split; [reflexivity|].
  assert (is_lower_b c = true \/ is_digit_b c = true) as [L|D].
  { destruct l as [|c' l']; cbn [app] in E.
    - subst d. unfold digs in Hd. cbn [forallb] in Hd. apply andb_true_iff in Hd. right. apply Hd.
    - injection E as -> _. unfold lows in Hl. cbn [forallb] in Hl. apply andb_true_iff in Hl. left. apply Hl. }
  - pose proof (to_upper_class c) as T. unfold is_lower_b in *. destruct (classify c); try discriminate L. rewrite T. reflexivity.
  - pose proof (to_upper_class c) as T. unfold is_lower_b, is_digit_b in *. destruct (classify c) eqn:Q; try discriminate D. rewrite T, Q. reflexivity.
Qed.

Lemma class_name_ident s : class_name_ok s = true ->
  is_identifier (pascal_case s) = true /\ is_keyword (pascal_case s) = false.
Proof.
  unfold class_name_ok. rewrite andb_true_iff. intros [Hfirst Hres].
  pose proof (words_lwords s) as H. rewrite pascal_lws.
  unfold snake_case in Hres.
  destruct (words s) as [|w0 r0] eqn:EW; [discriminate Hfirst|]. cbn [map] in *.
  rewrite <- starts_digit_lower in Hfirst. set (w := lower w0) in *. set (r := map lower r0) in *.
  inversion H as [|? ? Hw Hr]; subst.
  assert (starts_digit w = false) as Sd by (destruct (starts_digit w); [discriminate Hfirst|reflexivity]).
  destruct (lword_split w Hw Sd) as (c & l & d & Ew & Ec & Hl & Hd).
  destruct (capitalize_lword c l d Ec Hl Hd) as [Cw EU]. rewrite <- Ew in Cw.
  cbn [concat]. rewrite Cw. cbn [app]. split.
  - cbn [is_identifier]. apply andb_true_iff. split.
    + unfold ident_start. rewrite EU. reflexivity.
    + apply alnum_ident_chars. rewrite forallb_app. rewrite (alnum_concat_cap r Hr), andb_true_r.
      pose proof (lword_alnum w Hw) as A. rewrite Ew in A. cbn [forallb] in A. apply andb_true_iff in A. apply A.
  - destruct (is_keyword _) eqn:K; [|reflexivity]. exfalso.
    apply is_keyword_in in K. pose proof kw_capital_tail_lower as T. rewrite forallb_forall in T.
    specialize (T _ K). cbn [starts_upper tl] in T. rewrite EU in T. cbn [negb orb] in T.
    rewrite !forallb_app in T. apply andb_true_iff in T. destruct T as [T Tr]. apply andb_true_iff in T. destruct T as [_ Td].
    assert (d = []) as ->.
    { destruct d as [|x d']; [reflexivity|]. exfalso. cbn [forallb] in Td. apply andb_true_iff in Td.
      unfold digs in Hd. cbn [forallb] in Hd. apply andb_true_iff in Hd. exact (lower_not_digit x (proj1 Td) (proj1 Hd)). }
    assert (r = []) as Er.
    { destruct r as [|w2 r2]; [reflexivity|]. exfalso. inversion Hr as [|? ? Hw2 _]; subst.
      destruct (cap_head_not_lower w2 Hw2) as (x & t & Ex & Nx). cbn [map concat] in Tr. rewrite Ex in Tr.
      cbn [app forallb] in Tr. rewrite Nx in Tr. discriminate Tr. }
    rewrite Er in *. cbn [concat app] in K. rewrite !app_nil_r in K. cbn [join] in Hres.
    (* the name is the capitalised single word; its lower-case form is the snake_case result *)
    assert (In (to_upper c :: l) capital_keywords) as IC.
    { unfold capital_keywords. apply filter_In. split; [exact K|]. cbn [starts_upper]. rewrite EU. reflexivity. }
    assert (In w (map lower capital_keywords)) as IL.
    { apply in_map_iff. exists (to_upper c :: l). split; [|exact IC].
      rewrite app_nil_r in Ew, Cw. rewrite <- Cw, lower_capitalize. apply lword_lower_fix, Hw. }
    apply mem_bytes_in in IL. rewrite IL in Hres. discriminate Hres.
Qed.
