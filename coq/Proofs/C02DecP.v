(* C02: the one-record simulation.  [apply_record] on the ParsedField of a legal record takes an
   object related (by Inv) to the payloads gathered so far to an object related to the payloads
   gathered after Spec/Wire.gather_step — by cases on cardinality x element kind. *)
From BP Require Import Base.Prelude Model.Types Model.Varint Model.Scalar Model.Float Model.Utf8.
From BP Require Import Model.Object Model.Eq Model.TimeCore Model.Decode Model.WellFormed.
From BP Require Import Spec.Varint Spec.Wire.
From BP Require Import Proofs.BytesP Proofs.C02Abs Proofs.C02WireP Proofs.C02LeafP Proofs.C02LoadP Proofs.C02ListP Proofs.C02StepP
     Proofs.C02SimP Proofs.C02ElemP Proofs.C02StoreP Proofs.C02InterpP.
From BP Require Import gen.Tables.
From Coq Require Import ZifyBool ZifyN.

Lemma norm_elemish sc v : elemish v -> norm_value sc v = v.
Proof.
  intros (_ & _ & _ & _ & Hm). unfold norm_value. destruct (fieldless sc v); [|reflexivity].
  destruct v; try reflexivity. destruct o as [c r s u g]. cbn [mark_sow]. specialize (Hm _ eq_refl). cbn in Hm. now subst s.
Qed.

Lemma fits_len_not_repeated f b :
  fits f (Len b) = true -> card_of f <> Repeated -> packable (fty f) = false.
Proof.
  unfold fits, packable. destruct (wire_of (fty f)); try reflexivity; intros H C; destruct (card_of f); try discriminate; congruence.
Qed.

Lemma not_packed_ok f p :
  fits f p = true -> card_of f <> Repeated ->
  match p with Len _ => packable (fty f) = false | _ => True end.
Proof. destruct p; intros F C; try exact I. eapply fits_len_not_repeated; eauto. Qed.

Lemma packable_no_msg f : packable (fty f) = true -> msg_class f = None.
Proof. unfold packable, msg_class. destruct (fty f); try reflexivity; discriminate. Qed.

Section Dec.
  Variable sc : schema.
  Hypothesis WF : wf_schema sc = true.
  Variable pn : nat -> list byte -> result obj.
  Variable nested : nat -> list byte -> option aval.
  Variable nested_ok : nat -> list byte -> bool.
  Variable B : nat.
  Hypothesis PN : forall c' b m, (length b < B)%nat -> nested c' b = Some m -> nested_ok c' b = true ->
                                 exists mo, pn c' b = Ok mo /\ abs_obj sc mo = m /\ good sc c' mo.
  Variable c : nat.
  Let cd := get_class sc c.
  Let fs := cfields cd.

  (* ---------------------------------------------------------------- singular fields *)
  Lemma abs_field_singular cur i f v :
    elemish v -> (forall o', v = PMsg o' -> msg_class f <> None) ->
    (card_of f = Implicit -> msg_class f = None) ->
    (forall g, card_of f = Oneof g -> nth g cur None = Some i) ->
    match card_of f with Repeated | MapOf => False | _ => True end ->
    abs_field sc cur i f v =
    match card_of f with Implicit => abs_elem sc f v | _ => ASome (abs_elem sc f v) end.
  Proof.
    intros (Np & Nn & Nl & Nd & Hs) Hm Him Hsel C. unfold abs_field, abs_elem.
    destruct (card_of f) eqn:Cf; try contradiction.
    - rewrite (Him eq_refl). destruct v; try reflexivity; congruence.
    - destruct v; try reflexivity; try congruence.
      rewrite (Hs _ eq_refl). destruct (fhint f); destruct (msg_class f) eqn:M; try reflexivity;
        exfalso; eapply Hm; eauto.
    - rewrite (Hsel g eq_refl). cbn [opt_nat_eqb]. rewrite Nat.eqb_refl.
      destruct v; try reflexivity; congruence.
  Qed.

  Lemma shape_elemish f v :
    elemish v -> match card_of f with Repeated | MapOf => False | _ => True end -> shape_ok f v.
  Proof.
    intros (Np & Nn & Nl & Nd & Hs) C. unfold shape_ok. destruct (card_of f); try contradiction; try exact Nl.
    split; [exact Nl|]. split; [exact Hs|]. intros E. congruence.
  Qed.

  Lemma step_singular o st urs i f p v ev :
    Inv sc nested c o st urs -> nth_error fs i = Some f ->
    match card_of f with Repeated | MapOf => False | _ => True end ->
    elemish v -> abs_elem sc f v = ev -> (forall o', v = PMsg o' -> msg_class f <> None) ->
    (card_of f = Implicit -> msg_class f = None) ->
    (forall ps, nth_error st i = Some ps ->
       interp_field nested sc f (ps ++ [p]) =
       Some (match card_of f with Implicit => ev | _ => ASome ev end)) ->
    exists o', store sc o i f v = Ok o' /\ Inv sc nested c o' (add_payload i f p 0 fs st) urs.
  Proof.
    unfold fs, cd. intros I Hf C El Ev Hm Him Hi.
    pose proof (wf_field_get sc c i f WF Hf) as W.
    apply (Inv_store_singular sc WF nested c o st urs i f p v I Hf C).
    - intros ps Hps. rewrite (Hi ps Hps), (norm_elemish sc v El). f_equal.
      rewrite (abs_field_singular _ i f v El Hm Him); [now rewrite Ev | | exact C].
      intros g Cg. destruct (group_card sc _ f g W (card_group f g Cg)) as (_ & Lg).
      unfold cur_after. rewrite (card_group f g Cg). apply nth_set_nth_same.
      rewrite (i_cur _ _ _ _ _ _ I). exact Lg.
    - rewrite (norm_elemish sc v El). now apply shape_elemish.
  Qed.

  (* ---------------------------------------------------------------- unknown records *)
  Lemma Inv_unknown o st urs a r :
    Inv sc nested c o st urs -> rec_ok a r ->
    Inv sc nested c (keep_unknown o (parsed_of r a)) st (urs ++ [r]).
  Proof.
    intros I R. destruct o as [c0 raw sow unk cur]. cbn [keep_unknown]. rewrite praw_parsed_of.
    constructor; cbn [ocls osow oraw ounk ocur].
    - exact (i_cls _ _ _ _ _ _ I).
    - exact (i_sow _ _ _ _ _ _ I).
    - exact (i_raw _ _ _ _ _ _ I).
    - exact (i_st _ _ _ _ _ _ I).
    - exact (i_cur _ _ _ _ _ _ I).
    - apply wire_ok_app; [exact (i_unk _ _ _ _ _ _ I) | now apply wire_ok_one].
    - exact (i_fld _ _ _ _ _ _ I).
  Qed.

  (* ---------------------------------------------------------------- map fields: proved in Proofs/C02MapP.v *)
  Hypothesis MAP : forall o st urs i f a num b,
    Inv sc nested c o st urs -> nth_error fs i = Some f -> card_of f = MapOf ->
    rec_ok a (num, Len b) -> (length a <= B)%nat -> entry_clean sc f (Len b) = true ->
    is_some (nested (fentry f) b) = true -> nested_ok (fentry f) b = true ->
    exists o', (do value <- field_value sc pn f (parsed_of (num, Len b) a); store sc o i f value) = Ok o' /\
               Inv sc nested c o' (add_payload i f (Len b) 0 fs st) urs.

  (* ---------------------------------------------------------------- one element of a non-map field *)
  Lemma elem_value f a num p ev :
    rec_ok a (num, p) -> (length a <= B)%nat -> fits f p = true -> card_of f <> MapOf ->
    (match p with Len _ => packable (fty f) = false | _ => True end) ->
    elem_of nested f p = Some ev -> narrow_ok f p = true ->
    (forall c', msg_class f = Some c' ->
       nested_ok c' (len_bytes p) = true /\ exact_ok nested f c' (len_bytes p) = true) ->
    exists v, field_value sc pn f (parsed_of (num, p) a) = Ok v /\ abs_elem sc f v = ev /\ elemish v /\
              (forall o', v = PMsg o' -> msg_class f <> None).
  Proof.
    intros R LB F NM NP E N HM. unfold elem_of in E. destruct (msg_class f) as [c'|] eqn:MC.
    - (* message element: the payload is length-delimited *)
      assert (exists b, p = Len b) as (b & ->).
      { pose proof (msg_class_fty f c' MC) as Ft. unfold fits in F. rewrite Ft in F. cbn in F.
        destruct p; try discriminate F. eauto. }
      cbn [len_bytes] in *. destruct (HM c' eq_refl) as (Nok & Ex).
      pose proof (rec_ok_len_lt _ _ _ R) as Lb.
      destruct (field_value_message sc WF pn nested nested_ok B PN f a num b c' ev ltac:(lia) MC E Nok Ex) as (v & Hv & Av & El).
      exists v. split; [exact Hv|]. split; [exact Av|]. split; [exact El|]. intros o' _. discriminate.
    - destruct (field_value_scalar sc pn f a num p ev R F E NP N) as (v & Hv & Av & Sv).
      exists v. split; [exact Hv|]. split; [unfold abs_elem; now rewrite MC|]. split; [now apply scalarish_elemish|].
      intros o' ->. contradiction.
  Qed.

  (* ---------------------------------------------------------------- the step *)
  Theorem step o st urs a r :
    Inv sc nested c o st urs -> rec_ok a r -> (length a <= B)%nat ->
    record_valid nested sc fs r = true ->
    record_ok sc nested nested_ok fs (st, urs) r = true ->
    exists o', apply_record sc pn cd o (parsed_of r a) = Ok o' /\
               Inv sc nested c o' (fst (gather_step sc fs (st, urs) r)) (snd (gather_step sc fs (st, urs) r)).
  Proof.
    unfold fs, cd. intros I R LB V S. destruct r as [num p].
    unfold apply_record. rewrite pnum_parsed_of. cbn [fst].
    rewrite (field_by_number_find _ _ (wf_nodup sc c WF)).
    unfold gather_step, record_valid, record_ok in *. cbn [fst snd] in *.
    destruct (find_field (cfields (get_class sc c)) num) as [[i f]|] eqn:FF.
    2:{ eexists. split; [reflexivity|]. cbn [fst snd]. now apply Inv_unknown. }
    destruct (find_field_spec _ _ _ _ FF) as (Hf & Hnum).
    rewrite pwt_parsed_of. cbn [snd]. rewrite wire_type_fits_spec.
    unfold accepts in *. destruct (fits f p) eqn:Fit; cbn [negb andb].
    2:{ eexists. split; [reflexivity|]. cbn [fst snd]. now apply Inv_unknown. }
    apply andb_true_iff in S as [Nar S].
    pose proof (wf_field_get sc c i f WF Hf) as W.
    destruct (card_of f) eqn:C.
    - (* Implicit *)
      destruct (wf_implicit _ _ _ W C) as (py & _ & _ & _ & _ & MC & _).
      rewrite MC in S. unfold payload_valid in V. rewrite C in V.
      destruct (elem_of nested f p) as [ev|] eqn:E; [|discriminate V].
      destruct (elem_value f a num p ev R LB Fit ltac:(congruence)
                  (not_packed_ok f p Fit ltac:(congruence)) E Nar
                  ltac:(intros c' M; congruence)) as (v & Hv & Av & El & Hm).
      rewrite Hv. cbn [bind fst snd].
      apply (step_singular o st urs i f p v ev I Hf ltac:(now rewrite C) El Av Hm ltac:(intros _; exact MC)).
      intros ps Hps. rewrite C.
      destruct (nth_error_ex (oraw o) i ltac:(rewrite (i_raw _ _ _ _ _ _ I); eapply nth_error_Some_lt; eauto)) as (x & Hx).
      destruct (i_fld _ _ _ _ _ _ I i f x ps Hf Hx Hps) as (Hint & _).
      unfold elem_of in E. rewrite MC in E. eapply interp_implicit_snoc; eauto.
    - (* Explicit *)
      unfold payload_valid in V. rewrite C in V.
      destruct (elem_of nested f p) as [ev|] eqn:E; [|discriminate V].
      assert (HM : forall c', msg_class f = Some c' ->
                nested_ok c' (len_bytes p) = true /\ exact_ok nested f c' (len_bytes p) = true /\ is_nil (nth i st []) = true).
      { intros c' M. rewrite M in S. apply andb_true_iff in S as [S1 S3]. apply andb_true_iff in S1 as [S1 S2]. tauto. }
      destruct (elem_value f a num p ev R LB Fit ltac:(congruence)
                  (not_packed_ok f p Fit ltac:(congruence)) E Nar
                  ltac:(intros c' M; destruct (HM c' M) as (? & ? & ?); tauto)) as (v & Hv & Av & El & Hm).
      rewrite Hv. cbn [bind fst snd].
      apply (step_singular o st urs i f p v ev I Hf ltac:(now rewrite C) El Av Hm ltac:(intros; congruence)).
      intros ps Hps. rewrite C.
      destruct (nth_error_ex (oraw o) i ltac:(rewrite (i_raw _ _ _ _ _ _ I); eapply nth_error_Some_lt; eauto)) as (x & Hx).
      destruct (i_fld _ _ _ _ _ _ I i f x ps Hf Hx Hps) as (Hint & _).
      unfold elem_of in E. destruct (msg_class f) as [c'|] eqn:MC.
      + destruct (HM c' eq_refl) as (_ & _ & Nil). rewrite (nth_of_nth_error _ _ _ [] Hps) in Nil.
        destruct ps; [|discriminate Nil].
        assert (exists b, p = Len b) as (b & ->).
        { pose proof (msg_class_fty f c' MC) as Ft. unfold fits in Fit. rewrite Ft in Fit. cbn in Fit.
          destruct p; try discriminate Fit. eauto. }
        apply (interp_message_first nested sc f c' b ev); [now rewrite C | exact MC | exact E].
      + eapply interp_presence_scalar_snoc; eauto. now rewrite C.
    - (* Oneof *)
      unfold payload_valid in V. rewrite C in V.
      destruct (elem_of nested f p) as [ev|] eqn:E; [|discriminate V].
      assert (HM : forall c', msg_class f = Some c' ->
                nested_ok c' (len_bytes p) = true /\ exact_ok nested f c' (len_bytes p) = true /\ is_nil (nth i st []) = true).
      { intros c' M. rewrite M in S. apply andb_true_iff in S as [S1 S3]. apply andb_true_iff in S1 as [S1 S2]. tauto. }
      destruct (elem_value f a num p ev R LB Fit ltac:(congruence)
                  (not_packed_ok f p Fit ltac:(congruence)) E Nar
                  ltac:(intros c' M; destruct (HM c' M) as (? & ? & ?); tauto)) as (v & Hv & Av & El & Hm).
      rewrite Hv. cbn [bind fst snd].
      apply (step_singular o st urs i f p v ev I Hf ltac:(now rewrite C) El Av Hm ltac:(intros; congruence)).
      intros ps Hps. rewrite C.
      destruct (nth_error_ex (oraw o) i ltac:(rewrite (i_raw _ _ _ _ _ _ I); eapply nth_error_Some_lt; eauto)) as (x & Hx).
      destruct (i_fld _ _ _ _ _ _ I i f x ps Hf Hx Hps) as (Hint & _).
      unfold elem_of in E. destruct (msg_class f) as [c'|] eqn:MC.
      + destruct (HM c' eq_refl) as (_ & _ & Nil). rewrite (nth_of_nth_error _ _ _ [] Hps) in Nil.
        destruct ps; [|discriminate Nil].
        assert (exists b, p = Len b) as (b & ->).
        { pose proof (msg_class_fty f c' MC) as Ft. unfold fits in Fit. rewrite Ft in Fit. cbn in Fit.
          destruct p; try discriminate Fit. eauto. }
        apply (interp_message_first nested sc f c' b ev); [now rewrite C | exact MC | exact E].
      + eapply interp_presence_scalar_snoc; eauto. now rewrite C.
    - (* Repeated *)
      unfold payload_valid in V. rewrite C in V.
      destruct (elems_of nested f p) as [es|] eqn:E; [|discriminate V].
      destruct (wf_repeated _ _ _ W C) as (py & _ & _ & _ & _ & NotMap & _).
      assert (Hsnoc : forall v, map (abs_elem sc f) (match v with PList vs => vs | _ => [v] end) = es ->
                forall ps l, nth_error st i = Some ps ->
                  interp_field nested sc f ps = Some (AList (map (abs_elem sc f) l)) ->
                  interp_field nested sc f (ps ++ [p]) =
                    Some (AList (map (abs_elem sc f) (l ++ match v with PList vs => vs | _ => [v] end)))).
      { intros v Hv ps l Hps Hint. rewrite map_app, Hv. eapply interp_repeated_snoc; eauto. }
      destruct (match p with Len _ => packable (fty f) | _ => false end) eqn:PK.
      + (* a packed chunk *)
        destruct p as [| |b| |]; try discriminate PK. unfold elems_of in E. rewrite PK in E.
        assert (Hn : narrow32 (fty f) = true -> varints_below (length b) (2 ^ 32) b = true).
        { intros En. unfold narrow_ok in Nar. now rewrite En in Nar. }
        destruct (unpack_packed_spec (fty f) b es PK E Hn) as (l & Hl & Ml).
        unfold field_value. rewrite pwt_parsed_of. cbn [snd]. rewrite (packed_branch_spec f (Len b) Fit), PK.
        unfold parsed_of. cbn [snd pbytes]. rewrite Hl. cbn [bind fst snd].
        apply (Inv_store_repeated sc WF nested c o st urs i f (Len b) (PList l) I Hf C).
        apply (Hsnoc (PList l)). unfold abs_elem. rewrite (packable_no_msg f PK). exact Ml.
      + (* one element *)
        assert (E' : exists ev, elem_of nested f p = Some ev /\ es = [ev]).
        { unfold elems_of in E. destruct p; try (rewrite PK in E); unfold obind in E;
            destruct (elem_of nested f _) as [ev|]; try discriminate E; injection E as <-; eauto. }
        destruct E' as (ev & E' & ->).
        assert (HM : forall c', msg_class f = Some c' ->
                  nested_ok c' (len_bytes p) = true /\ exact_ok nested f c' (len_bytes p) = true).
        { intros c' M. rewrite M in S. apply andb_true_iff in S as [S1 _]. apply andb_true_iff in S1 as [S1 S2]. tauto. }
        destruct (elem_value f a num p ev R LB Fit ltac:(congruence)
                    ltac:(destruct p; try exact Logic.I; exact PK) E' Nar HM) as (v & Hv & Av & El & Hm).
        rewrite Hv. cbn [bind fst snd].
        apply (Inv_store_repeated sc WF nested c o st urs i f p v I Hf C).
        apply (Hsnoc v). destruct El as (_ & _ & Nl & _). destruct v; try (cbn [map]; now rewrite Av).
        exfalso. eapply Nl. reflexivity.
    - (* MapOf *)
      destruct (wf_mapof _ _ _ W C) as (pk & pv' & kt & vt & _ & _ & IsMap & _).
      apply ptype_eqb_eq in IsMap.
      assert (exists b, p = Len b) as (b & ->).
      { unfold fits in Fit. rewrite IsMap in Fit. cbn in Fit. destruct p; try discriminate Fit. eauto. }
      apply andb_true_iff in S as [Clean Nok]. rewrite Clean in *. cbn [len_bytes] in *.
      unfold payload_valid in V. rewrite C in V. cbn [len_bytes] in V. cbn [fst snd].
      exact (MAP o st urs i f a num b I Hf C R LB Clean V Nok).
  Qed.
End Dec.
