(* C18 gap closing, third file: the constructor on keywords outside every oneof (table: header of C18GapA.v / C18GapB.v). *)
From Coq Require Import ZArith List Bool Lia Arith.
From BP Require Import Base.Prelude Model.Types Model.Object Model.Eq Model.WellFormed.
From BP Require Import Model.C18Beh Model.C18BehEx Model.C18GapA.
From BP Require Import Proofs.C04CurP Proofs.C18BehBase Proofs.C18BehPrim.
Import ListNotations.

(* corresponding keyword lists: same field, a field outside every oneof, corresponding values *)
Definition kw_rel (sc : schema) (c : nat) (iv iv' : nat * pv) : Prop :=
  fst iv' = fst iv /\ vrel sc (snd iv) (snd iv') /\
  exists f, nth_error (cfields (get_class sc c)) (fst iv) = Some f /\ fgroup f = None.

Lemma sentinel_plain sc f x y : vrel sc x y -> is_sentinel f y = is_sentinel f x.
Proof.
  destruct x; cbn [vrel]; intros R; try (subst y; reflexivity).
  - destruct R as (? & -> & _). reflexivity.
  - destruct R as (? & -> & _). reflexivity.
  - destruct o. destruct R as (? & -> & _). reflexivity.
Qed.

Lemma loops_rel sc cur0 : forallb opt_is_none cur0 = true ->
  forall fs j ra rb cur, Forall mem_ok fs -> raw_rel (vrel sc) cur0 j ra rb fs ->
  cur_loop j (map pyd_field fs) rb cur = cur /\ cur_loop j fs ra cur = cur /\
  sent_loop (map pyd_field fs) rb = sent_loop fs ra.
Proof.
  intros H0. induction fs as [|f fs IH]; intros j ra rb cur M R; [cbn; auto|].
  destruct ra as [|x ra], rb as [|y rb]; cbn [raw_rel] in R; try contradiction; [cbn; auto|].
  destruct R as [Rs R]. inversion M as [|? ? Mf Mfs]; subst.
  cbn [map cur_loop sent_loop]. rewrite pyd_field_group.
  destruct (fgroup f) as [g|] eqn:Hg.
  - rewrite (group_selects_nosel cur0 f j g H0 Hg) in Rs. cbn [slot_rel] in Rs. destruct Rs as [-> Hy].
    destruct (pyd_field_member f g Mf Hg) as (p & _ & _ & Ho' & _).
    assert (S1 : is_sentinel (pyd_field f) y = true) by (destruct y; try discriminate; cbn [is_sentinel]; auto).
    rewrite S1. cbn [is_sentinel andb]. apply (IH (S j) ra rb cur Mfs R).
  - rewrite (group_selects_none cur0 f j Hg) in Rs. cbn [slot_rel] in Rs.
    rewrite (pyd_field_none f Hg), (sentinel_plain sc f x y Rs).
    destruct (IH (S j) ra rb cur Mfs R) as (A & B & C). rewrite C. auto.
Qed.

Lemma fold_rel sc c cur0 : forallb opt_is_none cur0 = true ->
  forall kw kw' ra rb,
  list_rel (kw_rel sc c) kw kw' ->
  raw_rel (vrel sc) cur0 0 ra rb (cfields (get_class sc c)) ->
  raw_rel (vrel sc) cur0 0
    (fold_left (fun r '(i, v) => set_nth i (if fieldless sc v then mark_sow v else v) r) kw ra)
    (fold_left (fun r '(i, v) => set_nth i (if fieldless (pyd_schema sc) v then mark_sow v else v) r) kw' rb)
    (cfields (get_class sc c)).
Proof.
  intros H0. induction kw as [|[i v] kw IH]; intros [|[i' v'] kw'] ra rb K R; cbn [list_rel] in K; try contradiction; [exact R|].
  destruct K as [(Ei & Rv & f & Hf & Hg) K]. cbn [fst snd] in *. subst i'. cbn [fold_left]. apply IH; [exact K|].
  apply (raw_rel_set (vrel sc) cur0 ra 0 rb _ i f); [exact R | exact Hf |].
  cbn [plus]. rewrite (group_selects_none cur0 f i Hg). cbn [slot_rel].
  rewrite (fieldless_rel sc v v' Rv). destruct (fieldless sc v); [apply mark_sow_rel|]; exact Rv.
Qed.

Theorem construct_plain_kw sc c kw kw' :
  wf_schema sc = true -> list_rel (kw_rel sc c) kw kw' ->
  orel sc (construct sc c kw) (construct (pyd_schema sc) c kw').
Proof.
  intros W K. pose proof (wf_class_mem_ok sc c W) as M.
  pose proof (new_rel sc c M) as R0. unfold new in R0. rewrite ?pyd_cfields, ?pyd_cngroups in R0.
  apply vrel_msg in R0. destruct R0 as (rb0 & E0 & R0). inversion E0 as [E1]. clear E0.
  set (cur0 := repeat None (cngroups (get_class sc c))) in *.
  assert (H0 : forallb opt_is_none cur0 = true) by apply forallb_repeat_none.
  unfold construct, new. cbn [oraw]. rewrite ?pyd_cfields, ?pyd_cngroups. rewrite ?E1.
  pose proof (fold_rel sc c cur0 H0 kw kw' _ _ K R0) as R.
  set (ra := fold_left _ kw _) in *. set (rb := fold_left _ kw' _) in *.
  rewrite !post_init_unfold, pyd_cfields, pyd_cngroups. fold cur0.
  destruct (loops_rel sc cur0 H0 _ 0 ra rb cur0 M R) as (A & B & C). rewrite A, B, C.
  unfold orel. cbn [vrel]. exists rb. split; [reflexivity | exact R].
Qed.
