(* Proofs/ImportingP10.v — C13, part 10: concrete witnesses for the class-scoped evaluation, computed with the
   MODELS of the real casing functions (Model/Casing.v: pascal_case = pythonize_class_name, safe_snake_case =
   pythonize_field_name) rather than with sample tables:
     K32                 shop / shop.item, field `item`            (descendant alias = field name)
     dunder              doc.api / doc, class attribute `__doc__`  (ancestor alias = a name every class namespace holds)
     well-known          a / google.protobuf.Struct, field `betterproto_lib_google_protobuf`
   and the non-vacuity examples of the theorems of ImportingP7 / ImportingP9. *)
From BP Require Import Base.Prelude Proofs.BytesP Spec.PyImport Spec.PyImportLocals Model.Importing Model.C13Hints.
From BP Require Import Proofs.ImportingP Proofs.ImportingP2 Proofs.ImportingP3 Proofs.ImportingP4 Proofs.ImportingP5
                       Proofs.ImportingP7 Proofs.ImportingP9.
From BP Require Model.Casing.
From BP Require Import Proofs.ImportingP8.
Local Open Scope nat_scope.

Definition PAS : list byte -> list byte := Casing.pascal_case.        (* naming.pythonize_class_name *)
Definition FLD : list byte -> list byte := Casing.safe_snake_case.    (* naming.pythonize_field_name; also the [snake] of importing.py *)

(* get_type_reference with the modelled casing functions *)
Definition gtr_m (cur tgt : path) (T : list byte) (pyd : bool) :=
  get_type_reference PAS FLD OPT (py_join b_dot cur) (b_dot :: py_join b_dot (tgt ++ [T])) true pyd.

Definition s_shop := [x73; x68; x6f; x70].                     (* shop *)
Definition s_item := [x69; x74; x65; x6d].                     (* item *)
Definition t_Item := [x49; x74; x65; x6d].                     (* Item *)
Definition s_qty := [x71; x74; x79].                           (* qty *)
Definition s_doc := [x64; x6f; x63].                           (* doc *)
Definition s_api := [x61; x70; x69].                           (* api *)
Definition s_dunder_doc := [x5f; x5f; x64; x6f; x63; x5f; x5f].                (* __doc__ *)
Definition s_dunder_module := [x5f; x5f; x6d; x6f; x64; x75; x6c; x65; x5f; x5f].   (* __module__ *)
Definition t_Struct := [x53; x74; x72; x75; x63; x74].         (* Struct *)
Definition s_bplgp : list byte := Eval vm_compute in py_join b_us (lib_path false).     (* betterproto_lib_google_protobuf *)

(* ---------------------------------------------------------------- K32 *)
Definition w_shop : world :=
  world_of [sr] [py_join b_dot [s_shop]; py_join b_dot [s_shop; s_item]] [([sr; s_shop; s_item], [PAS t_Item])] [].

Lemma w_shop_has : world_has w_shop [sr] [s_shop; s_item] (PAS t_Item).
Proof.
  apply (world_of_has [sr] _ _ [] [s_shop; s_item] [PAS t_Item]).
  - reflexivity.
  - right. left. reflexivity.
  - left. reflexivity.
  - left. reflexivity.
  - intros d n [<-|[]] [<-|[]]. vm_compute. reflexivity.
Qed.

(* `shop.item.Item item = 1;` in package shop: `from . import item` and `item: "item.Item"`.  All side conditions of
   C13_resolves hold and the module-level evaluation yields the class; with the class namespace (the one field
   `item`) in scope the annotation denotes nothing. *)
Theorem locals_shadow_refuted :
  exists (w : world) (root cur tgt : path) (T : list byte) (protos : list (list byte)),
    root <> [] /\ pkg_okb cur = true /\ pkg_okb tgt = true /\ type_okb T = true /\
    path_eqb (firstn 1 tgt) [s_betterproto] = false /\ path_eqb tgt google_protobuf = false /\
    identb (PAS T) = true /\ cls_startb (PAS T) = true /\ world_has w root tgt (PAS T) /\
    gtr_m cur tgt T true
      = (quoted [x69; x74; x65; x6d; x2e; x49; x74; x65; x6d],                                            (* "item.Item" *)
         Some [x66; x72; x6f; x6d; x20; x2e; x20; x69; x6d; x70; x6f; x72; x74; x20; x69; x74; x65; x6d]) /\  (* from . import item *)
    map FLD protos = [[x69; x74; x65; x6d]] /\                                                           (* the field `item` *)
    rel_of cur tgt = RDesc /\ via_name FLD cur tgt (PAS T) = [x69; x74; x65; x6d] /\
    denotes w (root ++ cur) (gtr_m cur tgt T true) (VCls (root ++ tgt) (PAS T)) /\
    betterproto_hint w (root ++ cur) (map FLD protos) (gtr_m cur tgt T true) = Some (VCls (root ++ tgt) (PAS T)) /\
    class_scope_hint w (root ++ cur) (map FLD protos) (gtr_m cur tgt T true) = None /\
    (forall v, ~ denotes_with_locals w (root ++ cur) (map FLD protos) (gtr_m cur tgt T true) v).
Proof.
  exists w_shop, [sr], [s_shop], [s_shop; s_item], t_Item, [s_item].
  conj_split; try (vm_compute; reflexivity); try discriminate.
  - exact w_shop_has.
  - rewrite denotes_eval. vm_compute. reflexivity.
  - intros v. rewrite denotes_locals_eval. vm_compute. discriminate.
Qed.

(* ---------------------------------------------------------------- a name EVERY class namespace holds *)
(* package doc.api referencing its parent package doc: the ancestor alias is "_" + "_"*1 + "doc" + "__" = __doc__,
   which is a key of vars(cls) of every class.  No field is involved (protos = []). *)
Definition w_doc : world :=
  world_of [sr] [py_join b_dot [s_doc]; py_join b_dot [s_doc; s_api]] [([sr; s_doc], [PAS t_Item])] [].

Lemma w_doc_has : world_has w_doc [sr] [s_doc] (PAS t_Item).
Proof.
  apply (world_of_has [sr] _ _ [] [s_doc] [PAS t_Item]).
  - reflexivity.
  - left. reflexivity.
  - left. reflexivity.
  - left. reflexivity.
  - intros d n [<-|[]] [<-|[]]. vm_compute. reflexivity.
Qed.

Theorem locals_dunder_refuted :
  exists (w : world) (root cur tgt : path) (T : list byte) (cls_namespace : list name),
    root <> [] /\ pkg_okb cur = true /\ pkg_okb tgt = true /\ type_okb T = true /\
    path_eqb (firstn 1 tgt) [s_betterproto] = false /\ path_eqb tgt google_protobuf = false /\
    identb (PAS T) = true /\ world_has w root tgt (PAS T) /\
    cls_namespace = [s_dunder_module; s_dunder_doc] /\                         (* no field at all *)
    rel_of cur tgt = RAnc /\ via_name FLD cur tgt (PAS T) = s_dunder_doc /\
    fst (gtr_m cur tgt T true) = quoted (s_dunder_doc ++ b_dot :: PAS T) /\   (* "__doc__.Item" *)
    betterproto_hint w (root ++ cur) cls_namespace (gtr_m cur tgt T true) = Some (VCls (root ++ tgt) (PAS T)) /\
    class_scope_hint w (root ++ cur) cls_namespace (gtr_m cur tgt T true) = None.
Proof.
  exists w_doc, [sr], [s_doc; s_api], [s_doc], t_Item, [s_dunder_module; s_dunder_doc].
  conj_split; try (vm_compute; reflexivity); try discriminate.
  exact w_doc_has.
Qed.

(* ---------------------------------------------------------------- well-known types *)
Definition w_wk : world :=
  world_of [sr] [py_join b_dot [sa]] [(lib_path false, [PAS t_Struct])] [lib_path false].

Theorem wellknown_shadow_refuted :
  exists (w : world) (P cur : path) (T : list byte) (protos : list (list byte)),
    pkg_okb cur = true /\ type_okb T = true /\ path_eqb cur google_protobuf = false /\
    identb (PAS T) = true /\ identb (FLD (py_join b_dot (lib_path false))) = true /\
    w_pkg w (lib_path false) = true /\ w_cls w (lib_path false) (PAS T) = true /\
    map FLD protos = [FLD (py_join b_dot (lib_path false))] /\
    FLD (py_join b_dot (lib_path false)) = s_bplgp /\
    betterproto_hint w P (map FLD protos)
      (get_type_reference PAS FLD OPT (py_join b_dot cur) (b_dot :: py_join b_dot (google_protobuf ++ [T])) true false)
      = Some (VCls (lib_path false) (PAS T)) /\
    class_scope_hint w P (map FLD protos)
      (get_type_reference PAS FLD OPT (py_join b_dot cur) (b_dot :: py_join b_dot (google_protobuf ++ [T])) true false)
      = None.
Proof.
  exists w_wk, [sr; sa], [sa], t_Struct, [s_bplgp].
  conj_split; vm_compute; reflexivity.
Qed.

(* ---------------------------------------------------------------- the service Base class (proposed finding K35) *)
(* The generated `ShopBase(ServiceBase)` class writes the annotations of STREAMING rpcs unquoted (`AsyncIterator[item.Item]`):
   they are evaluated when the def statement runs, inside the class body, whose namespace at that point holds __module__,
   __qualname__, __doc__ and the methods defined above (pythonize_method_name = safe_snake_case of the rpc names).
   `service Shop { rpc Item(..) ..; rpc Watch(stream shop.item.Item) .. }` in package shop: the method `item` shadows the alias. *)
Definition s_dunder_qualname := [x5f; x5f; x71; x75; x61; x6c; x6e; x61; x6d; x65; x5f; x5f].   (* __qualname__ *)

Theorem service_scope_refuted :
  exists (w : world) (root cur tgt : path) (T : list byte) (rpcs_above : list (list byte)) (cls_namespace : list name),
    root <> [] /\ pkg_okb cur = true /\ pkg_okb tgt = true /\ type_okb T = true /\
    path_eqb (firstn 1 tgt) [s_betterproto] = false /\ path_eqb tgt google_protobuf = false /\
    identb (PAS T) = true /\ world_has w root tgt (PAS T) /\
    rpcs_above = [t_Item] /\                                                             (* rpc Item(...) *)
    cls_namespace = [s_dunder_module; s_dunder_qualname; s_dunder_doc] ++ map FLD rpcs_above /\
    map FLD rpcs_above = [s_item] /\
    via_name FLD cur tgt (PAS T) = s_item /\
    betterproto_hint w (root ++ cur) cls_namespace (gtr_m cur tgt T false) = Some (VCls (root ++ tgt) (PAS T)) /\
    class_scope_hint w (root ++ cur) cls_namespace (gtr_m cur tgt T false) = None.
Proof.
  exists w_shop, [sr], [s_shop], [s_shop; s_item], t_Item, [t_Item], [s_dunder_module; s_dunder_qualname; s_dunder_doc; s_item].
  conj_split; try (vm_compute; reflexivity); try discriminate.
  exact w_shop_has.
Qed.

(* ---------------------------------------------------------------- non-vacuity *)
(* locals_exact / locals_fields_exact, positive direction, on a cousin reference (a.b -> c.d, nested type Foo.Bar)
   with a non-trivial class namespace that even holds fields built from the alias's own text *)
Definition s_us_c_d_us := [x5f; x5f; x63; x5f; x64; x5f; x5f].      (* __c_d__ *)
Definition s_c_d := [x63; x5f; x64].                                (* c_d *)
Definition w_ex_m : world :=
  world_of [sr] [py_join b_dot [sa; sb]; py_join b_dot [sc; sd]] [([sr; sc; sd], [PAS t_Foo_Bar])] [].

Example locals_exact_example :
  (forall s, ident_chars (FLD s)) /\
  [sr] <> [] /\ pkg_okb [sa; sb] = true /\ pkg_okb [sc; sd] = true /\ type_okb t_Foo_Bar = true /\
  path_eqb (firstn 1 [sc; sd]) [s_betterproto] = false /\ path_eqb [sc; sd] google_protobuf = false /\
  identb (PAS t_Foo_Bar) = true /\ cls_startb (PAS t_Foo_Bar) = true /\ world_has w_ex_m [sr] [sc; sd] (PAS t_Foo_Bar) /\
  rel_of [sa; sb] [sc; sd] = RCousin /\ rel_of [sa; sb] [sc; sd] <> RDesc /\ via_name FLD [sa; sb] [sc; sd] (PAS t_Foo_Bar) = s_us_c_d_us /\
  map FLD [s_us_c_d_us; s_c_d; s_item; PAS t_Foo_Bar] = [s_c_d; s_c_d; s_item; [x66; x6f; x6f; x5f; x62; x61; x72]] /\
  mem_name (via_name FLD [sa; sb] [sc; sd] (PAS t_Foo_Bar)) (map FLD [s_us_c_d_us; s_c_d; s_item; PAS t_Foo_Bar]) = false /\
  class_scope_hint w_ex_m [sr; sa; sb] (map FLD [s_us_c_d_us; s_c_d; s_item; PAS t_Foo_Bar]) (gtr_m [sa; sb] [sc; sd] t_Foo_Bar false)
    = Some (VCls [sr; sc; sd] (PAS t_Foo_Bar)).
Proof.
  split; [exact field_name_ident_chars|].
  conj_split; try (vm_compute; reflexivity); try discriminate.
  apply (world_of_has [sr] _ _ [] [sc; sd] [PAS t_Foo_Bar]).
  - reflexivity.
  - right. left. reflexivity.
  - left. reflexivity.
  - left. reflexivity.
  - intros d n [<-|[]] [<-|[]]. vm_compute. reflexivity.
Qed.

(* descendant reference whose alias is NOT among the fields: the condition of locals_fields_exact holds non-trivially *)
Example locals_fields_example :
  rel_of [s_shop] [s_shop; s_item] = RDesc /\
  map FLD [s_qty; t_Item; s_shop] = [s_qty; s_item; s_shop] /\
  mem_name (py_join b_us (skipn (length [s_shop]) [s_shop; s_item])) (map FLD [s_qty; s_shop]) = false /\
  class_scope_hint w_shop [sr; s_shop] (map FLD [s_qty; s_shop]) (gtr_m [s_shop] [s_shop; s_item] t_Item true)
    = Some (VCls [sr; s_shop; s_item] (PAS t_Item)) /\
  (* ... and the proto field called `Item` is pythonised to `item` too *)
  mem_name (via_name FLD [s_shop] [s_shop; s_item] (PAS t_Item)) (map FLD [s_qty; t_Item; s_shop]) = true /\
  class_scope_hint w_shop [sr; s_shop] (map FLD [s_qty; t_Item; s_shop]) (gtr_m [s_shop] [s_shop; s_item] t_Item true) = None.
Proof. conj_split; vm_compute; reflexivity. Qed.

(* desc_alias_is_field_name / desc_field_collides: a two-segment descendant *)
Example desc_alias_example :
  plain_pkgb [sx] = true /\ plain_pkgb [sa; sb] = true /\ [sa; sb] <> [] /\ type_okb t_T = true /\
  path_eqb ([sx] ++ [sa; sb]) google_protobuf = false /\ identb (PAS t_T) = true /\
  In (py_join b_us [sa; sb]) [s_qty; [x61; x5f; x62]] /\
  FLD (py_join b_us [sa; sb]) = [x61; x5f; x62] /\
  fst (gtr_m [sx] [sx; sa; sb] t_T true) = quoted [x61; x5f; x62; x2e; x54].     (* "a_b.T" *)
Proof. conj_split; try (vm_compute; reflexivity); try discriminate. right. left. reflexivity. Qed.

(* the statement "no pythonised field name ends in __" is about all strings; some that come close *)
Example no_double_us_example :
  map FLD [s_dunder_doc; [x5f; x5f]; [x61; x5f; x5f; x62]; [x5f; x31]; [x69; x73]; []]
  = [s_doc; [x5f]; [x61; x5f; x62]; [x5f; x31]; [x69; x73; x5f]; [x5f]].     (* doc, _, a_b, _1, is_, _ *)
Proof. vm_compute. reflexivity. Qed.

(* wellknown_locals_exact: its hypotheses hold for google.protobuf.Struct referenced from package a (both variants), and with a
   namespace of ordinary fields the class-scoped evaluation yields the bundled class *)
Definition w_wk_p : world :=
  world_of [sr] [py_join b_dot [sa]] [(lib_path true, [PAS t_Struct])] [lib_path true].
Example wellknown_locals_example :
  pkg_okb [sa] = true /\ type_okb t_Struct = true /\ path_eqb [sa] google_protobuf = false /\
  early_return OPT (b_dot :: py_join b_dot (google_protobuf ++ [t_Struct])) = None /\
  identb (PAS t_Struct) = true /\
  identb (FLD (py_join b_dot (lib_path false))) = true /\ identb (FLD (py_join b_dot (lib_path true))) = true /\
  w_pkg w_wk (lib_path false) = true /\ w_cls w_wk (lib_path false) (PAS t_Struct) = true /\
  w_pkg w_wk_p (lib_path true) = true /\ w_cls w_wk_p (lib_path true) (PAS t_Struct) = true /\
  mem_name (FLD (py_join b_dot (lib_path false))) (map FLD [s_qty; s_item]) = false /\
  class_scope_hint w_wk [sr; sa] (map FLD [s_qty; s_item])
    (get_type_reference PAS FLD OPT (py_join b_dot [sa]) (b_dot :: py_join b_dot (google_protobuf ++ [t_Struct])) true false)
    = Some (VCls (lib_path false) (PAS t_Struct)) /\
  class_scope_hint w_wk_p [sr; sa] (map FLD [s_qty; s_item])
    (get_type_reference PAS FLD OPT (py_join b_dot [sa]) (b_dot :: py_join b_dot (google_protobuf ++ [t_Struct])) true true)
    = Some (VCls (lib_path true) (PAS t_Struct)).
Proof. conj_split; vm_compute; reflexivity. Qed.

(* ---------------------------------------------------------------- the parameter [snake] instantiated with the casing model *)
(* C13_resolves and the exact condition with snake := Model/Casing.v safe_snake_case: the hypothesis about [snake] is discharged
   (field_name_ident_chars), only the class-name function remains a parameter *)
Theorem resolves_casing_model (cls_name optional : list byte -> list byte) (w : world) (root : path) :
  root <> [] ->
  forall (cur tgt : path) (T : list byte) (unwrap pyd : bool),
    pkg_okb cur = true -> pkg_okb tgt = true -> type_okb T = true ->
    path_eqb (firstn 1 tgt) [s_betterproto] = false ->
    path_eqb tgt google_protobuf = false ->
    identb (cls_name T) = true ->
    world_has w root tgt (cls_name T) ->
    denotes w (root ++ cur)
      (get_type_reference cls_name FLD optional (py_join b_dot cur) (b_dot :: py_join b_dot (tgt ++ [T])) unwrap pyd)
      (VCls (root ++ tgt) (cls_name T)).
Proof. intros Hr cur tgt T unwrap pyd. apply (resolves_gen cls_name FLD optional field_name_ident_chars w root Hr). Qed.

Theorem locals_exact_casing_model (cls_name optional : list byte -> list byte) (w : world) (root cur tgt : path) (T : list byte)
    (unwrap pyd : bool) (names : list name) :
  root <> [] ->
  pkg_okb cur = true -> pkg_okb tgt = true -> type_okb T = true ->
  path_eqb (firstn 1 tgt) [s_betterproto] = false ->
  path_eqb tgt google_protobuf = false ->
  identb (cls_name T) = true ->
  world_has w root tgt (cls_name T) ->
  (denotes_with_locals w (root ++ cur) names
     (get_type_reference cls_name FLD optional (py_join b_dot cur) (b_dot :: py_join b_dot (tgt ++ [T])) unwrap pyd)
     (VCls (root ++ tgt) (cls_name T))
   <-> mem_name (via_name FLD cur tgt (cls_name T)) names = false).
Proof. apply (locals_exact cls_name FLD optional field_name_ident_chars). Qed.
