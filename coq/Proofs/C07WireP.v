(* C07: facts about the record-level reader of Model/C07Wire.v:
   - a relational description [Recs] of what it accepts (one rule per wire type), complete for the reader
     and closed under concatenation (used on the encoder side, C07EncP.v);
   - whatever betterproto's own framing (load_varint / load_field, Model/Decode.v) accepts without error on an
     input the reader accepts, has the same (number, wire type) sequence (used on the decoder side, C07ParseP.v). *)
From Coq Require Import ZArith List Bool Lia Arith.
From BP Require Import Base.Prelude Model.Types Model.Varint Model.Object Model.Decode.
From BP Require Import Spec.Varint Proofs.BytesP Proofs.VarintP Model.C07Step Model.C07Wire.
From BP Require Import gen.Tables.
Import ListNotations.
Ltac Zify.zify_post_hook ::= Z.to_euclidean_division_equations.

Lemma rd_varint_shape bs : forall rest,
  varint_shape bs -> rd_varint (bs ++ rest) = Some (varint_value bs, rest).
Proof.
  induction bs as [|b r IH]; intros rest Sh; [cbn in Sh; tauto|].
  pose proof (Z_of_byte_range b) as Hb.
  cbn [app rd_varint varint_value]. cbn [varint_shape] in Sh. destruct r as [|b' r'].
  - replace (Z_of_byte b <? 128) with true by lia. cbn [varint_value]. f_equal. f_equal. lia.
  - destruct Sh as [Hge Sh']. replace (Z_of_byte b <? 128) with false by lia.
    change ((b' :: r') ++ rest) with ((b' :: r') ++ rest). rewrite (IH rest Sh'). f_equal. f_equal. lia.
Qed.

Lemma rd_skip_app a rest : rd_skip (Zlength a) (a ++ rest) = Some rest.
Proof.
  unfold rd_skip, Zlength. rewrite app_length.
  replace ((0 <=? Z.of_nat (length a)) && (Z.of_nat (length a) <=? Z.of_nat (length a + length rest))) with true by lia.
  rewrite Nat2Z.id. f_equal. apply skipn_app_exact.
Qed.

(* ---- the relational description ---- *)
Inductive Payload : Z -> list byte -> Prop :=
| P_varint bs : varint_shape bs -> Payload 0 bs
| P_fixed64 bs : length bs = 8%nat -> Payload 1 bs
| P_len lb bs : varint_shape lb -> varint_value lb = Zlength bs -> Payload 2 (lb ++ bs)
| P_fixed32 bs : length bs = 4%nat -> Payload 5 bs.

Inductive Recs : list byte -> list (Z * Z) -> Prop :=
| Recs_nil : Recs [] []
| Recs_cons tagb payload rest rs :
    varint_shape tagb -> 1 <= varint_value tagb / 8 ->
    Payload (varint_value tagb mod 8) payload -> Recs rest rs ->
    Recs (tagb ++ payload ++ rest) ((varint_value tagb / 8, varint_value tagb mod 8) :: rs).

Lemma rd_payload_ok wt payload rest : Payload wt payload -> rd_payload wt (payload ++ rest) = Some rest.
Proof.
  intros P. destruct P as [bs Sh | bs Hl | lb bs Sh Hv | bs Hl]; unfold rd_payload; cbn [Z.eqb Pos.eqb].
  - rewrite rd_varint_shape by exact Sh. reflexivity.
  - replace 8 with (Zlength bs) by (unfold Zlength; lia). apply rd_skip_app.
  - rewrite <- app_assoc, rd_varint_shape by exact Sh. rewrite Hv. apply rd_skip_app.
  - replace 4 with (Zlength bs) by (unfold Zlength; lia). apply rd_skip_app.
Qed.

Lemma Recs_complete s rs : Recs s rs -> forall fuel, (length s < fuel)%nat -> rd_records fuel s = Some rs.
Proof.
  induction 1 as [|tagb payload rest rs Sh Hn Hp Hr IH]; intros fuel Hf.
  - destruct fuel; [lia | reflexivity].
  - destruct fuel as [|fuel]; [lia|].
    destruct tagb as [|b0 t0]; [cbn in Sh; tauto|].
    cbn [rd_records app].
    change (b0 :: t0 ++ payload ++ rest) with ((b0 :: t0) ++ payload ++ rest).
    rewrite rd_varint_shape by exact Sh.
    replace (varint_value (b0 :: t0) / 8 <? 1) with false by lia.
    rewrite rd_payload_ok by exact Hp.
    rewrite IH; [reflexivity|]. rewrite !app_length in Hf. cbn [length] in Hf. lia.
Qed.

Lemma Recs_records s rs : Recs s rs -> records s = Some rs.
Proof. intros H. apply Recs_complete; [exact H | lia]. Qed.

Lemma Recs_app a ra b rb : Recs a ra -> Recs b rb -> Recs (a ++ b) (ra ++ rb).
Proof.
  induction 1 as [|tagb payload rest rs Sh Hn Hp Hr IH]; intros Hb; [exact Hb|].
  rewrite <- !app_assoc. cbn [app]. apply Recs_cons; auto.
Qed.

(* ---- betterproto's framing against the reader ---- *)
Lemma load_varint_rd s v raw rest : load_varint s = Ok (v, raw, rest) -> rd_varint s = Some (v, rest) /\ 0 <= v.
Proof.
  intros H. apply load_varint_sound in H. destruct H as (-> & Sh & Hv & _).
  rewrite rd_varint_shape by exact Sh. subst v. split; [reflexivity | apply varint_value_nonneg].
Qed.

Lemma read_exactly_rd s n d s' : read_exactly s n = Ok (d, s') -> rd_skip n s = Some s'.
Proof.
  unfold read_exactly, rd_skip. destruct ((0 <=? n) && (n <=? Zlength s)); [|discriminate].
  intros H. injection H as _ <-. reflexivity.
Qed.

Lemma tag_split tag : 0 <= tag -> Z.shiftr tag 3 = tag / 8 /\ Z.land tag 7 = tag mod 8.
Proof.
  intros H. split.
  - rewrite Z.shiftr_div_pow2 by lia. reflexivity.
  - change 7 with (Z.ones 3). rewrite Z.land_ones by lia. reflexivity.
Qed.

(* one record: if the reader can skip the payload, load_field read the same bytes *)
Lemma load_field_rd fuel s tag raw p s' s2 :
  0 <= tag -> load_field fuel s tag raw = Ok (p, s') -> rd_payload (tag mod 8) s = Some s2 ->
  s2 = s' /\ pnum p = tag / 8 /\ pwt p = tag mod 8.
Proof.
  intros Ht E R. destruct (tag_split tag Ht) as (Hn & Hw).
  destruct fuel as [|fuel]; cbn [load_field] in E; rewrite Hn, Hw in E;
    destruct (tag / 8 =? 0); try discriminate;
    unfold rd_payload in R; unfold WIRE_VARINT, WIRE_FIXED_64, WIRE_LEN_DELIM, WIRE_FIXED_32, WIRE_START_GROUP in E.
  all: destruct (tag mod 8 =? 0) eqn:E0.
  all: try (destruct (load_varint s) as [[[v r] s1]|] eqn:Ev; cbn [bind] in E; [|discriminate];
            apply load_varint_rd in Ev; destruct Ev as (Ev & _); rewrite Ev in R;
            injection E as <- <-; injection R as <-; cbn [pnum pwt]; auto; fail).
  all: destruct (tag mod 8 =? 1) eqn:E1.
  all: try (destruct (read_exactly s 8) as [[d s1]|] eqn:Er; cbn [bind] in E; [|discriminate];
            apply read_exactly_rd in Er; rewrite Er in R;
            injection E as <- <-; injection R as <-; cbn [pnum pwt]; auto; fail).
  all: destruct (tag mod 8 =? 2) eqn:E2.
  all: try (destruct (load_varint s) as [[[v r] s1]|] eqn:Ev; cbn [bind] in E; [|discriminate];
            apply load_varint_rd in Ev; destruct Ev as (Ev & _); rewrite Ev in R;
            destruct (read_exactly s1 v) as [[d s3]|] eqn:Er; cbn [bind] in E; [|discriminate];
            apply read_exactly_rd in Er; rewrite Er in R;
            injection E as <- <-; injection R as <-; cbn [pnum pwt]; auto; fail).
  all: destruct (tag mod 8 =? 5) eqn:E5; [|discriminate].
  all: destruct (read_exactly s 4) as [[d s1]|] eqn:Er; cbn [bind] in E; [|discriminate];
       apply read_exactly_rd in Er; rewrite Er in R;
       injection E as <- <-; injection R as <-; cbn [pnum pwt]; auto.
Qed.

Lemma frames_records fuel' n : forall s ps fuel rs,
  frames fuel' n s = Ok ps -> rd_records fuel s = Some rs ->
  map (fun p => (pnum p, pwt p)) ps = rs.
Proof.
  induction n as [|n IH]; intros s ps fuel rs F R; [discriminate|].
  destruct fuel as [|fuel]; [discriminate|].
  cbn [frames] in F. cbn [rd_records] in R. destruct s as [|b s].
  - injection F as <-. injection R as <-. reflexivity.
  - destruct (load_varint (b :: s)) as [[[tag r] s1]|] eqn:Ev; cbn [bind] in F; [|discriminate].
    apply load_varint_rd in Ev. destruct Ev as (Ev & Ht). rewrite Ev in R.
    destruct (tag / 8 <? 1); [discriminate|].
    destruct (rd_payload (tag mod 8) s1) as [s2|] eqn:Ep; [|discriminate].
    destruct (load_field fuel' s1 tag r) as [[p s2']|] eqn:Ef; cbn [bind] in F; [|discriminate].
    destruct (load_field_rd _ _ _ _ _ _ _ Ht Ef Ep) as (-> & Hn & Hw).
    destruct (frames fuel' n s2') as [rest|] eqn:Er; cbn [bind] in F; [|discriminate].
    destruct (rd_records fuel s2') as [rs'|] eqn:Err; [|discriminate].
    injection F as <-. injection R as <-. cbn [map]. rewrite Hn, Hw. f_equal. eapply IH; eauto.
Qed.
