(* C02: ingredients of the one-record simulation: abs_obj field by field, field lookup, the
   wire-type tables against Spec/Wire.fits, and what __setattr__ does position by position. *)
From BP Require Import Base.Prelude Model.Types Model.Varint Model.Scalar Model.Float Model.Utf8.
From BP Require Import Model.Object Model.Eq Model.TimeCore Model.Decode Model.WellFormed.
From BP Require Import Spec.Varint Spec.Wire.
From BP Require Import Proofs.BytesP Proofs.C02Abs Proofs.C02WireP Proofs.C02LeafP Proofs.C02LoadP Proofs.C02ListP.
From BP Require Import gen.Tables.
From Coq Require Import ZifyBool ZifyN.
Ltac Zify.zify_post_hook ::= Z.to_euclidean_division_equations.

(* ------------------------------------------------------------------ abs_obj, field by field *)
Definition abs_elem (sc : schema) (f : fdesc) (v : pv) : aval :=
  match msg_class f with
  | None => abs_scalar v
  | Some _ =>
      match v with
      | PMsg o' => abs_obj sc o'
      | PDatetime us => let '(s, n) := ts_pair_of_us us in AMsg [AInt s; AInt n] []
      | PTimedelta us => let '(s, n) := dur_pair_of_us us in AMsg [AInt s; AInt n] []
      | v => AMsg [abs_scalar v] []
      end
  end.

Definition abs_field (sc : schema) (cur : list (option nat)) (i : nat) (f : fdesc) (x : pv) : aval :=
  match card_of f with
  | Implicit => match x with PPlaceholder => adefault (fty f) | v => abs_scalar v end
  | Repeated => match x with PList l => AList (map (abs_elem sc f) l) | _ => AList [] end
  | MapOf =>
      match x with
      | PDict d => AMap (map (fun kv => (abs_scalar (fst kv), abs_elem sc (value_field sc f) (snd kv))) d)
      | _ => AMap []
      end
  | Oneof g =>
      if opt_nat_eqb (nth g cur None) (Some i)
      then ASome (match x with PPlaceholder => default_elem sc f | v => abs_elem sc f v end)
      else ANone
  | Explicit =>
      match x with
      | PPlaceholder | PNone => ANone
      | PMsg o' =>
          if (match fhint f with HPlain _ => osow o' | _ => true end)
          then ASome (abs_obj sc o') else ANone
      | v => ASome (abs_elem sc f v)
      end
  end.

Lemma abs_obj_eq sc c raw sow unk cur :
  abs_obj sc (Obj c raw sow unk cur) =
  AMsg (imap2 (abs_field sc cur) 0 (cfields (get_class sc c)) raw) (unknown_of unk).
Proof.
  cbn [abs_obj]. f_equal. generalize 0%nat as i. generalize (cfields (get_class sc c)) as fs.
  induction raw as [|x raw IH]; intros fs i; destruct fs as [|f fs]; try reflexivity.
  cbn [imap2]. f_equal. apply IH.
Qed.

Lemma abs_obj_sow sc c raw sow sow' unk cur :
  abs_obj sc (Obj c raw sow unk cur) = abs_obj sc (Obj c raw sow' unk cur).
Proof. now rewrite !abs_obj_eq. Qed.

(* ------------------------------------------------------------------ field lookup *)
Definition find_go (num : Z) :=
  fix go (i : nat) (fs : list fdesc) : option (nat * fdesc) :=
    match fs with
    | [] => None
    | f :: fs' => if fnum f =? num then Some (i, f) else go (S i) fs'
    end.
Definition fbn_go (num : Z) :=
  fix go (i : nat) (fs : list fdesc) (acc : option (nat * fdesc)) : option (nat * fdesc) :=
    match fs with
    | [] => acc
    | f :: fs' => go (S i) fs' (if fnum f =? num then Some (i, f) else acc)
    end.

Lemma find_go_spec num fs : forall j i f,
  find_go num j fs = Some (i, f) -> (j <= i)%nat /\ nth_error fs (i - j) = Some f /\ fnum f = num.
Proof.
  induction fs as [|f0 fs IH]; intros j i f H; [discriminate|]. cbn [find_go] in H.
  destruct (fnum f0 =? num) eqn:E.
  - injection H as <- <-. rewrite Nat.sub_diag. repeat split; [lia | lia].
  - apply IH in H as (L & N & Fn). split; [lia|]. split; [|exact Fn].
    replace (i - j)%nat with (S (i - S j)) by lia. exact N.
Qed.

Lemma find_field_spec fs num i f :
  find_field fs num = Some (i, f) -> nth_error fs i = Some f /\ fnum f = num.
Proof.
  intros H. change (find_go num 0 fs = Some (i, f)) in H.
  apply find_go_spec in H as (_ & N & Fn). rewrite Nat.sub_0_r in N. tauto.
Qed.

Lemma find_go_none num fs j : find_go num j fs = None -> forall f, In f fs -> fnum f <> num.
Proof.
  revert j; induction fs as [|f0 fs IH]; intros j H f Hin; [destruct Hin|]. cbn [find_go] in H.
  destruct (fnum f0 =? num) eqn:E; [discriminate|]. destruct Hin as [<-|Hin]; [lia | eapply IH; eauto].
Qed.

(* field_name_by_number (later entries win) against the specification's first match, for
   classes without duplicate numbers *)
Lemma fbn_go_find num fs : forall j acc,
  nodup_z (map fnum fs) = true ->
  fbn_go num j fs acc = match find_go num j fs with Some r => Some r | None => acc end.
Proof.
  induction fs as [|f fs IH]; intros j acc ND; [reflexivity|].
  cbn [map nodup_z] in ND. apply andb_true_iff in ND as [Hn Hl]. cbn [fbn_go find_go].
  rewrite (IH _ _ Hl). destruct (fnum f =? num) eqn:E; [|reflexivity].
  destruct (find_go num (S j) fs) as [[i' f']|] eqn:G; [|reflexivity].
  apply find_go_spec in G as (_ & N & Fn). apply nth_error_In in N.
  apply negb_true_iff in Hn. exfalso.
  assert (existsb (Z.eqb (fnum f)) (map fnum fs) = true); [|congruence].
  apply existsb_exists. exists (fnum f'). split; [now apply in_map | lia].
Qed.

Lemma field_by_number_find cd num :
  nodup_z (map fnum (cfields cd)) = true ->
  field_by_number cd num = find_field (cfields cd) num.
Proof.
  intros ND. change (fbn_go num 0 (cfields cd) None = find_go num 0 (cfields cd)).
  rewrite (fbn_go_find _ _ _ _ ND). now destruct (find_go num 0 (cfields cd)).
Qed.

(* ------------------------------------------------------------------ wire-type tables *)
Lemma hlist_repeated f : (match fhint f with HList _ => true | _ => false end) = (match card_of f with Repeated => true | _ => false end).
Proof. unfold card_of. destruct (fhint f); try reflexivity. destruct (fgroup f); [reflexivity|]. now destruct (fty f). Qed.

Lemma wire_type_fits_spec f p : wire_type_fits f (wt_of p) = fits f p.
Proof.
  unfold wire_type_fits, fits. rewrite hlist_repeated.
  destruct p; cbn [wt_of]; unfold WIRE_VARINT, WIRE_FIXED_32, WIRE_FIXED_64, WIRE_LEN_DELIM; cbn [Z.eqb Pos.eqb];
    destruct (fty f); destruct (card_of f); vm_compute; reflexivity.
Qed.

Lemma packed_branch_spec f p :
  fits f p = true ->
  ((wt_of p =? WIRE_LEN_DELIM) && tmem (fty f) PACKED_TYPES) =
  (match p with Len _ => packable (fty f) | _ => false end).
Proof.
  intros _. destruct p; cbn [wt_of]; unfold WIRE_LEN_DELIM; cbn [Z.eqb Pos.eqb andb]; try reflexivity.
  destruct (fty f); vm_compute; reflexivity.
Qed.

(* ------------------------------------------------------------------ __setattr__, position by position *)
Definition norm_value (sc : schema) (v : pv) : pv := if fieldless sc v then mark_sow v else v.

Definition reset_go (g i : nat) :=
  fix go (j : nat) (fs : list fdesc) (raw : list pv) : list pv :=
    match fs, raw with
    | f' :: fs', x :: raw' =>
        (if opt_nat_eqb (fgroup f') (Some g) && negb (Nat.eqb j i) then PPlaceholder else x)
        :: go (Datatypes.S j) fs' raw'
    | _, _ => raw
    end.

Lemma reset_go_length g i fs : forall j raw, length (reset_go g i j fs raw) = length raw.
Proof. induction fs as [|f fs IH]; intros j [|x raw]; cbn; auto. Qed.

Lemma reset_go_nth g i fs : forall j raw k fk x,
  nth_error fs k = Some fk -> nth_error raw k = Some x ->
  nth_error (reset_go g i j fs raw) k =
  Some (if opt_nat_eqb (fgroup fk) (Some g) && negb (Nat.eqb (j + k) i) then PPlaceholder else x).
Proof.
  induction fs as [|f fs IH]; intros j raw k fk x Hf Hx; [destruct k; discriminate|].
  destruct raw as [|x0 raw]; [destruct k; discriminate|].
  destruct k as [|k]; cbn in *.
  - injection Hf as <-. injection Hx as <-. now rewrite Nat.add_0_r.
  - rewrite (IH (S j) raw k fk x Hf Hx). replace (S j + k)%nat with (j + S k)%nat by lia. reflexivity.
Qed.

Definition cur_after (f : fdesc) (i : nat) (cur : list (option nat)) : list (option nat) :=
  match fgroup f with Some g => set_nth g (Some i) cur | None => cur end.

Lemma setattr_spec sc c raw sow unk cur i f v :
  nth_error (cfields (get_class sc c)) i = Some f -> length raw = length (cfields (get_class sc c)) ->
  exists raw',
    setattr sc (Obj c raw sow unk cur) i v = Obj c raw' true unk (cur_after f i cur) /\
    length raw' = length raw /\
    forall k fk x, nth_error (cfields (get_class sc c)) k = Some fk -> nth_error raw k = Some x ->
      nth_error raw' k = Some (if Nat.eqb k i then norm_value sc v
                               else if same_group f fk then PPlaceholder else x).
Proof.
  intros Hf L. unfold setattr, cur_after. rewrite Hf. fold (norm_value sc v).
  pose proof (nth_error_Some_lt _ _ _ Hf) as Li.
  destruct (fgroup f) as [g|] eqn:G.
  - change ((fix go (j : nat) (fs : list fdesc) (raw0 : list pv) {struct fs} : list pv :=
               match fs with
               | [] => raw0
               | f' :: fs' =>
                   match raw0 with
                   | [] => raw0
                   | x :: raw' =>
                       (if opt_nat_eqb (fgroup f') (Some g) && negb (Nat.eqb j i) then PPlaceholder else x)
                       :: go (Datatypes.S j) fs' raw'
                   end
               end) 0%nat (cfields (get_class sc c)) raw)
      with (reset_go g i 0 (cfields (get_class sc c)) raw).
    eexists. split; [reflexivity|]. split; [now rewrite set_nth_length, reset_go_length|].
    intros k fk x Hk Hx. destruct (Nat.eqb_spec k i) as [->|Hne].
    + apply set_nth_same. rewrite reset_go_length. lia.
    + rewrite set_nth_other by exact Hne. rewrite (reset_go_nth g i _ 0 raw k fk x Hk Hx). cbn [Nat.add].
      unfold same_group. rewrite G. destruct (fgroup fk) as [g'|]; cbn [opt_nat_eqb].
      * replace (negb (Nat.eqb k i)) with true by (symmetry; apply negb_true_iff, Nat.eqb_neq; exact Hne).
        rewrite andb_true_r, Nat.eqb_sym. reflexivity.
      * reflexivity.
  - eexists. split; [reflexivity|]. split; [apply set_nth_length|].
    intros k fk x Hk Hx. destruct (Nat.eqb_spec k i) as [->|Hne].
    + apply set_nth_same. lia.
    + rewrite set_nth_other by exact Hne. unfold same_group. rewrite G. exact Hx.
Qed.
