(* C04: the instance form.  On a fresh object, o.from_dict(d) - the flag, then one setattr per key, each
   resetting the siblings of a oneof member - builds the same object as the classmethod form Cls.from_dict(d)
   when d = to_dict(m) (possibly through the JSON text). *)
From BP Require Import Base.Prelude Model.Types Model.Float Model.Utf8 Model.Object Model.Eq Model.TimeCore.
From BP Require Import Model.Encode Model.WellFormed Model.Json.
From BP Require Import gen.Tables Proofs.BytesP Proofs.C04Def Proofs.C04ScalarP Proofs.C04ElemP Proofs.C04FieldP Proofs.C04ObjP Proofs.C04CurP.
From Coq Require Import Lia ZifyBool.

Section Reset.
  Variable g i : nat.
  Fixpoint reset_loop (j : nat) (fs : list fdesc) (raw : list pv) : list pv :=
    match fs, raw with
    | f' :: fs', x :: raw' =>
        (if opt_nat_eqb (fgroup f') (Some g) && negb (Nat.eqb j i) then PPlaceholder else x)
        :: reset_loop (S j) fs' raw'
    | _, _ => raw
    end.
End Reset.

Definition mark (sc : schema) (v : pv) : pv := if fieldless sc v then mark_sow v else v.

Lemma setattr_unfold sc c raw s u cur i v f :
  nth_error (cfields (get_class sc c)) i = Some f ->
  setattr sc (Obj c raw s u cur) i v =
  match fgroup f with
  | None => Obj c (set_nth i (mark sc v) raw) true u cur
  | Some g => Obj c (set_nth i (mark sc v) (reset_loop g i O (cfields (get_class sc c)) raw)) true u (set_nth g (Some i) cur)
  end.
Proof. intros H. unfold setattr. rewrite H. destruct (fgroup f); reflexivity. Qed.

Lemma reset_noop g i : forall fs raw j0,
  (forall k f', nth_error fs k = Some f' -> fgroup f' = Some g -> (j0 + k)%nat <> i -> nth k raw PPlaceholder = PPlaceholder) ->
  reset_loop g i j0 fs raw = raw.
Proof.
  induction fs as [|f fs IH]; intros raw j0 H; [reflexivity|]. destruct raw as [|x raw]; [reflexivity|].
  cbn [reset_loop]. rewrite IH.
  - destruct (opt_nat_eqb (fgroup f) (Some g) && negb (Nat.eqb j0 i)) eqn:E; [|reflexivity].
    apply andb_prop in E as [E1 E2]. apply opt_nat_eqb_true in E1. apply negb_true in E2. apply Nat.eqb_neq in E2.
    specialize (H O f eq_refl E1 ltac:(lia)). cbn in H. subst x. reflexivity.
  - intros k f' Hk Hg Hne. apply (H (S k) f' Hk Hg). lia.
Qed.

Lemma set_nth_app_eq {A} (pre : list A) i s rest v : i = length pre -> set_nth i v (pre ++ s :: rest) = pre ++ v :: rest.
Proof. intros ->. apply set_nth_app. Qed.

Section Inst.
  Variable sc : schema.
  Variable c : nat.
  Variable cur : list (option nat).
  Let fs_all := cfields (get_class sc c).
  Let ng := cngroups (get_class sc c).
  Hypothesis W : forallb (wf_field sc ng) fs_all = true.

  (* unselected oneof members of the part already built are PLACEHOLDER *)
  Definition pre_ok (pre : list pv) : Prop :=
    forall j f g, nth_error fs_all j = Some f -> (j < length pre)%nat -> fgroup f = Some g -> nth g cur None <> Some j ->
                  nth j pre PPlaceholder = PPlaceholder.

  Definition step (o : obj) (iv : nat * pv) : obj := setattr sc o (fst iv) (snd iv).

  Lemma step_pair o i v : step o (i, v) = setattr sc o i v.
  Proof. reflexivity. Qed.

  Lemma sentinel_group f g : wf_field sc ng f = true -> fgroup f = Some g -> sentinel f = PPlaceholder.
  Proof. intros Wf G. destruct (group_field_plain sc ng f g Wf G) as [_ [O _]]. unfold sentinel. rewrite O. reflexivity. Qed.

  Lemma inst_fold : forall raw fs pre pre_fs cur0,
    fs_all = pre_fs ++ fs -> length pre = length pre_fs -> length raw = length fs -> pre_ok pre ->
    oneof_loop cur (length pre) raw fs = true ->
    fold_left step (kw_list sc cur (length pre) raw fs) (Obj c (pre ++ map sentinel fs) true [] cur0)
    = Obj c (pre ++ norm_raw sc cur (length pre) raw fs) true [] (cur_loop (length pre) fs (norm_raw sc cur (length pre) raw fs) cur0).
  Proof.
    induction raw as [|x raw IH]; intros fs pre pre_fs cur0 E Lp Lr P On.
    - destruct fs; [reflexivity|discriminate Lr].
    - destruct fs as [|f fs]; [discriminate Lr|]. cbn [length] in Lr. injection Lr as Lr.
      cbn [oneof_loop] in On. apply andb_prop in On as [O1 O2].
      assert (Hf : nth_error fs_all (length pre) = Some f).
      { rewrite E, Lp. rewrite nth_error_app2 by lia. rewrite Nat.sub_diag. reflexivity. }
      pose proof (forallb_at _ _ _ _ W Hf) as Wf.
      rewrite norm_raw_cons. cbn [kw_list map cur_loop]. rewrite fold_left_app.
      set (i := length pre) in *.
      (* the continuation, for whatever value v ends up at position i *)
      assert (Next : forall v cur1, v = norm_field sc cur i f x ->
                fold_left step (kw_list sc cur (S i) raw fs) (Obj c (pre ++ v :: map sentinel fs) true [] cur1)
                = Obj c (pre ++ v :: norm_raw sc cur (S i) raw fs) true [] (cur_loop (S i) fs (norm_raw sc cur (S i) raw fs) cur1)).
      { intros v cur1 Ev.
        replace (pre ++ v :: map sentinel fs) with ((pre ++ [v]) ++ map sentinel fs) by (rewrite <- app_assoc; reflexivity).
        replace (pre ++ v :: norm_raw sc cur (S i) raw fs) with ((pre ++ [v]) ++ norm_raw sc cur (S i) raw fs) by (rewrite <- app_assoc; reflexivity).
        assert (Li : length (pre ++ [v]) = S i) by (rewrite app_length; cbn; lia).
        rewrite <- Li. apply (IH fs (pre ++ [v]) (pre_fs ++ [f])).
        - rewrite <- app_assoc. exact E.
        - rewrite !app_length. cbn. lia.
        - exact Lr.
        - intros j fj g Hj Hlt Hg Hn. rewrite app_length in Hlt. cbn [length] in Hlt.
          destruct (Nat.eq_dec j i) as [->|Ne].
          + rewrite app_nth2 by lia. replace (i - length pre)%nat with O by lia. cbn [nth].
            rewrite Hf in Hj. inversion Hj; subst fj. rewrite Ev. unfold norm_field.
            rewrite (group_selects_some cur f i g Hg).
            destruct (opt_nat_eqb (nth g cur None) (Some i)) eqn:Eo; [apply opt_nat_eqb_true in Eo; congruence|].
            exact (sentinel_group f g Wf Hg).
          + rewrite app_nth1 by lia. apply (P j fj g Hj ltac:(lia) Hg Hn).
        - rewrite Li. exact O2. }
      unfold norm_field in *.
      destruct (group_selects cur f i) as [[|]|] eqn:Gs.
      + (* selected oneof member *)
        assert (Hx : x <> PPlaceholder) by (intros ->; discriminate O1).
        destruct (fgroup f) as [g|] eqn:G; [|unfold group_selects in Gs; rewrite G in Gs; discriminate Gs].
        rewrite (group_selects_some cur f i g G) in Gs. injection Gs as Gs. apply opt_nat_eqb_true in Gs.
        rewrite !(not_ph x _ _ Hx).
        destruct (emitted sc f (Some true) x) eqn:Em.
        * cbn [fold_left]. rewrite step_pair. rewrite (setattr_unfold sc c _ _ _ _ i _ f Hf). rewrite G.
          fold (mark sc (norm_pv sc x)). unfold mark at 1. rewrite mark_norm.
          rewrite reset_noop.
          -- rewrite (set_nth_app_eq pre i) by reflexivity.
             assert (Sn : is_sentinel f (norm_pv sc x) = false).
             { destruct (group_field_plain sc ng f g Wf G) as [_ [Op _]]. unfold is_sentinel. rewrite Op.
               pose proof (norm_not_ph sc x Hx). destruct (norm_pv sc x); try reflexivity. congruence. }
             rewrite Sn. apply Next. symmetry. apply (not_ph x _ _ Hx).
          -- intros k f' Hk Hg Hne. cbn [Nat.add] in Hne.
             destruct (lt_dec k i) as [Lt|Ge].
             ++ rewrite app_nth1 by lia. apply (P k f' g Hk Lt Hg). rewrite Gs. congruence.
             ++ rewrite app_nth2 by lia. assert (Wk := forallb_at _ _ _ _ W Hk).
                destruct (k - length pre)%nat as [|m] eqn:Ek; [lia|]. cbn [nth].
                destruct (nth_in_or_default m (map sentinel fs) PPlaceholder) as [I|D]; [|exact D].
                apply in_map_iff in I as [f'' [Ef'' _]].
                (* position k of fs_all is f' ; the suffix element is its sentinel *)
                assert (Hm : nth_error fs m = Some f').
                { pose proof Hk as Hk2. unfold fs_all in E, Hk2. rewrite E in Hk2. rename Hk into Hk0. rename Hk2 into Hk. rewrite nth_error_app2 in Hk by lia. replace (k - length pre_fs)%nat with (S m) in Hk by lia. exact Hk. }
                rewrite (nth_indep _ _ (sentinel f')) by (rewrite map_length; apply nth_error_Some; congruence).
                rewrite (map_nth sentinel fs f' m). rewrite (nth_error_nth _ _ _ Hm). exact (sentinel_group f' g Wk Hg).
        * cbn [fold_left]. rewrite (sentinel_group f g Wf G). cbn [is_sentinel].
          apply Next. rewrite (not_ph x _ _ Hx). symmetry. exact (sentinel_group f g Wf G).
      + cbn [fold_left app].
        assert (Sn : is_sentinel f (sentinel f) = true) by (unfold is_sentinel, sentinel; destruct (fopt f); reflexivity).
        rewrite Sn. replace (match fgroup f with Some _ => cur0 | None => cur0 end) with cur0 by (destruct (fgroup f); reflexivity).
        apply Next. reflexivity.
      + assert (G : fgroup f = None).
        { destruct (fgroup f) as [g|] eqn:G; [|reflexivity]. rewrite (group_selects_some cur f i g G) in Gs. discriminate Gs. }
        rewrite G.
        destruct (pv_eq_dec_ph x) as [->|Hx].
        * cbn [fold_left app]. apply Next. reflexivity.
        * rewrite !(not_ph x _ _ Hx). destruct (emitted sc f None x) eqn:Em.
          -- cbn [fold_left]. rewrite step_pair. rewrite (setattr_unfold sc c _ _ _ _ i _ f Hf). rewrite G.
             fold (mark sc (norm_pv sc x)). unfold mark. rewrite mark_norm. rewrite (set_nth_app_eq pre i) by reflexivity.
             apply Next. symmetry. apply (not_ph x _ _ Hx).
          -- cbn [fold_left]. apply Next. symmetry. apply (not_ph x _ _ Hx).
  Qed.
End Inst.

(* ---------------------------------------------------------------------------------- *)
(* the keyword arguments _from_dict_init computes from to_dict(m)                       *)
(* ---------------------------------------------------------------------------------- *)
Section InstRt.
  Variable sc : schema.
  Variable cs : casing.
  Variable b : bool.
  Hypothesis WF : wf_schema sc = true.
  Hypothesis KO : keys_ok cs sc = true.

  Lemma init_rt c raw s u g :
    good sc (Obj c raw s u g) = true ->
    from_dict_init sc c (tr b (to_dict cs false sc (Obj c raw s u g))) = Ok (kw_list sc g O raw (cfields (get_class sc c))).
  Proof.
    intros G. rewrite good_split in G. apply andb_prop in G as [Hr Hg].
    destruct (in_range_unfold _ _ _ _ _ _ Hr) as [Hl [_ F]].
    unfold pv_good in Hg. rewrite pv_all_msg in Hg. apply andb_prop in Hg as [Hloc Hsub].
    unfold local_ok in Hloc. apply andb_prop in Hloc as [Hloc _]. apply andb_prop in Hloc as [Hloc Hone]. apply andb_prop in Hloc as [Hloc Hnan].
    rewrite local_oneof_unfold in Hone. unfold local_nan_ok in Hnan. cbn [oraw] in Hnan.
    rewrite to_dict_unfold. destruct (keys_fields cs sc c KO) as [L ND].
    rewrite dict_norm_nodup by (apply td_items_nodup, ND).
    rewrite tr_obj, map_map.
    rewrite (map_ext _ (jtr b)) by (intros [k j]; unfold jtr, jkey; cbn [fst snd]; rewrite (trk_str b); reflexivity).
    rewrite from_dict_init_unfold.
    set (n := S (pv_size (PMsg (Obj c raw s u g)))).
    rewrite (items_rt sc cs b n (fun o' _ Hr' Hg' => obj_rt_n sc cs b WF KO (S (pv_size (PMsg o'))) o' (Nat.lt_succ_diag_r _) Hr' Hg')
               c g (cngroups (get_class sc c)) raw _ O L (wf_fields sc c WF) F Hsub Hnan Hone).
    - cbn [bind]. rewrite kw_norm_nodup by apply kw_list_nodup. reflexivity.
    - intros x Hx. unfold n. rewrite size_msg. pose proof (in_sum_size x raw Hx). lia.
  Qed.

  (* the instance form on a fresh object builds the same normal form *)
  Theorem inst_from_to_dict_norm m : good sc m = true ->
    from_dict_inst sc (new sc (ocls m)) (tr b (to_dict cs false sc m)) = Ok (norm_obj sc m).
  Proof.
    intros G. destruct m as [c raw s u g]. cbn [ocls].
    unfold from_dict_inst. change (ocls (new sc c)) with c. rewrite (init_rt c raw s u g G). cbn [bind]. f_equal.
    assert (G' := G). rewrite good_split in G'. apply andb_prop in G' as [Hr Hg].
    destruct (in_range_unfold _ _ _ _ _ _ Hr) as [Hl _].
    unfold pv_good in Hg. rewrite pv_all_msg in Hg. apply andb_prop in Hg as [Hloc _].
    unfold local_ok in Hloc. apply andb_prop in Hloc as [Hloc _]. apply andb_prop in Hloc as [_ Hone].
    rewrite local_oneof_unfold in Hone.
    change (set_sow (new sc c)) with (Obj c (map sentinel (cfields (get_class sc c))) true [] (repeat None (cngroups (get_class sc c)))).
    change (fun (o' : obj) (iv : nat * pv) => setattr sc o' (fst iv) (snd iv)) with (step sc).
    assert (P0 : pre_ok sc c g []) by (intros j f g0 _ Hlt; cbn in Hlt; lia).
    pose proof (inst_fold sc c g (wf_fields sc c WF) raw (cfields (get_class sc c)) [] [] (repeat None (cngroups (get_class sc c)))
                  eq_refl eq_refl Hl P0 Hone) as IF.
    cbn [length app] in IF. rewrite IF.
    rewrite norm_obj_unfold, post_init_unfold. reflexivity.
  Qed.
End InstRt.
