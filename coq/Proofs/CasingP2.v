(* Lemmas about Model/Casing.v (C19), part 2: camelCase keys map back under key_safe. *)
From BP Require Import Base.Prelude Model.Casing Proofs.BytesP Proofs.CasingP.
From BP Require gen.Tables.

Lemma words_sanitize x : words (sanitize_name x) = words x.
Proof.
  unfold sanitize_name. destruct (is_keyword x); [apply words_snoc_us|].
  destruct (negb (is_identifier x)); [apply words_us_cons|reflexivity].
Qed.

Lemma words_safe_snake s : words (safe_snake_case s) = map lower (words s).
Proof. unfold safe_snake_case. rewrite words_sanitize. apply words_snake. Qed.

Lemma lword_lower_fix w : lword w -> lower w = w.
Proof.
  intros (l & d & -> & Hl & Hd & _). rewrite lower_app, lower_fix_lows, lower_fix_digs by assumption. reflexivity.
Qed.

Lemma Forall_lword_lower_fix ws : Forall lword ws -> map lower ws = ws.
Proof.
  induction 1 as [|w r Hw Hr IH]; [reflexivity|]. cbn [map]. rewrite IH, lword_lower_fix by exact Hw. reflexivity.
Qed.

Lemma is_us_to_upper b : is_us (to_upper b) = is_us b.
Proof. destruct b; reflexivity. Qed.
Lemma is_us_to_lower b : is_us (to_lower b) = is_us b.
Proof. destruct b; reflexivity. Qed.

Lemma no_us_lower w : forallb (fun c => negb (is_us c)) (lower w) = forallb (fun c => negb (is_us c)) w.
Proof. induction w as [|c r IH]; [reflexivity|]. cbn [lower map forallb]. rewrite is_us_to_lower. fold (lower r). rewrite IH. reflexivity. Qed.

Lemma no_us_capitalize w : forallb (fun c => negb (is_us c)) (capitalize w) = forallb (fun c => negb (is_us c)) w.
Proof. destruct w as [|c r]; [reflexivity|]. cbn [capitalize forallb]. rewrite is_us_to_upper, no_us_lower. reflexivity. Qed.

Lemma no_us_concat_cap ws : Forall lword ws -> forallb (fun c => negb (is_us c)) (concat (map capitalize ws)) = true.
Proof.
  induction 1 as [|w r Hw Hr IH]; [reflexivity|]. cbn [map concat]. rewrite forallb_app, no_us_capitalize, IH, (lword_no_us w Hw). reflexivity.
Qed.

(* the first word of camelCase is the lower-cased word itself *)
Lemma camel_shape w r : lword w ->
  lowercase_first (concat (map capitalize (w :: r))) = w ++ concat (map capitalize r).
Proof.
  intros H. pose proof (lword_lower_fix w H) as L. pose proof (lword_ne w H) as N.
  destruct w as [|c t]; [contradiction N; reflexivity|].
  cbn [map concat capitalize app lowercase_first]. rewrite to_lower_upper.
  cbn [lower map] in L. injection L as L1 L2. fold (lower t). rewrite L1. fold (lower t) in L2. rewrite L2. reflexivity.
Qed.

(* ---- scanning a capitalised word ---- *)
Lemma run_cons s c r :
  run s (c :: r) = (fst (step s c) ++ fst (run (snd (step s c)) r), snd (run (snd (step s c)) r)).
Proof. cbn [run]. destruct (step s c) as [o s']. cbn [fst snd]. destruct (run s' r). reflexivity. Qed.

Lemma step_SU_digit pre u c : classify c = Digit -> step (SU pre u) c = ([], SD (pre ++ [u; c])).
Proof. intros E. unfold step. rewrite E. reflexivity. Qed.
Lemma step_SU_lower pre u c : classify c = Lower ->
  step (SU pre u) c = (match pre with [] => [] | _ => [pre] end, SL [u; c]).
Proof. intros E. unfold step. rewrite E. reflexivity. Qed.
Lemma step_SU_upper pre u c : classify c = Upper -> step (SU pre u) c = ([], SU (pre ++ [u]) c).
Proof. intros E. unfold step. rewrite E. reflexivity. Qed.

Lemma run_SU_lower_tail pre U c2 l d : classify c2 = Lower -> lows l -> digs d ->
  exists s', run (SU pre U) (c2 :: l ++ d) = (match pre with [] => [] | _ => [pre] end, s')
             /\ pend s' ([U; c2] ++ l ++ d).
Proof.
  intros E Hl Hd. rewrite run_cons, step_SU_lower by exact E. cbn [fst snd].
  destruct (run_SL_lows_digs l d [U; c2] Hl Hd) as (s' & R & P). rewrite R.
  exists s'. split; [rewrite app_nil_r; reflexivity|exact P].
Qed.

Definition chain_st (prev_single : bool) (s : st) : Prop :=
  if prev_single then exists u, s = SU [] u else (s = S0 \/ exists w, pend s w).

Lemma step_chain_false_upper s U : chain_st false s -> classify U = Upper -> step s U = (flush s, SU [] U).
Proof.
  intros [->|(w & [->| ->])] E; unfold step; rewrite E; reflexivity.
Qed.

Lemma lword_split w : lword w -> starts_digit w = false ->
  exists c l d, w = c :: l ++ d /\ classify c = Lower /\ lows l /\ digs d.
Proof.
  intros (l & d & -> & Hl & Hd & N) S. destruct l as [|c l'].
  - destruct d as [|c d']; [contradiction N; reflexivity|]. cbn [app starts_digit] in S.
    unfold digs in Hd. cbn [forallb] in Hd. rewrite S in Hd. discriminate Hd.
  - exists c, l', d. unfold lows in Hl. cbn [forallb] in Hl. apply andb_true_iff in Hl. destruct Hl as [Hc Hl].
    repeat split; auto. unfold is_lower_b in Hc. destruct (classify c); try discriminate Hc. reflexivity.
Qed.

Lemma capitalize_lword c l d : classify c = Lower -> lows l -> digs d ->
  capitalize (c :: l ++ d) = to_upper c :: l ++ d /\ classify (to_upper c) = Upper.
Proof.
  intros E Hl Hd. cbn [capitalize]. rewrite lower_app, lower_fix_lows, lower_fix_digs by assumption.
  split; [reflexivity|]. pose proof (to_upper_class c) as T. rewrite E in T. exact T.
Qed.

Lemma run_cap w b s : lword w -> starts_digit w = false -> negb b || second_lower w = true -> chain_st b s ->
  exists s', run s (capitalize w) = (flush s, s') /\ chain_st (single w) s' /\ flush s' = [capitalize w].
Proof.
  intros Hw Sd Hb Hs. destruct (lword_split w Hw Sd) as (c & l & d & -> & Ec & Hl & Hd).
  destruct (capitalize_lword c l d Ec Hl Hd) as [-> EU]. set (U := to_upper c) in *.
  destruct b; cbn [negb orb] in Hb.
  - (* the previous word is a single capital still in the buffer: this word has a lower-case second letter *)
    destruct Hs as (u0 & ->). destruct l as [|c2 l'].
    + exfalso. destruct d as [|c2 d']; cbn [app second_lower] in Hb; [discriminate Hb|].
      unfold digs in Hd. cbn [forallb] in Hd. apply andb_true_iff in Hd. destruct Hd as [Hd _].
      unfold is_lower_b in Hb. unfold is_digit_b in Hd. destruct (classify c2); discriminate.
    + pose proof Hl as Hl0. unfold lows in Hl. cbn [forallb] in Hl. apply andb_true_iff in Hl. destruct Hl as [Hc2 Hl].
      assert (classify c2 = Lower) as E2 by (unfold is_lower_b in Hc2; destruct (classify c2); try discriminate Hc2; reflexivity).
      rewrite run_cons, step_SU_upper by exact EU. cbn [fst snd].
      destruct (run_SU_lower_tail ([] ++ [u0]) U c2 l' d E2 Hl Hd) as (s' & R & P).
      cbn [app] in R |- *. rewrite R. exists s'. split; [reflexivity|]. split.
      * change (single (c :: (c2 :: l') ++ d)) with false. right; exists ([U; c2] ++ l' ++ d); exact P.
      * apply pend_flush. exact P.
  - rewrite run_cons. rewrite (step_chain_false_upper s U Hs EU). cbn [fst snd].
    destruct l as [|c2 l'].
    + destruct d as [|c2 d'].
      * cbn [app run fst snd]. exists (SU [] U). rewrite app_nil_r. split; [reflexivity|]. split; [exists U; reflexivity|reflexivity].
      * unfold digs in Hd. cbn [forallb] in Hd. apply andb_true_iff in Hd. destruct Hd as [Hc2 Hd].
        assert (classify c2 = Digit) as E2 by (unfold is_digit_b in Hc2; destruct (classify c2); try discriminate Hc2; reflexivity).
        cbn [app]. rewrite run_cons, step_SU_digit by exact E2. cbn [fst snd]. rewrite run_SD_digs by exact Hd. cbn [fst snd app].
        exists (SD ([U; c2] ++ d')). rewrite app_nil_r. split; [reflexivity|]. split; [|reflexivity].
        cbn [single]. right. exists ([U; c2] ++ d'). right. reflexivity.
    + unfold lows in Hl. cbn [forallb] in Hl. apply andb_true_iff in Hl. destruct Hl as [Hc2 Hl].
      assert (classify c2 = Lower) as E2 by (unfold is_lower_b in Hc2; destruct (classify c2); try discriminate Hc2; reflexivity).
      destruct (run_SU_lower_tail [] U c2 l' d E2 Hl Hd) as (s' & R & P).
      cbn [app]. rewrite R. cbn [fst snd]. exists s'. rewrite app_nil_r. split; [reflexivity|]. split.
      * change (single (c :: (c2 :: l') ++ d)) with false. right; exists ([U; c2] ++ l' ++ d); exact P.
      * apply pend_flush. exact P.
Qed.

Lemma scan_caps ws : forall b s, Forall lword ws -> key_safe_from b ws = true -> chain_st b s ->
  scan s (concat (map capitalize ws)) = flush s ++ map capitalize ws.
Proof.
  induction ws as [|w r IH]; intros b s H K Hs.
  - cbn. rewrite app_nil_r. reflexivity.
  - inversion H as [|? ? Hw Hr]; subst. cbn [key_safe_from] in K. apply andb_true_iff in K. destruct K as [K K3].
    apply andb_true_iff in K. destruct K as [K1 K2].
    assert (starts_digit w = false) as Sd by (destruct (starts_digit w); [discriminate K1|reflexivity]).
    destruct (run_cap w b s Hw Sd K2 Hs) as (s' & R & C & F).
    cbn [map concat]. rewrite scan_app, R. cbn [fst snd]. rewrite (IH (single w) s' Hr K3 C), F. reflexivity.
Qed.

Lemma words_camel w r : Forall lword (w :: r) -> key_safe_from false r = true ->
  words (w ++ concat (map capitalize r)) = w :: map capitalize r.
Proof.
  intros H K. inversion H as [|? ? Hw Hr]; subst. unfold words.
  destruct (run_S0_lword w Hw) as (s' & R & P). rewrite scan_app, R. cbn [fst snd app].
  rewrite (scan_caps r false s' Hr K); [|right; exists w; exact P]. rewrite (pend_flush s' w P). reflexivity.
Qed.

Lemma map_lower_capitalize ws : map lower (map capitalize ws) = map lower ws.
Proof. rewrite map_map. apply map_ext. intros; apply lower_capitalize. Qed.

(* camelCase key of the generated field name, mapped back by safe_snake_case *)
Lemma camel_key_back s : key_safe s = true ->
  safe_snake_case (camel_key (safe_snake_case s)) = safe_snake_case s.
Proof.
  unfold key_safe. intros K. pose proof (words_lwords s) as H.
  unfold camel_key, camel_case, pascal_case. rewrite words_safe_snake.
  change (safe_snake_case s) with (sanitize_name (join [us] (map lower (words s)))).
  destruct (map lower (words s)) as [|w r] eqn:E.
  - reflexivity.
  - cbn [key_safe_ws] in K. inversion H as [|? ? Hw Hr]; subst.
    rewrite camel_shape by exact Hw.
    rewrite rstrip_us_no_us by (rewrite forallb_app, (lword_no_us w Hw), (no_us_concat_cap r Hr); reflexivity).
    unfold safe_snake_case, snake_case. rewrite (words_camel w r H K).
    cbn [map]. rewrite map_lower_capitalize, (lword_lower_fix w Hw), (Forall_lword_lower_fix r Hr). reflexivity.
Qed.

(* the original proto name maps to its field by definition; stated for completeness *)
Lemma proto_name_back s : safe_snake_case s = safe_snake_case s.
Proof. reflexivity. Qed.
