(* CLONE of Proofs/C01Eq.v with norm_obj replaced by normu_obj (Model/C14UDef.v: every message keeps its unknown
   bytes), Good by GoodU, c01_value_ok by c14u_value_ok. *)
(* C01 — equality: the decoded message compares equal (Message.__eq__) to the original,
   obj_eq m (normu_obj m) = true, when no NaN sits directly inside a list or as a map value. *)
From Coq Require Import ZArith List Bool Lia ZifyBool.
From BP Require Import Base.Prelude Model.Types Model.Varint Model.Scalar Model.Float Model.Utf8.
From BP Require Import Model.Object Model.Eq Model.TimeCore Model.Encode Model.Decode Model.WellFormed Model.C01Def Model.C14UDef.
From BP Require Import Proofs.C14UUnfold.
From BP Require Import gen.Tables Proofs.BytesP Proofs.LenP Proofs.C01Scalar Proofs.C01Frame Proofs.C01Step Proofs.C01Apply
     Proofs.C01Elem Proofs.C01Field Proofs.C01Builtin Proofs.C01Unfold Proofs.C14UValue Proofs.C14USlot Proofs.C14USlot2
     Proofs.C14UDict Proofs.C14UMsg Proofs.C14UMain Proofs.C14UStable.

(* ---------- Message.__eq__, slot by slot ---------- *)
Definition slot_eq (sc : schema) (f : fdesc) (u v : pv) : bool :=
  match u, v with
  | PPlaceholder, PPlaceholder => true
  | PPlaceholder, _ => is_default sc f v
  | _, PPlaceholder => is_default sc f u
  | _, _ => pv_eq sc u v || (pv_is_nan u && pv_is_nan v)
  end.

Definition eq_slots (sc : schema) : list pv -> list pv -> list fdesc -> bool :=
  fix go (ra rb : list pv) (fs : list fdesc) {struct ra} : bool :=
    match ra, rb, fs with
    | u :: ra', v :: rb', f :: fs' => slot_eq sc f u v && go ra' rb' fs'
    | _, _, _ => true
    end.

Lemma obj_eq_unfold sc c ra sa ua ga c' rb sb ub gb :
  obj_eq sc (Obj c ra sa ua ga) (Obj c' rb sb ub gb) = Nat.eqb c c' && eq_slots sc ra rb (cfields (get_class sc c)).
Proof. reflexivity. Qed.

Lemma pv_eq_msg sc o o' : pv_eq sc (PMsg o) (PMsg o') = obj_eq sc o o'.
Proof. reflexivity. Qed.

Definition list_eq (sc : schema) : list pv -> list pv -> bool :=
  fix go (x y : list pv) : bool :=
    match x, y with
    | [], [] => true
    | u :: x', v :: y' => pv_eq sc u v && go x' y'
    | _, _ => false
    end.

Lemma pv_eq_list sc x y : pv_eq sc (PList x) (PList y) = list_eq sc x y.
Proof. reflexivity. Qed.

Definition dict_find (sc : schema) (k u : pv) : list (pv * pv) -> bool :=
  fix find (y : list (pv * pv)) : bool :=
    match y with
    | [] => false
    | (k', v) :: y' => if pv_eq sc k k' then pv_eq sc u v else find y'
    end.

Definition dict_all (sc : schema) (y : list (pv * pv)) : list (pv * pv) -> bool :=
  fix go (x : list (pv * pv)) : bool :=
    match x with
    | [] => true
    | (k, u) :: x' => dict_find sc k u y && go x'
    end.

Lemma pv_eq_dict sc x y : pv_eq sc (PDict x) (PDict y) = Nat.eqb (length x) (length y) && dict_all sc y x.
Proof. reflexivity. Qed.

(* ---------- scalars ---------- *)
Lemma bytes_eqb_refl a : bytes_eqb a a = true.
Proof. apply bytes_eqb_eq. reflexivity. Qed.

Lemma bytes_eqb_sym a b : bytes_eqb a b = bytes_eqb b a.
Proof.
  destruct (bytes_eqb a b) eqn:E1, (bytes_eqb b a) eqn:E2; try reflexivity.
  - apply bytes_eqb_eq in E1. subst. rewrite bytes_eqb_refl in E2. discriminate.
  - apply bytes_eqb_eq in E2. subst. rewrite bytes_eqb_refl in E1. discriminate.
Qed.

Lemma f64_eq_refl b : f64_is_nan b = false -> f64_eq b b = true.
Proof. intros H. unfold f64_eq. rewrite H. cbn [orb]. destruct (f64_is_zero b); [reflexivity | apply Z.eqb_refl]. Qed.

(* a scalar and its decoded form: equal, or both NaN *)
Lemma scalar_eq_norm sc t v :
  scalar_in_range t v = true ->
  pv_eq sc v (norm_scalar t v) = true \/ (pv_is_nan v = true /\ pv_is_nan (norm_scalar t v) = true).
Proof.
  intros Hr. destruct v as [| |z|b|bits|s|b|us|us|l|d|o]; try (destruct t; discriminate Hr).
  - left. replace (norm_scalar t (PInt z)) with (PInt z) by (destruct t; reflexivity). cbn. apply Z.eqb_refl.
  - left. replace (norm_scalar t (PBool b)) with (PBool b) by (destruct t; reflexivity). cbn. destruct b; reflexivity.
  - destruct (f64_is_nan bits) eqn:En.
    + right. split; [exact En|]. destruct t; try discriminate Hr; cbn [norm_scalar pv_is_nan]; [|exact En].
      destruct (f32_facts bits Hr) as (w & _ & _ & Hn & _ & [Hw | [_ N2]]); rewrite Hn; [rewrite Hw; exact En | exact N2].
    + left. destruct t; try discriminate Hr; cbn [norm_scalar pv_eq]; [|apply f64_eq_refl; exact En].
      destruct (f32_facts bits Hr) as (w & _ & _ & Hn & _ & [Hw | [N1 _]]); [|congruence].
      rewrite Hn, Hw. apply f64_eq_refl. exact En.
  - left. replace (norm_scalar t (PStr s)) with (PStr s) by (destruct t; reflexivity). cbn. apply bytes_eqb_refl.
  - left. replace (norm_scalar t (PBytes b)) with (PBytes b) by (destruct t; reflexivity). cbn. apply bytes_eqb_refl.
Qed.

Section EqProof.
  Variable sc : schema.
  Hypothesis Hsc : c01_schema_ok sc = true.

  Definition EqOk (o : obj) : Prop := obj_eq sc o (normu_obj sc o) = true.

  (* an element and its decoded form *)
  Lemma elem_eq_norm t p y :
    elem_in_range sc t p y = true -> elemP EqOk y ->
    pv_eq sc y (norm_elem (normu_obj sc) t y) = true \/
    (pv_is_nan y = true /\ pv_is_nan (norm_elem (normu_obj sc) t y) = true).
  Proof.
    intros Hr HE. destruct y as [| |z|b|bits|s|b|us|us|l|d|o].
    1,2,10,11: (destruct p; try discriminate Hr; destruct t; discriminate Hr).
    1,2,3,4,5: (cbn [norm_elem]; apply scalar_eq_norm;
                destruct p; try discriminate Hr; try exact Hr; destruct t; discriminate Hr).
    - left. cbn [norm_elem]. replace (norm_scalar t (PDatetime us)) with (PDatetime us) by (destruct t; reflexivity).
      cbn. apply Z.eqb_refl.
    - left. cbn [norm_elem]. replace (norm_scalar t (PTimedelta us)) with (PTimedelta us) by (destruct t; reflexivity).
      cbn. apply Z.eqb_refl.
    - left. cbn [norm_elem]. rewrite pv_eq_msg. exact HE.
  Qed.

  Lemma list_eq_norm t p l :
    Forall (fun y => elem_in_range sc t p y = true) l -> Forall (elemP EqOk) l ->
    forallb (fun y => negb (pv_is_nan y)) l = true ->
    list_eq sc l (map (norm_elem (normu_obj sc) t) l) = true.
  Proof.
    induction l as [|y l IH]; intros Hin HE Hn; [reflexivity|].
    inversion Hin as [|? ? Hy Hin']; subst. inversion HE as [|? ? Ey HE']; subst.
    cbn [forallb] in Hn. apply andb_true_iff in Hn as [Hny Hn]. apply negb_true_iff in Hny.
    cbn [map list_eq]. rewrite (IH Hin' HE' Hn), andb_true_r.
    destruct (elem_eq_norm t p y Hy Ey) as [H | [H _]]; [exact H | congruence].
  Qed.

  (* ---- maps ---- *)
  Lemma key_eq_refl kt k : scalar_in_range kt k = true -> map_key_ok kt = true -> pv_eq sc k k = true.
  Proof.
    intros Hr Hk. destruct kt; try discriminate Hk; destruct k; try discriminate Hr; cbn;
      try apply Z.eqb_refl; try apply bytes_eqb_refl. destruct b; reflexivity.
  Qed.

  Lemma key_eq_sym kt a b :
    scalar_in_range kt a = true -> scalar_in_range kt b = true -> map_key_ok kt = true -> pv_eq sc a b = pv_eq sc b a.
  Proof.
    intros Ha Hb Hk. destruct kt; try discriminate Hk; destruct a; try discriminate Ha; destruct b; try discriminate Hb; cbn;
      try apply Z.eqb_sym; try apply bytes_eqb_sym. destruct b0, b; reflexivity.
  Qed.

  Lemma dict_find_skip k u pre y :
    (forall kv, In kv pre -> pv_eq sc k (fst kv) = false) -> dict_find sc k u (pre ++ y) = dict_find sc k u y.
  Proof.
    induction pre as [|[k' v'] pre IH]; intros H; [reflexivity|]. cbn [app dict_find].
    pose proof (H (k', v') (or_introl eq_refl)) as Hk. cbn [fst] in Hk. rewrite Hk.
    apply IH. intros kv Hin. apply H. right. exact Hin.
  Qed.

  Lemma keys_nodup_app pre k u rest :
    keys_nodup sc (pre ++ (k, u) :: rest) = true ->
    (forall kv, In kv pre -> pv_eq sc (fst kv) k = false) /\ keys_nodup sc (pre ++ rest) = true.
  Proof.
    induction pre as [|[k' v'] pre IH]; cbn [app keys_nodup]; intros H.
    - apply andb_true_iff in H as [_ H]. split; [intros kv []|exact H].
    - apply andb_true_iff in H as [H1 H2]. destruct (IH H2) as (A & B). apply negb_true_iff in H1.
      rewrite existsb_app in H1. apply orb_false_iff in H1 as [H1a H1b]. cbn [existsb fst] in H1b.
      apply orb_false_iff in H1b as [H1b H1c]. split.
      + intros kv [<-|Hin]; [exact H1b | apply A; exact Hin].
      + rewrite B, andb_true_r. apply negb_true_iff. rewrite existsb_app. rewrite H1a, H1c. reflexivity.
  Qed.

  (* the fresh object that stands for a map value whose encoding is empty *)
  Lemma new_is_eq o :
    obj_default sc o = true -> in_range sc o = true ->
    obj_eq sc o (new sc (ocls o)) = true.
  Proof.
    destruct o as [c raw sow unk cur]. cbn [ocls]. intros Hd Hr.
    rewrite new_unfold, obj_eq_unfold, Nat.eqb_refl. cbn [andb].
    unfold obj_default in Hd. cbn [ocls is_default msg_field fhint] in Hd. rewrite Nat.eqb_refl in Hd. cbn [andb] in Hd.
    rewrite in_range_unfold in Hr. apply andb_true_iff in Hr as [_ Hsl].
    destruct (schema_class_facts sc c Hsc) as (Hwf & _).
    revert Hd Hsl Hwf. generalize (cfields (get_class sc c)) as fs. clear.
    induction raw as [|x raw IH]; intros [|f fs] Hd Hsl Hwf; try reflexivity.
    apply andb_true_iff in Hd as [Hd1 Hd2]. cbn [slots_in_range] in Hsl. apply andb_true_iff in Hsl as [Hs1 Hs2].
    cbn [forallb] in Hwf. apply andb_true_iff in Hwf as [Hw1 Hw2].
    cbn [map eq_slots]. rewrite (IH fs Hd2 Hs2 Hw2), andb_true_r.
    destruct (fopt f) eqn:Hfo.
    - (* the fresh slot holds None: an optional field *)
      assert (Hh : exists p, fhint f = HOptional p).
      { destruct (fhint f) as [p|p|p|pk pv'] eqn:Hh; eauto.
        - destruct (wf_plain _ _ _ _ Hw1 Hh) as (H & _). congruence.
        - destruct (wf_list _ _ _ _ Hw1 Hh) as (H & _). congruence.
        - destruct (wf_dict _ _ _ _ _ Hw1 Hh) as (H & _). congruence. }
      destruct Hh as (p & Hh).
      destruct x; unfold slot_eq; cbn [is_default]; rewrite ?Hh; try reflexivity;
        cbn [is_default] in Hd1; rewrite Hh in Hd1; discriminate Hd1.
    - destruct x; unfold slot_eq; try reflexivity; exact Hd1.
  Qed.

  Lemma map_value_eq_norm vt pv' y :
    elem_in_range sc vt pv' y = true -> elemP (GoodU sc) y -> elemP EqOk y -> pv_is_nan y = false ->
    pv_eq sc y (norm_map_value sc (normu_obj sc) vt y) = true.
  Proof.
    intros Hr HG HE Hn. destruct y as [| |z|b|bits|s|b|us|us|l|d|o].
    1,2,10,11: (destruct pv'; try discriminate Hr; destruct vt; discriminate Hr).
    1,2,3,4,5,6,7:
      (cbn [norm_map_value];
       match goal with |- pv_eq sc ?Y _ = true =>
         destruct (elem_eq_norm vt pv' Y Hr I) as [H | [H _]]; [cbn [norm_elem] in H; exact H | congruence]
       end).
    cbn [norm_map_value elemP] in *.
    destruct HG as (bs & Eb & Hdef & _).
    destruct (enc_obj sc o) as [[|b0 bs0]|e] eqn:Eo; try (rewrite pv_eq_msg; exact HE).
    rewrite pv_eq_msg. injection Eb as <-. apply new_is_eq; [apply Hdef; reflexivity|].
    eapply elem_in_range_obj; eauto.
  Qed.

  Lemma dict_all_norm kt vt pv' rest : forall pre,
    map_key_ok kt = true ->
    keys_nodup sc (pre ++ rest) = true ->
    Forall (fun kv => scalar_in_range kt (fst kv) = true) (pre ++ rest) ->
    Forall (fun kv => elem_in_range sc vt pv' (snd kv) = true) rest ->
    Forall (fun kv => elemP (GoodU sc) (snd kv)) rest -> Forall (fun kv => elemP EqOk (snd kv)) rest ->
    forallb (fun kv => negb (pv_is_nan (snd kv))) rest = true ->
    dict_all sc (map (fun kv => (fst kv, norm_map_value sc (normu_obj sc) vt (snd kv))) (pre ++ rest)) rest = true.
  Proof.
    induction rest as [|[k u] rest IH]; intros pre Hk Hnd Hkeys Hin HG HE Hn; [reflexivity|].
    inversion Hin as [|? ? Hu Hin']; subst. inversion HG as [|? ? Gu HG']; subst. inversion HE as [|? ? Eu HE']; subst.
    cbn [forallb snd] in Hn. apply andb_true_iff in Hn as [Hnu Hn]. apply negb_true_iff in Hnu. cbn [snd] in *.
    cbn [dict_all]. apply andb_true_iff. split.
    - rewrite map_app. cbn [map fst snd].
      destruct (keys_nodup_app pre k u rest Hnd) as (Hpre & _).
      assert (Hkk : scalar_in_range kt k = true).
      { rewrite Forall_forall in Hkeys. apply (Hkeys (k, u)). apply in_or_app. right. left. reflexivity. }
      rewrite dict_find_skip.
      + cbn [dict_find]. rewrite (key_eq_refl kt k Hkk Hk). apply (map_value_eq_norm vt pv' u Hu Gu Eu Hnu).
      + intros kv Hin0. apply in_map_iff in Hin0 as ([k0 v0] & <- & Hin0). cbn [fst].
        rewrite (key_eq_sym kt k k0 Hkk); [apply (Hpre (k0, v0) Hin0) | | exact Hk].
        rewrite Forall_forall in Hkeys. apply (Hkeys (k0, v0)). apply in_or_app. left. exact Hin0.
    - replace (pre ++ (k, u) :: rest) with ((pre ++ [(k, u)]) ++ rest) by (rewrite <- app_assoc; reflexivity).
      apply IH; auto; rewrite <- app_assoc; assumption.
  Qed.

  (* ---- one slot ---- *)
  Lemma zero_not_nan b : f64_is_zero b = true -> f64_is_nan b = false.
  Proof. intros H. destruct (f64_is_nan b) eqn:E; [|reflexivity]. rewrite (f64_nan_not_zero sc b E) in H. discriminate. Qed.

  Lemma wrapper_default_eq vt x :
    scalar_in_range vt x = true -> tmem vt wrapper_types = true ->
    is_default (mkS [] []) (wrapper_field vt) x = true ->
    pv_eq sc x (default_of sc (wrapper_field vt)) = true.
  Proof.
    intros Hr Hw Hd. destruct vt; try discriminate Hw; destruct x; try discriminate Hr; cbn in Hd |- *;
      try exact Hd; try (destruct b; [discriminate Hd | reflexivity]).
    - unfold f64_eq. rewrite (zero_not_nan bits Hd). cbn. rewrite Hd. reflexivity.
    - unfold f64_eq. rewrite (zero_not_nan bits Hd). cbn. rewrite Hd. reflexivity.
    - destruct utf8; [reflexivity|discriminate Hd].
    - destruct b; [reflexivity|discriminate Hd].
  Qed.

  Lemma default_is_default c f p :
    wf_field sc (cngroups (get_class sc c)) f = true -> fhint f = HPlain p ->
    is_default sc f (match default_of sc f with PMsg o => PMsg (raise_sow o) | d => d end) = true.
  Proof.
    intros Hwf Hh. destruct (wf_plain _ _ _ _ Hwf Hh) as (_ & _ & _ & _ & Hfit).
    unfold default_of. rewrite Hh. destruct p; cbn [is_default]; rewrite Hh; try reflexivity.
    rewrite new_unfold. cbn [raise_sow]. rewrite Nat.eqb_refl. cbn [andb].
    destruct (schema_class_facts sc c0 Hsc) as (Hw & _).
    revert Hw. generalize (cfields (get_class sc c0)) as fs.
    induction fs as [|g fs IH]; intros Hw; [reflexivity|].
    cbn [forallb] in Hw. apply andb_true_iff in Hw as [Hw1 Hw2]. cbn [map]. rewrite (IH Hw2), andb_true_r.
    destruct (fopt g) eqn:Hfo; [|reflexivity].
    cbn [is_default]. destruct (fhint g) as [q|q|q|qk qv] eqn:Hg; try reflexivity.
    - destruct (wf_plain _ _ _ _ Hw1 Hg) as (H & _). congruence.
    - destruct (wf_list _ _ _ _ Hw1 Hg) as (H & _). congruence.
    - destruct (wf_dict _ _ _ _ _ Hw1 Hg) as (H & _). congruence.
  Qed.

  Lemma wrapper_default_real w : wrapper_value_type w = Some w -> default_of sc (wrapper_field w) <> PPlaceholder.
  Proof. destruct w; intros H; try discriminate H; unfold default_of, wrapper_field, plain_field; cbn; discriminate. Qed.

  Lemma norm_scalar_real w x : scalar_in_range w x = true -> norm_scalar w x <> PPlaceholder.
  Proof. destruct w, x; intros H; try discriminate H; cbn; discriminate. Qed.

  Section SlotEq.
    Variables (c : nat) (cur : list (option nat)) (i : nat) (f : fdesc).
    Hypothesis Hwf : wf_field sc (cngroups (get_class sc c)) f = true.
    Let sel := group_selects cur f i.

    Lemma eq_singular x p :
      (fhint f = HPlain p \/ fhint f = HOptional p) -> is_singular x = true -> slot_in_range sc f x = true ->
      elemP EqOk x -> sel <> Some false ->
      slot_eq sc f x (norm_slot sc (normu_obj sc) f sel x) = true.
    Proof.
      intros Hh Hx Hr HE Hne. unfold sel. rewrite (norm_slot_sing sc cur i f x Hx Hne).
      destruct (is_default sc f x && negb (forced_of cur i f x)) eqn:Hd.
      { apply andb_true_iff in Hd as [Hd Hnf]. apply negb_true_iff in Hnf.
        assert (Hfo : fopt f = false) by (unfold forced_of in Hnf; destruct (is_some (fgroup f)), (fopt f); try discriminate Hnf; reflexivity).
        unfold fresh_of. rewrite Hfo. destruct x; try discriminate Hx; exact Hd. }
      assert (Hshape : forall v', v' <> PPlaceholder ->
                (pv_eq sc x v' = true \/ (pv_is_nan x = true /\ pv_is_nan v' = true)) -> slot_eq sc f x v' = true).
      { intros v' Hv' Hor. unfold slot_eq. destruct x; try discriminate Hx; destruct v'; try congruence;
          (destruct Hor as [-> | [-> ->]]; [reflexivity | apply orb_true_r]). }
      destruct Hh as [Hh|Hh].
      - destruct (wf_plain _ _ _ _ Hwf Hh) as (_ & Hfw & _). rewrite Hfw.
        assert (Hr' : elem_in_range sc (fty f) p x = true)
          by (unfold slot_in_range in Hr; rewrite Hh in Hr; destruct x; try discriminate Hx; exact Hr).
        apply Hshape; [|apply (elem_eq_norm (fty f) p x Hr' HE)].
        destruct x; try discriminate Hx; cbn [norm_elem]; try discriminate; destruct (fty f); discriminate.
      - destruct (wf_optional _ _ _ _ Hwf Hh) as (_ & Hg & [(w & vt & Hfw & Hfo & Hty & Hwc & Hvt & Hfit) | (Hfw & Hfo & Hmap & Hfit)]);
          rewrite Hfw.
        + assert (Hp : match p with PyMsg _ | PyDatetime | PyTimedelta => False | _ => True end).
          { destruct w; try discriminate Hvt; injection Hvt as <-; destruct p; try discriminate Hfit; exact I. }
          assert (Hr' : scalar_in_range w x = true).
          { unfold slot_in_range in Hr. rewrite Hh, Hfw in Hr.
            rewrite <- (scalar_elem_in_range sc w p x Hp). destruct x; try discriminate Hx; exact Hr. }
          assert (Hw : vt = w /\ tmem vt wrapper_types = true)
            by (destruct w; try discriminate Hvt; injection Hvt as <-; split; reflexivity).
          destruct Hw as (-> & Hwt).
          destruct (norm_wrapped_shape sc w w x Hvt Hr') as (_ & Hm' & _ & _ & Hn' & _).
          apply Hshape.
          * unfold norm_wrapped. rewrite Hvt. destruct (is_default (mkS [] []) (wrapper_field w) x); [apply wrapper_default_real; exact Hvt|].
            apply norm_scalar_real. exact Hr'.
          * unfold norm_wrapped. rewrite Hvt. fold (wrapper_field w).
            destruct (is_default (mkS [] []) (wrapper_field w) x) eqn:Ed.
            -- left. apply wrapper_default_eq; assumption.
            -- apply scalar_eq_norm. exact Hr'.
        + assert (Hr' : elem_in_range sc (fty f) p x = true)
            by (unfold slot_in_range in Hr; rewrite Hh, Hfw in Hr; destruct x; try discriminate Hx; exact Hr).
          apply Hshape; [|apply (elem_eq_norm (fty f) p x Hr' HE)].
          destruct x; try discriminate Hx; cbn [norm_elem]; try discriminate; destruct (fty f); discriminate.
    Qed.

    Lemma slot_eq_norm x :
      slot_in_range sc f x = true -> (sel = Some false -> x = PPlaceholder) ->
      (forall l, x = PList l -> forallb (fun y => negb (pv_is_nan y)) l = true) ->
      (forall d, x = PDict d -> forallb (fun kv => negb (pv_is_nan (snd kv))) d = true /\ keys_nodup sc d = true) ->
      subP (GoodU sc) x -> subP EqOk x ->
      slot_eq sc f x (norm_slot sc (normu_obj sc) f sel x) = true.
    Proof.
      intros Hr Hclean Hnl Hnd HG HE.
      destruct (is_singular x) eqn:Hx.
      { destruct (sel) as [[|]|] eqn:Hsel.
        2:{ rewrite (Hclean eq_refl) in Hx. discriminate. }
        all: destruct (singular_hint sc f x Hx Hr) as (p & Hp).
        all: assert (HE' : elemP EqOk x) by (destruct x; try discriminate Hx; try exact I; exact HE).
        all: rewrite <- Hsel; apply (eq_singular x p Hp Hx Hr HE'); rewrite Hsel; discriminate. }
      destruct sel as [[|]|] eqn:Hsel.
      2:{ rewrite (Hclean eq_refl). unfold norm_slot.
          pose proof (group_selects_shape cur f i) as Hsh. fold sel in Hsh. rewrite Hsel in Hsh. destruct Hsh as (g & Hg & _).
          rewrite (group_member_not_opt _ _ _ _ Hwf Hg). reflexivity. }
      all: destruct x as [| |z|b|bits|s|b|us|us|l|d|o]; try discriminate Hx.
      - (* placeholder, selected *)
        pose proof (group_selects_shape cur f i) as Hsh. fold sel in Hsh. rewrite Hsel in Hsh. destruct Hsh as (g & Hg & _).
        destruct (fhint f) as [p|p|p|pk pv'] eqn:Hh.
        + assert (Hn : norm_slot sc (normu_obj sc) f (Some true) PPlaceholder
                       = match default_of sc f with PMsg o => PMsg (raise_sow o) | d => d end) by reflexivity.
          rewrite Hn. pose proof (default_is_default c f p Hwf Hh) as Hd.
          unfold slot_eq. destruct (match default_of sc f with PMsg o => PMsg (raise_sow o) | d => d end); try exact Hd; reflexivity.
        + destruct (wf_optional _ _ _ _ Hwf Hh) as (_ & Hg' & _). congruence.
        + destruct (wf_list _ _ _ _ Hwf Hh) as (_ & _ & _ & Hg' & _). congruence.
        + destruct (wf_dict _ _ _ _ _ Hwf Hh) as (_ & _ & Hg' & _). congruence.
      - exfalso. pose proof (group_selects_shape cur f i) as Hsh. fold sel in Hsh. rewrite Hsel in Hsh. destruct Hsh as (g & Hg & _).
        unfold slot_in_range in Hr. destruct (fhint f) as [p|p|p|pk pv'] eqn:Hh; try discriminate Hr.
        destruct (wf_optional _ _ _ _ Hwf Hh) as (_ & Hg' & _). congruence.
      - exfalso. pose proof (group_selects_shape cur f i) as Hsh. fold sel in Hsh. rewrite Hsel in Hsh. destruct Hsh as (g & Hg & _).
        unfold slot_in_range in Hr. destruct (fhint f) as [p|p|p|pk pv'] eqn:Hh; rewrite ?elem_in_range_list in Hr; try discriminate Hr.
        destruct (wf_list _ _ _ _ Hwf Hh) as (_ & _ & _ & Hg' & _). congruence.
      - exfalso. pose proof (group_selects_shape cur f i) as Hsh. fold sel in Hsh. rewrite Hsel in Hsh. destruct Hsh as (g & Hg & _).
        unfold slot_in_range in Hr. destruct (fhint f) as [p|p|p|pk pv'] eqn:Hh; rewrite ?elem_in_range_dict in Hr; try discriminate Hr.
        destruct (wf_dict _ _ _ _ _ Hwf Hh) as (_ & _ & Hg' & _). congruence.
      - (* placeholder, no group *)
        assert (Hn : norm_slot sc (normu_obj sc) f None PPlaceholder = fresh_of f) by reflexivity.
        rewrite Hn. unfold fresh_of. destruct (fopt f) eqn:Hfo; [|reflexivity].
        unfold slot_eq. cbn [is_default]. destruct (fhint f) as [q|q|q|qk qv] eqn:Hg; try reflexivity.
        + destruct (wf_plain _ _ _ _ Hwf Hg) as (H & _). congruence.
        + destruct (wf_list _ _ _ _ Hwf Hg) as (H & _). congruence.
        + destruct (wf_dict _ _ _ _ _ Hwf Hg) as (H & _). congruence.
      - (* None *)
        assert (Hn : norm_slot sc (normu_obj sc) f None PNone = fresh_of f) by reflexivity.
        rewrite Hn. unfold fresh_of. destruct (fopt f); [reflexivity|].
        unfold slot_eq. cbn [is_default]. unfold slot_in_range in Hr. destruct (fhint f); try discriminate Hr. reflexivity.
      - assert (Hh : exists p, fhint f = HList p).
        { unfold slot_in_range in Hr. destruct (fhint f) as [p|p|p|pk pv'] eqn:Hh; eauto;
            rewrite ?elem_in_range_list in Hr; discriminate Hr. }
        destruct Hh as (p & Hh). destruct (wf_list _ _ _ _ Hwf Hh) as (Hfo & _).
        assert (Hin : Forall (fun y => elem_in_range sc (fty f) p y = true) l).
        { unfold slot_in_range in Hr. rewrite Hh in Hr. apply all_fix_forall in Hr. exact Hr. }
        destruct l as [|y l'].
        + assert (Hn : norm_slot sc (normu_obj sc) f None (PList []) = fresh_of f) by reflexivity.
          rewrite Hn. unfold fresh_of. rewrite Hfo. unfold slot_eq. cbn [is_default]. rewrite Hh. reflexivity.
        + assert (Hn : norm_slot sc (normu_obj sc) f None (PList (y :: l'))
                       = PList (map (norm_elem (normu_obj sc) (fty f)) (y :: l'))) by reflexivity.
          rewrite Hn. unfold slot_eq. rewrite pv_eq_list.
          rewrite (list_eq_norm (fty f) p (y :: l') Hin HE (Hnl _ eq_refl)). reflexivity.
      - assert (Hh : exists pk pv', fhint f = HDict pk pv').
        { unfold slot_in_range in Hr. destruct (fhint f) as [p|p|p|pk pv'] eqn:Hh; eauto;
            rewrite ?elem_in_range_dict in Hr; discriminate Hr. }
        destruct Hh as (pk & pv' & Hh).
        destruct (wf_dict _ _ _ _ _ Hwf Hh) as (Hfo & _ & _ & _ & kt & vt & Hm & Hk & _).
        assert (Hin : Forall (fun kv => scalar_in_range kt (fst kv) && elem_in_range sc vt pv' (snd kv) = true) d).
        { unfold slot_in_range in Hr. rewrite Hh, Hm in Hr.
          apply (dict_fix_forall (fun k y => scalar_in_range kt k && elem_in_range sc vt pv' y)) in Hr. exact Hr. }
        destruct d as [|kv0 d'].
        + assert (Hn : norm_slot sc (normu_obj sc) f None (PDict []) = fresh_of f) by reflexivity.
          rewrite Hn. unfold fresh_of. rewrite Hfo. unfold slot_eq. cbn [is_default]. rewrite Hh. reflexivity.
        + assert (Hn : norm_slot sc (normu_obj sc) f None (PDict (kv0 :: d'))
                       = PDict (map (fun kv => (fst kv, norm_map_value sc (normu_obj sc) vt (snd kv))) (kv0 :: d')))
            by (unfold norm_slot; rewrite Hm; reflexivity).
          rewrite Hn. unfold slot_eq. rewrite pv_eq_dict. rewrite map_length, Nat.eqb_refl. cbn [andb].
          destruct (Hnd _ eq_refl) as (Hnan & Hkn).
          apply orb_true_iff. left.
          apply (dict_all_norm kt vt pv' (kv0 :: d') [] Hk Hkn).
          * eapply Forall_impl; [|exact Hin]. intros kv H. apply andb_true_iff in H as [H _]. exact H.
          * eapply Forall_impl; [|exact Hin]. intros kv H. apply andb_true_iff in H as [_ H]. exact H.
          * exact HG.
          * exact HE.
          * exact Hnan.
    Qed.
  End SlotEq.

  (* the walk over the field list *)
  Lemma eq_slots_norm c cur : forall raw fs i,
    forallb (wf_field sc (cngroups (get_class sc c))) fs = true ->
    slots_in_range sc raw fs = true -> clean_slots sc cur i raw fs = true ->
    forallb (fun x => match x with PDict d => keys_nodup sc d | _ => true end) raw = true ->
    forallb (fun x => match x with
                      | PList l => forallb (fun y => negb (pv_is_nan y)) l
                      | PDict d => forallb (fun kv => negb (pv_is_nan (snd kv))) d
                      | _ => true
                      end) raw = true ->
    Forall (subP (GoodU sc)) raw -> Forall (subP EqOk) raw ->
    eq_slots sc raw (normu_slots sc cur i raw fs) fs = true.
  Proof.
    induction raw as [|x raw IH]; intros [|f fs] i Hwf Hr Hc Hk Hn HG HE; try reflexivity.
    cbn [forallb] in Hwf, Hk, Hn. apply andb_true_iff in Hwf as [Hw1 Hw2].
    apply andb_true_iff in Hk as [Hk1 Hk2]. apply andb_true_iff in Hn as [Hn1 Hn2].
    cbn [slots_in_range] in Hr. apply andb_true_iff in Hr as [Hr1 Hr2].
    cbn [clean_slots] in Hc. apply andb_true_iff in Hc as [Hc1 Hc2].
    inversion HG as [|? ? G1 G2]; subst. inversion HE as [|? ? E1 E2]; subst.
    rewrite normu_slots_cons. cbn [eq_slots]. rewrite (IH fs (S i)) by assumption. rewrite andb_true_r.
    apply (slot_eq_norm c cur i f Hw1 x Hr1); auto.
    - intros Hs. rewrite Hs in Hc1. destruct x; try discriminate Hc1; reflexivity.
    - intros l ->. exact Hn1.
    - intros d ->. split; assumption.
  Qed.

  Definition EqIf (o : obj) : Prop := deep nan_free (PMsg o) = true -> EqOk o.

  Lemma sub_eq_lift x : deep nan_free x = true -> subP EqIf x -> subP EqOk x.
  Proof.
    intros Hd HP. destruct x as [| |z|b|bits|s|b|us|us|l|d|o]; try exact I.
    - cbn [subP] in *. rewrite deep_plist in Hd. induction l as [|y l IH]; [constructor|].
      inversion HP as [|? ? Py HP']; subst. rewrite deep_list_cons in Hd. apply andb_true_iff in Hd as [Hd1 Hd2].
      constructor; [|apply IH; assumption]. destruct y; try exact I. cbn [elemP] in *. apply Py. exact Hd1.
    - cbn [subP] in *. rewrite deep_pdict in Hd. induction d as [|[k y] d IH]; [constructor|].
      inversion HP as [|? ? Py HP']; subst. cbn [deep_dict] in Hd. apply andb_true_iff in Hd as [Hd1 Hd2].
      constructor; [|apply IH; assumption]. cbn [snd] in *. destruct y; try exact I. cbn [elemP] in *. apply Py. exact Hd1.
    - cbn [subP] in *. apply HP. exact Hd.
  Qed.

  Lemma eq_step c raw sow unk cur :
    value_ok sc (Obj c raw sow unk cur) ->
    Forall (subP (fun o => value_ok sc o -> EqIf o)) raw ->
    EqIf (Obj c raw sow unk cur).
  Proof.
    intros Hv HP Hnan. pose proof Hv as (Hr & Hd).
    rewrite in_range_unfold in Hr. rewrite deep_msg in Hd. rewrite deep_msg in Hnan.
    apply andb_true_iff in Hr as [Hr Hsl]. apply andb_true_iff in Hr as [Hr Hcl]. apply andb_true_iff in Hr as [_ Hlen].
    apply andb_true_iff in Hd as [Hloc Hdl]. unfold local_ok in Hloc.
    apply andb_true_iff in Hloc as [Hloc Hku]. apply andb_true_iff in Hloc as [Hloc Hnu]. apply andb_true_iff in Hloc as [Hoc Hco].
    apply andb_true_iff in Hnan as [Hnf Hnl].
    rewrite oneof_clean_unfold in Hoc.
    destruct (schema_class_facts sc c Hsc) as (Hwf & Hnd & Hent).
    unfold EqOk. rewrite normu_obj_unfold, obj_eq_unfold, Nat.eqb_refl. cbn [andb].
    assert (HG : Forall (subP (GoodU sc)) raw).
    { apply (value_ok_slots sc (GoodU sc) c raw sow unk cur Hv).
      apply Forall_forall. intros x _. apply subP_forall. intros o Ho. apply (all_good sc Hsc o Ho). }
    assert (HE : Forall (subP EqOk) raw).
    { pose proof (value_ok_slots sc EqIf c raw sow unk cur Hv HP) as H.
      apply Forall_forall. intros x Hx. apply In_nth_error in Hx as (k & Hk).
      apply sub_eq_lift; [eapply deep_list_nth; eauto | eapply Forall_nth_error; eauto]. }
    apply (eq_slots_norm c cur raw _ 0 Hwf Hsl Hoc); auto.
  Qed.

  Theorem all_eq : forall o, value_ok sc o -> deep nan_free (PMsg o) = true -> obj_eq sc o (normu_obj sc o) = true.
  Proof.
    apply (obj_nested_ind (fun o => value_ok sc o -> EqIf o)).
    intros c raw s u g HP Hv. apply eq_step; assumption.
  Qed.
End EqProof.

Lemma c14u_decoded_equal sc m :
  c01_schema_ok sc = true -> c14u_value_ok sc m = true -> deep nan_free (PMsg m) = true ->
  obj_eq sc m (normu_obj sc m) = true.
Proof. intros Hs Hv Hn. apply c14u_value_ok_spec in Hv. exact (all_eq sc Hs m Hv Hn). Qed.
