(* C02, encoder side: abs_obj (norm_obj m) = abs_obj m under enc_faithful — repeated and map fields, every slot,
   the walk over the fields and the induction over nested values. *)
From BP Require Import Base.Prelude Model.Types Model.Varint Model.Scalar Model.Float Model.Utf8.
From BP Require Import Model.Object Model.Eq Model.TimeCore Model.Encode Model.Decode Model.WellFormed Model.C01Def.
From BP Require Import Spec.Varint Spec.Wire.
From BP Require Import Proofs.BytesP Proofs.LenP Proofs.C02Abs Proofs.C02WireP Proofs.C02ListP Proofs.C02StepP Proofs.C02SimP Proofs.C02MapP.
From BP Require Import Proofs.C01Frame Proofs.C01Elem Proofs.C01Builtin Proofs.C01Unfold Proofs.C01Value Proofs.C01Slot Proofs.C01Slot2
     Proofs.C01Dict Proofs.C01Msg Proofs.C01Main Proofs.C01Stable.
From BP Require Import Proofs.C02LegalSpec Proofs.C02LegalLeaf Proofs.C02LegalWalk Proofs.C02LegalFlat Proofs.C02LegalElem
     Proofs.C02LegalMain Proofs.C02LegalFaith Proofs.C02LegalFaith2.
From BP Require Import gen.Tables.

Section Faith3.
  Variable sc : schema.
  Hypothesis Hsc : c01_schema_ok sc = true.
  Let WF := proj1 (schema_parts sc Hsc).

  (* a message that encodes to nothing denotes the empty message *)
  Lemma empty_encoding_abs o :
    value_ok sc o -> enc_obj sc o = Ok [] -> abs_obj sc (norm_obj sc o) = empty_msg sc (ocls o).
  Proof.
    intros Hv E. destruct (all_good2 sc Hsc o Hv [] E lsmall_nil) as (rs & W & H).
    destruct (legal_at_nil sc (ocls o)) as (rs' & W' & H').
    rewrite (wire_ok_fun _ _ _ W W') in H.
    destruct (H 1%nat ltac:(cbn; lia)) as (S1 & _). destruct (H' 1%nat ltac:(cbn; lia)) as (S2 & _). congruence.
  Qed.

  Section OneSlot.
    Variables (c : nat) (cur : list (option nat)) (i : nat) (f : fdesc).
    Hypothesis Hwf : wf_field sc (cngroups (get_class sc c)) f = true.
    Hypothesis Hent : entry_hints_ok sc f = true.
    Let sel := group_selects cur f i.

    Lemma list_faith l p :
      fhint f = HList p -> faithful_slot sc f (PList l) = true -> Forall (elemP (Sub sc)) l ->
      abs_field sc cur i f (norm_slot sc (norm_obj sc) f sel (PList l)) = abs_field sc cur i f (PList l).
    Proof.
      intros Hh Hfa HS. destruct (wf_list _ _ _ _ Hwf Hh) as (Hfo & Hfw & _ & Hg & _).
      assert (Hsel : sel = None) by (unfold sel, group_selects; rewrite Hg; reflexivity).
      assert (Cf : card_of f = Repeated) by (unfold card_of; rewrite Hh; reflexivity).
      unfold norm_slot. rewrite Hsel. unfold abs_field. rewrite Cf. rewrite Hfo.
      destruct l as [|y l']; [reflexivity|]. f_equal. rewrite map_map.
      unfold faithful_slot in Hfa. rewrite Cf in Hfa.
      generalize dependent (y :: l'). clear y l'. intros l Hfa HS.
      induction HS as [|y l Hy _ IH]; [reflexivity|].
      cbn [faithful_elems] in Hfa. apply andb_true_iff in Hfa as [Hfa Hrest]. apply andb_true_iff in Hfa as [Hf32 Hef].
      cbn [map]. f_equal; [apply (elem_faith sc f y Hf32 Hef Hy) | apply IH; exact Hrest].
    Qed.

    Lemma dict_faith d pk pv' :
      fhint f = HDict pk pv' -> faithful_slot sc f (PDict d) = true -> Forall (fun kv => elemP (Sub sc) (snd kv)) d ->
      abs_field sc cur i f (norm_slot sc (norm_obj sc) f sel (PDict d)) = abs_field sc cur i f (PDict d).
    Proof.
      intros Hh Hfa HS.
      destruct (dict_facts sc c cur i f Hwf Hent pk pv' Hh) as (Hfo & Hfw & Hg & Hty & Hsel & Hdef & Hfr & kt & vt & fk & fv & Hm &
        Hkok & Hvmap & Hfk & Hfv & Hcf & Hn1 & Ht1 & Hn2 & Ht2 & _).
      assert (Cf : card_of f = MapOf) by (unfold card_of; rewrite Hh; reflexivity).
      unfold norm_slot. fold sel. unfold sel. rewrite Hsel, Hm. unfold abs_field. rewrite Cf, Hfo.
      destruct d as [|kv0 d']; [reflexivity|]. f_equal. rewrite map_map.
      unfold faithful_slot in Hfa. rewrite Cf, Hm in Hfa. apply andb_true_iff in Hfa as [_ Hfa].
      assert (Hvf : value_field sc f = fv) by (unfold value_field; rewrite Hcf; reflexivity). rewrite Hvf.
      generalize dependent (kv0 :: d'). clear kv0 d'. intros d Hfa HS.
      induction HS as [|[k y] d Hy _ IH]; [reflexivity|].
      cbn [faithful_values] in Hfa. apply andb_true_iff in Hfa as [Hfa Hrest]. apply andb_true_iff in Hfa as [Hf32 Hef].
      cbn [map fst snd] in *. f_equal; [|apply IH; exact Hrest]. f_equal.
      destruct y as [| |z|b|bits|s|b|us|us|l|dd|o]; cbn [norm_map_value]; rewrite ?(norm_scalar_ok _ _ Hf32); try reflexivity.
      cbn [elemP] in Hy. destruct Hy as (Hv & Hsame). specialize (Hsame Hef). unfold Same in Hsame.
      unfold abs_elem. destruct (msg_class fv); [|destruct (enc_obj sc o) as [[|? ?]|]; reflexivity].
      destruct (enc_obj sc o) as [[|b0 bs0]|e] eqn:Eo; try exact Hsame.
      rewrite (abs_new sc (ocls o) WF), <- Hsame. symmetry. apply empty_encoding_abs; assumption.
    Qed.

    (* every slot *)
    Lemma slot_faith x :
      slot_in_range sc f x = true -> (sel = Some false -> x = PPlaceholder) ->
      faithful_slot sc f x = true -> subP (Sub sc) x ->
      abs_field sc cur i f (norm_slot sc (norm_obj sc) f sel x) = abs_field sc cur i f x.
    Proof.
      intros Hr Hclean Hfa HS.
      destruct sel as [[|]|] eqn:Hsel.
      2:{ rewrite (Hclean eq_refl). unfold norm_slot. apply (fresh_faith sc c cur i f Hwf). left. reflexivity. }
      all: destruct (is_singular x) eqn:Hx.
      1,3: (rewrite <- Hsel; apply (sing_faith sc c cur i f Hwf x Hx); fold sel; [rewrite Hsel; discriminate | exact Hr | exact Hfa |];
            destruct x; try discriminate Hx; try exact I; exact HS).
      all: destruct x as [| |z|b|bits|s|b|us|us|l|d|o]; try discriminate Hx.
      - rewrite <- Hsel. apply (placeholder_selected_faith sc Hsc c cur i f Hwf). exact Hsel.
      - unfold norm_slot. apply (fresh_faith sc c cur i f Hwf). right. split; [reflexivity|].
        unfold slot_in_range in Hr. destruct (fhint f); try discriminate Hr. eauto.
      - assert (Hh : exists p, fhint f = HList p).
        { unfold slot_in_range in Hr. destruct (fhint f) as [p|p|p|pk pv'] eqn:Hh; eauto;
            rewrite ?elem_in_range_list in Hr; discriminate Hr. }
        destruct Hh as (p & Hh). rewrite <- Hsel. apply (list_faith l p Hh Hfa HS).
      - assert (Hh : exists pk pv', fhint f = HDict pk pv').
        { unfold slot_in_range in Hr. destruct (fhint f) as [p|p|p|pk pv'] eqn:Hh; eauto;
            rewrite ?elem_in_range_dict in Hr; discriminate Hr. }
        destruct Hh as (pk & pv' & Hh). rewrite <- Hsel. apply (dict_faith d pk pv' Hh Hfa HS).
      - unfold norm_slot. apply (fresh_faith sc c cur i f Hwf). left. reflexivity.
      - unfold norm_slot. apply (fresh_faith sc c cur i f Hwf). right. split; [reflexivity|].
        unfold slot_in_range in Hr. destruct (fhint f); try discriminate Hr. eauto.
      - assert (Hh : exists p, fhint f = HList p).
        { unfold slot_in_range in Hr. destruct (fhint f) as [p|p|p|pk pv'] eqn:Hh; eauto;
            rewrite ?elem_in_range_list in Hr; discriminate Hr. }
        destruct Hh as (p & Hh). rewrite <- Hsel. apply (list_faith l p Hh Hfa HS).
      - assert (Hh : exists pk pv', fhint f = HDict pk pv').
        { unfold slot_in_range in Hr. destruct (fhint f) as [p|p|p|pk pv'] eqn:Hh; eauto;
            rewrite ?elem_in_range_dict in Hr; discriminate Hr. }
        destruct Hh as (pk & pv' & Hh). rewrite <- Hsel. apply (dict_faith d pk pv' Hh Hfa HS).
    Qed.
  End OneSlot.

  (* the walk over the field list *)
  Lemma slots_faith c cur : forall raw fs j,
    forallb (wf_field sc (cngroups (get_class sc c))) fs = true -> forallb (entry_hints_ok sc) fs = true ->
    slots_in_range sc raw fs = true -> clean_slots sc cur j raw fs = true -> faithful_slots sc raw fs = true ->
    Forall (subP (Sub sc)) raw ->
    imap2 (abs_field sc cur) j fs (norm_slots sc cur j raw fs) = imap2 (abs_field sc cur) j fs raw.
  Proof.
    induction raw as [|x raw IH]; intros [|f fs] j Hwf Hent Hr Hc Hfa HS; try reflexivity.
    cbn [forallb] in Hwf, Hent. apply andb_true_iff in Hwf as [Hw1 Hw2]. apply andb_true_iff in Hent as [He1 He2].
    cbn [slots_in_range] in Hr. apply andb_true_iff in Hr as [Hr1 Hr2].
    cbn [clean_slots] in Hc. apply andb_true_iff in Hc as [Hc1 Hc2].
    cbn [faithful_slots] in Hfa. apply andb_true_iff in Hfa as [Hf1 Hf2].
    inversion HS as [|? ? S1 S2]; subst.
    rewrite norm_slots_cons. cbn [imap2]. f_equal.
    - apply (slot_faith c cur j f Hw1 He1 x Hr1); auto.
      intros Hs. rewrite Hs in Hc1. destruct x; try discriminate Hc1; reflexivity.
    - apply IH; assumption.
  Qed.

  Definition Faithful (o : obj) : Prop := value_ok sc o -> enc_faithful_pv sc (PMsg o) = true -> Same sc o.

  Lemma faith_step c raw sow unk cur :
    Forall (subP Faithful) raw -> Faithful (Obj c raw sow unk cur).
  Proof.
    intros HP Hv Hfa. pose proof Hv as (Hr & Hd).
    rewrite in_range_unfold in Hr. rewrite deep_msg in Hd.
    apply andb_true_iff in Hr as [Hr Hsl]. apply andb_true_iff in Hd as [Hloc Hdl]. unfold local_ok in Hloc.
    apply andb_true_iff in Hloc as [Hloc Hku]. apply andb_true_iff in Hloc as [Hloc Hnu]. apply andb_true_iff in Hloc as [Hoc Hco].
    rewrite oneof_clean_unfold in Hoc.
    unfold no_unknown in Hnu. cbn [ounk] in Hnu. destruct unk; [|discriminate]. clear Hnu.
    destruct (schema_class_facts sc c Hsc) as (Hwf & Hnd & Hent).
    rewrite enc_faithful_pv_unfold in Hfa. apply andb_true_iff in Hfa as [_ Hfs].
    assert (HS : Forall (subP (Sub sc)) raw).
    { apply (value_ok_slots sc (Sub sc) c raw sow [] cur Hv).
      eapply Forall_impl; [|exact HP]. intros x Hx. eapply subP_impl; [|exact Hx].
      intros o Ho Hvo. split; [exact Hvo|]. intros Hfo. apply Ho; assumption. }
    unfold Same. rewrite norm_obj_unfold, !abs_obj_eq. f_equal.
    apply (slots_faith c); assumption.
  Qed.

  Theorem all_faithful : forall o, Faithful o.
  Proof. apply (obj_nested_ind Faithful). intros c raw s u g HP. apply faith_step. exact HP. Qed.
End Faith3.

(* the statements Properties/C02.v quotes *)
Theorem c02_norm_abs sc m :
  c01_schema_ok sc = true -> c01_value_ok sc m = true -> enc_faithful sc m = true ->
  abs_obj sc (norm_obj sc m) = abs_obj sc m.
Proof.
  intros Hsc Hv Hf. apply c01_value_ok_spec in Hv. unfold enc_faithful in Hf. apply andb_true_iff in Hf as [_ Hf].
  exact (all_faithful sc Hsc m Hv Hf).
Qed.

Theorem c02_encode_denotes sc m :
  c01_schema_ok sc = true -> c01_value_ok sc m = true -> enc_faithful sc m = true ->
  exists bs, enc_obj sc m = Ok bs /\
    (Zlength bs < 2 ^ 35 ->
     exists rs, parse_wire bs = Some rs /\
       sem (S (length bs)) sc (ocls m) rs = Some (abs_obj sc m) /\
       supported (S (length bs)) sc (ocls m) rs = true).
Proof.
  intros Hsc Hv Hf. destruct (c02_encode_legal sc m Hsc Hv) as (bs & Eb & H).
  exists bs. split; [exact Eb|]. intros Hs. destruct (H Hs) as (rs & a & P & Sm & Ha & Sp).
  exists rs. split; [exact P|]. split; [|exact Sp]. rewrite Sm, Ha. f_equal. apply c02_norm_abs; assumption.
Qed.
