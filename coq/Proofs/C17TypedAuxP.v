(* C17: auxiliary lemmas for the typing invariant: list combinators, what wf_schema gives
   for one field, ranges of the numbers the scalar post-processing produces. *)
From BP Require Import Base.Prelude Model.Types Model.Varint Model.Scalar Model.Float Model.Utf8.
From BP Require Import Model.Object Model.Eq Model.TimeCore Model.Decode Model.WellFormed Model.C17Typed.
From BP Require Import Spec.Varint Proofs.BytesP Proofs.VarintP Proofs.ScalarP Proofs.C17FieldP.
From BP Require Import gen.Tables.
From Coq Require Import ZifyBool.
Ltac Zify.zify_post_hook ::= Z.to_euclidean_division_equations.

(* ---------- forallb2 / set_nth ---------- *)
Lemma forallb2_length {A B} (P : A -> B -> bool) l1 : forall l2,
  forallb2 P l1 l2 = true -> length l1 = length l2.
Proof.
  induction l1 as [|x l1 IH]; intros [|y l2] H; cbn in *; try discriminate; [reflexivity|].
  apply andb_true_iff in H as [_ H]. f_equal. apply IH, H.
Qed.

Lemma forallb2_nth {A B} (P : A -> B -> bool) d l1 : forall l2 i y,
  forallb2 P l1 l2 = true -> nth_error l2 i = Some y -> P (nth i l1 d) y = true.
Proof.
  induction l1 as [|x l1 IH]; intros [|y0 l2] i y H Hn; cbn in H; try discriminate.
  - destruct i; discriminate.
  - apply andb_true_iff in H as [H0 H]. destruct i as [|i]; cbn in *.
    + injection Hn as <-. exact H0.
    + eapply IH; eassumption.
Qed.

Lemma forallb2_set_nth {A B} (P : A -> B -> bool) v l1 : forall l2 i y,
  forallb2 P l1 l2 = true -> nth_error l2 i = Some y -> P v y = true ->
  forallb2 P (set_nth i v l1) l2 = true.
Proof.
  induction l1 as [|x l1 IH]; intros [|y0 l2] i y H Hn Hv; cbn in H; try discriminate.
  - destruct i; discriminate.
  - apply andb_true_iff in H as [H0 H]. destruct i as [|i]; cbn in *.
    + injection Hn as <-. rewrite Hv, H. reflexivity.
    + rewrite H0. cbn. eapply IH; eassumption.
Qed.

Lemma forallb2_set_nth_r {A B} (P : A -> B -> bool) v l1 : forall l2 i,
  forallb2 P l1 l2 = true -> (forall x, nth_error l1 i = Some x -> P x v = true) ->
  forallb2 P l1 (set_nth i v l2) = true.
Proof.
  induction l1 as [|x l1 IH]; intros [|y0 l2] i H Hv; cbn in H; try discriminate; [destruct i; reflexivity|].
  apply andb_true_iff in H as [H0 H]. destruct i as [|i]; cbn.
  - rewrite (Hv x eq_refl), H. reflexivity.
  - rewrite H0. cbn. apply IH; [exact H|]. intros x' Hx. apply Hv. exact Hx.
Qed.

Lemma forallb2_map_l {A B} (P : A -> B -> bool) (g : B -> A) l :
  forallb2 P (map g l) l = forallb (fun y => P (g y) y) l.
Proof. induction l as [|y l IH]; cbn; [reflexivity|]. rewrite IH. reflexivity. Qed.

Lemma set_nth_length {A} i (v : A) l : length (set_nth i v l) = length l.
Proof. revert i. induction l as [|x l IH]; intros [|i]; cbn; try reflexivity. f_equal. apply IH. Qed.

Lemma forallb_nth_error {A} (P : A -> bool) l i x :
  forallb P l = true -> nth_error l i = Some x -> P x = true.
Proof. intros H Hn. rewrite forallb_forall in H. apply H. eapply nth_error_In, Hn. Qed.

(* ---------- field lookup ---------- *)
Lemma field_by_number_nth cd num i f :
  field_by_number cd num = Some (i, f) -> nth_error (cfields cd) i = Some f /\ fnum f = num.
Proof.
  unfold field_by_number.
  assert (G : forall fs j acc i f,
    (fix go (i : nat) (fs : list fdesc) (acc : option (nat * fdesc)) : option (nat * fdesc) :=
       match fs with
       | [] => acc
       | f :: fs' => go (S i) fs' (if fnum f =? num then Some (i, f) else acc)
       end) j fs acc = Some (i, f) ->
    acc = Some (i, f) \/ ((j <= i)%nat /\ nth_error fs (i - j) = Some f /\ fnum f = num)).
  { induction fs as [|f0 fs IH]; intros j acc i' f' H; [left; exact H|].
    apply IH in H. destruct H as [H|(Hj & Hn & Hf)].
    - destruct (fnum f0 =? num) eqn:E; [|left; exact H].
      injection H as <- <-. right. split; [lia|]. rewrite Nat.sub_diag. cbn. split; [reflexivity|lia].
    - right. split; [lia|]. replace (i' - j)%nat with (S (i' - S j)) by lia. cbn. tauto. }
  intros H. apply G in H. destruct H as [H|(_ & H & Hf)]; [discriminate|].
  rewrite Nat.sub_0_r in H. tauto.
Qed.

(* ---------- what wf_schema says about one field ---------- *)
Lemma wf_fields_of sc c :
  wf_schema sc = true ->
  forallb (wf_field sc (cngroups (get_class sc c))) (cfields (get_class sc c)) = true.
Proof.
  intros H. unfold wf_schema in H. apply andb_true_iff in H as [_ H].
  unfold get_class. destruct (nth_error (classes sc) c) as [cd|] eqn:E.
  - rewrite (nth_error_nth _ _ _ E). eapply forallb_nth_error in H; [|exact E].
    unfold wf_class in H. apply andb_true_iff in H as [H _]. exact H.
  - rewrite nth_overflow by (apply nth_error_None, E). reflexivity.
Qed.

Lemma wf_field_of sc c i f :
  wf_schema sc = true -> nth_error (cfields (get_class sc c)) i = Some f ->
  wf_field sc (cngroups (get_class sc c)) f = true.
Proof. intros H Hn. eapply forallb_nth_error; [apply wf_fields_of, H | exact Hn]. Qed.

Lemma entries_agree_of sc c i f :
  entries_agree sc = true -> nth_error (cfields (get_class sc c)) i = Some f ->
  entry_hints_agree sc f = true.
Proof.
  intros H Hn. unfold entries_agree in H. unfold get_class in Hn.
  destruct (nth_error (classes sc) c) as [cd|] eqn:E.
  - rewrite (nth_error_nth _ _ _ E) in Hn. eapply forallb_nth_error in H; [|exact E].
    eapply forallb_nth_error; eassumption.
  - rewrite nth_overflow in Hn by (apply nth_error_None, E). destruct i; discriminate.
Qed.

Lemma pyty_eqb_eq a b : pyty_eqb a b = true -> a = b.
Proof. destruct a, b; cbn; try discriminate; try reflexivity; intros H; apply Nat.eqb_eq in H; congruence. Qed.

(* ---------- ranges ---------- *)
Lemma sign_recover_range bits v :
  0 < bits -> - 2 ^ (bits - 1) <= sign_recover bits v < 2 ^ (bits - 1).
Proof.
  intros Hb. unfold sign_recover. rewrite !Z.shiftl_1_l.
  replace (2 ^ bits - 1) with (Z.ones bits) by (rewrite Z.ones_equiv; lia).
  rewrite Z.land_ones by lia.
  assert (Hp : 0 < 2 ^ (bits - 1)) by (apply Z.pow_pos_nonneg; lia).
  assert (Eb : 2 ^ bits = 2 * 2 ^ (bits - 1)) by (rewrite <- Z.pow_succ_r by lia; f_equal; lia).
  pose proof (Z.mod_pos_bound v (2 ^ bits) ltac:(lia)) as Hm.
  rewrite lxor_signbit; [| lia | replace (bits - 1 + 1) with bits by lia; exact Hm].
  destruct (v mod 2 ^ bits <? 2 ^ (bits - 1)) eqn:E; lia.
Qed.

Lemma unzigzag_range v k : 0 <= k -> 0 <= v < 2 ^ (k + 1) -> - 2 ^ k <= unzigzag v < 2 ^ k.
Proof.
  intros Hk Hv. unfold unzigzag. rewrite shiftr_1, land_1.
  rewrite Z.pow_add_r in Hv by lia. change (2 ^ 1) with 2 in Hv.
  assert (Hm : v mod 2 = 0 \/ v mod 2 = 1) by lia. destruct Hm as [-> | ->].
  - cbn [Z.opp]. rewrite Z.lxor_0_r. lia.
  - change (- (1)) with (Z.lnot 0). rewrite lxor_m1. lia.
Qed.

Lemma VarintRep_range v bs : VarintRep v bs -> 0 <= v < 2 ^ 70.
Proof.
  intros (Sh & <- & Le). pose proof (varint_value_nonneg bs). pose proof (varint_value_upper bs) as Hu.
  split; [lia|]. eapply Z.lt_le_trans; [exact Hu|].
  change (2 ^ 70) with (128 ^ 10). apply Z.pow_le_mono_r; lia.
Qed.

Lemma unpack_int_range f bs z lo hi n :
  fmt_int_range f = Some (lo, hi, n) -> unpack_int f bs = Ok z -> lo <= z < hi.
Proof.
  intros Hf H. unfold unpack_int in H. rewrite Hf in H.
  destruct (Nat.eqb (length bs) n) eqn:El; [|discriminate]. apply Nat.eqb_eq in El.
  injection H as <-. pose proof (le_value_range bs) as Hr. rewrite El in Hr.
  destruct f; cbn in Hf; try discriminate; injection Hf as <- <- <-;
    change (256 ^ Z.of_nat 4) with (2 ^ 32) in Hr; change (256 ^ Z.of_nat 8) with (2 ^ 64) in Hr;
    destruct (le_value bs <? _) eqn:E; lia.
Qed.
