(* C02: the map-field step.  An entry is parsed by the synthetic Entry class; key and value are read
   back with getattr (defaults filled in) and merged into the dict by key.  On the specification
   side the entry is a two-field message merged into the association list by [map_put]. *)
From BP Require Import Base.Prelude Model.Types Model.Varint Model.Scalar Model.Float Model.Utf8.
From BP Require Import Model.Object Model.Eq Model.TimeCore Model.Decode Model.WellFormed.
From BP Require Import Spec.Varint Spec.Wire.
From BP Require Import Proofs.BytesP Proofs.C02Abs Proofs.C02WireP Proofs.C02LeafP Proofs.C02LoadP Proofs.C02ListP Proofs.C02StepP
     Proofs.C02SimP Proofs.C02ElemP Proofs.C02StoreP Proofs.C02InterpP Proofs.C02DecP Proofs.C02LoopP.
From BP Require Import gen.Tables.

(* ------------------------------------------------------------------ kinds of plain values *)
Definition akind (a : aval) : nat :=
  match a with AInt _ => 1 | ABool _ => 2 | AFloat _ => 3 | AStr _ => 4 | ABytes _ => 5 | _ => 0 end%nat.
Definition tkind (t : ptype) : nat :=
  match t with
  | TBool => 2 | TFloat | TDouble => 3 | TString => 4 | TBytes => 5
  | TMessage | TMap => 0
  | _ => 1
  end%nat.

Lemma scalar_of_kind t p a : scalar_of t p = Some a -> akind a = tkind t.
Proof.
  destruct p; cbn [scalar_of].
  - destruct t; cbn; try discriminate; intros [= <-]; reflexivity.
  - destruct t; cbn; try discriminate; intros [= <-]; reflexivity.
  - destruct t; try discriminate; [destruct (utf8_valid b); [|discriminate]|]; intros [= <-]; reflexivity.
  - destruct t; cbn; try discriminate; intros [= <-]; reflexivity.
  - discriminate.
Qed.

Lemma adefault_kind t : t <> TMessage -> t <> TMap -> akind (adefault t) = tkind t.
Proof. destruct t; try reflexivity; congruence. Qed.

Lemma plain_kind a : plain_aval a <-> akind a <> 0%nat.
Proof. destruct a; cbn; split; try tauto; try discriminate; intros; congruence. Qed.

Lemma omap_all_forall {A B} (f : A -> option B) (P : B -> Prop) l r :
  omap_all f l = Some r -> (forall x y, f x = Some y -> P y) -> Forall P r.
Proof.
  revert r; induction l as [|x l IH]; intros r H HP; cbn in H.
  - injection H as <-. constructor.
  - unfold obind in H. destruct (f x) eqn:E; [|discriminate]. destruct (omap_all f l) eqn:E'; [|discriminate].
    injection H as <-. constructor; [eapply HP; eauto | apply IH; auto].
Qed.

Lemma last_forall {A} (P : A -> Prop) l d : Forall P l -> P d -> P (last l d).
Proof.
  induction 1 as [|x l Hx Hl IH]; intros Hd; [exact Hd|]. cbn [last]. destruct l; [exact Hx | apply IH; exact Hd].
Qed.

(* an implicit-presence field denotes a plain value of the kind of its type *)
Lemma interp_implicit_kind nested sc f ps a :
  card_of f = Implicit -> fty f <> TMessage -> fty f <> TMap ->
  interp_field nested sc f ps = Some a -> akind a = tkind (fty f).
Proof.
  unfold interp_field. intros -> N1 N2 H. apply obind_some in H as (vs & Hvs & E). injection E as <-.
  apply (last_forall (fun a => akind a = tkind (fty f))).
  - eapply omap_all_forall; eauto. intros x y. apply scalar_of_kind.
  - now apply adefault_kind.
Qed.
