(* C02: the map-field step.  An entry is parsed by the synthetic Entry class; key and value are read
   back with getattr (defaults filled in) and merged into the dict by key.  On the specification
   side the entry is a two-field message merged into the association list by [map_put]. *)
From BP Require Import Base.Prelude Model.Types Model.Varint Model.Scalar Model.Float Model.Utf8.
From BP Require Import Model.Object Model.Eq Model.TimeCore Model.Decode Model.WellFormed.
From BP Require Import Spec.Varint Spec.Wire.
From BP Require Import Proofs.BytesP Proofs.C02Abs Proofs.C02WireP Proofs.C02LeafP Proofs.C02LoadP Proofs.C02ListP Proofs.C02StepP
     Proofs.C02SimP Proofs.C02ElemP Proofs.C02StoreP Proofs.C02InterpP Proofs.C02DecP Proofs.C02LoopP.
From BP Require Import gen.Tables.

(* ------------------------------------------------------------------ kinds of plain values *)
Definition akind (a : aval) : nat :=
  match a with AInt _ => 1 | ABool _ => 2 | AFloat _ => 3 | AStr _ => 4 | ABytes _ => 5 | _ => 0 end%nat.
Definition tkind (t : ptype) : nat :=
  match t with
  | TBool => 2 | TFloat | TDouble => 3 | TString => 4 | TBytes => 5
  | TMessage | TMap => 0
  | _ => 1
  end%nat.

Lemma scalar_of_kind t p a : scalar_of t p = Some a -> akind a = tkind t.
Proof.
  destruct p; cbn [scalar_of].
  - destruct t; cbn; try discriminate; intros [= <-]; reflexivity.
  - destruct t; cbn; try discriminate; intros [= <-]; reflexivity.
  - destruct t; try discriminate; [destruct (utf8_valid b); [|discriminate]|]; intros [= <-]; reflexivity.
  - destruct t; cbn; try discriminate; intros [= <-]; reflexivity.
  - discriminate.
Qed.

Lemma adefault_kind t : t <> TMessage -> t <> TMap -> akind (adefault t) = tkind t.
Proof. destruct t; try reflexivity; congruence. Qed.

Lemma plain_kind a : plain_aval a <-> akind a <> 0%nat.
Proof. destruct a; cbn; split; try tauto; try discriminate; intros; congruence. Qed.

Lemma omap_all_forall {A B} (f : A -> option B) (P : B -> Prop) l r :
  omap_all f l = Some r -> (forall x y, f x = Some y -> P y) -> Forall P r.
Proof.
  revert r; induction l as [|x l IH]; intros r H HP; cbn in H.
  - injection H as <-. constructor.
  - unfold obind in H. destruct (f x) eqn:E; [|discriminate]. destruct (omap_all f l) eqn:E'; [|discriminate].
    injection H as <-. constructor; [eapply HP; eauto | apply IH; auto].
Qed.

Lemma last_forall {A} (P : A -> Prop) l d : Forall P l -> P d -> P (last l d).
Proof.
  induction 1 as [|x l Hx Hl IH]; intros Hd; [exact Hd|]. cbn [last]. destruct l; [exact Hx | apply IH; exact Hd].
Qed.

(* an implicit-presence field denotes a plain value of the kind of its type *)
Lemma interp_implicit_kind nested sc f ps a :
  card_of f = Implicit -> fty f <> TMessage -> fty f <> TMap ->
  interp_field nested sc f ps = Some a -> akind a = tkind (fty f).
Proof.
  unfold interp_field. intros -> N1 N2 H. apply obind_some in H as (vs & Hvs & E). injection E as <-.
  apply (last_forall (fun a => akind a = tkind (fty f))).
  - eapply omap_all_forall; eauto. intros x y. apply scalar_of_kind.
  - now apply adefault_kind.
Qed.

(* ------------------------------------------------------------------ the denotation of an entry *)
Lemma gather_step_length sc fs acc r :
  length (fst acc) = length fs -> length (fst (gather_step sc fs acc r)) = length fs.
Proof.
  destruct acc as [st u]. destruct r as [num p]. unfold gather_step. cbn [fst]. intros L.
  destruct (find_field fs num) as [[i f]|]; [|exact L].
  destruct (accepts sc f p); [|exact L]. cbn [fst]. now apply add_payload_length.
Qed.

Lemma gather_length sc fs rs : forall acc,
  length (fst acc) = length fs -> length (fst (fold_left (gather_step sc fs) rs acc)) = length fs.
Proof.
  induction rs as [|r rs IH]; intros acc L; [exact L|]. cbn [fold_left]. apply IH. now apply gather_step_length.
Qed.

Lemma sem_entry n sc ce rs e fk fv :
  cfields (get_class sc ce) = [fk; fv] -> sem n sc ce rs = Some e ->
  exists n' ka va u ps0 ps1,
    n = S n' /\ e = AMsg [ka; va] u /\
    interp_field (nested_sem n' sc) sc fk ps0 = Some ka /\
    interp_field (nested_sem n' sc) sc fv ps1 = Some va.
Proof.
  intros Hfs H. destruct n as [|n']; [discriminate|]. cbn [sem] in H. fold (nested_sem n' sc) in H.
  rewrite Hfs in H.
  destruct (forallb _ rs); [|discriminate].
  pose proof (gather_length sc [fk; fv] rs (map (fun _ => []) [fk; fv], []) eq_refl) as L.
  unfold gather in H. destruct (fold_left _ rs _) as [st unk]. cbn [fst] in L.
  destruct st as [|ps0 [|ps1 [|? ?]]]; try discriminate L.
  cbn [combine omap_all] in H. unfold obind in H.
  destruct (interp_field (nested_sem n' sc) sc fk ps0) as [ka|] eqn:E0; [|discriminate].
  destruct (interp_field (nested_sem n' sc) sc fv ps1) as [va|] eqn:E1; [|discriminate].
  injection H as <-. exists n', ka, va, unk, ps0, ps1. tauto.
Qed.

(* what wf_schema says about the Entry class of a map field *)
Lemma entry_fields sc ng f :
  wf_field sc ng f = true -> card_of f = MapOf ->
  exists fk fv kt vt pk pv',
    cfields (get_class sc (fentry f)) = [fk; fv] /\ fmap f = Some (kt, vt) /\
    fty fk = kt /\ fty fv = vt /\ fgroup fk = None /\ fgroup fv = None /\ fwraps fv = None /\
    fhint fk = HPlain pk /\ fhint fv = HPlain pv' /\
    map_key_ok kt = true /\ vt <> TMap /\
    pyty_fits (length (classes sc)) (length (enums sc)) kt pk = true /\
    pyty_fits (length (classes sc)) (length (enums sc)) vt pv' = true.
Proof.
  intros W C. destruct (wf_mapof sc ng f W C) as (k & v & kt & vt & Hh & _ & _ & Hm & EC).
  unfold wf_field in W. rewrite Hh, Hm in W. bsplit.
  unfold entry_class_ok in EC. rewrite Hm, Hh in EC.
  destruct (cfields (get_class sc (fentry f))) as [|fk [|fv [|? ?]]]; try discriminate EC.
  destruct (fhint fk) as [pk| | |] eqn:Hk; bsplit; try discriminate.
  destruct (fhint fv) as [pv'| | |] eqn:Hv; bsplit; try discriminate.
  exists fk, fv, kt, vt, pk, pv'.
  repeat match goal with H : ptype_eqb _ _ = true |- _ => apply ptype_eqb_eq in H end.
  repeat match goal with H : is_some' _ = false |- _ => apply is_some'_false in H end.
  repeat split; try assumption; try reflexivity.
  intros ->. match goal with H : ptype_eqb TMap TMap = false |- _ => discriminate H end.
Qed.

Lemma map_key_kind kt : map_key_ok kt = true ->
  kt <> TMessage /\ kt <> TMap /\ (tkind kt = 1 \/ tkind kt = 2 \/ tkind kt = 4)%nat.
Proof. destruct kt; intros H; try discriminate H; repeat split; try discriminate; cbn; auto. Qed.

(* ------------------------------------------------------------------ keys *)
Lemma key_eq_agree sc k' k :
  scalarish k' -> scalarish k -> akind (abs_scalar k') = akind (abs_scalar k) ->
  (akind (abs_scalar k) = 1 \/ akind (abs_scalar k) = 2 \/ akind (abs_scalar k) = 4)%nat ->
  pv_eq sc k' k = key_eqb (abs_scalar k') (abs_scalar k).
Proof.
  destruct k', k; cbn; try tauto; try discriminate; try reflexivity; intros _ _ _ [H|[H|H]]; discriminate.
Qed.

Definition dict_go (sc : schema) (k v : pv) :=
  fix go (d : list (pv * pv)) : list (pv * pv) :=
    match d with
    | [] => [(k, v)]
    | (k', v') :: r => if pv_eq sc k' k then (k', v) :: r else (k', v') :: go r
    end.

Lemma dict_set_map_put sc f d k v :
  (forall kv, In kv d -> pv_eq sc (fst kv) k = key_eqb (abs_scalar (fst kv)) (abs_scalar k)) ->
  map (abs_kv sc f) (dict_set d sc k v) =
  map_put (abs_scalar k) (abs_elem sc (value_field sc f) v) key_eqb (map (abs_kv sc f) d).
Proof.
  change (dict_set d sc k v) with (dict_go sc k v d).
  induction d as [|[k' v'] d IH]; intros H; [reflexivity|].
  pose proof (H (k', v') (or_introl eq_refl)) as Hk. cbn [fst] in Hk.
  cbn [dict_go map map_put]. change (abs_kv sc f (k', v')) with (abs_scalar k', abs_elem sc (value_field sc f) v'). cbv iota beta.
  rewrite <- Hk. destruct (pv_eq sc k' k); [reflexivity|]. cbn [map].
  change (abs_kv sc f (k', v')) with (abs_scalar k', abs_elem sc (value_field sc f) v'). f_equal.
  apply IH. intros kv Hin. apply H. now right.
Qed.

Lemma map_put_forall (P : aval * aval -> Prop) k v eqb acc :
  Forall P acc -> (forall k' v', P (k', v') -> P (k', v)) -> P (k, v) -> Forall P (map_put k v eqb acc).
Proof.
  intros HF Hrepl Hnew. induction HF as [|[k' v'] acc Hx Hacc IH]; cbn [map_put]; [constructor; [exact Hnew | constructor]|].
  destruct (eqb k' k); constructor; auto. eapply Hrepl; eauto.
Qed.

Lemma interp_map_keys n' sc f ps acc ng :
  wf_field sc ng f = true -> card_of f = MapOf ->
  interp_field (nested_sem n' sc) sc f ps = Some (AMap acc) ->
  forall kt vt, fmap f = Some (kt, vt) -> Forall (fun kv => akind (fst kv) = tkind kt) acc.
Proof.
  intros W C H kt vt Hm.
  destruct (entry_fields sc ng f W C) as (fk & fv & kt' & vt' & pk & pv' & Hfs & Hm' & Fk & Fv & Gk & Gv & _ & Hk & Hv & MK & _).
  rewrite Hm in Hm'. injection Hm' as <- <-.
  destruct (map_key_kind kt MK) as (N1 & N2 & _).
  assert (Ck : card_of fk = Implicit).
  { unfold card_of. rewrite Hk, Gk, Fk. destruct kt; try reflexivity; congruence. }
  unfold interp_field in H. rewrite C in H. apply obind_some in H as (es & Hes & E). injection E as <-.
  assert (He : Forall (fun e => exists ka va u, e = AMsg [ka; va] u /\ akind ka = tkind kt) es).
  { eapply omap_all_forall; [exact Hes|]. intros p e Hn. unfold nested_sem in Hn.
    destruct (parse_wire (len_bytes p)) as [rs'|]; [|discriminate]. cbn [obind] in Hn.
    destruct (sem_entry _ _ _ _ _ _ _ Hfs Hn) as (n'' & ka & va & u & ps0 & ps1 & -> & -> & I0 & _).
    exists ka, va, u. split; [reflexivity|]. rewrite <- Fk.
    eapply interp_implicit_kind; eauto; rewrite Fk; assumption. }
  set (step := fun (acc0 : list (aval * aval)) (e : aval) => _).
  assert (G : forall acc0, Forall (fun kv => akind (fst kv) = tkind kt) acc0 ->
                           Forall (fun kv => akind (fst kv) = tkind kt) (fold_left step es acc0)).
  { clear Hes. induction He as [|e es (ka & va & u & -> & Kk) _ IH]; intros acc0 H0; [exact H0|].
    cbn [fold_left]. apply IH. unfold step. apply map_put_forall; [exact H0 | intros k' v' Hp; exact Hp | exact Kk]. }
  apply G. constructor.
Qed.

(* ------------------------------------------------------------------ a fresh object denotes the empty message *)
Lemma omap_interp_empty nested sc fs :
  omap_all (fun '(f, ps) => interp_field nested sc f ps) (combine fs (map (fun _ => []) fs)) = Some (map empty_field fs).
Proof.
  induction fs as [|f fs IH]; [reflexivity|].
  cbn [map combine omap_all]. unfold obind. rewrite interp_empty, IH. reflexivity.
Qed.

Lemma abs_new sc c : wf_schema sc = true -> abs_obj sc (new sc c) = empty_msg sc c.
Proof.
  intros WF. pose proof (Inv_new sc (fun _ _ => None) c WF) as I0. cbn zeta in I0.
  destruct (new sc c) as [c0 raw0 sow0 unk0 cur0] eqn:En. cbn [ocls oraw ounk ocur] in I0.
  assert (c0 = c) by (unfold new in En; congruence). subst c0.
  rewrite (abs_obj_sow sc c raw0 sow0 true unk0 cur0).
  destruct (Inv_final _ _ _ _ _ _ I0) as (F1 & F2). rewrite F2. unfold empty_msg. f_equal.
  cbn [ocur oraw] in F1.
  rewrite omap_interp_empty in F1. injection F1 as F1'. cbn [ocur oraw]. symmetry. exact F1'.
Qed.

Lemma is_zz_spec l : is_zz l = true -> l = [AInt 0; AInt 0].
Proof.
  destruct l as [|a [|b [|? ?]]]; try discriminate; destruct a; try discriminate; destruct b; try discriminate.
  cbn [is_zz]. intros H. apply andb_true_iff in H as [H1 H2]. apply Z.eqb_eq in H1, H2. now subst.
Qed.

Lemma builtins_std_spec sc : builtins_std sc = true ->
  empty_msg sc timestamp_cls = AMsg [AInt 0; AInt 0] [] /\ empty_msg sc duration_cls = AMsg [AInt 0; AInt 0] [].
Proof.
  unfold builtins_std, empty_msg. intros H. apply andb_true_iff in H as [H1 H2].
  now rewrite (is_zz_spec _ H1), (is_zz_spec _ H2).
Qed.

Section MapStep.
  Variable sc : schema.
  Hypothesis WF : wf_schema sc = true.
  Hypothesis BS : builtins_std sc = true.
  Variable n' : nat.

  (* the value of an entry, read back with getattr, against the specification's [strip] *)
  Lemma entry_value ce e fk fv pv' ka va u ps1 :
    good sc ce e -> cfields (get_class sc ce) = [fk; fv] ->
    fgroup fv = None -> fwraps fv = None -> fhint fv = HPlain pv' -> fty fv <> TMap ->
    pyty_fits (length (classes sc)) (length (enums sc)) (fty fv) pv' = true ->
    abs_obj sc e = AMsg [ka; va] u ->
    interp_field (nested_sem n' sc) sc fv ps1 = Some va ->
    exists v, snd (getattr sc e 1) = Ok v /\
              abs_elem sc fv v = strip (match msg_class fv with Some c' => empty_msg sc c' | None => ANone end) va.
  Proof.
    intros G Hfs Gv Wv Hv NotMap Fit Ha Hi.
    destruct (ptype_eqb (fty fv) TMessage) eqn:IsMsg.
    - (* message-valued map *)
      apply ptype_eqb_eq in IsMsg.
      destruct G as (Ec & Lr & Sh). destruct e as [c0 raw sow unk0 cur]. cbn [ocls oraw] in *. subst c0.
      rewrite abs_obj_eq, Hfs in Ha. rewrite Hfs in Lr.
      destruct raw as [|x0 [|x1 [|? ?]]]; try discriminate Lr. cbn [imap2] in Ha. injection Ha as _ Eva _.
      assert (Hf1 : nth_error (cfields (get_class sc ce)) 1 = Some fv) by (now rewrite Hfs).
      pose proof (Sh 1%nat fv x1 Hf1 eq_refl) as Sh1.
      assert (Cv : card_of fv = Explicit) by (unfold card_of; now rewrite Hv, Gv, IsMsg).
      unfold shape_ok in Sh1. rewrite Cv in Sh1. destruct Sh1 as (_ & Hsow & Hnone).
      assert (GS : group_selects cur fv 1 <> Some false) by (unfold group_selects; rewrite Gv; discriminate).
      rewrite (getattr_spec sc ce [x0; x1] sow unk0 cur 1 fv x1 Hf1 eq_refl GS).
      unfold abs_field in Eva. rewrite Cv in Eva. subst va.
      destruct (builtins_std_spec sc BS) as (Ets & Edur).
      assert (MC : exists c', msg_class fv = Some c' /\ abs_elem sc fv (default_of sc fv) = empty_msg sc c').
      { unfold default_of, abs_elem, msg_class. rewrite IsMsg, Hv, Wv. cbn [elem_hint].
        rewrite IsMsg in Fit. destruct pv'; cbn in Fit; try discriminate Fit.
        - eexists. split; [reflexivity|]. now apply abs_new.
        - exists timestamp_cls. split; [reflexivity|]. rewrite Ets. reflexivity.
        - exists duration_cls. split; [reflexivity|]. rewrite Edur. reflexivity. }
      destruct MC as (c' & MC & Dflt). rewrite MC.
      destruct x1; cbn [snd strip].
      + eexists. split; [reflexivity | exact Dflt].
      + specialize (Hnone eq_refl). rewrite Hv in Hnone. contradiction.
      + eexists. split; reflexivity.
      + eexists. split; reflexivity.
      + eexists. split; reflexivity.
      + eexists. split; reflexivity.
      + eexists. split; reflexivity.
      + eexists. split; reflexivity.
      + eexists. split; reflexivity.
      + eexists. split; reflexivity.
      + eexists. split; reflexivity.
      + rewrite Hv, (Hsow _ eq_refl). cbn [strip]. eexists. split; [reflexivity|].
        unfold abs_elem. now rewrite MC.
    - (* scalar-valued map *)
      assert (NotMsg : fty fv <> TMessage) by (intros E; rewrite E in IsMsg; discriminate).
      assert (Cv : card_of fv = Implicit).
      { unfold card_of. rewrite Hv, Gv. destruct (fty fv); try reflexivity; congruence. }
      assert (MC : msg_class fv = None) by (unfold msg_class; destruct (fty fv); try reflexivity; congruence).
      pose proof (interp_implicit_kind _ _ _ _ _ Cv NotMsg NotMap Hi) as Kv.
      assert (Pv : plain_aval va).
      { apply plain_kind. rewrite Kv. destruct (fty fv); cbn; try discriminate; congruence. }
      destruct (implicit_read sc ce e [ka; va] u 1 va WF G Ha eq_refl Pv) as (v & Hg & Av & Sv).
      exists v. split; [exact Hg|]. rewrite MC. unfold abs_elem. rewrite MC, Av.
      destruct va; try contradiction; reflexivity.
  Qed.
End MapStep.

Section MapStep2.
  Variable sc : schema.
  Hypothesis WF : wf_schema sc = true.
  Hypothesis BS : builtins_std sc = true.
  Variable n' : nat.
  Variable pn : nat -> list byte -> result obj.
  Variable nested_ok : nat -> list byte -> bool.
  Variable B : nat.
  Hypothesis PN : forall c' b m, (length b < B)%nat -> nested_sem n' sc c' b = Some m -> nested_ok c' b = true ->
                                 exists mo, pn c' b = Ok mo /\ abs_obj sc mo = m /\ good sc c' mo.
  Variable c : nat.

  Theorem map_step : map_step_stmt sc pn (nested_sem n' sc) nested_ok B c.
  Proof.
    intros o st urs i f a num b I Hf C R LB Clean V Nok.
    pose proof (wf_field_get sc c i f WF Hf) as W.
    destruct (entry_fields sc _ f W C) as (fk & fv & kt & vt & pk & pv' & Hfs & Hm & Fk & Fv & Gk & Gv & Wv & Hk & Hv & MK & NotMap & FitK & FitV).
    destruct (wf_mapof sc _ f W C) as (_ & _ & _ & _ & _ & _ & IsMap & _ & _). apply ptype_eqb_eq in IsMap.
    destruct (map_key_kind kt MK) as (N1 & N2 & Kinds).
    destruct (nested_sem n' sc (fentry f) b) as [ea|] eqn:Ne; [|discriminate V].
    pose proof (rec_ok_len_lt _ _ _ R) as Lb.
    destruct (PN (fentry f) b ea ltac:(lia) Ne Nok) as (e & Hpn & Ha & G).
    (* the value the record contributes: the parsed entry *)
    unfold field_value, parsed_of. cbn [snd pwt pbytes]. rewrite IsMap.
    unfold WIRE_LEN_DELIM, WIRE_VARINT, WIRE_FIXED_32, WIRE_FIXED_64.
    replace (tmem TMap PACKED_TYPES) with false by (vm_compute; reflexivity).
    cbn [Z.eqb Pos.eqb andb orb ptype_eqb ptype_tag]. rewrite Hpn. cbn [bind].
    (* the entry's denotation *)
    pose proof Ne as Ne'. unfold nested_sem in Ne'.
    destruct (parse_wire b) as [rs'|]; [|discriminate Ne']. cbn [obind] in Ne'.
    destruct (sem_entry _ _ _ _ _ _ _ Hfs Ne') as (n'' & ka & va & u & ps0 & ps1 & En & -> & I0 & I1).
    assert (Ck : card_of fk = Implicit).
    { unfold card_of. rewrite Hk, Gk, Fk. destruct kt; try reflexivity; congruence. }
    pose proof (interp_implicit_kind _ _ _ _ _ Ck ltac:(now rewrite Fk) ltac:(now rewrite Fk) I0) as Kk.
    rewrite Fk in Kk.
    assert (Pk : plain_aval ka) by (apply plain_kind; rewrite Kk; destruct Kinds as [->|[->| ->]]; discriminate).
    destruct (implicit_read sc (fentry f) e [ka; va] u 0 ka WF G Ha eq_refl Pk) as (k & Hgk & Ak & Sk).
    subst n'.
    destruct (entry_value sc WF BS n'' (fentry f) e fk fv pv' ka va u ps1 G Hfs Gv Wv Hv
                ltac:(now rewrite Fv) ltac:(now rewrite Fv) Ha I1) as (v & Hgv & Av).
    apply (Inv_store_map sc WF (nested_sem (S n'') sc) c o st urs i f (Len b) e k v I Hf C Hgk Hgv).
    intros ps d Hps Hint.
    rewrite (interp_map_snoc (nested_sem (S n'') sc) sc f ps (Len b) _ (AMsg [ka; va] u) C Hint Ne).
    f_equal. f_equal. cbn [entry_step]. unfold map_dflt. rewrite Hfs.
    rewrite (dict_set_map_put sc f d k v).
    - unfold value_field. rewrite Hfs. cbn [nth]. now rewrite Ak, Av.
    - intros kv Hin.
      pose proof (interp_map_keys (S n'') sc f ps _ _ W C Hint kt vt Hm) as Hkeys.
      rewrite Forall_forall in Hkeys. specialize (Hkeys (abs_kv sc f kv) (in_map _ _ _ Hin)). cbn [abs_kv fst] in Hkeys.
      apply key_eq_agree; [| exact Sk | congruence | rewrite Ak, Kk; exact Kinds].
      apply abs_scalar_plain. apply plain_kind. rewrite Hkeys. destruct Kinds as [->|[->| ->]]; discriminate.
  Qed.
End MapStep2.
