(* C01 over reachable objects, part 5: [SGood] (the pointwise form of [sow_ok]) is kept by reads at any depth,
   copy / deepcopy, the observers' write-back, m.from_dict, the constructor and Cls.from_dict. *)
From Coq Require Import ZArith List Bool Lia Arith.
From BP Require Import Base.Prelude Model.Types Model.Object Model.Eq Model.Encode Model.Decode Model.WellFormed.
From BP Require Import Model.History Model.C07Ops Model.C01Def Model.C01Reach Model.C14Ops.
From BP Require Import Proofs.C01Unfold Proofs.C01Main Proofs.C07InvP Proofs.C07ObsP Proofs.C07HistP Proofs.C07ValP.
From BP Require Import Proofs.C01ReachBase Proofs.C01ReachNew Proofs.C01ReachOps Proofs.C01ReachSow.
From BP Require Import Proofs.C01ReachObs Proofs.C01ReachShape.
From BP Require Proofs.C14Obs Proofs.C14Sim3.
Import ListNotations.

(* ---------- flags of the holder are not looked at ---------- *)
Lemma sgood_flags sc c raw sow sow' unk unk' cur :
  SGood sc (Obj c raw sow unk cur) -> SGood sc (Obj c raw sow' unk' cur).
Proof. intros H. exact H. Qed.

Lemma sgood_set_sow sc o : SGood sc o -> SGood sc (set_sow o).
Proof. destruct o as [c raw sow unk cur]. intros H. exact H. Qed.

(* a sub-message replaced by one with the same flag and the same default-ness *)
Lemma sow_slot_msg_swap sc cur i f a b :
  osow b = osow a -> is_default sc f (PMsg b) = is_default sc f (PMsg a) ->
  sow_slot sc cur i f (PMsg b) = sow_slot sc cur i f (PMsg a).
Proof. intros Hs Hd. unfold sow_slot. rewrite Hs, Hd. reflexivity. Qed.

(* ---------- m.<path>.<i> read ---------- *)
Lemma get_in_sow sc path : forall o i, osow (fst (get_in sc o path i)) = osow o.
Proof.
  destruct path as [|j path]; intros o i; cbn [get_in]; destruct o as [c raw sow unk cur].
  - destruct (getattr sc (Obj c raw sow unk cur) i) as [o1 r] eqn:Eg.
    destruct (getattr_shape sc c raw sow unk cur i _ _ Eg) as (raw' & ->). reflexivity.
  - destruct (getattr sc (Obj c raw sow unk cur) j) as [[c1 raw1 sow1 unk1 cur1] r] eqn:Eg.
    pose proof (getattr_shape sc c raw sow unk cur j _ _ Eg) as (raw' & Eo). injection Eo as -> -> -> -> ->.
    destruct r as [w|e]; [|reflexivity]. destruct w; try reflexivity.
    destruct (get_in sc o path i). reflexivity.
Qed.

Lemma sgood_get_in sc : wf_schema sc = true -> forall path o i,
  VGood sc o -> SGood sc o -> SGood sc (fst (get_in sc o path i)).
Proof.
  intros Hwf. destruct path as [|j path]; intros o i HV H; cbn [get_in]; destruct o as [c raw sow unk cur].
  - apply sgood_getattr; auto.
  - pose proof (sgood_getattr sc c raw sow unk cur j Hwf HV H) as HS1.
    destruct (vgood_getattr sc c raw sow unk cur j Hwf HV) as (_ & Hv).
    destruct (getattr sc (Obj c raw sow unk cur) j) as [o1 r] eqn:Eg. cbn [fst snd] in Hv, HS1.
    destruct r as [w|e]; [|destruct o1; exact HS1].
    destruct (Hv w eq_refl) as (f & raw' & Hf & Hw & Hs & -> & HG).
    destruct w as [| | | | | | | | | | |child]; try exact HS1.
    assert (Hat : nth_error raw' j = Some (PMsg child)).
    { eapply getattr_value_at; [|exact Eg]. destruct HV as (Hl & _). exact Hl. }
    pose proof (HS1 j f (PMsg child) Hf Hat) as Hc. cbn [ocur] in Hc.
    pose proof (get_in_sow sc path child i) as Hsow.
    pose proof (is_default_get_in sc f path child i Hwf) as Hd.
    destruct (get_in sc child path i) as [child' r']. cbn [fst] in *.
    eapply sgood_set_slot; [exact HS1 | exact Hf |].
    rewrite (sow_slot_msg_swap sc cur j f child child' Hsow Hd). exact Hc.
Qed.

(* ---------- copy / deepcopy ---------- *)
Lemma sow_slot_fresh sc cur i f :
  sow_slot sc cur i f PPlaceholder = true -> sow_slot sc cur i f (fresh_slot f) = true.
Proof.
  intros H. unfold fresh_slot. destruct (fopt f); [|exact H]. unfold sow_slot. destruct (fhint f); reflexivity.
Qed.

Lemma sgood_overlay sc c raw raw2 sow unk cur :
  SGood sc (Obj c raw sow unk cur) ->
  length raw = length (cfields (get_class sc c)) -> length raw2 = length raw ->
  (forall i f x x2, nth_error (cfields (get_class sc c)) i = Some f ->
     nth_error raw i = Some x -> nth_error raw2 i = Some x2 ->
     sow_slot sc cur i f x = true -> sow_slot sc cur i f x2 = true) ->
  SGood sc (Obj c (overlay sc c raw2) sow unk cur).
Proof.
  intros H Hlen Hl Hpt. unfold SGood, cfs in *. cbn [oraw ocur ocls] in *. intros i f x' Hf Hx'.
  assert (Hi : (i < length (cfields (get_class sc c)))%nat) by (eapply nth_error_lt; eauto).
  destruct (nth_error raw i) as [x|] eqn:Hx; [|exfalso; apply nth_error_None in Hx; lia].
  destruct (nth_error raw2 i) as [x2|] eqn:Hx2; [|exfalso; apply nth_error_None in Hx2; lia].
  assert (Hfr : nth_error (oraw (new sc c)) i = Some (fresh_slot f)).
  { unfold new. cbn [oraw]. rewrite nth_error_map, Hf. reflexivity. }
  rewrite overlay_unfold, (ov_go_nth_error _ _ _ _ _ Hx2 Hfr) in Hx'. injection Hx' as <-.
  pose proof (Hpt i f x x2 Hf Hx Hx2 (H i f x Hf Hx)) as B.
  destruct x2; try exact B. apply sow_slot_fresh. exact B.
Qed.

Lemma sgood_copy sc o : wf_schema sc = true -> VGood sc o -> SGood sc o -> SGood sc (copy sc o).
Proof.
  intros Hwf HV H. destruct o as [c raw sow unk cur]. unfold copy.
  eapply sgood_overlay; [exact H | destruct HV as (Hl & _); exact Hl | reflexivity |].
  intros i f x x2 Hf Hx Hx2 Hs. rewrite Hx in Hx2. injection Hx2 as <-. exact Hs.
Qed.

Lemma deepcopy_sow sc o : osow (deepcopy sc o) = osow o.
Proof. destruct o as [c raw sow unk cur]. reflexivity. Qed.

Lemma sow_slot_deepcopy sc cur i f x :
  wf_schema sc = true -> slot_ok sc f x = true ->
  sow_slot sc cur i f (deepcopy_pv sc x) = sow_slot sc cur i f x.
Proof.
  intros Hwf Hok. destruct x as [| |z|b|bits|s|b|us|us|l|d|o]; try reflexivity.
  rewrite deepcopy_pv_obj. apply sow_slot_msg_swap; [apply deepcopy_sow|].
  apply is_default_deepcopy; [exact Hwf|]. eapply slot_ok_msg. exact Hok.
Qed.

Lemma sgood_deepcopy sc o : wf_schema sc = true -> VGood sc o -> SGood sc o -> SGood sc (deepcopy sc o).
Proof.
  intros Hwf HV H. destruct o as [c raw sow unk cur]. rewrite deepcopy_unfold.
  destruct HV as (Hl & _ & _ & _ & _ & Hsl). unfold cfs in *. cbn [oraw ocls] in *.
  eapply sgood_overlay; [exact H | exact Hl | apply map_length |].
  intros i f x x2 Hf Hx Hx2 Hs. rewrite nth_error_map, Hx in Hx2. cbn [option_map] in Hx2. injection Hx2 as <-.
  rewrite (sow_slot_deepcopy sc cur i f x Hwf (Hsl i f x Hf Hx)). exact Hs.
Qed.

(* ---------- bytes() / len() / dump() ---------- *)
Lemma touch_sow sc o : osow (touch sc o) = osow o.
Proof. destruct o as [c raw sow unk cur]. reflexivity. Qed.

Lemma sow_slot_touch_val sc cur i f x :
  wf_schema sc = true -> sow_slot sc cur i f x = true -> sow_slot sc cur i f (C14Sim3.touch_val sc x) = true.
Proof.
  intros Hwf H. destruct x as [| |z|b|bits|s|b|us|us|l|d|o]; try exact H.
  cbn [C14Sim3.touch_val]. rewrite touch_pv_obj.
  rewrite (sow_slot_msg_swap sc cur i f o (touch sc o) (touch_sow sc o) (is_default_touch sc f o Hwf)). exact H.
Qed.

Lemma sow_slot_tslot sc c cur i f sel x :
  wf_schema sc = true -> nth_error (cfields (get_class sc c)) i = Some f ->
  sow_slot sc cur i f x = true -> sow_slot sc cur i f (C14Sim3.tslot sc f sel x) = true.
Proof.
  intros Hwf Hf H.
  pose proof (sow_slot_touch_val sc cur i f x Hwf H) as Hv.
  assert (Hd : x = PPlaceholder -> sow_slot sc cur i f (default_of sc f) = true).
  { intros ->. eapply default_sow_slot; eauto. }
  unfold C14Sim3.tslot. destruct sel as [[|]|]; try exact H.
  all: destruct x; try (apply Hd; reflexivity).
  all: match goal with |- context [if ?b then _ else _] => destruct b end; assumption.
Qed.

Lemma sgood_touch sc o : wf_schema sc = true -> VGood sc o -> SGood sc o -> SGood sc (touch sc o).
Proof.
  intros Hwf _ H. destruct o as [c raw sow unk cur]. rewrite touch_unfold.
  unfold SGood, cfs in *. cbn [oraw ocur ocls] in *. intros i f x' Hf Hx'.
  destruct (nth_error raw i) as [x|] eqn:Hx.
  2:{ exfalso. apply nth_error_None in Hx. apply nth_error_lt in Hx'. rewrite touch_go_length in Hx'. lia. }
  rewrite (touch_go_nth sc cur raw _ 0 i x f Hx Hf) in Hx'. injection Hx' as <-.
  eapply sow_slot_tslot; eauto.
Qed.

(* ---------- m.from_dict(d) ---------- *)
Lemma sgood_setattrs sc : wf_schema sc = true -> forall kw o,
  VGood sc o -> SGood sc o -> kw_vals_ok sc (ocls o) kw = true -> kw_flags_ok sc (ocls o) kw = true ->
  SGood sc (setattrs sc o kw).
Proof.
  intros Hwf. induction kw as [|[i v] kw IH]; intros o HV H Hk Hfl; cbn [setattrs fold_left]; [exact H|].
  fold (setattrs sc (setattr sc o i v) kw).
  cbn [kw_vals_ok forallb fst snd] in Hk. apply andb_true_iff in Hk as [Hk1 Hk2].
  cbn [kw_flags_ok forallb fst snd] in Hfl. apply andb_true_iff in Hfl as [Hf1 Hf2].
  apply IH.
  - apply vgood_setattr; auto. intros f Hf. unfold field_of in Hk1. unfold cfs in Hf. rewrite Hf in Hk1.
    unfold val_ok in Hk1. apply andb_true_iff in Hk1 as [_ Hk1]. exact Hk1.
  - apply sgood_setattr; auto. intros f Hf. unfold field_of in Hk1, Hf1. unfold cfs in Hf. rewrite Hf in Hk1, Hf1.
    split; [exact Hf1|]. eapply val_ok_np. exact Hk1.
  - rewrite setattr_cls. exact Hk2.
  - rewrite setattr_cls. exact Hf2.
Qed.

Lemma sgood_from_dict_inst sc o kw :
  wf_schema sc = true -> VGood sc o -> SGood sc o ->
  kw_vals_ok sc (ocls o) kw = true -> kw_flags_ok sc (ocls o) kw = true -> SGood sc (from_dict_inst sc o kw).
Proof.
  intros Hwf HV H Hk Hfl. unfold from_dict_inst. apply sgood_setattrs; auto.
  - apply vgood_set_sow. exact HV.
  - apply sgood_set_sow. exact H.
  - destruct o. exact Hk.
  - destruct o. exact Hfl.
Qed.

(* ---------- the constructor ---------- *)
Lemma kw_flags_in sc c kw i v f :
  kw_flags_ok sc c kw = true -> In (i, v) kw -> nth_error (cfields (get_class sc c)) i = Some f -> flag_ok sc f v = true.
Proof.
  unfold kw_flags_ok. intros H Hin Hf. rewrite forallb_forall in H. specialize (H (i, v) Hin). cbn [fst snd] in H.
  unfold field_of in H. rewrite Hf in H. exact H.
Qed.

Lemma sgood_construct sc c kw :
  wf_schema sc = true -> kw_vals_ok sc c kw = true -> kw_groups_ok sc c kw = true ->
  kw_flags_ok sc c kw = true -> SGood sc (construct sc c kw).
Proof.
  intros Hwf Hkv _ Hkf. unfold construct.
  set (raw := fold_left (fun r '(i, v) => set_nth i (if fieldless sc v then mark_sow v else v) r) kw (oraw (new sc c))).
  assert (Hraw : forall k f, nth_error (cfields (get_class sc c)) k = Some f ->
                   nth k raw PPlaceholder = fresh_slot f \/
                   exists v, In (k, v) kw /\ nth k raw PPlaceholder = stored sc v).
  { intros k f Hf. destruct (construct_raw_values sc kw (oraw (new sc c)) k) as [E | (v & Hin & E)]; cbn zeta in E.
    - left. fold raw in E. rewrite E. unfold new. cbn [oraw]. apply (nth_map_error _ _ _ _ _ Hf).
    - right. exists v. split; [exact Hin|]. exact E. }
  unfold SGood, cfs. destruct (post_init_shape sc c raw) as (Ec & Er & _).
  rewrite Ec, Er, post_init_cur. intros k f x Hf Hx.
  apply (nth_error_nth_d _ _ _ PPlaceholder) in Hx. rewrite <- Hx.
  destruct (Hraw k f Hf) as [E | (v & Hin & E)]; rewrite E.
  - unfold fresh_slot. destruct (fopt f) eqn:Ho; [unfold sow_slot; destruct (fhint f); reflexivity|].
    unfold sow_slot. destruct (fhint f) as [[| | | | | | | |]| | |]; try reflexivity.
    apply negb_true_iff. unfold sel_true, group_selects. destruct (fgroup f) as [g|] eqn:Hg; [|reflexivity].
    match goal with |- context [opt_nat_eqb ?a ?b] => destruct (opt_nat_eqb a b) eqn:Es end; [|reflexivity].
    exfalso. apply opt_nat_eqb_eq in Es. apply pi_go_some_nonsentinel in Es.
    destruct Es as [En | (k2 & f2 & Hk2 & Ek & Hg2 & Hl2 & Hns2)]; [rewrite nth_repeat_none in En; discriminate|].
    cbn [Nat.add] in Ek. subst k2. rewrite Hf in Hk2. injection Hk2 as <-.
    rewrite E in Hns2. unfold fresh_slot in Hns2. rewrite Ho in Hns2. discriminate Hns2.
  - apply flag_ok_slot.
    + eapply kw_flags_in; eauto.
    + eapply val_ok_np. eapply kw_vals_in; eauto.
Qed.

Lemma sgood_from_dict_cls sc c kw :
  wf_schema sc = true -> kw_vals_ok sc c kw = true -> kw_groups_ok sc c kw = true ->
  kw_flags_ok sc c kw = true -> SGood sc (from_dict_cls sc c kw).
Proof. intros. unfold from_dict_cls. apply sgood_set_sow. apply sgood_construct; auto. Qed.
