(* C07: the invariant over histories (every op of History.step and of C07Ops.step7, every finite
   op list), last-wins for assignments, and which operations leave the selections alone. *)
From Coq Require Import ZArith List Bool Lia Arith.
From BP Require Import Base.Prelude Model.Types Model.Varint Model.Object Model.Eq Model.Encode Model.Decode.
From BP Require Import Model.History Model.C07Ops Model.C07Step Model.WellFormed.
From BP Require Import Proofs.C07InvP Proofs.C07LoadP.
Import ListNotations.

(* ---- one operation ---- *)
Lemma InvS_step sc o p o' x : InvS sc o -> step sc o p = Ok (o', x) -> InvS sc o'.
Proof.
  intros H E. destruct p; cbn [step] in E.
  - destruct (set_in sc o path i v) as [o1|] eqn:Es; cbn [bind] in E; [|discriminate].
    injection E as <- _. eapply InvS_set_in; eauto.
  - pose proof (InvS_get_in sc path o i H) as G. destruct (get_in sc o path i) as [o1 r].
    injection E as <- _. exact G.
  - destruct (parse_into sc o bs) as [o1|] eqn:Ep; cbn [bind] in E; [|discriminate].
    injection E as <- _. eapply InvS_parse_into; eauto.
  - injection E as <- _. apply InvS_copy, H.
  - injection E as <- _. apply InvS_deepcopy, H.
  - destruct (pickle_rt sc o) as [o1|] eqn:Ep; cbn [bind] in E; [|discriminate].
    injection E as <- _. eapply InvS_pickle; eauto.
  - destruct (enc_obj sc o); cbn [bind] in E; [|discriminate]. injection E as <- _. apply InvS_touch, H.
  - destruct (enc_obj sc o); cbn [bind] in E; [|discriminate]. injection E as <- _. apply InvS_touch, H.
  - destruct (enc_obj sc o); cbn [bind] in E; [|discriminate]. injection E as <- _. apply InvS_touch, H.
  - injection E as <- _. exact H.
  - injection E as <- _. exact H.
Qed.

Lemma InvS_step7 sc o p o' x : InvS sc o -> step7 sc o p = Ok (o', x) -> InvS sc o'.
Proof.
  intros H E. destruct p; cbn [step7] in E.
  - eapply InvS_step; eauto.
  - injection E as <- _. apply InvS_construct.
  - injection E as <- _. apply InvS_from_dict_cls.
  - injection E as <- _. apply InvS_from_dict_inst, H.
Qed.

(* ---- every finite history ---- *)
Lemma InvS_run sc ops : forall o o', InvS sc o -> run sc o ops = Ok o' -> InvS sc o'.
Proof.
  induction ops as [|p ops IH]; intros o o' H E; cbn [run] in E.
  - injection E as <-. exact H.
  - destruct (step sc o p) as [[o1 x]|] eqn:Es; cbn [bind] in E; [|discriminate].
    eapply IH; [|exact E]. eapply InvS_step; eauto.
Qed.

Lemma InvS_run7 sc ops : forall o o', InvS sc o -> run7 sc o ops = Ok o' -> InvS sc o'.
Proof.
  induction ops as [|p ops IH]; intros o o' H E; cbn [run7] in E.
  - injection E as <-. exact H.
  - destruct (step7 sc o p) as [[o1 x]|] eqn:Es; cbn [bind] in E; [|discriminate].
    eapply IH; [|exact E]. eapply InvS_step7; eauto.
Qed.

(* ---- the statements in terms of the observable invariant ---- *)
Theorem inv_new sc c : Inv sc (new sc c).
Proof. apply Inv_of_InvS, InvS_new. Qed.

Theorem inv_construct sc c kw : Inv sc (construct sc c kw).
Proof. apply Inv_of_InvS, InvS_construct. Qed.

Theorem inv_from_dict_cls sc c kw : Inv sc (from_dict_cls sc c kw).
Proof. apply Inv_of_InvS, InvS_from_dict_cls. Qed.

Theorem inv_parse sc c bs o : parse sc c bs = Ok o -> Inv sc o.
Proof. intros E. apply Inv_of_InvS. eapply InvS_parse; eauto. Qed.

Theorem inv_step sc o p o' x : Inv sc o -> step sc o p = Ok (o', x) -> Inv sc o'.
Proof. intros H E. apply Inv_of_InvS. eapply InvS_step; eauto using InvS_of_Inv. Qed.

Theorem inv_step7 sc o p o' x : Inv sc o -> step7 sc o p = Ok (o', x) -> Inv sc o'.
Proof. intros H E. apply Inv_of_InvS. eapply InvS_step7; eauto using InvS_of_Inv. Qed.

Theorem inv_run sc ops o o' : Inv sc o -> run sc o ops = Ok o' -> Inv sc o'.
Proof. intros H E. apply Inv_of_InvS. eapply InvS_run; eauto using InvS_of_Inv. Qed.

Theorem inv_run7 sc ops o o' : Inv sc o -> run7 sc o ops = Ok o' -> Inv sc o'.
Proof. intros H E. apply Inv_of_InvS. eapply InvS_run7; eauto using InvS_of_Inv. Qed.

Theorem inv_reachable sc c ops o : run7 sc (new sc c) ops = Ok o -> Inv sc o.
Proof. apply inv_run7, inv_new. Qed.

Theorem inv_reachable_base sc c ops o : run sc (new sc c) ops = Ok o -> Inv sc o.
Proof. apply inv_run, inv_new. Qed.

(* every prefix of a history: the invariant holds after EVERY operation, not only at the end *)
Theorem inv_every_prefix sc c ops o :
  run7 sc (new sc c) ops = Ok o ->
  forall k, exists ok, run7 sc (new sc c) (firstn k ops) = Ok ok /\ Inv sc ok.
Proof.
  intros E k.
  assert (G : forall ops o0 o, run7 sc o0 ops = Ok o -> forall k, exists ok, run7 sc o0 (firstn k ops) = Ok ok).
  { clear. induction ops as [|p ops IH]; intros o0 o E k.
    - rewrite firstn_nil. eauto.
    - destruct k as [|k]; [cbn; eauto|]. cbn [firstn run7] in *.
      destruct (step7 sc o0 p) as [[o1 x]|]; cbn [bind] in *; [|discriminate]. eapply IH; eauto. }
  destruct (G _ _ _ E k) as (ok & Ek). exists ok. split; [exact Ek|]. eapply inv_reachable; eauto.
Qed.

(* ---- the class never changes ---- *)
Lemma getattr_cls sc o i : ocls (fst (getattr sc o i)) = ocls o.
Proof.
  destruct o as [c raw sow unk cur].
  destruct (getattr_cases sc c raw sow unk cur i) as [(e & ->) | (f & v & raw' & -> & _)]; reflexivity.
Qed.

(* ---- well-formed schemas: group indices are in range ---- *)
Lemma wf_group_bound sc c i f g :
  wf_schema sc = true -> nth_error (cfields (get_class sc c)) i = Some f -> fgroup f = Some g ->
  (g < cngroups (get_class sc c))%nat.
Proof.
  intros Hwf Hf Hg. unfold wf_schema in Hwf. apply andb_prop in Hwf. destruct Hwf as [_ Hall].
  unfold get_class in *.
  destruct (nth_error (classes sc) c) as [cd|] eqn:Ec.
  - rewrite (nth_error_nth _ _ _ Ec) in *.
    rewrite forallb_forall in Hall. specialize (Hall cd (nth_error_In _ _ Ec)).
    unfold wf_class in Hall. apply andb_prop in Hall. destruct Hall as [Hf' _].
    rewrite forallb_forall in Hf'. specialize (Hf' f (nth_error_In _ _ Hf)).
    unfold wf_field in Hf'. rewrite Hg in Hf'.
    repeat (apply andb_prop in Hf'; destruct Hf' as [Hf' ?]).
    match goal with H : Nat.ltb _ _ = true |- _ => apply Nat.ltb_lt in H; exact H end.
  - rewrite nth_overflow in Hf by (apply nth_error_None; exact Ec). destruct i; discriminate.
Qed.

(* ---- "assigning a member always makes it the selected one, even when assigning its default" ---- *)
Theorem last_wins sc o i v f g :
  Inv sc o ->
  nth_error (cfs sc o) i = Some f -> fgroup f = Some g -> (g < cngroups (get_class sc (ocls o)))%nat ->
  let o' := setattr sc o i v in
  which_one_of o' g = Some i /\
  (exists x, read sc o' i = Ok x) /\
  (forall j, j <> i -> member sc (ocls o) g j ->
     read sc o' j = Err EAttribute /\ nth j (oraw o') PPlaceholder = PPlaceholder) /\
  (forall g', g' <> g -> which_one_of o' g' = which_one_of o g') /\
  Inv sc o'.
Proof.
  intros H Hf Hg Hl o'. apply InvS_of_Inv in H. pose proof H as (Hr & Hc & _).
  assert (Hsel : which_one_of o' g = Some i).
  { eapply setattr_selects; eauto. rewrite Hc. exact Hl. }
  pose proof (InvS_setattr sc o i v H) as H'. fold o' in H'.
  pose proof (Inv_of_InvS _ _ H') as HI.
  destruct (setattr_shape sc o i v) as (Hcls & _). fold o' in Hcls.
  destruct HI as (_ & _ & HI). specialize (HI g). rewrite Hcls in HI. specialize (HI Hl). rewrite Hsel in HI.
  destruct HI as (_ & Hrd & Hoth).
  split; [exact Hsel|]. split; [exact Hrd|]. split; [|split].
  - intros j Hj Hm. split; [apply Hoth; auto|].
    destruct Hm as (f' & Hf' & Hg'). eapply setattr_resets; eauto.
  - intros g' Hne. apply setattr_other_group. intros f0 Hf0. unfold cfs in *. congruence.
  - apply Inv_of_InvS. exact H'.
Qed.

(* ... for a well-formed schema the bound on g is automatic *)
Theorem last_wins_wf sc o i v f g :
  wf_schema sc = true -> Inv sc o ->
  nth_error (cfs sc o) i = Some f -> fgroup f = Some g ->
  which_one_of (setattr sc o i v) g = Some i.
Proof.
  intros Hwf H Hf Hg. eapply last_wins; eauto. eapply wf_group_bound; eauto.
Qed.

(* the same through History.step: m.f = v as an operation of a history *)
Theorem last_wins_step sc o i v f g o' x :
  wf_schema sc = true -> Inv sc o ->
  nth_error (cfs sc o) i = Some f -> fgroup f = Some g ->
  step sc o (OSet [] i v) = Ok (o', x) ->
  which_one_of o' g = Some i.
Proof.
  intros Hwf H Hf Hg E. cbn in E. injection E as <- _. eapply last_wins_wf; eauto.
Qed.

(* ---- operations that leave every selection alone ---- *)
Lemma getattr_cur sc o i : ocur (fst (getattr sc o i)) = ocur o.
Proof.
  destruct o as [c raw sow unk cur].
  destruct (getattr_cases sc c raw sow unk cur i) as [(e & ->) | (f & v & raw' & -> & _)]; reflexivity.
Qed.

(* assignment below the top level: the holder's own selections are untouched *)
Lemma set_in_nested_cur sc j path : forall o i v o',
  set_in sc o (j :: path) i v = Ok o' -> ocur o' = ocur o.
Proof.
  intros o i v o' E. cbn [set_in] in E. destruct o as [c raw sow unk cur].
  destruct (getattr_cases sc c raw sow unk cur j) as [(e & Eg) | (f & w & raw' & Eg & _)]; rewrite Eg in E; [discriminate|].
  destruct w; try discriminate.
  destruct (set_in sc o path i v); cbn [bind] in E; [|discriminate]. injection E as <-. reflexivity.
Qed.

Lemma get_in_cur sc path : forall o i, ocur (fst (get_in sc o path i)) = ocur o.
Proof.
  destruct path as [|j path]; intros o i; cbn [get_in]; [apply getattr_cur|].
  destruct o as [c raw sow unk cur].
  destruct (getattr_cases sc c raw sow unk cur j) as [(e & Eg) | (f & w & raw' & Eg & _)]; rewrite Eg; [reflexivity|].
  destruct w; try reflexivity. destruct (get_in sc o path i). reflexivity.
Qed.

(* observers, copies, reads, nested assignments and assignments to fields outside the group keep which_one_of *)
Theorem selection_kept sc o p o' x g :
  step sc o p = Ok (o', x) ->
  match p with
  | OSet [] i _ => forall f, nth_error (cfs sc o) i = Some f -> fgroup f <> Some g
  | OParse _ | OPickle => False
  | _ => True
  end ->
  which_one_of o' g = which_one_of o g.
Proof.
  intros E Hp. unfold which_one_of. destruct p; cbn [step] in E.
  - destruct path as [|j path].
    + cbn [set_in bind] in E. injection E as <- _. apply setattr_other_group. exact Hp.
    + destruct (set_in sc o (j :: path) i v) as [o1|] eqn:Es; cbn [bind] in E; [|discriminate].
      injection E as <- _. rewrite (set_in_nested_cur _ _ _ _ _ _ _ Es). reflexivity.
  - pose proof (get_in_cur sc path o i) as G. destruct (get_in sc o path i). injection E as <- _.
    cbn [fst] in G. rewrite G. reflexivity.
  - contradiction.
  - injection E as <- _. destruct o. reflexivity.
  - injection E as <- _. destruct o. reflexivity.
  - contradiction.
  - destruct (enc_obj sc o); cbn [bind] in E; [|discriminate]. injection E as <- _. destruct o. reflexivity.
  - destruct (enc_obj sc o); cbn [bind] in E; [|discriminate]. injection E as <- _. destruct o. reflexivity.
  - destruct (enc_obj sc o); cbn [bind] in E; [|discriminate]. injection E as <- _. destruct o. reflexivity.
  - injection E as <- _. reflexivity.
  - injection E as <- _. reflexivity.
Qed.

(* ---- the constructor: the selected member of a group is the LAST member in declaration order that was
        given a (non-sentinel) value; the group is unselected iff no member was given one ---- *)
Lemma pi_go_last fs : forall j raw cur g k f,
  (g < length cur)%nat ->
  nth_error fs k = Some f -> (k < length raw)%nat -> fgroup f = Some g ->
  is_sentinel f (nth k raw PPlaceholder) = false ->
  (forall k' f', (k < k')%nat -> nth_error fs k' = Some f' -> (k' < length raw)%nat -> fgroup f' = Some g ->
                 is_sentinel f' (nth k' raw PPlaceholder) = true) ->
  nth g (pi_go j fs raw cur) None = Some (j + k)%nat.
Proof.
  induction fs as [|f0 fs IH]; intros j raw cur g k f Hg Hk Hl Hfg Hns Hlater; [destruct k; discriminate|].
  destruct raw as [|v raw]; [cbn [length] in Hl; lia|]. cbn [pi_go].
  destruct k as [|k]; cbn [nth_error nth length] in *.
  - injection Hk as ->. rewrite Hfg, Hns.
    (* nothing later in the group overrides it *)
    assert (G : forall fs j' raw cur,
       nth g cur None = Some j ->
       (forall k' f', nth_error fs k' = Some f' -> (k' < length raw)%nat -> fgroup f' = Some g ->
                      is_sentinel f' (nth k' raw PPlaceholder) = true) ->
       nth g (pi_go j' fs raw cur) None = Some j).
    { clear. induction fs as [|f1 fs IH]; intros j' raw cur Hc Hs; [exact Hc|].
      destruct raw as [|v raw]; [exact Hc|]. cbn [pi_go]. apply IH.
      - destruct (fgroup f1) as [g1|] eqn:Eg; [|exact Hc].
        destruct (is_sentinel f1 v) eqn:Es; [exact Hc|].
        destruct (Nat.eq_dec g g1) as [<-|Hne].
        + specialize (Hs 0%nat f1 eq_refl ltac:(cbn [length]; lia) Eg). cbn [nth] in Hs. congruence.
        + rewrite nth_set_nth_neq by exact Hne. exact Hc.
      - intros k' f' Hk' Hl' Hg'. apply (Hs (S k') f'); auto. cbn [length]. lia. }
    rewrite Nat.add_0_r. apply G.
    + apply nth_set_nth_eq. exact Hg.
    + intros k' f' Hk' Hl' Hg'. apply (Hlater (S k') f'); auto; lia.
  - replace (j + S k)%nat with (S j + k)%nat by lia.
    eapply IH; eauto; try lia.
    + destruct (fgroup f0); [|exact Hg]. destruct (is_sentinel f0 v); [exact Hg|]. rewrite length_set_nth. exact Hg.
    + intros k' f' Hlt Hk' Hl' Hg'. apply (Hlater (S k') f'); auto; lia.
Qed.

Theorem post_init_selects_last sc c raw g k f :
  length raw = length (cfields (get_class sc c)) -> (g < cngroups (get_class sc c))%nat ->
  nth_error (cfields (get_class sc c)) k = Some f -> fgroup f = Some g ->
  is_sentinel f (nth k raw PPlaceholder) = false ->
  (forall k' f', (k < k')%nat -> nth_error (cfields (get_class sc c)) k' = Some f' -> fgroup f' = Some g ->
                 is_sentinel f' (nth k' raw PPlaceholder) = true) ->
  which_one_of (post_init sc c raw) g = Some k.
Proof.
  intros Hl Hg Hk Hfg Hns Hlater. unfold which_one_of. rewrite post_init_cur.
  apply (pi_go_last (cfields (get_class sc c)) 0%nat raw (repeat None (cngroups (get_class sc c))) g k f); auto.
  - rewrite repeat_length. exact Hg.
  - rewrite Hl. eapply nth_error_lt; eauto.
Qed.
