(* CLONE of Proofs/C01Msg.v with norm_obj replaced by normu_obj (Model/C14UDef.v: every message keeps its unknown
   bytes) and Good by GoodU; see Proofs/C14UMain.v for what changes. *)
(* C01 layer 4g — a whole message: every slot shape combined ([slot_all]), the walk over the field list
   (the decoder's object goes through the states "slots < i normalised, slots >= i fresh"), the
   _group_current bookkeeping, and the induction over nested values. *)
From Coq Require Import ZArith List Bool Lia ZifyBool.
From BP Require Import Base.Prelude Model.Types Model.Varint Model.Scalar Model.Float Model.Utf8.
From BP Require Import Model.Object Model.Eq Model.TimeCore Model.Encode Model.Decode Model.WellFormed Model.C01Def Model.C14UDef.
From BP Require Import Proofs.C14UUnfold.
From BP Require Import gen.Tables Proofs.BytesP Proofs.LenP Proofs.C01Scalar Proofs.C01Frame Proofs.C01Step Proofs.C01Apply
     Proofs.C01Elem Proofs.C01Field Proofs.C01Builtin Proofs.C01Unfold Proofs.C14UValue Proofs.C14USlot Proofs.C14USlot2
     Proofs.C14UDict.

Lemma elem_in_range_list sc t p l : elem_in_range sc t p (PList l) = false.
Proof. destruct p; try reflexivity; destruct t; reflexivity. Qed.
Lemma elem_in_range_dict sc t p d : elem_in_range sc t p (PDict d) = false.
Proof. destruct p; try reflexivity; destruct t; reflexivity. Qed.

Section SlotAll.
  Variables (sc : schema) (fuel' : nat) (c : nat).
  Hypothesis Hbi : builtins_exact sc = true.
  Let cd := get_class sc c.
  Let fs := cfields cd.

  Variables (cur : list (option nat)) (i : nat) (f : fdesc).
  Hypothesis Hf : nth_error fs i = Some f.
  Hypothesis Hnd : nodup_z (map fnum fs) = true.
  Hypothesis Hwf : wf_field sc (cngroups cd) f = true.
  Hypothesis Hent : entry_hints_ok sc f = true.
  Let sel := group_selects cur f i.

  Variables (rawP : list pv) (unk : list byte) (curP : list (option nat)).
  Hypothesis Hfresh : nth i rawP PPlaceholder = fresh_of f.
  Hypothesis Hlen : (i < length rawP)%nat.
  Hypothesis Hsib : sel = Some true -> forall g, fgroup f = Some g -> sibs_clear fs rawP g i.

  Lemma singular_hint x :
    is_singular x = true -> slot_in_range sc f x = true -> exists p, fhint f = HPlain p \/ fhint f = HOptional p.
  Proof.
    intros Hx Hr. unfold slot_in_range in Hr. destruct (fhint f) as [p|p|p|pk pv']; eauto;
      destruct x; try discriminate Hx; try discriminate Hr; destruct (fmap f) as [[? ?]|]; discriminate Hr.
  Qed.

  Lemma slot_all x :
    slot_in_range sc f x = true ->
    (sel = Some false -> x = PPlaceholder) ->
    (forall d, x = PDict d -> keys_nodup sc d = true) ->
    subP (GoodU sc) x ->
    slot_goal sc fuel' c cur i f rawP unk curP x.
  Proof.
    intros Hr Hclean Hkeys HG.
    assert (Hsib' : sel <> Some false -> forall g, fgroup f = Some g -> sibs_clear fs rawP g i).
    { intros Hn g Hg. destruct sel as [[|]|] eqn:Hsel; [apply Hsib; auto | congruence |].
      pose proof (group_selects_shape cur f i) as Hsh. fold sel in Hsh. rewrite Hsel in Hsh. congruence. }
    destruct (sel) as [[|]|] eqn:Hsel.
    2:{ apply slot_unselected; auto. }
    all: assert (Hne : group_selects cur f i <> Some false) by (fold sel; rewrite Hsel; discriminate).
    all: specialize (Hsib' ltac:(discriminate)).
    all: destruct (is_singular x) eqn:Hx.
    1,3: (destruct (singular_hint x Hx Hr) as (p & Hp);
          assert (HG' : elemP (GoodU sc) x) by (destruct x; try discriminate Hx; try exact I; exact HG);
          exact (slot_singular sc fuel' c Hbi cur i f x Hf Hnd Hwf Hx Hr HG' Hne rawP unk curP Hfresh Hlen Hsib' p Hp)).
    all: destruct x as [| |z|b|bits|s|b|us|us|l|d|o]; try discriminate Hx.
    - apply slot_placeholder_selected; auto.
    - exfalso. pose proof (group_selects_shape cur f i) as Hsh. fold sel in Hsh. rewrite Hsel in Hsh. destruct Hsh as (g & Hg & _).
      unfold slot_in_range in Hr. destruct (fhint f) as [p|p|p|pk pv'] eqn:Hh; try discriminate Hr.
      destruct (wf_optional _ _ _ _ Hwf Hh) as (_ & Hg' & _). congruence.
    - exfalso. pose proof (group_selects_shape cur f i) as Hsh. fold sel in Hsh. rewrite Hsel in Hsh. destruct Hsh as (g & Hg & _).
      unfold slot_in_range in Hr. destruct (fhint f) as [p|p|p|pk pv'] eqn:Hh; rewrite ?elem_in_range_list in Hr; try discriminate Hr.
      destruct (wf_list _ _ _ _ Hwf Hh) as (_ & _ & _ & Hg' & _). congruence.
    - exfalso. pose proof (group_selects_shape cur f i) as Hsh. fold sel in Hsh. rewrite Hsel in Hsh. destruct Hsh as (g & Hg & _).
      unfold slot_in_range in Hr. destruct (fhint f) as [p|p|p|pk pv'] eqn:Hh; rewrite ?elem_in_range_dict in Hr; try discriminate Hr.
      destruct (wf_dict _ _ _ _ _ Hwf Hh) as (_ & _ & Hg' & _). congruence.
    - apply slot_placeholder_unselected; auto.
    - apply slot_none; auto. unfold slot_in_range in Hr. destruct (fhint f); try discriminate Hr. eauto.
    - assert (Hh : exists p, fhint f = HList p).
      { unfold slot_in_range in Hr. destruct (fhint f) as [p|p|p|pk pv'] eqn:Hh; eauto;
          rewrite ?elem_in_range_list in Hr; discriminate Hr. }
      destruct Hh as (p & Hh). apply (slot_list sc fuel' c Hbi cur i f Hf Hnd Hwf rawP unk curP Hfresh Hlen Hsib' p Hh l Hr HG).
    - assert (Hh : exists pk pv', fhint f = HDict pk pv').
      { unfold slot_in_range in Hr. destruct (fhint f) as [p|p|p|pk pv'] eqn:Hh; eauto;
          rewrite ?elem_in_range_dict in Hr; discriminate Hr. }
      destruct Hh as (pk & pv' & Hh).
      apply (slot_dict sc fuel' c Hbi cur i f Hf Hnd Hwf Hent rawP unk curP Hfresh Hlen pk pv' Hh d Hr (Hkeys d eq_refl) HG).
  Qed.
End SlotAll.

(* ---------- list bookkeeping ---------- *)
Definition mid_state (norm fresh : list pv) (i : nat) : list pv := firstn i norm ++ skipn i fresh.

Lemma mid_state_length norm fresh i :
  length norm = length fresh -> (i <= length fresh)%nat -> length (mid_state norm fresh i) = length fresh.
Proof. intros H Hi. unfold mid_state. rewrite app_length, firstn_length, skipn_length. lia. Qed.

Lemma nth_skipn' {A} i k (l : list A) d : nth k (skipn i l) d = nth (i + k) l d.
Proof. revert l; induction i as [|i IH]; intros [|a l]; cbn; try reflexivity; [destruct k; reflexivity | apply IH]. Qed.

Lemma mid_state_nth norm fresh i k d :
  length norm = length fresh -> (i <= length fresh)%nat ->
  nth k (mid_state norm fresh i) d = if (k <? i)%nat then nth k norm d else nth k fresh d.
Proof.
  intros H Hi. unfold mid_state. destruct (Nat.ltb_spec k i) as [Hlt|Hge].
  - rewrite app_nth1 by (rewrite firstn_length; lia). apply nth_firstn. exact Hlt.
  - rewrite app_nth2 by (rewrite firstn_length; lia). rewrite firstn_length, nth_skipn'. f_equal. lia.
Qed.

Lemma mid_state_0 norm fresh : mid_state norm fresh 0 = fresh.
Proof. reflexivity. Qed.

Lemma mid_state_full norm fresh : length norm = length fresh -> mid_state norm fresh (length fresh) = norm.
Proof. intros H. unfold mid_state. rewrite <- H, firstn_all, skipn_all2 by lia. apply app_nil_r. Qed.

Lemma set_nth_ext {A} (l1 l2 : list A) d : length l1 = length l2 -> (forall k, nth k l1 d = nth k l2 d) -> l1 = l2.
Proof. intros Hl H. apply (nth_ext l1 l2 d d Hl). intros n _. apply H. Qed.

Lemma nth_set_nth {A} i k (x d : A) l :
  nth k (set_nth i x l) d = if Nat.eqb k i && (i <? length l)%nat then x else nth k l d.
Proof.
  revert i k; induction l as [|a l IH]; intros [|i] [|k]; cbn [set_nth nth length Nat.eqb andb]; try reflexivity.
  - rewrite andb_false_r. reflexivity.
  - rewrite IH. change (S i <? S (length l))%nat with (i <? length l)%nat. reflexivity.
Qed.

Lemma mid_state_step norm fresh i d :
  length norm = length fresh -> (i < length fresh)%nat ->
  set_nth i (nth i norm d) (mid_state norm fresh i) = mid_state norm fresh (S i).
Proof.
  intros H Hi. apply (set_nth_ext _ _ d).
  - rewrite set_nth_length, !mid_state_length by lia. reflexivity.
  - intros k. rewrite nth_set_nth, !mid_state_nth by lia. rewrite mid_state_length by lia.
    replace (i <? length fresh)%nat with true by (symmetry; apply Nat.ltb_lt; exact Hi). rewrite andb_true_r.
    destruct (Nat.eqb_spec k i) as [->|Hne].
    + replace (i <? S i)%nat with true by (symmetry; apply Nat.ltb_lt; lia). reflexivity.
    + destruct (Nat.ltb_spec k i), (Nat.ltb_spec k (S i)); try reflexivity; lia.
Qed.

Lemma normu_slots_length sc cur : forall raw fs j, length raw = length fs -> length (normu_slots sc cur j raw fs) = length fs.
Proof.
  induction raw as [|x raw IH]; intros [|f fs] j H; cbn in H; try lia; [reflexivity|].
  rewrite normu_slots_cons. cbn [length]. f_equal. apply IH. lia.
Qed.

Lemma normu_slots_nth sc cur : forall raw fs j k x f,
  nth_error raw k = Some x -> nth_error fs k = Some f ->
  nth k (normu_slots sc cur j raw fs) PPlaceholder = norm_slot sc (normu_obj sc) f (group_selects cur f (j + k)) x.
Proof.
  induction raw as [|x0 raw IH]; intros [|f0 fs] j [|k] x f Hx Hf; cbn in Hx, Hf; try discriminate.
  - injection Hx as <-. injection Hf as <-. rewrite normu_slots_cons, Nat.add_0_r. reflexivity.
  - rewrite normu_slots_cons. cbn [nth]. rewrite (IH fs (S j) k x f Hx Hf). do 2 f_equal. lia.
Qed.

(* ---------- _group_current ---------- *)
Definition upto (i : nat) (o : option nat) : option nat :=
  match o with Some j => if (j <? i)%nat then Some j else None | None => None end.
Definition cur_upto (cur : list (option nat)) (i : nat) : list (option nat) := map (upto i) cur.

Lemma cur_upto_0 cur : cur_upto cur 0 = repeat None (length cur).
Proof. induction cur as [|[j|] cur IH]; cbn; [reflexivity| |]; f_equal; exact IH. Qed.

Lemma cur_upto_all cur n : (forall g j, nth g cur None = Some j -> (j < n)%nat) -> cur_upto cur n = cur.
Proof.
  induction cur as [|o cur IH]; intros H; [reflexivity|]. cbn [cur_upto map]. f_equal.
  - destruct o as [j|]; [|reflexivity]. unfold upto. specialize (H 0%nat j eq_refl).
    replace (j <? n)%nat with true by (symmetry; apply Nat.ltb_lt; exact H). reflexivity.
  - apply IH. intros g j Hg. apply (H (S g) j Hg).
Qed.

Lemma cur_upto_same cur i : (forall g, nth g cur None <> Some i) -> cur_upto cur (S i) = cur_upto cur i.
Proof.
  induction cur as [|o cur IH]; intros H; [reflexivity|]. cbn [cur_upto map]. f_equal.
  - destruct o as [j|]; [|reflexivity]. unfold upto. specialize (H 0%nat). cbn [nth] in H.
    destruct (Nat.ltb_spec j (S i)), (Nat.ltb_spec j i); try reflexivity; try lia.
    exfalso. apply H. f_equal. lia.
  - apply IH. intros g. apply (H (S g)).
Qed.

Lemma cur_upto_select cur i : forall g,
  nth g cur None = Some i -> (forall g', nth g' cur None = Some i -> g' = g) ->
  set_nth g (Some i) (cur_upto cur i) = cur_upto cur (S i).
Proof.
  induction cur as [|o cur IH]; intros g Hg Huniq; [destruct g; discriminate|].
  destruct g as [|g]; cbn [nth] in Hg.
  - subst o. cbn [cur_upto map set_nth]. f_equal.
    + unfold upto. replace (i <? S i)%nat with true by (symmetry; apply Nat.ltb_lt; lia). reflexivity.
    + symmetry. apply cur_upto_same. intros g' Hg'. specialize (Huniq (S g') Hg'). discriminate.
  - cbn [cur_upto map set_nth]. f_equal.
    + destruct o as [j|]; [|reflexivity]. unfold upto.
      destruct (Nat.ltb_spec j (S i)), (Nat.ltb_spec j i); try reflexivity; try lia.
      assert (j = i) by lia. subst j. specialize (Huniq 0%nat eq_refl). discriminate.
    + apply IH; [exact Hg|]. intros g' Hg'. specialize (Huniq (S g') Hg'). congruence.
Qed.

(* cur_ok, as a statement about nth *)
Lemma cur_ok_spec sc c raw sow unk cur :
  cur_ok sc (Obj c raw sow unk cur) = true ->
  forall g j, nth g cur None = Some j ->
    exists f, nth_error (cfields (get_class sc c)) j = Some f /\ fgroup f = Some g.
Proof.
  unfold cur_ok. cbn [ocls ocur]. set (fs := cfields (get_class sc c)).
  assert (H : forall cur g0,
    (fix go (g : nat) (cur : list (option nat)) : bool :=
       match cur with
       | [] => true
       | None :: r => go (S g) r
       | Some i :: r => match nth_error fs i with Some f => opt_nat_eqb (fgroup f) (Some g) | None => false end && go (S g) r
       end) g0 cur = true ->
    forall g j, nth g cur None = Some j -> exists f, nth_error fs j = Some f /\ fgroup f = Some (g0 + g)%nat).
  { clear. induction cur as [|o cur IH]; intros g0 H g j Hg; [destruct g; discriminate|].
    destruct g as [|g]; cbn [nth] in Hg.
    - subst o. apply andb_true_iff in H as [H _]. destruct (nth_error fs j) as [f|]; [|discriminate].
      exists f. split; [reflexivity|]. apply opt_nat_eqb_eq in H. rewrite Nat.add_0_r. exact H.
    - assert (H' : (fix go (g : nat) (cur : list (option nat)) : bool :=
         match cur with
         | [] => true
         | None :: r => go (S g) r
         | Some i :: r => match nth_error fs i with Some f => opt_nat_eqb (fgroup f) (Some g) | None => false end && go (S g) r
         end) (S g0) cur = true).
      { destruct o; [apply andb_true_iff in H as [_ H]|]; exact H. }
      destruct (IH (S g0) H' g j Hg) as (f & Hf & Hgf). exists f. split; [exact Hf|]. rewrite Hgf. f_equal. lia. }
  intros Hc g j Hg. destruct (H cur 0%nat Hc g j Hg) as (f & Hf & Hgf). exists f. auto.
Qed.

Lemma nth_map_error {A B} (g : A -> B) l i a d : nth_error l i = Some a -> nth i (map g l) d = g a.
Proof. revert i; induction l as [|x l IH]; intros [|i] H; cbn in *; try discriminate; [congruence | apply IH; exact H]. Qed.

Lemma forallb_nth_error {A} (P : A -> bool) l i a : forallb P l = true -> nth_error l i = Some a -> P a = true.
Proof. intros H Hn. rewrite forallb_forall in H. apply H. eapply nth_error_In. exact Hn. Qed.

Lemma group_member_not_opt sc ng f g : wf_field sc ng f = true -> fgroup f = Some g -> fopt f = false.
Proof.
  intros Hwf Hg. destruct (fhint f) as [p|p|p|pk pv'] eqn:Hh.
  - destruct (wf_plain _ _ _ _ Hwf Hh) as (H & _). exact H.
  - destruct (wf_optional _ _ _ _ Hwf Hh) as (_ & Hg' & _). congruence.
  - destruct (wf_list _ _ _ _ Hwf Hh) as (_ & _ & _ & Hg' & _). congruence.
  - destruct (wf_dict _ _ _ _ _ Hwf Hh) as (_ & _ & Hg' & _). congruence.
Qed.

Section Walk.
  Variables (sc : schema) (fuel' : nat) (c : nat).
  Hypothesis Hbi : builtins_exact sc = true.
  Let cd := get_class sc c.
  Let fs := cfields cd.
  Variables (raw : list pv) (cur : list (option nat)).
  Hypothesis Hlen : length raw = length fs.
  Hypothesis Hnd : nodup_z (map fnum fs) = true.
  Hypothesis Hwf : forallb (wf_field sc (cngroups cd)) fs = true.
  Hypothesis Hent : forallb (entry_hints_ok sc) fs = true.
  Hypothesis Hcur : forall g j, nth g cur None = Some j -> exists f, nth_error fs j = Some f /\ fgroup f = Some g.
  Hypothesis Hslots : forall k x f, nth_error raw k = Some x -> nth_error fs k = Some f ->
    slot_in_range sc f x = true /\ (group_selects cur f k = Some false -> x = PPlaceholder) /\
    (forall d, x = PDict d -> keys_nodup sc d = true) /\ subP (GoodU sc) x.

  Let norm := normu_slots sc cur 0 raw fs.
  Let fresh := map fresh_of fs.
  Let st (i : nat) := mid_state norm fresh i.

  Lemma norm_fresh_len : length norm = length fresh.
  Proof. unfold norm, fresh. rewrite normu_slots_length by exact Hlen. rewrite map_length. reflexivity. Qed.

  Lemma fresh_len : length fresh = length fs.
  Proof. unfold fresh. apply map_length. Qed.

  (* every member of group g other than the selected one holds PLACEHOLDER in every intermediate state *)
  Lemma st_sibs i f g :
    (i < length fs)%nat -> nth_error fs i = Some f -> fgroup f = Some g -> nth g cur None = Some i ->
    sibs_clear fs (st i) g i.
  Proof.
    intros Hi Hf Hg Hsel k f' Hk Hg' Hne.
    assert (Hkl : (k < length fs)%nat) by (apply nth_error_Some; congruence).
    assert (Hfo : fopt f' = false) by (eapply group_member_not_opt; [eapply forallb_nth_error; eauto | eauto]).
    unfold st. rewrite mid_state_nth by (rewrite ?norm_fresh_len, ?fresh_len; lia).
    destruct (Nat.ltb_spec k i) as [Hlt|Hge].
    - destruct (nth_error raw k) as [x|] eqn:Hx; [|apply nth_error_None in Hx; lia].
      unfold norm. rewrite (normu_slots_nth sc cur raw fs 0 k x f' Hx Hk). cbn [Nat.add].
      unfold group_selects. rewrite Hg', Hsel. cbn [opt_nat_eqb].
      replace (Nat.eqb i k) with false by (symmetry; apply Nat.eqb_neq; congruence).
      unfold norm_slot. rewrite Hfo. reflexivity.
    - unfold fresh. rewrite (nth_map_error fresh_of fs k f' PPlaceholder Hk). unfold fresh_of. rewrite Hfo. reflexivity.
  Qed.

  Lemma walk : forall raw_rest fs_rest i,
    (forall k x, nth_error raw_rest k = Some x -> nth_error raw (i + k) = Some x) ->
    (forall k f, nth_error fs_rest k = Some f -> nth_error fs (i + k) = Some f) ->
    length raw_rest = length fs_rest -> (i + length fs_rest = length fs)%nat ->
    exists bs, enc_slots sc cur i raw_rest fs_rest = Ok bs /\
      (bs = [] -> forall k x f, nth_error raw_rest k = Some x -> nth_error fs_rest k = Some f -> slot_default sc f x) /\
      (small bs -> (length bs <= fuel')%nat ->
       feeds fuel' sc cd (Obj c (st i) true [] (cur_upto cur i)) bs
             (Obj c (st (length fs)) true [] (cur_upto cur (length fs)))).
  Proof.
    induction raw_rest as [|x raw' IH]; intros [|f fs'] i Hr Hf Hl Hi; cbn [length] in Hl, Hi; try lia.
    { exists []. split; [reflexivity|]. split; [intros _ k x f Hk; destruct k; discriminate|].
      intros _ _. rewrite Nat.add_0_r in Hi. rewrite Hi. apply feeds_nil. }
    assert (Hxi : nth_error raw i = Some x) by (rewrite <- (Nat.add_0_r i); apply Hr; reflexivity).
    assert (Hfi : nth_error fs i = Some f) by (rewrite <- (Nat.add_0_r i); apply Hf; reflexivity).
    destruct (Hslots i x f Hxi Hfi) as (Hrange & Hclean & Hkeys & HG).
    pose proof (forallb_nth_error _ _ _ _ Hwf Hfi) as Hwff.
    pose proof (forallb_nth_error _ _ _ _ Hent Hfi) as Hentf.
    assert (Hil : (i < length fs)%nat) by lia.
    pose proof norm_fresh_len as Hnf. pose proof fresh_len as Hfl.
    assert (Hfresh : nth i (st i) PPlaceholder = fresh_of f).
    { unfold st. rewrite mid_state_nth by lia. rewrite Nat.ltb_irrefl. unfold fresh. apply nth_map_error. exact Hfi. }
    assert (Hlst : (i < length (st i))%nat) by (unfold st; rewrite mid_state_length by lia; lia).
    assert (Hsib : group_selects cur f i = Some true -> forall g, fgroup f = Some g -> sibs_clear fs (st i) g i).
    { intros Hs g Hg. apply (st_sibs i f g Hil Hfi Hg).
      unfold group_selects in Hs. rewrite Hg in Hs. injection Hs as Hs. apply opt_nat_eqb_eq in Hs. exact Hs. }
    destruct (slot_all sc fuel' c Hbi cur i f Hfi Hnd Hwff Hentf (st i) [] (cur_upto cur i) Hfresh Hlst Hsib x
                       Hrange Hclean Hkeys HG) as (here & Eh & Hdef & Hfeed).
    destruct (IH fs' (S i)) as (rest & Er & Hdr & Hfr).
    { intros k y Hk. replace (S i + k)%nat with (i + S k)%nat by lia. apply Hr. exact Hk. }
    { intros k g Hk. replace (S i + k)%nat with (i + S k)%nat by lia. apply Hf. exact Hk. }
    { lia. } { lia. }
    rewrite enc_slots_cons, Eh. cbn [bind]. rewrite Er. cbn [bind].
    exists (here ++ rest). split; [reflexivity|]. split.
    - intros Hb. apply app_eq_nil in Hb as [Hb1 Hb2]. intros [|k] y g Hy Hg; cbn in Hy, Hg.
      + injection Hy as <-. injection Hg as <-. apply Hdef. exact Hb1.
      + apply (Hdr Hb2 k y g Hy Hg).
    - intros Hsm Hlb. rewrite app_length in Hlb.
      eapply feeds_app; [apply Hfeed; [eapply small_app_l; eauto | lia]|].
      eapply feeds_eq; [| reflexivity].
      assert (Hst : set_nth i (norm_slot sc (normu_obj sc) f (group_selects cur f i) x) (st i) = st (S i)).
      { unfold st. rewrite <- (mid_state_step norm fresh i PPlaceholder) by lia. f_equal.
        unfold norm. rewrite (normu_slots_nth sc cur raw fs 0 i x f Hxi Hfi). reflexivity. }
      assert (Hcu : cur_sel (group_selects cur f i) f i (cur_upto cur i) = cur_upto cur (S i)).
      { unfold cur_sel. pose proof (group_selects_shape cur f i) as Hsh.
        destruct (group_selects cur f i) as [[|]|] eqn:Hs.
        - destruct Hsh as (g & Hg & Hb). symmetry in Hb. apply opt_nat_eqb_eq in Hb.
          unfold cur_after. rewrite Hg. apply cur_upto_select; [exact Hb|].
          intros g' Hg'. destruct (Hcur g' i Hg') as (f0 & Hf0 & Hg0). congruence.
        - symmetry. apply cur_upto_same. intros g Hg. destruct (Hcur g i Hg) as (f0 & Hf0 & Hg0).
          assert (f0 = f) by congruence. subst f0.
          unfold group_selects in Hs. rewrite Hg0, Hg in Hs. cbn [opt_nat_eqb] in Hs. rewrite Nat.eqb_refl in Hs. discriminate.
        - symmetry. apply cur_upto_same. intros g Hg. destruct (Hcur g i Hg) as (f0 & Hf0 & Hg0).
          assert (f0 = f) by congruence. subst f0. congruence. }
      rewrite Hst, Hcu. apply Hfr; [eapply small_app_r; eauto | lia].
  Qed.
End Walk.
