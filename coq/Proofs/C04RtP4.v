(* C04, object level (B), conclusion: for every good object m,
   norm_obj m == m (Message.__eq__) and bytes(norm_obj m) = bytes(m). *)
From BP Require Import Base.Prelude Model.Types Model.Varint Model.Scalar Model.Float Model.Utf8 Model.Object Model.Eq Model.TimeCore.
From BP Require Import Model.Encode Model.WellFormed Model.Json.
From BP Require Import gen.Tables Proofs.BytesP Proofs.C04Def Proofs.C04ScalarP Proofs.C04ElemP Proofs.C04FieldP Proofs.C04ObjP
  Proofs.C04CurP Proofs.C04EncP Proofs.C04RtP Proofs.C04RtP2 Proofs.C04RtP3.
From Coq Require Import Lia ZifyBool.

Section Loops.
  Variable sc : schema.
  Hypothesis WS : wf_schema sc = true.

  Section Step.
    Variable n : nat.
    Hypothesis IHo : forall o', (pv_size (PMsg o') < n)%nat -> in_range sc o' = true -> pv_good sc (PMsg o') = true -> rt_ok sc o'.

    Lemma loops_rt cur cur' ng raw : forall fs i,
      (forall k f, nth_error fs k = Some f -> group_selects cur' f (i + k) = group_selects cur f (i + k)) ->
      forallb (wf_field sc ng) fs = true -> fields_ok sc raw fs = true -> forallb (pv_good sc) raw = true ->
      forallb field_nan_ok raw = true -> forallb (dict_cond sc) raw = true ->
      oneof_loop cur i raw fs = true -> lazy_loop sc cur i raw fs = true ->
      (forall x, In x raw -> (pv_size x < n)%nat) -> length raw = length fs ->
      enc_loop sc cur' i (norm_raw sc cur i raw fs) fs = enc_loop sc cur i raw fs /\
      eq_loop sc (norm_raw sc cur i raw fs) raw fs = true.
    Proof.
      induction raw as [|x raw IH]; intros fs i G W F Gd N D On Lz S L.
      - destruct fs; [split; reflexivity|discriminate L].
      - destruct fs as [|f fs]; [discriminate L|].
        cbn [forallb] in W, Gd, N, D. apply andb_prop in W as [W1 W2]. apply andb_prop in Gd as [G1 G2].
        apply andb_prop in N as [N1 N2]. apply andb_prop in D as [D1 D2].
        cbn [fields_ok] in F. apply andb_prop in F as [F1 F2].
        cbn [oneof_loop] in On. apply andb_prop in On as [O1 O2]. cbn [lazy_loop] in Lz. apply andb_prop in Lz as [L1 L2].
        cbn [length] in L. injection L as L.
        destruct (IH fs (Datatypes.S i)) as [IHe IHq]; try assumption.
        { intros k g Hk. assert (E : (Datatypes.S i + k = i + Datatypes.S k)%nat) by (clear; lia). rewrite E. exact (G (Datatypes.S k) g Hk). }
        { intros y Hy. apply S. right. exact Hy. }
        rewrite norm_raw_cons. cbn [enc_loop eq_loop]. rewrite IHe, IHq, andb_true_r.
        pose proof (G O f eq_refl) as G0. rewrite Nat.add_0_r in G0. rewrite G0.
        rewrite norm_field_is_sel.
        assert (SO : sel_ok f (group_selects cur f i) x).
        { unfold sel_ok. split; [|split].
          - unfold group_selects. intros ->. reflexivity.
          - intros g0 E. unfold group_selects. rewrite E. eauto.
          - intros s0 E. rewrite E in O1. apply eqb_prop in O1. exact O1. }
        assert (Sx : (pv_size x < n)%nat) by (apply S; left; reflexivity).
        rewrite (head_enc sc n WS IHo ng f _ x W1 SO Sx F1 G1 L1).
        rewrite (head_eq sc n WS IHo ng f _ x W1 SO Sx F1 G1 L1 N1 D1).
        split; reflexivity.
    Qed.
  End Step.

  Lemma rt_ok_n : forall n o, (pv_size (PMsg o) < n)%nat -> in_range sc o = true -> pv_good sc (PMsg o) = true -> rt_ok sc o.
  Proof.
    induction n as [|n IHn]; intros o Hs Hr Hg; [lia|].
    destruct o as [c raw s u g].
    destruct (in_range_unfold _ _ _ _ _ _ Hr) as [Hl [Hgl F]].
    unfold pv_good in Hg. rewrite pv_all_msg in Hg. apply andb_prop in Hg as [Hloc Hsub].
    unfold local_ok in Hloc. apply andb_prop in Hloc as [Hloc Hdict]. apply andb_prop in Hloc as [Hloc Hone].
    apply andb_prop in Hloc as [Hloc Hnan]. apply andb_prop in Hloc as [Hunk Hlazy].
    cbn [ounk] in Hunk. destruct u as [|? ?]; [|discriminate Hunk].
    rewrite local_oneof_unfold in Hone. rewrite local_no_lazy_unfold in Hlazy.
    unfold local_nan_ok in Hnan. unfold local_dicts_ok in Hdict. cbn [oraw] in Hnan, Hdict.
    pose proof (wf_fields sc c WS) as W.
    pose proof (group_selects_norm sc c g raw W Hgl Hl Hone F) as G.
    unfold rt_ok. rewrite norm_obj_unfold, post_init_unfold. unfold set_sow.
    destruct (loops_rt n IHn g
                (cur_loop O (cfields (get_class sc c)) (norm_raw sc g O raw (cfields (get_class sc c)))
                          (repeat None (cngroups (get_class sc c))))
                (cngroups (get_class sc c)) raw (cfields (get_class sc c)) O) as [E Q]; try assumption.
    { intros x Hx. rewrite size_msg in Hs. pose proof (in_sum_size x raw Hx). lia. }
    split.
    - rewrite obj_eq_unfold, Nat.eqb_refl. exact Q.
    - rewrite !enc_obj_unfold. rewrite E. reflexivity.
  Qed.

  (* (B) *)
  Theorem norm_faithful o : good sc o = true ->
    obj_eq sc (norm_obj sc o) o = true /\ enc_obj sc (norm_obj sc o) = enc_obj sc o.
  Proof.
    intros G. rewrite good_split in G. apply andb_prop in G as [Hr Hg].
    exact (rt_ok_n (S (pv_size (PMsg o))) o (Nat.lt_succ_diag_r _) Hr Hg).
  Qed.
End Loops.
