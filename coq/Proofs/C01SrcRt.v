(* C01 source-translation tie, round trip of the scalar layer with BOTH sides translated source:
     gen/C09Src.v  src__preprocess_single   (harness/gen_c09_src.py, from _preprocess_single)
     gen/C16Src.v  src_load_varint          (harness/gen_c16_src.py, from load_varint)
     gen/C01Src.v  src__postprocess_single  (harness/gen_c01_src.py, from Message._postprocess_single)
   The statements of Proofs/C01Scalar.v (scalar_varint_rt / scalar_fixed_rt, the layer-1 theorems of Properties/C01.v) are
   transported along the three equalities translation = model.  Fuel of the two fuelled translations: any fuel from an
   explicit constant on (68 iterations for the writer's loop, 11 for the reader's).
   Built only by the "source tie" stage of harness/props/c01.py. *)
From Coq Require Import ZArith List Bool Lia ZifyBool.
From BP Require Import Base.Prelude Model.Types Model.Varint Model.Scalar Model.Float Model.Utf8.
From BP Require Import Model.Object Model.Eq Model.TimeCore Model.Encode Model.Decode Model.WellFormed Model.C01Def gen.Tables.
From BP Require Import Model.C16SrcLib Model.C09SrcLib Model.C01SrcLib gen.C16Src gen.C09Src gen.C01Src.
From BP Require Import Proofs.ScalarP Proofs.C16Src Proofs.C09SrcPre Proofs.C01Scalar Proofs.C01Src.
Ltac Zify.zify_post_hook ::= Z.to_euclidean_division_equations.

(* the two parts this file composes with were translated on this run *)
Lemma src_rt_parts_present :
  src_varint_translated = true /\ src_c09_preprocess_translated = true /\ src_c01_postprocess_translated = true.
Proof. repeat split; reflexivity. Qed.

(* ---------- fuel of the writer: 68 iterations are enough for every in-range scalar ---------- *)
Lemma src_fuel_encode_65 v : 0 <= v < 2 ^ 65 -> (src_fuel_encode v <= 68)%nat.
Proof.
  intros Hv. unfold src_fuel_encode, enc_fuel. replace (v <? 0) with false by lia.
  assert (Z.log2 v < 65).
  { destruct (Z.eq_dec v 0) as [->|Hne]; [cbn; lia|]. apply Z.log2_lt_pow2; lia. }
  pose proof (Z.log2_nonneg v). lia.
Qed.

Lemma src_fuel_value_int z : - 2 ^ 63 <= z < 2 ^ 64 -> (src_fuel_value (PInt z) <= 68)%nat.
Proof.
  intros Hz. unfold src_fuel_value. cbn [int_like].
  pose proof (src_fuel_encode_in_range z Hz).
  pose proof (zigzag_range 65 z ltac:(lia) ltac:(change (65 - 1) with 64; lia)) as Hzz.
  pose proof (src_fuel_encode_65 (zigzag z) Hzz). lia.
Qed.

Lemma src_fuel_value_scalar t v : scalar_in_range t v = true -> (src_fuel_value v <= 68)%nat.
Proof.
  intros Hr. destruct v; try (unfold src_fuel_value; cbn [int_like]; lia).
  - destruct t; try discriminate Hr; cbn [scalar_in_range] in Hr; apply int_in_true in Hr;
      apply src_fuel_value_int; lia.
  - destruct b; vm_compute; lia.
Qed.

Section Rt.
  Variables (S F : Type).
  Variables (msgarm maparm : S -> F -> py_meta -> pv -> result pv).
  Variables (self : S) (fname : F).
  Variable msg : option ptype -> pv -> result (list byte).

  (* ---------- the eight varint kinds ---------- *)
  Theorem src_scalar_varint_rt fuel fuel' t w v :
    tmem t WIRE_VARINT_TYPES = true -> scalar_in_range t v = true -> (68 <= fuel)%nat -> (10 < fuel')%nat ->
    exists bs n,
      src__preprocess_single msg fuel t None v = Ok bs /\ bs <> [] /\
      (forall rest, src_load_varint fuel' (bs ++ rest) = Ok (n, bs, rest)) /\
      src__postprocess_single S F msgarm maparm self src01_WIRE_VARINT (mk_meta t w) fname (PInt n) = Ok v.
  Proof.
    intros Ht Hr Hf Hf'.
    destruct (scalar_varint_rt msg t v Ht Hr) as (bs & n & E & N & L & P).
    exists bs, n. pose proof (src_fuel_value_scalar t v Hr).
    rewrite src_preprocess_is_model by lia.
    split; [exact E|]. split; [exact N|]. split.
    - intros rest. rewrite src_load_is_model by exact Hf'. rewrite L. reflexivity.
    - change src01_WIRE_VARINT with WIRE_VARINT. rewrite src_post_varint_is_model. rewrite P. reflexivity.
  Qed.

  (* ---------- the six fixed-width kinds ---------- *)
  Lemma preprocess_fixed t w v : tmem t FIXED_TYPES = true -> preprocess_with msg t w v = pack_value t v.
  Proof. intros Ht. destruct t; try (vm_compute in Ht; discriminate Ht); reflexivity. Qed.

  Theorem src_scalar_fixed_rt fuel t w v :
    tmem t FIXED_TYPES = true -> scalar_in_range t v = true -> (68 <= fuel)%nat ->
    exists bs,
      src__preprocess_single msg fuel t None v = Ok bs /\ length bs = fixed_size t /\
      src__postprocess_single S F msgarm maparm self (src_fixed_wire t) (mk_meta t w) fname (PBytes bs) = Ok (norm_scalar t v).
  Proof.
    intros Ht Hr Hf.
    destruct (scalar_fixed_rt t v Ht Hr) as (bs & P & L & U).
    exists bs. pose proof (src_fuel_value_scalar t v Hr).
    rewrite src_preprocess_is_model by lia. rewrite preprocess_fixed by exact Ht.
    split; [exact P|]. split; [exact L|].
    rewrite src_post_fixed_is_model; [exact U|].
    unfold src_fixed_wire. destruct (tmem t WIRE_FIXED_32_TYPES); [left|right]; reflexivity.
  Qed.

  (* ---------- string and bytes ---------- *)
  Theorem src_scalar_len_rt fuel t w v :
    tmem t [TString; TBytes] = true -> scalar_in_range t v = true ->
    exists bs,
      src__preprocess_single msg fuel t None v = Ok bs /\
      src__postprocess_single S F msgarm maparm self src01_WIRE_LEN_DELIM (mk_meta t w) fname (PBytes bs) = Ok v.
  Proof.
    intros Ht Hr.
    destruct t; try (vm_compute in Ht; discriminate Ht); destruct v; try discriminate Hr.
    - exists utf8. rewrite src_preprocess_is_model by (unfold src_fuel_value; cbn [int_like]; lia).
      split; [reflexivity|]. change src01_WIRE_LEN_DELIM with WIRE_LEN_DELIM. rewrite src_post_len_string.
      cbn [scalar_in_range] in Hr. rewrite Hr. reflexivity.
    - exists b. rewrite src_preprocess_is_model by (unfold src_fuel_value; cbn [int_like]; lia).
      split; [reflexivity|]. change src01_WIRE_LEN_DELIM with WIRE_LEN_DELIM. apply src_post_len_bytes.
  Qed.

End Rt.

(* the zig-zag fragment that gen_c16_src.py cuts out of the same function is the expression this translation contains *)
Lemma src_post_sint_is_unzigzag S F msgarm maparm self fname t w z :
  tmem t [TSInt32; TSInt64] = true ->
  src__postprocess_single S F msgarm maparm self src01_WIRE_VARINT (mk_meta t w) fname (PInt z) = Ok (PInt (unzigzag z)).
Proof. intros Ht. destruct t; try (vm_compute in Ht; discriminate Ht); reflexivity. Qed.
