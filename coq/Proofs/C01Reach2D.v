(* C01, observers at every depth: for a message that satisfies the value hypotheses of the round trip, carries its
   flags at every depth ([deep_sow_ok]) and holds no map value that encodes to nothing, the decoded form agrees with
   it on the observers at every nested message ([obs_deep]).  Nested induction over the value; [norm_obj] is
   compositional, the statement at each message is C01_observers_agree. *)
From Coq Require Import ZArith List Bool Lia Arith.
From BP Require Import Base.Prelude Model.Types Model.Object Model.Eq Model.Encode Model.Decode Model.WellFormed.
From BP Require Import Model.History Model.C07Ops Model.C01Def Model.C01Reach Model.C01Deep.
From BP Require Import Proofs.C01Unfold Proofs.C01Msg Proofs.C01Main Proofs.C01Obs Proofs.C07InvP Proofs.C07ObsP.
From BP Require Import Proofs.C01ReachBase Proofs.C01ReachNew Proofs.C01ReachOps Proofs.C01ReachObs Proofs.C01ReachShape
     Proofs.C01ReachFinal Proofs.C01Reach2A.
From BP Require Import gen.Tables.
Import ListNotations.

Definition od_list (sc : schema) : list pv -> list pv -> bool :=
  fix go (x y : list pv) : bool :=
    match x, y with
    | [], [] => true
    | u :: x', v :: y' => obs_deep sc u v && go x' y'
    | _, _ => false
    end.
Definition od_dict (sc : schema) : list (pv * pv) -> list (pv * pv) -> bool :=
  fix go (x y : list (pv * pv)) : bool :=
    match x, y with
    | [], [] => true
    | (_, u) :: x', (_, v) :: y' => obs_deep sc u v && go x' y'
    | _, _ => false
    end.

Lemma obs_deep_list sc x y : obs_deep sc (PList x) (PList y) = od_list sc x y.
Proof. reflexivity. Qed.
Lemma obs_deep_dict sc x y : obs_deep sc (PDict x) (PDict y) = od_dict sc x y.
Proof. reflexivity. Qed.
Lemma obs_deep_msg sc c ra s u g ob :
  obs_deep sc (PMsg (Obj c ra s u g)) (PMsg ob) = obs_top sc (Obj c ra s u g) ob && od_list sc ra (oraw ob).
Proof. reflexivity. Qed.
Lemma od_list_cons sc u x v y : od_list sc (u :: x) (v :: y) = obs_deep sc u v && od_list sc x y.
Proof. reflexivity. Qed.
Lemma od_dict_cons sc k u x k' v y : od_dict sc ((k, u) :: x) ((k', v) :: y) = obs_deep sc u v && od_dict sc x y.
Proof. reflexivity. Qed.

Lemma od_fresh sc x b : b = PNone \/ b = PPlaceholder -> obs_deep sc x b = true.
Proof. destruct x; intros [->| ->]; reflexivity. Qed.

Lemma od_scalar sc a b :
  match a with PList _ | PDict _ | PMsg _ => False | _ => True end -> obs_deep sc a b = true.
Proof. destruct a; intros H; try contradiction; reflexivity. Qed.

Lemma wrapped_no_msg sc n f w o :
  wf_field sc n f = true -> fwraps f = Some w -> slot_ok sc f (PMsg o) = true -> False.
Proof.
  intros Hwf Hw Hv. destruct (fhint f) as [t|t|t|pk t] eqn:Hh.
  - destruct (wf_plain _ _ _ _ Hwf Hh) as (_ & Hw' & _). congruence.
  - destruct (wf_optional _ _ _ _ Hwf Hh) as (_ & _ & [(w' & vt & Hw' & _ & _ & _ & Hvt & Hfit) | (Hw' & _)]); [|congruence].
    assert (w' = w) by congruence. subst w'.
    unfold slot_ok, field_in_range in Hv. rewrite Hh, Hw in Hv.
    apply andb_true_iff in Hv as [Hv _]. apply andb_true_iff in Hv as [Hv _].
    destruct t; try (destruct w; destruct o; discriminate Hv).
    destruct vt; try discriminate Hfit. revert Hvt. destruct w; vm_compute; discriminate.
  - destruct (wf_list _ _ _ _ Hwf Hh) as (_ & Hw' & _). congruence.
  - destruct (wf_dict _ _ _ _ _ Hwf Hh) as (_ & Hw' & _). congruence.
Qed.

Section Deep.
  Variable sc : schema.
  Hypothesis Hs : c01_schema_ok sc = true.

  Definition PD (o : obj) : Prop :=
    VGood sc o -> deep (sow_ok sc) (PMsg o) = true -> deep (mapvals_emit sc) (PMsg o) = true ->
    obs_deep sc (PMsg o) (PMsg (norm_obj sc o)) = true.

  Lemma od_list_elems t p : forall l,
    all_in sc t p l = true -> deep_list (clean_ok sc) l = true -> deep_list (sow_ok sc) l = true ->
    deep_list (mapvals_emit sc) l = true -> Forall (elemP PD) l ->
    od_list sc l (map (norm_elem (norm_obj sc) t) l) = true.
  Proof.
    induction l as [|y l IH]; intros Ha Hc Hw Hm HQ; [reflexivity|].
    rewrite all_in_cons in Ha. apply andb_true_iff in Ha as [Ha1 Ha2].
    rewrite deep_list_cons in Hc, Hw, Hm.
    apply andb_true_iff in Hc as [Hc1 Hc2]. apply andb_true_iff in Hw as [Hw1 Hw2]. apply andb_true_iff in Hm as [Hm1 Hm2].
    inversion HQ as [|? ? HQ1 HQ2]; subst.
    cbn [map]. rewrite od_list_cons, (IH Ha2 Hc2 Hw2 Hm2 HQ2), andb_true_r.
    destruct y as [| |z|b|bits|s|b|us|us|l0|d|o']; try (apply od_scalar; exact I).
    - rewrite elem_in_range_list in Ha1. discriminate.
    - rewrite elem_in_range_dict in Ha1. discriminate.
    - cbn [norm_elem]. cbn [elemP] in HQ1. apply HQ1; auto. eapply elem_vgood; eauto.
  Qed.

  Lemma od_dict_vals kt vt p : forall d,
    all_kv sc kt vt p d = true -> deep_dict (clean_ok sc) d = true -> deep_dict (sow_ok sc) d = true ->
    deep_dict (mapvals_emit sc) d = true -> vals_emit sc d = true -> Forall (fun kv => elemP PD (snd kv)) d ->
    od_dict sc d (map (fun kv => (fst kv, norm_map_value sc (norm_obj sc) vt (snd kv))) d) = true.
  Proof.
    induction d as [|[k y] d IH]; intros Ha Hc Hw Hm He HQ; [reflexivity|].
    rewrite all_kv_cons in Ha. apply andb_true_iff in Ha as [Ha1 Ha2]. apply andb_true_iff in Ha1 as [_ Ha1].
    rewrite deep_dict_cons in Hc, Hw, Hm.
    apply andb_true_iff in Hc as [Hc1 Hc2]. apply andb_true_iff in Hw as [Hw1 Hw2]. apply andb_true_iff in Hm as [Hm1 Hm2].
    unfold vals_emit in He. cbn [forallb snd] in He. apply andb_true_iff in He as [He1 He2].
    inversion HQ as [|? ? HQ1 HQ2]; subst. cbn [snd] in HQ1.
    cbn [map fst snd]. rewrite od_dict_cons, (IH Ha2 Hc2 Hw2 Hm2 He2 HQ2), andb_true_r.
    destruct y as [| |z|b|bits|s|b|us|us|l0|d0|o']; try (apply od_scalar; exact I).
    - rewrite elem_in_range_list in Ha1. discriminate.
    - rewrite elem_in_range_dict in Ha1. discriminate.
    - cbn [norm_map_value]. unfold emits in He1.
      assert (HP : obs_deep sc (PMsg o') (PMsg (norm_obj sc o')) = true).
      { cbn [elemP] in HQ1. apply HQ1; auto. eapply elem_vgood; eauto. }
      destruct (enc_obj sc o') as [[|b0 bs]|e]; [discriminate He1 | exact HP | exact HP].
  Qed.

  Lemma od_slot n f sel x :
    wf_field sc n f = true -> slot_ok sc f x = true -> subP PD x ->
    deep (sow_ok sc) x = true -> deep (mapvals_emit sc) x = true ->
    match x with PDict d => vals_emit sc d | _ => true end = true ->
    obs_deep sc x (norm_slot sc (norm_obj sc) f sel x) = true.
  Proof.
    intros Hwf Hsl HQ Hw Hm He.
    assert (Hfresh : forall y, obs_deep sc y (if fopt f then PNone else PPlaceholder) = true).
    { intros y. apply od_fresh. destruct (fopt f); auto. }
    unfold norm_slot.
    assert (Hmain : obs_deep sc x
      (match x with
       | PNone => if fopt f then PNone else PPlaceholder
       | PPlaceholder =>
           if match sel with Some true => true | _ => false end
           then match default_of sc f with PMsg o => PMsg (raise_sow o) | d => d end
           else if fopt f then PNone else PPlaceholder
       | PList [] => if fopt f then PNone else PPlaceholder
       | PList l => PList (map (norm_elem (norm_obj sc) (fty f)) l)
       | PDict [] => if fopt f then PNone else PPlaceholder
       | PDict d =>
           match fmap f with
           | Some (_, vt) => PDict (map (fun kv => (fst kv, norm_map_value sc (norm_obj sc) vt (snd kv))) d)
           | None => x
           end
       | _ =>
           let forced := is_some (fgroup f) || fopt f || match sel with Some true => true | _ => false end ||
                         match x with PMsg o => osow o | _ => false end in
           if is_default sc f x && negb forced then if fopt f then PNone else PPlaceholder
           else match fwraps f with
                | Some w => norm_wrapped sc w x
                | None => norm_elem (norm_obj sc) (fty f) x
                end
       end) = true).
    { destruct x as [| |z|b|bits|s|b|us|us|l|d|o']; try (apply od_scalar; exact I).
      - (* list *)
        destruct (slot_ok_list_inv sc f l Hsl) as (p & Hh & Ha & Hc).
        destruct l as [|y l]; [apply Hfresh|]. rewrite obs_deep_list. rewrite deep_plist in Hw, Hm. cbn [subP] in HQ.
        eapply od_list_elems; eauto.
      - (* dict *)
        destruct (slot_ok_dict_inv sc f d Hsl) as (pk & p & kt & vt & Hh & Hmp & Ha & Hc & _).
        destruct d as [|kv d]; [apply Hfresh|]. rewrite Hmp, obs_deep_dict. rewrite deep_pdict in Hw, Hm. cbn [subP] in HQ.
        eapply od_dict_vals; eauto.
      - (* message *)
        cbv zeta. destruct (is_default sc f (PMsg o') && negb _); [apply Hfresh|].
        destruct (fwraps f) as [w|] eqn:Hwr; [exfalso; eapply wrapped_no_msg; eauto|].
        cbn [norm_elem]. cbn [subP] in HQ. apply HQ; auto. eapply slot_ok_msg; eauto. }
    destruct sel as [[|]|]; [exact Hmain | apply Hfresh | exact Hmain].
  Qed.

  Lemma od_slots cur : forall raw fs j,
    length raw = length fs ->
    (forall k x f, nth_error raw k = Some x -> nth_error fs k = Some f ->
                   obs_deep sc x (norm_slot sc (norm_obj sc) f (group_selects cur f (j + k)) x) = true) ->
    od_list sc raw (norm_slots sc cur j raw fs) = true.
  Proof.
    induction raw as [|x raw IH]; intros [|f fs] j Hl H; try discriminate Hl; [reflexivity|].
    rewrite norm_slots_cons, od_list_cons. apply andb_true_iff. split.
    - specialize (H 0%nat x f eq_refl eq_refl). rewrite Nat.add_0_r in H. exact H.
    - apply IH; [cbn in Hl; lia|]. intros k y g Hy Hg. specialize (H (S k) y g Hy Hg).
      replace (j + S k)%nat with (S j + k)%nat in H by lia. exact H.
  Qed.

  Lemma obs_deep_norm_all : forall o, PD o.
  Proof.
    apply (obj_nested_ind PD). intros c raw s u g HP HV Hw Hm.
    pose proof (schema_wf sc Hs) as Hwf.
    pose proof (c01_observers_agree sc (Obj c raw s u g) Hs (value_ok_of_vgood sc _ HV)) as Ht.
    rewrite deep_msg in Hw, Hm. apply andb_true_iff in Hw as [Hw0 Hw]. apply andb_true_iff in Hm as [Hm0 Hm].
    specialize (Ht Hw0). rewrite norm_obj_unfold in *. rewrite obs_deep_msg, Ht. cbn [oraw andb].
    destruct HV as (Hl & _ & _ & _ & _ & Hsl). unfold cfs in *. cbn [oraw ocls] in *.
    apply od_slots; [exact Hl|]. intros k x f Hx Hf.
    eapply od_slot.
    - eapply wf_field_of; eauto.
    - eapply Hsl; eauto.
    - eapply Forall_nth_error; eauto.
    - eapply deep_list_nth; eauto.
    - eapply deep_list_nth; eauto.
    - unfold mapvals_emit in Hm0. cbn [oraw] in Hm0. rewrite forallb_nth in Hm0. apply (Hm0 k x Hx).
  Qed.
End Deep.

Theorem c01_observers_agree_deep sc m :
  c01_schema_ok sc = true -> c01_value_ok sc m = true ->
  deep_sow_ok sc m = true -> deep_mapvals_emit sc m = true ->
  obs_deep sc (PMsg m) (PMsg (norm_obj sc m)) = true.
Proof. intros Hs Hv Hw Hm. apply (obs_deep_norm_all sc Hs m); auto. apply vgood_iff. exact Hv. Qed.
