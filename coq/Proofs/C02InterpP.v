(* C02, specification side: how Spec/Wire.interp_field changes when one more payload is gathered. *)
From BP Require Import Base.Prelude Model.Types Model.Object.
From BP Require Import Spec.Varint Spec.Wire Proofs.C02ListP.

Section Interp.
  Variable nested : nat -> list byte -> option aval.
  Variable sc : schema.

  Lemma obind_some {A B} (o : option A) (k : A -> option B) r :
    obind o k = Some r -> exists a, o = Some a /\ k a = Some r.
  Proof. destruct o; [eauto | discriminate]. Qed.

  Lemma interp_implicit_snoc f ps p a sv :
    card_of f = Implicit -> interp_field nested sc f ps = Some a -> scalar_of (fty f) p = Some sv ->
    interp_field nested sc f (ps ++ [p]) = Some sv.
  Proof.
    unfold interp_field. intros -> H S. apply obind_some in H as (vs & Hvs & _).
    rewrite (omap_all_app _ _ _ _ _ Hvs (omap_all_one _ _ _ S)). cbn [obind]. now rewrite last_snoc.
  Qed.

  Lemma interp_presence_scalar_snoc f ps p a sv :
    match card_of f with Explicit | Oneof _ => True | _ => False end -> msg_class f = None ->
    interp_field nested sc f ps = Some a -> scalar_of (fty f) p = Some sv ->
    interp_field nested sc f (ps ++ [p]) = Some (ASome sv).
  Proof.
    unfold interp_field. intros C -> H S.
    destruct (card_of f); try contradiction;
      apply obind_some in H as (vs & Hvs & _);
      rewrite (omap_all_app _ _ _ _ _ Hvs (omap_all_one _ _ _ S)); cbn [obind]; rewrite last_snoc;
      destruct vs; reflexivity.
  Qed.

  Lemma interp_message_first f c' b m :
    match card_of f with Explicit | Oneof _ => True | _ => False end -> msg_class f = Some c' ->
    nested c' b = Some m ->
    interp_field nested sc f ([] ++ [Len b]) = Some (ASome m).
  Proof.
    unfold interp_field. intros C -> N. cbn [app map concat len_bytes]. rewrite app_nil_r.
    destruct (card_of f); try contradiction; rewrite N; reflexivity.
  Qed.

  Lemma interp_repeated_snoc f ps p xs es :
    card_of f = Repeated -> interp_field nested sc f ps = Some (AList xs) -> elems_of nested f p = Some es ->
    interp_field nested sc f (ps ++ [p]) = Some (AList (xs ++ es)).
  Proof.
    unfold interp_field. intros -> H S. apply obind_some in H as (ls & Hls & E). injection E as <-.
    rewrite (omap_all_app _ _ _ _ _ Hls (omap_all_one _ _ _ S)). cbn [obind].
    rewrite concat_app. cbn [concat]. now rewrite app_nil_r.
  Qed.

  Definition entry_step (dflt : aval) (acc : list (aval * aval)) (e : aval) : list (aval * aval) :=
    match e with
    | AMsg [k; v] _ => map_put k (strip dflt v) key_eqb acc
    | _ => acc
    end.
  Definition map_dflt (f : fdesc) : aval :=
    match cfields (get_class sc (fentry f)) with
    | [_; fv] => match msg_class fv with Some c => empty_msg sc c | None => ANone end
    | _ => ANone
    end.

  Lemma interp_map_snoc f ps p acc e :
    card_of f = MapOf -> interp_field nested sc f ps = Some (AMap acc) ->
    nested (fentry f) (len_bytes p) = Some e ->
    interp_field nested sc f (ps ++ [p]) = Some (AMap (entry_step (map_dflt f) acc e)).
  Proof.
    unfold interp_field. intros -> H S. apply obind_some in H as (es & Hes & E). injection E as <-.
    assert (S' : (fun p0 => nested (fentry f) (len_bytes p0)) p = Some e) by exact S.
    rewrite (omap_all_app _ _ _ _ _ Hes (omap_all_one _ _ _ S')). cbn [obind].
    rewrite fold_left_app. reflexivity.
  Qed.
End Interp.
