(* C04: the calendar fact of Proofs/C04CalP.v, for all days of the years 1..9999.
   civil_of_days / days_of_civil are periodic in the 400-year era (146097 days), so the fact for one era
   (a vm_compute sweep over 146097 days) carries over to every era; the year bounds follow from
   monotonicity of days_of_civil. *)
From BP Require Import Base.Prelude Model.Json Proofs.C04CalP.
From Coq Require Import Lia ZifyBool.
Ltac Zify.zify_post_hook ::= Z.to_euclidean_division_equations.

Definition cal_ok0 (days : Z) : bool :=
  let '(y, m, d) := civil_of_days days in
  (1 <=? m) && (m <=? 12) && (1 <=? d) && (d <=? days_in_month y m) && (days_of_civil y m d =? days).

(* all days in [lo, lo + p) *)
Fixpoint sweep (p : positive) (lo : Z) : bool :=
  match p with
  | xH => cal_ok0 lo
  | xO q => sweep q lo && sweep q (lo + Zpos q)
  | xI q => cal_ok0 lo && sweep q (lo + 1) && sweep q (lo + 1 + Zpos q)
  end.

Lemma sweep_spec p : forall lo, sweep p lo = true -> forall z, lo <= z < lo + Zpos p -> cal_ok0 z = true.
Proof.
  induction p as [q IH|q IH|]; intros lo H z Hz; cbn [sweep] in H.
  - apply andb_prop in H as [H H2]. apply andb_prop in H as [H0 H1].
    destruct (Z.eq_dec z lo) as [->|N]; [exact H0|].
    destruct (Z_lt_le_dec z (lo + 1 + Zpos q)); [apply (IH _ H1)|apply (IH _ H2)]; lia.
  - apply andb_prop in H as [H1 H2].
    destruct (Z_lt_le_dec z (lo + Zpos q)); [apply (IH _ H1)|apply (IH _ H2)]; lia.
  - assert (z = lo) by lia. subst. exact H.
Qed.

Lemma era_sweep : sweep 146097 (-719468) = true.
Proof. vm_compute. reflexivity. Qed.

Lemma civil_shift z k :
  civil_of_days (z + 146097 * k) = let '(y, m, d) := civil_of_days z in (y + 400 * k, m, d).
Proof.
  unfold civil_of_days.
  replace (z + 146097 * k + 719468) with (z + 719468 + k * 146097) by ring.
  rewrite Z.div_add by lia.
  replace (z + 719468 + k * 146097 - ((z + 719468) / 146097 + k) * 146097)
    with (z + 719468 - (z + 719468) / 146097 * 146097) by ring.
  set (doe := z + 719468 - (z + 719468) / 146097 * 146097).
  set (yoe := (doe - doe / 1460 + doe / 36524 - doe / 146096) / 365).
  set (doy := doe - (365 * yoe + yoe / 4 - yoe / 100)).
  set (mp := (5 * doy + 2) / 153).
  destruct (mp <? 10); [destruct (mp + 3 <=? 2)|destruct (mp - 9 <=? 2)];
    (f_equal; f_equal; clearbody yoe; lia).
Qed.

Lemma days_shift y m d k : days_of_civil (y + 400 * k) m d = days_of_civil y m d + 146097 * k.
Proof.
  unfold days_of_civil.
  destruct (m <=? 2).
  - replace (y + 400 * k - 1) with (y - 1 + k * 400) by ring. rewrite Z.div_add by lia.
    replace (y - 1 + k * 400 - ((y - 1) / 400 + k) * 400) with (y - 1 - (y - 1) / 400 * 400) by ring. ring.
  - replace (y + 400 * k) with (y + k * 400) by ring. rewrite Z.div_add by lia.
    replace (y + k * 400 - (y / 400 + k) * 400) with (y - y / 400 * 400) by ring. ring.
Qed.

Lemma dim_shift y m k : days_in_month (y + 400 * k) m = days_in_month y m.
Proof.
  unfold days_in_month, is_leap.
  replace ((y + 400 * k) mod 4) with (y mod 4) by lia.
  replace ((y + 400 * k) mod 100) with (y mod 100) by lia.
  replace ((y + 400 * k) mod 400) with (y mod 400) by lia.
  reflexivity.
Qed.

Lemma cal_ok0_all z : cal_ok0 z = true.
Proof.
  set (k := (z + 719468) / 146097). set (z0 := z - 146097 * k).
  assert (B : -719468 <= z0 < -719468 + 146097) by (unfold z0, k; lia).
  pose proof (sweep_spec _ _ era_sweep z0 B) as H0.
  replace z with (z0 + 146097 * k) by (unfold z0; ring).
  unfold cal_ok0 in *. rewrite civil_shift.
  destruct (civil_of_days z0) as [[y m] d].
  rewrite dim_shift, days_shift. lia.
Qed.

Lemma year_bounds y m d : 1 <= m <= 12 -> 1 <= d <= 31 ->
  day_min <= days_of_civil y m d <= day_max -> 1 <= y <= 9999.
Proof.
  unfold day_min, day_max, days_of_civil. intros Hm Hd.
  destruct (m <=? 2) eqn:E1; destruct (2 <? m) eqn:E2; try lia; intros H; lia.
Qed.

Theorem cal_fact_holds : cal_fact.
Proof.
  intros days Hd. pose proof (cal_ok0_all days) as H. unfold cal_ok0, cal_ok in *.
  destruct (civil_of_days days) as [[y m] d].
  assert (D31 : days_in_month y m <= 31)
    by (unfold days_in_month; destruct (m =? 2), (is_leap y), ((m =? 4) || (m =? 6) || (m =? 9) || (m =? 11)); lia).
  assert (E : days_of_civil y m d = days) by lia.
  pose proof (year_bounds y m d ltac:(lia) ltac:(lia) ltac:(rewrite E; exact Hd)). lia.
Qed.
