(* C03 bridge — witnesses and non-vacuity (all by vm_compute).  The descriptors are the FileDescriptorSets protoc
   emits for the quoted .proto text (harness stage A re-derives them from the text on every run:
   c03_protogen.COQ_WITNESS_SOURCES). *)
From BP Require Import Base.Prelude Model.Types Spec.Descriptor gen.C03Tables Model.Plugin Proofs.PluginP Proofs.PluginWitP.
From BP Require Import Model.Object Model.Eq Model.Encode Model.Decode Model.WellFormed Model.C01Def Model.C03Bridge.
From Coq Require Import String.
Open Scope list_scope.
Open Scope Z_scope.

(* D_map_wrapper:
syntax = "proto3";
package wb;
import "google/protobuf/wrappers.proto";
message M { map<string, google.protobuf.Int32Value> mw = 1; }
*)
Definition D_map_wrapper : descriptor :=
 [(mkFile (b "google/protobuf/wrappers.proto") (b "google.protobuf") 
   [(mkMsg (b "DoubleValue") [(mkField (b "value") 1 1 1 (b "") None false)] [] [] [] false);
    (mkMsg (b "FloatValue") [(mkField (b "value") 1 1 2 (b "") None false)] [] [] [] false);
    (mkMsg (b "Int64Value") [(mkField (b "value") 1 1 3 (b "") None false)] [] [] [] false);
    (mkMsg (b "UInt64Value") [(mkField (b "value") 1 1 4 (b "") None false)] [] [] [] false);
    (mkMsg (b "Int32Value") [(mkField (b "value") 1 1 5 (b "") None false)] [] [] [] false);
    (mkMsg (b "UInt32Value") [(mkField (b "value") 1 1 13 (b "") None false)] [] [] [] false);
    (mkMsg (b "BoolValue") [(mkField (b "value") 1 1 8 (b "") None false)] [] [] [] false);
    (mkMsg (b "StringValue") [(mkField (b "value") 1 1 9 (b "") None false)] [] [] [] false);
    (mkMsg (b "BytesValue") [(mkField (b "value") 1 1 12 (b "") None false)] [] [] [] false)] []);
 (mkFile (b "D_map_wrapper.proto") (b "wb") [(mkMsg (b "M") [(mkField (b "mw") 1 3 11 (b ".wb.M.MwEntry") None false)] [(mkMsg (b "MwEntry") [(mkField (b "key") 1 1 9 (b "") None false); (mkField (b "value") 2 1 11 (b ".google.protobuf.Int32Value") None false)] [] [] [] true)] [] [] false)] [])].

(* D_rep_wrapper:
syntax = "proto3";
package wb;
import "google/protobuf/wrappers.proto";
message M { repeated google.protobuf.Int32Value rw = 1; }
*)
Definition D_rep_wrapper : descriptor :=
 [(mkFile (b "google/protobuf/wrappers.proto") (b "google.protobuf") 
   [(mkMsg (b "DoubleValue") [(mkField (b "value") 1 1 1 (b "") None false)] [] [] [] false);
    (mkMsg (b "FloatValue") [(mkField (b "value") 1 1 2 (b "") None false)] [] [] [] false);
    (mkMsg (b "Int64Value") [(mkField (b "value") 1 1 3 (b "") None false)] [] [] [] false);
    (mkMsg (b "UInt64Value") [(mkField (b "value") 1 1 4 (b "") None false)] [] [] [] false);
    (mkMsg (b "Int32Value") [(mkField (b "value") 1 1 5 (b "") None false)] [] [] [] false);
    (mkMsg (b "UInt32Value") [(mkField (b "value") 1 1 13 (b "") None false)] [] [] [] false);
    (mkMsg (b "BoolValue") [(mkField (b "value") 1 1 8 (b "") None false)] [] [] [] false);
    (mkMsg (b "StringValue") [(mkField (b "value") 1 1 9 (b "") None false)] [] [] [] false);
    (mkMsg (b "BytesValue") [(mkField (b "value") 1 1 12 (b "") None false)] [] [] [] false)] []);
 (mkFile (b "D_rep_wrapper.proto") (b "wb") [(mkMsg (b "M") [(mkField (b "rw") 1 3 11 (b ".google.protobuf.Int32Value") None false)] [] [] [] false)] [])].

(* D_any:
syntax = "proto3";
package wb;
import "google/protobuf/any.proto";
message M { google.protobuf.Any a = 1; }
*)
Definition D_any : descriptor :=
 [(mkFile (b "google/protobuf/any.proto") (b "google.protobuf") [(mkMsg (b "Any") [(mkField (b "type_url") 1 1 9 (b "") None false); (mkField (b "value") 2 1 12 (b "") None false)] [] [] [] false)] []);
 (mkFile (b "D_any.proto") (b "wb") [(mkMsg (b "M") [(mkField (b "a") 1 1 11 (b ".google.protobuf.Any") None false)] [] [] [] false)] [])].


(* ---- the non-vacuity descriptor of C03 (PluginWitP.D_ok: nested messages, two enums, two maps, a oneof, a proto3
        optional, a repeated message field, Timestamp, a wrapper) meets every premise of the bridge theorems, and
        its generated schema is the expected one ---- *)
Definition T_ok : class_table := Eval vm_compute in
  match class_table_of w_field_name w_class_name w_member_name D_ok with Some t => t | None => [] end.
Definition S_ok : schema := Eval vm_compute in schema_of_table T_ok.
Lemma S_ok_eq : S_ok = schema_of_table T_ok.
Proof. vm_compute. reflexivity. Qed.

Lemma D_ok_bridge :
  protoc_wf D_ok = true /\ names_ok w_field_name w_class_name w_member_name D_ok = true /\ bridge_ok D_ok = true
  /\ class_table_of w_field_name w_class_name w_member_name D_ok = Some T_ok
  /\ table_ok T_ok = true /\ c01_schema_ok S_ok = true
  /\ List.length (classes S_ok) = 15%nat /\ List.length (enums S_ok) = 2%nat.
Proof. vm_compute. repeat split; reflexivity. Qed.

(* Outer (class 11): by_name -> Entry 13, oneof pick = {a, c}, od optional, rs repeated Inner (class 12), ts Timestamp,
   bv BoolValue, colors -> Entry 14 *)
Lemma S_ok_outer :
  map (fun f => (fnum f, fty f, fhint f, fgroup f, fentry f)) (cfields (get_class S_ok 11)) =
  [(1, TMap, HDict PyStr (PyMsg 12), None, 13%nat); (2, TInt32, HPlain PyInt, Some 0%nat, 0%nat);
   (3, TEnum, HPlain (PyEnum 0), Some 0%nat, 0%nat); (4, TDouble, HOptional PyFloat, None, 0%nat);
   (5, TMessage, HList (PyMsg 12), None, 0%nat); (6, TMessage, HPlain PyDatetime, None, 0%nat);
   (7, TMessage, HOptional PyBool, None, 0%nat); (8, TMap, HDict PyInt (PyEnum 0), None, 14%nat)].
Proof. vm_compute. reflexivity. Qed.

(* a value of the generated Outer class that uses the map of messages, the oneof (enum member NEG = -1 selected), the
   optional, the repeated field, the Timestamp, the wrapper and the enum-valued map *)
Definition ok_inner : obj := Obj 12 [PPlaceholder; PInt 0] true [] [].
Definition ok_outer : obj :=
  Obj 11 [PDict [(PStr [x6b], PMsg ok_inner)]; PPlaceholder; PInt (-1); PFloat 4609434218613702656;
          PList [PMsg ok_inner; PMsg ok_inner]; PDatetime 1500000; PBool true; PDict [(PInt 5, PInt (-1))]]
      true [] [Some 2%nat].
Lemma ok_outer_value :
  c01_value_ok S_ok ok_outer = true /\ deep nan_free (PMsg ok_outer) = true /\ c01_holds S_ok ok_outer = true
  /\ match enc_obj S_ok ok_outer with Ok bs => (30 < List.length bs)%nat | Err _ => False end.
Proof. vm_compute. repeat split; reflexivity || lia || (repeat constructor). Qed.

(* ---- where the bridge condition cannot be dropped: protoc accepts the file, the plugin compiles it as the
        specification says, but the generated schema is outside wf_schema ---- *)
Definition gen_not_wf (D : descriptor) : Prop :=
  protoc_wf D = true /\ names_ok w_field_name w_class_name w_member_name D = true /\ bridge_ok D = false
  /\ exists t, class_table_of w_field_name w_class_name w_member_name D = Some t
               /\ reflect (compile w_field_name w_class_name w_member_name D) = Ok t
               /\ table_ok t = false /\ wf_schema (schema_of_table t) = false.

Definition table_of (D : descriptor) : class_table :=
  match class_table_of w_field_name w_class_name w_member_name D with Some t => t | None => [] end.
Definition T_map_wrapper : class_table := Eval vm_compute in table_of D_map_wrapper.
Definition T_rep_wrapper : class_table := Eval vm_compute in table_of D_rep_wrapper.
Definition T_any : class_table := Eval vm_compute in table_of D_any.

Lemma map_wrapper_value_not_wf : gen_not_wf D_map_wrapper.
Proof. unfold gen_not_wf. split; [|split; [|split; [|exists T_map_wrapper; repeat split]]]; vm_compute; reflexivity. Qed.
Lemma rep_wrapper_not_wf : gen_not_wf D_rep_wrapper.
Proof. unfold gen_not_wf. split; [|split; [|split; [|exists T_rep_wrapper; repeat split]]]; vm_compute; reflexivity. Qed.
Lemma any_ref_not_wf : gen_not_wf D_any.
Proof. unfold gen_not_wf. split; [|split; [|split; [|exists T_any; repeat split]]]; vm_compute; reflexivity. Qed.
