(* Proofs about Model/Grpc.v: the generated stub and the generated server base agree. *)
From Coq Require Import ZArith List Bool Lia.
From BP Require Import Base.Prelude Model.Grpc Proofs.BytesP.
From BP Require gen.C11Tables.

(* ------------------------------------------------------------------------- strings *)
Lemma str_eqb_eq a b : str_eqb a b = true <-> a = b.
Proof. exact (bytes_eqb_eq a b). Qed.

Lemma str_eqb_refl a : str_eqb a a = true.
Proof. apply str_eqb_eq. reflexivity. Qed.

Lemma str_eqb_neq a b : a <> b -> str_eqb a b = false.
Proof.
  intros Hne. destruct (str_eqb a b) eqn:E; [|reflexivity].
  apply str_eqb_eq in E. contradiction.
Qed.

(* ------------------------------------------------------------------------- last-definition-wins lookup *)
Section AssocMap.
  Context {A B : Type} (k : A -> str) (v : A -> B).

  Lemma assoc_last_notin l key :
    ~ In key (map k l) -> assoc_last (map (fun x => (k x, v x)) l) key = None.
  Proof.
    induction l as [|a l IH]; cbn [map assoc_last In]; intros Hn; [reflexivity|].
    rewrite IH by tauto.
    destruct (str_eqb (k a) key) eqn:E; [|reflexivity].
    apply str_eqb_eq in E. tauto.
  Qed.

  Lemma assoc_last_some l key b :
    assoc_last (map (fun x => (k x, v x)) l) key = Some b ->
    exists x, In x l /\ k x = key /\ v x = b.
  Proof.
    induction l as [|a l IH]; cbn [map assoc_last In]; [discriminate|].
    destruct (assoc_last (map (fun x => (k x, v x)) l) key) as [b'|] eqn:E.
    - intros [= <-]. destruct (IH eq_refl) as (x & Hx & Hk & Hv). exists x. auto.
    - destruct (str_eqb (k a) key) eqn:E2; [|discriminate].
      intros [= <-]. apply str_eqb_eq in E2. exists a. auto.
  Qed.

  Lemma assoc_last_none l key :
    assoc_last (map (fun x => (k x, v x)) l) key = None -> ~ In key (map k l).
  Proof.
    induction l as [|a l IH]; cbn [map assoc_last In]; [tauto|].
    destruct (assoc_last (map (fun x => (k x, v x)) l) key) as [b'|] eqn:E; [discriminate|].
    destruct (str_eqb (k a) key) eqn:E2; [discriminate|].
    intros _ [H|H].
    - subst key. rewrite str_eqb_refl in E2. discriminate.
    - apply IH; auto.
  Qed.

  Lemma assoc_last_nodup l x :
    NoDup (map k l) -> In x l -> assoc_last (map (fun x => (k x, v x)) l) (k x) = Some (v x).
  Proof.
    induction l as [|a l IH]; cbn [map assoc_last In]; intros ND HI; [contradiction|].
    inversion ND as [|? ? Hna NDl]; subst.
    destruct HI as [->|HI].
    - rewrite assoc_last_notin by assumption. rewrite str_eqb_refl. reflexivity.
    - rewrite (IH NDl HI). reflexivity.
  Qed.

  (* the exact side condition: every element finds its own definition iff the keys are distinct *)
  Lemma assoc_last_exact l :
    (forall x y, In x l -> In y l -> v x = v y -> x = y) -> NoDup l ->
    (forall x, In x l -> assoc_last (map (fun x => (k x, v x)) l) (k x) = Some (v x)) ->
    NoDup (map k l).
  Proof.
    induction l as [|a l IH]; cbn [map]; intros Inj ND H; [constructor|].
    inversion ND as [|? ? Hna NDl]; subst. constructor.
    - intros Hin.
      pose proof (H a (or_introl eq_refl)) as Ha. cbn [map assoc_last] in Ha.
      destruct (assoc_last (map (fun x => (k x, v x)) l) (k a)) as [b|] eqn:E.
      + apply assoc_last_some in E. destruct E as (x & Hx & _ & Hv).
        injection Ha as Hb. rewrite Hb in Hv.
        assert (x = a) by (apply Inj; [right; exact Hx | left; reflexivity | exact Hv]).
        subst x. contradiction.
      + apply assoc_last_none in E. contradiction.
    - apply IH; [intros x y Hx Hy; apply Inj; right; assumption | exact NDl |].
      intros x Hx. pose proof (H x (or_intror Hx)) as Hx'. cbn [map assoc_last] in Hx'.
      destruct (assoc_last (map (fun x => (k x, v x)) l) (k x)) as [b|] eqn:E; [exact Hx'|].
      apply assoc_last_none in E. exfalso. apply E. apply in_map. exact Hx.
  Qed.
  Lemma assoc_last_app l1 l2 key :
    assoc_last (map (fun x => (k x, v x)) (l1 ++ l2)) key =
    match assoc_last (map (fun x => (k x, v x)) l2) key with
    | Some b => Some b
    | None => assoc_last (map (fun x => (k x, v x)) l1) key
    end.
  Proof.
    induction l1 as [|a l1 IH]; cbn [app map assoc_last].
    - destruct (assoc_last (map (fun x => (k x, v x)) l2) key); reflexivity.
    - rewrite IH. destruct (assoc_last (map (fun x => (k x, v x)) l2) key); reflexivity.
  Qed.

  (* the LAST element with a given key owns it *)
  Lemma assoc_last_owner l1 x l2 :
    ~ In (k x) (map k l2) ->
    assoc_last (map (fun x => (k x, v x)) (l1 ++ x :: l2)) (k x) = Some (v x).
  Proof.
    intros Hn. rewrite assoc_last_app. cbn [map assoc_last].
    rewrite (assoc_last_notin l2 (k x) Hn), str_eqb_refl. reflexivity.
  Qed.

  Lemma assoc_last_shadowed l1 x l2 b :
    In (k x) (map k l2) ->
    assoc_last (map (fun x => (k x, v x)) (l1 ++ x :: l2)) (k x) = Some b ->
    exists y, In y l2 /\ k y = k x /\ v y = b.
  Proof.
    intros Hin. rewrite assoc_last_app. cbn [map assoc_last].
    destruct (assoc_last (map (fun x => (k x, v x)) l2) (k x)) as [b'|] eqn:E.
    - intros [= <-]. exact (assoc_last_some l2 (k x) b' E).
    - apply assoc_last_none in E. contradiction.
  Qed.
End AssocMap.

Lemma NoDup_map_inj {A B} (f : A -> B) l x y :
  NoDup (map f l) -> In x l -> In y l -> f x = f y -> x = y.
Proof.
  induction l as [|a l IH]; cbn [map In]; intros ND Hx Hy E; [contradiction|].
  inversion ND as [|? ? Hna NDl]; subst.
  destruct Hx as [->|Hx], Hy as [->|Hy].
  - reflexivity.
  - exfalso. apply Hna. rewrite E. apply in_map. exact Hy.
  - exfalso. apply Hna. rewrite <- E. apply in_map. exact Hx.
  - apply IH; assumption.
Qed.

Lemma NoDup_map_NoDup {A B} (f : A -> B) l : NoDup (map f l) -> NoDup l.
Proof.
  induction l as [|a l IH]; cbn [map]; intros ND; [constructor|].
  inversion ND as [|? ? Hna NDl]; subst. constructor; [|auto].
  intros Hin. apply Hna. apply in_map. exact Hin.
Qed.

(* ------------------------------------------------------------------------- routes *)
Lemma route_inj svc m m' : route svc m = route svc m' -> m_name m = m_name m'.
Proof. unfold route. apply app_inv_head. Qed.

Lemma routes_nodup svc l : NoDup (map m_name l) -> NoDup (map (route svc) l).
Proof.
  induction l as [|a l IH]; cbn [map]; intros ND; [constructor|].
  inversion ND as [|? ? Hna NDl]; subst. constructor; [|auto].
  intros Hin. apply in_map_iff in Hin. destruct Hin as (x & E & Hx).
  apply Hna. apply route_inj in E. rewrite <- E. apply in_map. exact Hx.
Qed.

Definition names_distinct (svc : service) : Prop := NoDup (map m_name (s_methods svc)).
Definition pynames_distinct (svc : service) : Prop := NoDup (map m_py (s_methods svc)).

(* ------------------------------------------------------------------------- the two template sites *)
Definition handler_entry_of (m : method) : handler_entry :=
  HEntry (m_py m) (mapping_card m) (m_in m) (m_out m).

Lemma stub_lookup svc m :
  pynames_distinct svc -> In m (s_methods svc) ->
  assoc_last (stub_class svc) (m_py m) = Some (stub_method svc m).
Proof. intros ND Hin. unfold stub_class. apply (assoc_last_nodup m_py (stub_method svc)); assumption. Qed.

Lemma dispatch_own svc m :
  names_distinct svc -> In m (s_methods svc) ->
  dispatch (mapping svc) (route svc m) = Some (handler_entry_of m).
Proof.
  intros ND Hin. unfold dispatch, mapping, mapping_entry.
  apply (assoc_last_nodup (route svc) handler_entry_of); [apply routes_nodup; exact ND | exact Hin].
Qed.

Lemma dispatch_unknown svc r :
  (forall m, In m (s_methods svc) -> route svc m <> r) -> dispatch (mapping svc) r = None.
Proof.
  intros H. unfold dispatch, mapping, mapping_entry.
  apply (assoc_last_notin (route svc) handler_entry_of).
  intros Hin. apply in_map_iff in Hin. destruct Hin as (x & E & Hx). exact (H x Hx E).
Qed.

(* "exactly that one": no other RPC's route reaches this entry, and this route reaches no other entry *)
Lemma dispatch_only svc m m' :
  names_distinct svc -> In m (s_methods svc) -> In m' (s_methods svc) ->
  dispatch (mapping svc) (route svc m') = Some (handler_entry_of m) -> pynames_distinct svc -> m' = m.
Proof.
  intros ND Hin Hin' H NDp. rewrite (dispatch_own svc m' ND Hin') in H.
  injection H as Hpy _ _ _.
  apply (NoDup_map_inj m_py (s_methods svc)); assumption.
Qed.

Lemma adapter_lookup svc m :
  pynames_distinct svc -> In m (s_methods svc) ->
  assoc_last (base_adapters svc) (m_py m) = Some (m_cs m, m_ss m).
Proof. intros ND Hin. unfold base_adapters. apply (assoc_last_nodup m_py (fun m => (m_cs m, m_ss m))); assumption. Qed.

Lemma default_lookup svc m :
  pynames_distinct svc -> In m (s_methods svc) ->
  assoc_last (base_defaults svc) (m_py m) = Some (m_ss m).
Proof. intros ND Hin. unfold base_defaults. apply (assoc_last_nodup m_py m_ss); assumption. Qed.

(* m is the LAST method of the service with its Python name: its `def`s are the ones that survive *)
Definition owns (svc : service) (m : method) : Prop :=
  exists l1 l2, s_methods svc = l1 ++ m :: l2 /\ ~ In (m_py m) (map m_py l2).

Lemma owns_in svc m : owns svc m -> In m (s_methods svc).
Proof. intros (l1 & l2 & E & _). rewrite E. apply in_or_app. right. left. reflexivity. Qed.

Lemma distinct_owns svc m : pynames_distinct svc -> In m (s_methods svc) -> owns svc m.
Proof.
  unfold pynames_distinct. intros ND Hin. apply in_split in Hin. destruct Hin as (l1 & l2 & E).
  exists l1, l2. split; [exact E|]. rewrite E, map_app in ND. cbn [map] in ND.
  apply NoDup_remove_2 in ND. intros H. apply ND. apply in_or_app. right. exact H.
Qed.

Lemma stub_lookup_owns svc m : owns svc m -> assoc_last (stub_class svc) (m_py m) = Some (stub_method svc m).
Proof.
  intros (l1 & l2 & E & Hn). unfold stub_class. rewrite E.
  apply (assoc_last_owner m_py (stub_method svc)). exact Hn.
Qed.

Lemma adapter_lookup_owns svc m : owns svc m -> assoc_last (base_adapters svc) (m_py m) = Some (m_cs m, m_ss m).
Proof.
  intros (l1 & l2 & E & Hn). unfold base_adapters. rewrite E.
  apply (assoc_last_owner m_py (fun m => (m_cs m, m_ss m))). exact Hn.
Qed.

Lemma default_lookup_owns svc m : owns svc m -> assoc_last (base_defaults svc) (m_py m) = Some (m_ss m).
Proof.
  intros (l1 & l2 & E & Hn). unfold base_defaults. rewrite E.
  apply (assoc_last_owner m_py m_ss). exact Hn.
Qed.

(* every entry of the mapping names an adapter and a method body that exist (the `_, _` arm of [serve] is dead) *)
Lemma mapping_adapter_defined svc r e :
  dispatch (mapping svc) r = Some e ->
  exists f b, assoc_last (base_adapters svc) (h_rpc e) = Some f /\ assoc_last (base_defaults svc) (h_rpc e) = Some b.
Proof.
  unfold dispatch, mapping, mapping_entry. intros H.
  apply (assoc_last_some (route svc) handler_entry_of) in H. destruct H as (x & Hx & _ & <-).
  cbn [handler_entry_of h_rpc].
  destruct (assoc_last (base_adapters svc) (m_py x)) as [f|] eqn:E1.
  - destruct (assoc_last (base_defaults svc) (m_py x)) as [b|] eqn:E2; [eauto|].
    unfold base_defaults in E2. apply (assoc_last_none m_py m_ss) in E2.
    exfalso. apply E2. apply in_map. exact Hx.
  - unfold base_adapters in E1. apply (assoc_last_none m_py (fun m => (m_cs m, m_ss m))) in E1.
    exfalso. apply E1. apply in_map. exact Hx.
Qed.

Lemma stub_method_inj svc l x y :
  NoDup (map m_name l) -> In x l -> In y l -> stub_method svc x = stub_method svc y -> x = y.
Proof.
  intros ND Hx Hy E.
  assert (Hr : route svc x = route svc y)
    by (change (sd_route (stub_method svc x) = sd_route (stub_method svc y)); rewrite E; reflexivity).
  apply route_inj in Hr. apply (NoDup_map_inj m_name l); assumption.
Qed.

(* the exact condition on Python names *)
Lemma stub_lookup_exact svc :
  names_distinct svc ->
  ((forall m, In m (s_methods svc) -> assoc_last (stub_class svc) (m_py m) = Some (stub_method svc m))
   <-> pynames_distinct svc).
Proof.
  intros ND. split.
  - intros H. unfold pynames_distinct. unfold stub_class in H.
    apply (assoc_last_exact m_py (stub_method svc)).
    + intros x y Hx Hy. apply stub_method_inj with (l := s_methods svc); assumption.
    + exact (NoDup_map_NoDup m_name _ ND).
    + exact H.
  - intros NDp m Hin. apply stub_lookup; assumption.
Qed.

(* ------------------------------------------------------------------------- cardinalities *)
Lemma cardinality_agree m :
  helper_card (stub_helper m) = mapping_card m /\
  card_cs (mapping_card m) = m_cs m /\ card_ss (mapping_card m) = m_ss m /\
  helper_takes_iterator (stub_helper m) = m_cs m /\ helper_returns_iterator (stub_helper m) = m_ss m.
Proof.
  unfold stub_helper, mapping_card. destruct (m_cs m), (m_ss m); cbn; repeat split; reflexivity.
Qed.

Lemma cardinality_four :
  forall cs ss n p i o, let m := Method n p cs ss i o in
  helper_card (stub_helper m) = mapping_card m /\
  mapping_card m = (if cs then (if ss then STREAM_STREAM else STREAM_UNARY)
                    else (if ss then UNARY_STREAM else UNARY_UNARY)).
Proof. intros [] [] n p i o; cbn; split; reflexivity. Qed.

(* ------------------------------------------------------------------------- kwargs *)
Lemma resolve1_spec {A} (s c : option A) :
  (forall x, c = Some x -> resolve1 s c = Some x) /\ (c = None -> resolve1 s c = s).
Proof. split; [intros x ->; reflexivity | intros ->; reflexivity]. Qed.

Lemma resolve1_falsy (A : Type) (falsy : A) (s : option A) :
  resolve1 s (Some falsy) = Some falsy /\ resolve1 s None = s.
Proof. split; reflexivity. Qed.

Definition orelse {A} (c s : option A) : option A := match c with Some x => Some x | None => s end.

Lemma resolve_kwargs_spec st sd sm ct cd cm :
  resolve_kwargs (Kw st sd sm) (Kw ct cd cm) = Kw (orelse ct st) (orelse cd sd) (orelse cm sm).
Proof. destruct ct, cd, cm; reflexivity. Qed.

(* ------------------------------------------------------------------------- payload *)
Definition typed (t : str) (ms : list msg) : Prop := Forall (fun r => fst r = t) ms.

Lemma encode_all_typed t ms : typed t ms -> encode_all t ms = Some (map snd ms).
Proof.
  induction 1 as [|r ms Hr _ IH]; cbn [encode_all map]; [reflexivity|].
  rewrite Hr, str_eqb_refl, IH. reflexivity.
Qed.

Lemma decode_encode t ms : typed t ms -> map (decode_as t) (map snd ms) = ms.
Proof.
  induction 1 as [|r ms Hr _ IH]; cbn [map]; [reflexivity|].
  rewrite IH. unfold decode_as. destruct r as [ty b]. cbn in Hr. subst. reflexivity.
Qed.

Lemma send_all_stream out ys st sent : typed out ys -> send_all false sent out ys st = (ys, st).
Proof.
  intros H. revert sent. induction H as [|y ys Hy _ IH]; intros sent; cbn [send_all andb]; [reflexivity|].
  rewrite Hy, str_eqb_refl, IH. reflexivity.
Qed.

Lemma send_all_single_one out y : fst y = out -> send_all true false out [y] None = ([y], None).
Proof. intros H. cbn [send_all andb negb]. rewrite H, str_eqb_refl. reflexivity. Qed.

Lemma send_all_single_err out s : send_all true false out [] (Some s) = ([], Some s).
Proof. reflexivity. Qed.

(* the call argument a caller is supposed to give for method m *)
Definition arg_ok (m : method) (a : carg) : Prop :=
  match a with
  | ArgOne r => m_cs m = false /\ fst r = m_in m
  | ArgIter rs => m_cs m = true /\ typed (m_in m) rs
  end.

Definition hin_of (a : carg) : hinput :=
  match a with ArgOne r => InOne (Some r) | ArgIter rs => InMany rs end.

(* the response stream and final status a handler body produces.  A body without `yield` under a
   server-streaming method produces no messages (its return value is not a response). *)
Definition produced (ss : bool) (h : hbody) (inp : hinput) : list msg * option Z :=
  match h with
  | HGen f => f inp
  | HCoro f => match f inp with
               | RetMsg y => (if ss then [] else [y], None)
               | RetNone => ([], None)
               | Raise1 s => ([], Some s)
               end
  end.

(* the handler is of a kind the adapter can drive and answers with the declared class *)
Definition handler_ok (m : method) (h : hbody) (inp : hinput) : Prop :=
  typed (m_out m) (fst (produced (m_ss m) h inp)) /\
  (m_ss m = false -> exists f, h = HCoro f /\ f inp <> RetNone).

Definition expected_obs (svc : service) (m : method) (skw ckw : kw) (a : carg) (p : list msg * option Z) : observation :=
  Obs (RInfo (route svc m) (mapping_card m) (m_in m) (m_out m) (resolve_kwargs skw ckw))
      [(m_py m, hin_of a)]
      (CRes (fst p) (end_of (snd p))).

Lemma serve_own svc im m h bs :
  names_distinct svc -> owns svc m ->
  resolve_handler svc im (m_py m) = Some h ->
  serve svc im (route svc m) bs =
    let '(tr, ys, st) := run_adapter (m_ss m) (m_py m) h (adapter_input (m_cs m) (map (decode_as (m_in m)) bs)) in
    let '(sent, st') := send_all (negb (m_ss m)) false (m_out m) ys st in
    SOut tr (map snd sent) st'.
Proof.
  intros ND Hown Hh. unfold serve.
  rewrite (dispatch_own svc m ND (owns_in svc m Hown)). cbn [handler_entry_of h_rpc h_card h_in h_out].
  rewrite (adapter_lookup_owns svc m Hown), Hh.
  destruct (cardinality_agree m) as (_ & _ & -> & _). reflexivity.
Qed.

Lemma adapter_input_arg m a :
  arg_ok m a ->
  adapter_input (m_cs m)
    (map (decode_as (m_in m)) (match a with ArgOne r => [snd r] | ArgIter rs => map snd rs end)) = hin_of a.
Proof.
  destruct a as [r|rs]; cbn [arg_ok hin_of]; intros [Hcs Ht]; rewrite Hcs; cbn [adapter_input].
  - cbn [map hd_error]. unfold decode_as. destruct r as [ty b]. cbn in Ht. subst. reflexivity.
  - rewrite decode_encode by assumption. reflexivity.
Qed.

(* server + client halves for a handler that is [handler_ok] *)
Lemma run_and_send m h inp :
  handler_ok m h inp ->
  let p := produced (m_ss m) h inp in
  (let '(tr, ys, st) := run_adapter (m_ss m) (m_py m) h inp in
   let '(sent, st') := send_all (negb (m_ss m)) false (m_out m) ys st in
   SOut tr (map snd sent) st')
  = SOut [(m_py m, inp)] (map snd (fst p)) (snd p)
  /\ (m_ss m = false -> (exists y, p = ([y], None)) \/ (exists s, p = ([], Some s))).
Proof.
  intros [Hty Hkind]. unfold produced in *. unfold run_adapter.
  destruct (m_ss m) eqn:Ess.
  - (* server streaming *)
    split; [|discriminate].
    destruct h as [f|f].
    + destruct (f inp) as [y| |s]; cbn [negb send_all andb fst snd map]; reflexivity.
    + destruct (f inp) as [ys st] eqn:Ef. cbn [fst] in Hty. cbn [negb].
      rewrite send_all_stream by assumption. reflexivity.
  - destruct (Hkind eq_refl) as (f & -> & Hnn).
    destruct (f inp) as [y| |s] eqn:Ef; [| contradiction |].
    + cbn [fst] in Hty. inversion Hty as [|? ? Hy _]; subst.
      cbn [negb]. rewrite send_all_single_one by assumption.
      split; [reflexivity | intros _; left; eauto].
    + cbn [negb]. rewrite send_all_single_err.
      split; [reflexivity | intros _; right; eauto].
Qed.

Lemma client_recv_ok m (p : list msg * option Z) tr :
  typed (m_out m) (fst p) ->
  (m_ss m = false -> (exists y, p = ([y], None)) \/ (exists s, p = ([], Some s))) ->
  client_recv (stub_helper m) (m_out m) (SOut tr (map snd (fst p)) (snd p)) = CRes (fst p) (end_of (snd p)).
Proof.
  intros Hty Hshape. unfold client_recv. cbn [so_wire so_status].
  destruct (cardinality_agree m) as (_ & _ & _ & _ & ->).
  rewrite decode_encode by assumption.
  destruct (m_ss m); [reflexivity|].
  destruct (Hshape eq_refl) as [(y & ->)|(s & ->)]; reflexivity.
Qed.

Theorem call_reaches_handler svc im skw ckw m h a :
  names_distinct svc -> owns svc m ->
  resolve_handler svc im (m_py m) = Some h ->
  arg_ok m a -> handler_ok m h (hin_of a) ->
  call svc im skw (m_py m) a ckw =
    Some (expected_obs svc m skw ckw a (produced (m_ss m) h (hin_of a))).
Proof.
  intros ND Hown Hh Harg Hok. unfold call.
  rewrite (stub_lookup_owns svc m Hown). cbn [stub_method sd_helper sd_route sd_in sd_out].
  destruct (cardinality_agree m) as (Hcard & _ & _ & Htakes & _).
  rewrite Htakes, Hcard.
  pose proof (adapter_input_arg m a Harg) as Hinp.
  destruct (run_and_send m h (hin_of a) Hok) as [Hserve Hshape].
  destruct Hok as [Hty _].
  destruct a as [r|rs]; cbn [arg_ok] in Harg; destruct Harg as [Hcs Ht]; rewrite Hcs.
  - rewrite (serve_own svc im m h [snd r] ND Hown Hh).
    cbn [hin_of] in *. rewrite Hinp, Hserve. cbn [so_trace].
    rewrite (client_recv_ok m _ _ Hty Hshape). rewrite Ht. reflexivity.
  - rewrite (encode_all_typed _ _ Ht).
    rewrite (serve_own svc im m h (map snd rs) ND Hown Hh).
    cbn [hin_of] in *. rewrite Hinp, Hserve. cbn [so_trace].
    rewrite (client_recv_ok m _ _ Hty Hshape). reflexivity.
Qed.

(* user handler installed; m only has to be the last method with its Python name *)
Corollary payload_owner svc im skw ckw m h a :
  names_distinct svc -> owns svc m ->
  im (m_py m) = Some h -> arg_ok m a -> handler_ok m h (hin_of a) ->
  call svc im skw (m_py m) a ckw =
    Some (expected_obs svc m skw ckw a (produced (m_ss m) h (hin_of a))).
Proof.
  intros ND Hown Him. apply call_reaches_handler; try assumption.
  unfold resolve_handler. rewrite Him. reflexivity.
Qed.

Corollary payload svc im skw ckw m h a :
  names_distinct svc -> pynames_distinct svc -> In m (s_methods svc) ->
  im (m_py m) = Some h -> arg_ok m a -> handler_ok m h (hin_of a) ->
  call svc im skw (m_py m) a ckw =
    Some (expected_obs svc m skw ckw a (produced (m_ss m) h (hin_of a))).
Proof. intros ND NDp Hin. apply payload_owner; [exact ND | apply distinct_owns; assumption]. Qed.

(* method not overridden *)
Lemma default_ok m inp : handler_ok m (default_body (m_ss m)) inp.
Proof.
  unfold handler_ok, default_body, produced. destruct (m_ss m); cbn [fst]; split; try constructor.
  - discriminate.
  - intros _. eexists. split; [reflexivity | discriminate].
Qed.

Lemma default_produced m inp : produced (m_ss m) (default_body (m_ss m)) inp = ([], Some ST_UNIMPLEMENTED).
Proof. unfold default_body, produced. destruct (m_ss m); reflexivity. Qed.

Corollary unimplemented_owner svc im skw ckw m a :
  names_distinct svc -> owns svc m ->
  im (m_py m) = None -> arg_ok m a ->
  call svc im skw (m_py m) a ckw = Some (expected_obs svc m skw ckw a ([], Some ST_UNIMPLEMENTED)).
Proof.
  intros ND Hown Him Harg.
  rewrite <- (default_produced m (hin_of a)).
  apply call_reaches_handler; try assumption; [|apply default_ok].
  unfold resolve_handler. rewrite Him, (default_lookup_owns svc m Hown). reflexivity.
Qed.

Corollary unimplemented svc im skw ckw m a :
  names_distinct svc -> pynames_distinct svc -> In m (s_methods svc) ->
  im (m_py m) = None -> arg_ok m a ->
  call svc im skw (m_py m) a ckw = Some (expected_obs svc m skw ckw a ([], Some ST_UNIMPLEMENTED)).
Proof. intros ND NDp Hin. apply unimplemented_owner; [exact ND | apply distinct_owns; assumption]. Qed.

(* the exact per-method condition: the stub attribute named after m is m's stub method iff m is the
   last method with that Python name *)
Lemma stub_attr_iff_owns svc m :
  names_distinct svc -> In m (s_methods svc) ->
  (assoc_last (stub_class svc) (m_py m) = Some (stub_method svc m) <-> owns svc m).
Proof.
  intros ND Hin. split; [|apply stub_lookup_owns].
  intros H. pose proof Hin as Hsplit. apply in_split in Hsplit. destruct Hsplit as (l1 & l2 & E).
  exists l1, l2. split; [exact E|]. intros Hshadow.
  unfold stub_class in H. rewrite E in H.
  apply (assoc_last_shadowed m_py (stub_method svc) l1 m l2 _ Hshadow) in H.
  destruct H as (y & Hy & _ & Hv).
  assert (Hyin : In y (s_methods svc)) by (rewrite E; apply in_or_app; right; right; exact Hy).
  assert (y = m) by (apply (stub_method_inj svc (s_methods svc)); assumption).
  subst y.
  pose proof (NoDup_map_NoDup m_name _ ND) as NDl. rewrite E in NDl.
  apply NoDup_remove_2 in NDl. apply NDl. apply in_or_app. right. exact Hy.
Qed.

(* server side alone, for ANY client that opens m's route (not only the generated stub) *)
Lemma server_side svc im m h reqs :
  names_distinct svc -> owns svc m -> im (m_py m) = Some h ->
  typed (m_in m) reqs ->
  handler_ok m h (adapter_input (m_cs m) reqs) ->
  let p := produced (m_ss m) h (adapter_input (m_cs m) reqs) in
  serve svc im (route svc m) (map snd reqs) =
    SOut [(m_py m, adapter_input (m_cs m) reqs)] (map snd (fst p)) (snd p).
Proof.
  intros ND Hown Him Hty Hok p.
  rewrite (serve_own svc im m h (map snd reqs) ND Hown) by (unfold resolve_handler; rewrite Him; reflexivity).
  rewrite decode_encode by assumption.
  destruct (run_and_send m h _ Hok) as [Hs _]. exact Hs.
Qed.

Lemma unknown_route svc im r bs :
  (forall m, In m (s_methods svc) -> route svc m <> r) ->
  serve svc im r bs = SOut [] [] (Some ST_UNIMPLEMENTED).
Proof. intros H. unfold serve. rewrite (dispatch_unknown svc r H). reflexivity. Qed.

Corollary error_status svc im skw ckw m h a ys s :
  names_distinct svc -> pynames_distinct svc -> In m (s_methods svc) ->
  im (m_py m) = Some h -> arg_ok m a -> handler_ok m h (hin_of a) ->
  produced (m_ss m) h (hin_of a) = (ys, Some s) ->
  exists o, call svc im skw (m_py m) a ckw = Some o /\
            ob_res o = CRes ys (CGrpc s) /\ ob_trace o = [(m_py m, hin_of a)].
Proof.
  intros ND NDp Hin Him Harg Hok Hp. eexists. split; [apply payload; eassumption|].
  rewrite Hp. split; reflexivity.
Qed.

(* whatever the call, the keyword arguments that reach channel.request are the resolved ones *)
Lemma call_kwargs svc im skw py a ckw o :
  call svc im skw py a ckw = Some o -> ri_kw (ob_req o) = resolve_kwargs skw ckw.
Proof.
  unfold call. destruct (assoc_last (stub_class svc) py) as [d|]; [|discriminate].
  destruct (helper_takes_iterator (sd_helper d)), a as [r|rs]; try discriminate.
  - destruct (encode_all (sd_in d) rs); intros [= <-]; reflexivity.
  - intros [= <-]. reflexivity.
Qed.

Lemma routes_agree svc m :
  names_distinct svc -> pynames_distinct svc -> In m (s_methods svc) ->
  assoc_last (stub_class svc) (m_py m) = Some (stub_method svc m) /\
  dispatch (mapping svc) (sd_route (stub_method svc m)) = Some (handler_entry_of m) /\
  assoc_last (base_adapters svc) (h_rpc (handler_entry_of m)) = Some (m_cs m, m_ss m) /\
  (forall m', In m' (s_methods svc) ->
     dispatch (mapping svc) (route svc m') = Some (handler_entry_of m) -> m' = m).
Proof.
  intros ND NDp Hin. split; [apply stub_lookup; assumption|].
  split; [apply dispatch_own; assumption|].
  split; [apply adapter_lookup; assumption|].
  intros m' Hin' H. apply (dispatch_only svc m m'); assumption.
Qed.

(* decidable NoDup on strings, for the examples *)
Fixpoint str_mem (x : str) (l : list str) : bool :=
  match l with [] => false | y :: r => str_eqb y x || str_mem x r end.
Fixpoint nodup_strs (l : list str) : bool :=
  match l with [] => true | x :: r => negb (str_mem x r) && nodup_strs r end.

Lemma str_mem_in x l : str_mem x l = false -> ~ In x l.
Proof.
  induction l as [|y r IH]; cbn [str_mem In]; [tauto|].
  intros H. apply orb_false_iff in H. destruct H as [H1 H2]. intros [E|E].
  - subst y. rewrite str_eqb_refl in H1. discriminate.
  - exact (IH H2 E).
Qed.

Lemma nodup_strs_ok l : nodup_strs l = true -> NoDup l.
Proof.
  induction l as [|x r IH]; cbn [nodup_strs]; intros H; [constructor|].
  apply andb_true_iff in H. destruct H as [H1 H2]. constructor; [|auto].
  apply str_mem_in. destruct (str_mem x r); [discriminate | reflexivity].
Qed.

(* ------------------------------------------------------------------------- witnesses *)
Definition b (s : list byte) := s.
Definition n_GetFoo : str := [x47; x65; x74; x46; x6f; x6f].          (* GetFoo *)
Definition n_get_foo : str := [x67; x65; x74; x5f; x66; x6f; x6f].    (* get_foo *)
Definition t_In : str := [x2e; x70; x2e; x49; x6e].                    (* .p.In *)
Definition t_Out : str := [x2e; x70; x2e; x4f; x75; x74].              (* .p.Out *)
Definition m_GetFoo := Method n_GetFoo n_get_foo false false t_In t_Out.
Definition m_get_foo := Method n_get_foo n_get_foo false true t_In t_Out.
(* service S { rpc GetFoo (In) returns (Out); rpc get_foo (In) returns (stream Out); } in package p *)
Definition collide : service := Service [x70] [x53] [m_GetFoo; m_get_foo].
Definition kw0 := Kw None None None.
Definition a_msg : msg := (t_In, [x08; x01]).
Definition o_msg : msg := (t_Out, [x08; x02]).
(* the one Python method `get_foo` the user can write: answers GetFoo's contract (returns one Out) *)
Definition im_one : impl := fun _ => Some (HCoro (fun _ => RetMsg o_msg)).

Lemma collision_witness :
  names_distinct collide /\ In m_GetFoo (s_methods collide) /\
  arg_ok m_GetFoo (ArgOne a_msg) /\ handler_ok m_GetFoo (HCoro (fun _ => RetMsg o_msg)) (InOne (Some a_msg)) /\
  (* the stub attribute is the other RPC's stub method *)
  assoc_last (stub_class collide) (m_py m_GetFoo) = Some (stub_method collide m_get_foo) /\
  (* the mapping entry of GetFoo's own route runs the other RPC's adapter *)
  (exists e, dispatch (mapping collide) (route collide m_GetFoo) = Some e /\
             assoc_last (base_adapters collide) (h_rpc e) = Some (m_cs m_get_foo, m_ss m_get_foo)) /\
  (* and the caller of GetFoo does not get what the handler returned *)
  (exists o, call collide im_one kw0 (m_py m_GetFoo) (ArgOne a_msg) kw0 = Some o /\
             ri_route (ob_req o) = route collide m_get_foo /\
             ob_res o = CRes [] CDone /\
             o <> expected_obs collide m_GetFoo kw0 kw0 (ArgOne a_msg) ([o_msg], None)).
Proof.
  split; [|split; [|split; [|split; [|split; [|split]]]]].
  - unfold names_distinct. cbn. repeat constructor; cbn; intuition discriminate.
  - left. reflexivity.
  - split; reflexivity.
  - split; [cbn; repeat constructor | intros _; eexists; split; [reflexivity | discriminate]].
  - vm_compute. reflexivity.
  - eexists. split; vm_compute; reflexivity.
  - eexists. split; [vm_compute; reflexivity|]. split; [vm_compute; reflexivity|].
    split; [vm_compute; reflexivity|]. vm_compute. discriminate.
Qed.

(* ------------------------------------------------------------------------- the pinned tree *)
(* ServiceBase._call_rpc_handler_server_stream as it is in the pinned tree: `response_iter.close()` *)
Definition run_adapter_pinned (ss : bool) (py : str) (h : hbody) (inp : hinput)
  : list (str * hinput) * list msg * option Z :=
  if ss then
    match h with
    | HGen f => let '(ys, st) := f inp in ([(py, inp)], ys, st)
    | HCoro _ => ([], [], None)
    end
  else run_adapter ss py h inp.

Lemma pinned_close_skips_handler :
  exists py inp s, run_adapter_pinned true py (HCoro (fun _ => Raise1 s)) inp = ([], [], None) /\
                   run_adapter true py (HCoro (fun _ => Raise1 s)) inp = ([(py, inp)], [], Some s) /\
                   s <> 0.
Proof. exists n_get_foo, (InOne (Some a_msg)), 7. repeat split. discriminate. Qed.

(* ------------------------------------------------------------------------- T1 tables *)
(* [tables_ok_of] (Model/Grpc.v) compares what reflection of the rendered probe shows with the model's
   functions; here it is applied to the regenerated tables *)
Definition tables_ok : bool :=
  tables_ok_of C11Tables.stub_sites C11Tables.helper_sites C11Tables.mapping_sites C11Tables.default_status
               C11Tables.status_unimplemented C11Tables.status_unknown
               C11Tables.probe_service C11Tables.probe_stub_routes C11Tables.probe_mapping_routes
               C11Tables.bare_service C11Tables.bare_mapping_route.

Lemma tables_agree : tables_ok = true.
Proof. vm_compute. reflexivity. Qed.
