(* C14 / commutation, part 1 - attribute reads and assignments respect [mat]: if o' is o with some lazily created
   defaults written back (e.g. o' = copy o, deepcopy o, o after any observers), then reading / assigning through any
   path on o' and on o gives related results and leaves states that are again related by [mat]. *)
From BP Require Import Base.Prelude Model.Types Model.Float Model.Object Model.Eq Model.Encode Model.Decode Model.History Model.C14Ops.
From BP Require Import Model.WellFormed Proofs.BytesP Proofs.C14Ind Proofs.C14Mat Proofs.C14Obs Proofs.C14Pres.
From BP Require Import Model.C08Step Proofs.C08CommuteP.
From Coq Require Import Lia.

Local Transparent getattr setattr.

(* ---- list facts ---- *)
Lemma set_nth_nth_id {A} (d : A) : forall l i, set_nth i (nth i l d) l = l.
Proof. induction l as [|a l IH]; intros [|i]; cbn [set_nth nth]; try reflexivity. rewrite IH. reflexivity. Qed.

Lemma mat_go_length sc : forall raw' raw fs, mat_go sc raw raw' fs = true -> length raw = length raw'.
Proof.
  induction raw' as [|x' r' IH]; intros [|x r] fs H; cbn [mat_go] in H; try discriminate H; [reflexivity|].
  cbn [length]. f_equal. destruct fs as [|f fs]; apply andb_true_iff in H as [_ H]; eapply IH; exact H.
Qed.

Lemma mat_go_set2 sc y y' : forall raw' raw fs i f,
  mat_go sc raw raw' fs = true -> nth_error fs i = Some f -> mat sc f y y' = true ->
  mat_go sc (set_nth i y raw) (set_nth i y' raw') fs = true.
Proof.
  induction raw' as [|x' r' IH]; intros [|x r] fs i f H Hf Hm; cbn [mat_go] in H; try discriminate H.
  - destruct i; reflexivity.
  - destruct fs as [|f0 fs]; [destruct i; discriminate Hf|].
    apply andb_true_iff in H as [H1 H2]. destruct i as [|i]; cbn [set_nth mat_go nth_error] in *.
    + inversion Hf; subst f0. rewrite Hm, H2. reflexivity.
    + rewrite H1. cbn [andb]. eapply IH; eassumption.
Qed.

Lemma mat_obj_mk sc c raw raw' sow unk cur :
  mat_obj sc (Obj c raw sow unk cur) (Obj c raw' sow unk cur) = mat_go sc raw raw' (cfields (get_class sc c)).
Proof.
  unfold mat_obj. rewrite mat_np by discriminate. cbn [mat_core].
  rewrite Nat.eqb_refl, eqb_reflx, bytes_eqb_refl, cur_same_refl. reflexivity.
Qed.

(* ---- results ---- *)
Definition res_obj_rel (sc : schema) (r r' : result obj) : Prop :=
  match r, r' with
  | Ok a, Ok b => mat_obj sc a b = true
  | Err e, Err e' => e = e'
  | _, _ => False
  end.

(* a message stays a message, anything else stays what it is not *)
Lemma mat_msg_shape sc f w w' :
  w <> PPlaceholder -> mat sc f w w' = true ->
  match w, w' with
  | PMsg ch, PMsg ch' => mat_obj sc ch ch' = true
  | PMsg _, _ | _, PMsg _ => False
  | _, _ => True
  end.
Proof.
  intros Hn Hm. pose proof Hm as Hi. apply mat_inv in Hi. rewrite (src_id sc f w Hn) in Hi.
  destruct Hi as [[Hv _]|[(c0 & raw0 & raw0' & sow0 & unk0 & cur0 & Hs & Hv' & Hg)|[(l0 & l0' & Hs & Hv' & Hg)|[(d0 & d0' & Hs & Hv' & Hg)|[Hs Hsc]]]]];
    subst; try exact I.
  - contradiction Hn; reflexivity.
  - rewrite <- (mat_msg_obj sc f). exact Hm.
  - destruct w'; try exact I; try contradiction Hsc.
Qed.

(* ---- __getattribute__ ---- *)
Lemma getattr_fst sc c raw sow unk cur i f :
  nth_error (cfields (get_class sc c)) i = Some f -> group_selects cur f i <> Some false ->
  fst (getattr sc (Obj c raw sow unk cur) i) = Obj c (set_nth i (src sc f (nth i raw PPlaceholder)) raw) sow unk cur.
Proof.
  intros Hf Hs. rewrite (getattr_eq sc c raw sow unk cur i f Hf).
  destruct (group_selects cur f i) as [[|]|]; [| congruence |].
  all: destruct (nth i raw PPlaceholder) eqn:Hx; cbn [fst src]; try reflexivity; rewrite <- Hx, set_nth_nth_id; reflexivity.
Qed.

Lemma getattr_fst_err sc c raw sow unk cur i :
  (nth_error (cfields (get_class sc c)) i = None \/
   exists f, nth_error (cfields (get_class sc c)) i = Some f /\ group_selects cur f i = Some false) ->
  getattr sc (Obj c raw sow unk cur) i = (Obj c raw sow unk cur, Err EAttribute).
Proof.
  intros [H|(f & Hf & Hs)]; unfold getattr; [rewrite H; reflexivity|]. rewrite Hf, Hs. reflexivity.
Qed.

Lemma getattr_sim sc o o' i :
  mat_obj sc o o' = true ->
  mat_obj sc (fst (getattr sc o i)) (fst (getattr sc o' i)) = true /\
  res_rel sc (snd (getattr sc o i)) (snd (getattr sc o' i)).
Proof.
  intros H. split; [|apply (read_mat sc o o' i H)].
  destruct (mat_obj_inv sc o o' H) as (c & raw & raw' & sow & unk & cur & -> & -> & Hg).
  destruct (nth_error (cfields (get_class sc c)) i) as [f|] eqn:Hf.
  2:{ rewrite !getattr_fst_err by (left; exact Hf). exact H. }
  destruct (group_selects cur f i) as [[|]|] eqn:Hs.
  2:{ rewrite !getattr_fst_err by (right; exists f; split; assumption). exact H. }
  all: rewrite !(getattr_fst sc c _ sow unk cur i f Hf) by (rewrite Hs; discriminate).
  all: rewrite mat_obj_mk; apply (mat_go_set2 sc _ _ raw' raw _ i f Hg Hf).
  all: apply mat_src_src; eapply mat_go_nth; eassumption.
Qed.

(* ---- __setattr__ ---- *)
Lemma mat_go_reset sc g i : forall fs raw raw' j,
  mat_go sc raw raw' fs = true -> mat_go sc (reset_from g i j fs raw) (reset_from g i j fs raw') fs = true.
Proof.
  induction fs as [|f fs IH]; intros raw raw' j H; [destruct raw, raw'; exact H|].
  destruct raw as [|x r], raw' as [|x' r']; cbn [mat_go] in H; try discriminate H; [reflexivity|].
  apply andb_true_iff in H as [H1 H2]. cbn [reset_from mat_go]. rewrite (IH r r' (S j) H2), andb_true_r.
  destruct (opt_nat_eqb (fgroup f) (Some g) && negb (Nat.eqb j i)); [reflexivity | exact H1].
Qed.

Lemma setattr_sim sc o o' i v :
  mat_obj sc o o' = true -> mat_obj sc (setattr sc o i v) (setattr sc o' i v) = true.
Proof.
  intros H. destruct (mat_obj_inv sc o o' H) as (c & raw & raw' & sow & unk & cur & -> & -> & Hg).
  rewrite !setattr_eq. destruct (nth_error (cfields (get_class sc c)) i) as [f|] eqn:Hf; [|exact H].
  destruct (fgroup f) as [g|]; rewrite mat_obj_mk.
  - apply (mat_go_set2 sc _ _ _ _ _ i f); [apply mat_go_reset; exact Hg | exact Hf | apply mat_refl].
  - apply (mat_go_set2 sc _ _ _ _ _ i f); [exact Hg | exact Hf | apply mat_refl].
Qed.

(* ---- m.<path>.<i> = v ---- *)
Lemma getattr_shape' sc o i :
  ocls (fst (getattr sc o i)) = ocls o /\ osow (fst (getattr sc o i)) = osow o /\
  ounk (fst (getattr sc o i)) = ounk o /\ ocur (fst (getattr sc o i)) = ocur o.
Proof.
  destruct o as [c raw sow unk cur]. unfold getattr.
  destruct (nth_error (cfields (get_class sc c)) i) as [f|]; [|repeat split].
  destruct (group_selects cur f i) as [[|]|]; try (repeat split); destruct (nth i raw PPlaceholder); repeat split.
Qed.

Lemma getattr_ok_field sc c raw sow unk cur i w :
  snd (getattr sc (Obj c raw sow unk cur) i) = Ok w -> exists f, nth_error (cfields (get_class sc c)) i = Some f.
Proof.
  unfold getattr. destruct (nth_error (cfields (get_class sc c)) i) as [f|]; [eauto|]. cbn. discriminate.
Qed.

Lemma set_in_sim sc : forall path o o' i v,
  mat_obj sc o o' = true -> res_obj_rel sc (set_in sc o path i v) (set_in sc o' path i v).
Proof.
  induction path as [|j path IH]; intros o o' i v H; cbn [set_in]; [apply setattr_sim; exact H|].
  destruct (getattr_sim sc o o' j H) as (Hst & Hres).
  destruct (getattr sc o j) as [o1 r] eqn:G1, (getattr sc o' j) as [o1' r'] eqn:G2. cbn [fst snd] in *.
  destruct (mat_obj_inv sc o1 o1' Hst) as (c & raw & raw' & sow & unk & cur & -> & -> & Hg).
  destruct r as [w|e], r' as [w'|e']; cbn [res_rel] in Hres; try contradiction.
  2:{ subst. reflexivity. }
  destruct Hres as (Hn & f & Hm). pose proof (mat_msg_shape sc f w w' Hn Hm) as Hsh.
  assert (Hf : exists fj, nth_error (cfields (get_class sc c)) j = Some fj).
  { destruct o as [c0 raw0 sow0 unk0 cur0]. pose proof (getattr_shape' sc (Obj c0 raw0 sow0 unk0 cur0) j) as (Hc & _).
    rewrite G1 in Hc. cbn [fst ocls] in Hc. subst c0.
    apply (getattr_ok_field sc c raw0 sow0 unk0 cur0 j w). rewrite G1. reflexivity. }
  destruct Hf as (fj & Hfj).
  destruct w as [| | | | | | | | | | |ch], w' as [| | | | | | | | | | |ch']; try contradiction; try reflexivity.
  specialize (IH ch ch' i v Hsh).
  destruct (set_in sc ch path i v) as [ch2|e], (set_in sc ch' path i v) as [ch2'|e']; cbn [res_obj_rel bind] in *;
    try contradiction; [|exact IH].
  rewrite mat_obj_mk. apply (mat_go_set2 sc _ _ _ _ _ j fj Hg Hfj). rewrite mat_msg_obj. exact IH.
Qed.

(* ---- m.<path>.<i> read ---- *)
Lemma get_in_sim sc : forall path o o' i,
  mat_obj sc o o' = true ->
  mat_obj sc (fst (get_in sc o path i)) (fst (get_in sc o' path i)) = true /\
  res_rel sc (snd (get_in sc o path i)) (snd (get_in sc o' path i)).
Proof.
  induction path as [|j path IH]; intros o o' i H; cbn [get_in]; [apply getattr_sim; exact H|].
  destruct (getattr_sim sc o o' j H) as (Hst & Hres).
  destruct (getattr sc o j) as [o1 r] eqn:G1, (getattr sc o' j) as [o1' r'] eqn:G2. cbn [fst snd] in *.
  destruct (mat_obj_inv sc o1 o1' Hst) as (c & raw & raw' & sow & unk & cur & -> & -> & Hg).
  destruct r as [w|e], r' as [w'|e']; cbn [res_rel] in Hres; try contradiction.
  2:{ subst. cbn [fst snd res_rel]. split; [exact Hst | reflexivity]. }
  destruct Hres as (Hn & f & Hm). pose proof (mat_msg_shape sc f w w' Hn Hm) as Hsh.
  assert (Hf : exists fj, nth_error (cfields (get_class sc c)) j = Some fj).
  { destruct o as [c0 raw0 sow0 unk0 cur0]. pose proof (getattr_shape' sc (Obj c0 raw0 sow0 unk0 cur0) j) as (Hc & _).
    rewrite G1 in Hc. cbn [fst ocls] in Hc. subst c0.
    apply (getattr_ok_field sc c raw0 sow0 unk0 cur0 j w). rewrite G1. reflexivity. }
  destruct Hf as (fj & Hfj).
  destruct w as [| | | | | | | | | | |ch], w' as [| | | | | | | | | | |ch']; try contradiction;
    try (cbn [fst snd res_rel]; split; [exact Hst | reflexivity]).
  destruct (IH ch ch' i Hsh) as (I1 & I2).
  destruct (get_in sc ch path i) as [ch2 r2], (get_in sc ch' path i) as [ch2' r2']. cbn [fst snd] in *.
  split; [|exact I2].
  rewrite mat_obj_mk. apply (mat_go_set2 sc _ _ _ _ _ j fj Hg Hfj). rewrite mat_msg_obj. exact I1.
Qed.
