(* C01 over reachable objects, part 4: a good object has the shape C14's [mat] lemmas ask for ([shaped_obj]), and
   [is_default] of a nested message does not see what deepcopy / the observers / attribute reads do to it. *)
From Coq Require Import ZArith List Bool Lia Arith.
From BP Require Import Base.Prelude Model.Types Model.Object Model.Eq Model.Encode Model.Decode Model.WellFormed.
From BP Require Import Model.History Model.C07Ops Model.C14Ops Model.C01Def Model.C01Reach.
From BP Require Import Proofs.C01Unfold Proofs.C01Msg Proofs.C01Main Proofs.C07InvP.
From BP Require Import Proofs.C01ReachBase Proofs.C01ReachNew Proofs.C01ReachObs.
From BP Require Proofs.C14Ind Proofs.C14Mat Proofs.C14Obs.
Import ListNotations.

(* ---------- shape ---------- *)
Definition SP (sc : schema) (o : obj) : Prop := VGood sc o -> shaped_obj sc o = true.

Lemma elem_vgood sc t p o :
  elem_in_range sc t p (PMsg o) = true -> deep (clean_ok sc) (PMsg o) = true -> VGood sc o.
Proof.
  intros Hr Hd. apply vgood_of_value_ok. unfold c01_value_ok.
  rewrite (elem_in_range_obj sc t p o Hr). exact Hd.
Qed.

Lemma elem_shaped sc t p y :
  elem_in_range sc t p y = true -> deep (clean_ok sc) y = true -> elemP (SP sc) y ->
  flat y && shaped sc y = true.
Proof.
  intros Hr Hd HQ. destruct y as [| |z|b|bits|s|b|us|us|l|d|o]; try reflexivity.
  - rewrite elem_in_range_list in Hr. discriminate Hr.
  - rewrite elem_in_range_dict in Hr. discriminate Hr.
  - cbn [elemP] in HQ. cbn [flat andb]. apply HQ. eapply elem_vgood; eauto.
Qed.

Lemma list_shaped sc t p : forall l,
  all_in sc t p l = true -> deep_list (clean_ok sc) l = true -> Forall (elemP (SP sc)) l ->
  forallb (fun y => flat y && shaped sc y) l = true.
Proof.
  induction l as [|y l IH]; intros Hr Hd HQ; [reflexivity|].
  cbn [all_in] in Hr. apply andb_true_iff in Hr as [Hr1 Hr2].
  rewrite deep_list_cons in Hd. apply andb_true_iff in Hd as [Hd1 Hd2].
  inversion HQ as [|? ? HQ1 HQ2]; subst.
  cbn [forallb]. rewrite (elem_shaped sc t p y Hr1 Hd1 HQ1), (IH Hr2 Hd2 HQ2). reflexivity.
Qed.

Definition shaped_dict (sc : schema) : list (pv * pv) -> bool :=
  fix go (d : list (pv * pv)) : bool :=
    match d with
    | [] => true
    | (_, y) :: d' => flat y && shaped sc y && go d'
    end.

Lemma shaped_pdict sc d : shaped sc (PDict d) = shaped_dict sc d.
Proof. reflexivity. Qed.

Lemma dict_shaped sc kt vt p : forall d,
  all_kv sc kt vt p d = true -> deep_dict (clean_ok sc) d = true -> Forall (fun kv => elemP (SP sc) (snd kv)) d ->
  shaped_dict sc d = true.
Proof.
  induction d as [|[k y] d IH]; intros Hr Hd HQ; [reflexivity|].
  cbn [all_kv] in Hr. apply andb_true_iff in Hr as [Hr1 Hr2]. apply andb_true_iff in Hr1 as [_ Hr1].
  cbn [deep_dict] in Hd. apply andb_true_iff in Hd as [Hd1 Hd2].
  inversion HQ as [|? ? HQ1 HQ2]; subst. cbn [snd] in HQ1.
  cbn [shaped_dict]. rewrite (elem_shaped sc vt p y Hr1 Hd1 HQ1), (IH Hr2 Hd2 HQ2). reflexivity.
Qed.

Lemma slot_shaped sc f x : slot_ok sc f x = true -> subP (SP sc) x -> shaped sc x = true.
Proof.
  intros H HQ. destruct x as [| |z|b|bits|s|b|us|us|l|d|o]; try reflexivity.
  - (* list *)
    unfold slot_ok in H. apply andb_true_iff in H as [H _]. apply andb_true_iff in H as [Hr Hd].
    assert (Hh : exists p, fhint f = HList p).
    { unfold field_in_range in Hr. destruct (fhint f) as [p|p|p|pk p] eqn:Hh; eauto;
        rewrite ?elem_in_range_list in Hr; discriminate Hr. }
    destruct Hh as (p & Hh). rewrite (field_in_range_list sc f p _ Hh) in Hr. rewrite deep_plist in Hd.
    cbn [subP] in HQ. cbn [shaped]. eapply list_shaped; eauto.
  - (* dict *)
    unfold slot_ok in H. apply andb_true_iff in H as [H _]. apply andb_true_iff in H as [Hr Hd].
    assert (Hh : exists pk p kt vt, fhint f = HDict pk p /\ fmap f = Some (kt, vt)).
    { unfold field_in_range in Hr. destruct (fhint f) as [p|p|p|pk p] eqn:Hh;
        rewrite ?elem_in_range_dict in Hr; try discriminate Hr.
      destruct (fmap f) as [[kt vt]|]; [|discriminate Hr]. exists pk, p, kt, vt. split; reflexivity. }
    destruct Hh as (pk & p & kt & vt & Hh & Hm).
    rewrite (field_in_range_dict sc f pk p _ kt vt Hh Hm) in Hr. rewrite deep_pdict in Hd.
    cbn [subP] in HQ. rewrite shaped_pdict. eapply dict_shaped; eauto.
  - (* message *)
    cbn [subP] in HQ. apply HQ. eapply slot_ok_msg. exact H.
Qed.

Lemma shaped_msg sc c raw sow unk cur :
  shaped sc (PMsg (Obj c raw sow unk cur)) =
  Nat.eqb (length raw) (length (cfields (get_class sc c))) && forallb (shaped sc) raw.
Proof. reflexivity. Qed.

Lemma vgood_shaped sc o : VGood sc o -> shaped_obj sc o = true.
Proof.
  revert o. apply (obj_nested_ind (SP sc)).
  intros c raw s u g HP Hv. unfold shaped_obj. rewrite shaped_msg.
  destruct Hv as (Hlen & _ & _ & _ & _ & Hsl). unfold cfs in *. cbn [oraw ocls] in *.
  rewrite Hlen, Nat.eqb_refl. cbn [andb]. apply forallb_nth. intros k x Hx.
  destruct (nth_error (cfields (get_class sc c)) k) as [f|] eqn:Hf.
  - apply (slot_shaped sc f x (Hsl k f x Hf Hx)). eapply Forall_nth_error; eauto.
  - exfalso. apply nth_error_None in Hf. apply nth_error_lt in Hx. lia.
Qed.

(* ---------- is_default of a nested message ---------- *)
Lemma mat_obj_is_default sc g o o' :
  wf_schema sc = true -> mat_obj sc o o' = true -> is_default sc g (PMsg o') = is_default sc g (PMsg o).
Proof.
  intros Hwf Hm. unfold mat_obj in Hm.
  apply (C14Mat.mat_is_default_any sc (C14Ind.wf_schema_opt_ok sc Hwf) dummy_field (PMsg o) (PMsg o') g Hm).
  discriminate.
Qed.

Lemma is_default_deepcopy sc g o :
  wf_schema sc = true -> VGood sc o -> is_default sc g (PMsg (deepcopy sc o)) = is_default sc g (PMsg o).
Proof.
  intros Hwf Hv. apply (mat_obj_is_default sc g o _ Hwf).
  apply (C14Obs.deepcopy_mat sc (C14Ind.wf_schema_opt_ok sc Hwf) o). apply vgood_shaped. exact Hv.
Qed.

Lemma is_default_copy sc g o :
  wf_schema sc = true -> VGood sc o -> is_default sc g (PMsg (copy sc o)) = is_default sc g (PMsg o).
Proof.
  intros Hwf Hv. apply (mat_obj_is_default sc g o _ Hwf).
  apply (C14Obs.copy_mat sc (C14Ind.wf_schema_opt_ok sc Hwf) o).
  unfold shaped_top. destruct Hv as (Hlen & _). unfold cfs in Hlen. rewrite Hlen. apply Nat.eqb_refl.
Qed.

Lemma is_default_touch sc g o :
  wf_schema sc = true -> is_default sc g (PMsg (touch sc o)) = is_default sc g (PMsg o).
Proof. intros Hwf. apply (mat_obj_is_default sc g o _ Hwf). apply C14Obs.touch_mat. Qed.

Lemma is_default_get_in sc g path o i :
  wf_schema sc = true -> is_default sc g (PMsg (fst (get_in sc o path i))) = is_default sc g (PMsg o).
Proof. intros Hwf. apply (mat_obj_is_default sc g o _ Hwf). apply C14Obs.get_in_mat. Qed.

Lemma is_default_getattr sc g o i :
  wf_schema sc = true -> is_default sc g (PMsg (fst (getattr sc o i))) = is_default sc g (PMsg o).
Proof. intros Hwf. apply (mat_obj_is_default sc g o _ Hwf). apply C14Obs.getattr_mat. Qed.
