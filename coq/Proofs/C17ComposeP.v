(* C17: parsing is compositional over complete records.
   m.parse(pre ++ rest) = m.parse(pre).parse(rest) whenever pre is a concatenation of complete
   records; hence the isolation theorems hold in the middle of any stream.  Needs: the result of
   Message.load does not depend on the fuel once it is sufficient. *)
From BP Require Import Base.Prelude Model.Types Model.Varint Model.Decode Spec.Varint.
From BP Require Import Model.Object Model.C17Wire Model.C17Step.
From BP Require Import Proofs.BytesP Proofs.VarintP Proofs.C17FieldP Proofs.C17StepP Proofs.C17FrameP.
From BP Require Import gen.Tables.
From Coq Require Import ZifyBool.
Ltac Zify.zify_post_hook ::= Z.to_euclidean_division_equations.

(* ---------- the parsed field of a complete payload does not depend on what follows it ---------- *)
Lemma load_field_frame_gen :
  (forall nw pl, wpayload nw pl ->
     forall raw, exists p, forall fuel rest, (length (pl ++ rest) < fuel)%nat ->
       load_field fuel (pl ++ rest) nw raw = Ok (p, rest)) /\
  (forall inner, wrecs inner ->
     forall number wt raw enw etag,
       VarintRep enw etag -> tag_wt enw = 4 -> tag_num enw = number ->
       exists p, forall fuel n rest,
         (length (inner ++ etag ++ rest) < n)%nat -> (length (inner ++ etag ++ rest) <= fuel)%nat ->
         group_loop fuel number wt n (inner ++ etag ++ rest) raw = Ok (p, rest)).
Proof.
  apply wire_mutind.
  - intros nw v vb Hn Hw Rv raw. eexists. intros fuel rest Hl. rewrite load_field_unfold. cbv zeta.
    unfold tag_num, tag_wt in *. replace (Z.shiftr nw 3 =? 0) with false by lia.
    rewrite Hw. unfold WIRE_VARINT. cbn [Z.eqb].
    rewrite (load_varint_rep _ _ rest Rv). cbn [bind]. reflexivity.
  - intros nw d Hn Hw Ld raw. eexists. intros fuel rest Hl. rewrite load_field_unfold. cbv zeta.
    unfold tag_num, tag_wt in *. replace (Z.shiftr nw 3 =? 0) with false by lia.
    rewrite Hw. unfold WIRE_VARINT, WIRE_FIXED_64. cbn [Z.eqb Pos.eqb].
    replace 8 with (Zlength d) by (unfold Zlength; lia).
    rewrite read_exactly_app. cbn [bind]. reflexivity.
  - intros nw lb d Hn Hw Rl raw. eexists. intros fuel rest Hl. rewrite load_field_unfold. cbv zeta.
    unfold tag_num, tag_wt in *. replace (Z.shiftr nw 3 =? 0) with false by lia.
    rewrite Hw. unfold WIRE_VARINT, WIRE_FIXED_64, WIRE_LEN_DELIM. cbn [Z.eqb Pos.eqb].
    rewrite <- app_assoc. rewrite (load_varint_rep _ _ (d ++ rest) Rl). cbn [bind].
    rewrite read_exactly_app. cbn [bind]. reflexivity.
  - intros nw inner enw etag Hn Hw Wi IHi Re T4 Tn raw.
    destruct (IHi (Z.shiftr nw 3) 3 raw enw etag Re T4 Tn) as [p Hp].
    exists p. intros fuel rest Hl. rewrite load_field_unfold. cbv zeta.
    unfold tag_num, tag_wt in *. replace (Z.shiftr nw 3 =? 0) with false by lia.
    rewrite Hw. unfold WIRE_VARINT, WIRE_FIXED_64, WIRE_LEN_DELIM, WIRE_FIXED_32, WIRE_START_GROUP. cbn [Z.eqb Pos.eqb].
    destruct fuel as [|fuel]; [lia|]. rewrite <- app_assoc in *. apply Hp; lia.
  - intros nw d Hn Hw Ld raw. eexists. intros fuel rest Hl. rewrite load_field_unfold. cbv zeta.
    unfold tag_num, tag_wt in *. replace (Z.shiftr nw 3 =? 0) with false by lia.
    rewrite Hw. unfold WIRE_VARINT, WIRE_FIXED_64, WIRE_LEN_DELIM, WIRE_FIXED_32. cbn [Z.eqb Pos.eqb].
    replace 4 with (Zlength d) by (unfold Zlength; lia).
    rewrite read_exactly_app. cbn [bind]. reflexivity.
  - intros number wt raw enw etag Re T4 Tn. eexists. intros fuel n rest Hn Hf. cbn [app] in *.
    destruct n as [|n]; [lia|]. cbn [group_loop].
    rewrite (load_varint_rep _ _ rest Re). cbn [bind]. unfold tag_wt, tag_num in *.
    rewrite T4. unfold WIRE_END_GROUP. cbn [Z.eqb Pos.eqb]. rewrite Tn, Z.eqb_refl. reflexivity.
  - intros nw tag pl rs Rt Wp IHp Wr IHr number wt raw enw etag Re T4 Tn.
    destruct (IHp (raw ++ tag)) as [p Hp].
    destruct (IHr number wt (praw p) enw etag Re T4 Tn) as [q Hq].
    exists q. intros fuel n rest Hn Hf.
    destruct n as [|n]; [lia|]. cbn [group_loop]. fold (group_loop fuel number wt).
    rewrite <- !app_assoc in *. rewrite (load_varint_rep _ _ _ Rt). cbn [bind].
    destruct (wpayload_tag _ _ Wp) as (_ & N4 & _). unfold tag_wt in N4.
    unfold WIRE_END_GROUP. replace (Z.land nw 7 =? 4) with false by lia.
    pose proof (VarintRep_nonempty _ _ Rt) as Ht. rewrite !app_length in Hn, Hf.
    rewrite (Hp fuel (rs ++ etag ++ rest)) by (rewrite !app_length; lia). cbn [bind].
    apply Hq; rewrite !app_length; lia.
Qed.

Lemma load_field_frame nw pl raw :
  wpayload nw pl -> exists p, forall fuel rest, (length (pl ++ rest) < fuel)%nat ->
                     load_field fuel (pl ++ rest) nw raw = Ok (p, rest).
Proof. intros W. apply (proj1 load_field_frame_gen nw pl W raw). Qed.

(* ---------- the loop does not depend on the fuel (once sufficient) ---------- *)
Lemma apply_field_congr sc pn1 pn2 cd o p :
  (forall c', pn1 c' (pbytes p) = pn2 c' (pbytes p)) ->
  apply_field sc pn1 cd o p = apply_field sc pn2 cd o p.
Proof.
  intros H. unfold apply_field.
  destruct (field_by_number cd (pnum p)) as [[i f]|]; [|reflexivity].
  destruct (negb _); [reflexivity|].
  assert (E : decode_value sc pn1 f p = decode_value sc pn2 f p).
  { unfold decode_value, post_len_r. rewrite !H.
    destruct (_ && _); [reflexivity|]. destruct (_ =? _); [reflexivity|]. destruct (_ || _); [reflexivity|].
    destruct (ptype_eqb (fty f) TMap); [reflexivity|].
    destruct (ptype_eqb (fty f) TString); [reflexivity|].
    destruct (ptype_eqb (fty f) TMessage); [|reflexivity].
    destruct (hint_elem (fhint f)), (fwraps f) as [w|]; try reflexivity;
      try (destruct (wrapper_cls w); [rewrite H|]; reflexivity); rewrite H; reflexivity. }
  rewrite E. reflexivity.
Qed.

Lemma loop_r_irrel sc pn1 pn2 f1 f2 size cd L :
  (forall c' bs, (length bs < L)%nat -> pn1 c' bs = pn2 c' bs) ->
  forall n1 n2 o s read,
    (length s < n1)%nat -> (length s < n2)%nat -> (length s <= f1)%nat -> (length s <= f2)%nat -> (length s <= L)%nat ->
    loop_r sc pn1 (load_field f1) size cd n1 o s read = loop_r sc pn2 (load_field f2) size cd n2 o s read.
Proof.
  intros Hpn. induction n1 as [|n1 IH]; intros n2 o s read H1 H2 F1 F2 HL; [lia|].
  destruct n2 as [|n2]; [lia|]. cbn [loop_r].
  destruct s as [|b s0]; [reflexivity|]. set (s := b :: s0) in *.
  destruct (load_varint s) as [[[nw r] s1]|] eqn:Ev; cbn [bind]; [|reflexivity].
  apply load_varint_inv in Ev as (E & _ & Hr). rewrite E, app_length in *.
  rewrite (load_field_fuel_irrel f1 f2 s1 nw r) by lia.
  destruct (load_field f2 s1 nw r) as [[p s2]|] eqn:Ef; cbn [bind]; [|reflexivity].
  apply load_field_sound in Ef. destruct Ef as (pl & -> & _ & _ & _ & _ & _ & _ & _ & Hb).
  rewrite app_length in *.
  destruct (account size read p) as [read'|]; cbn [bind]; [|reflexivity].
  rewrite (apply_field_congr sc pn1 pn2 cd o p) by (intros c'; apply Hpn; lia).
  destruct (apply_field sc pn2 cd o p) as [o'|]; cbn [bind]; [|reflexivity].
  destruct (finished size read'); [reflexivity|]. apply IH; lia.
Qed.

Theorem load_r_irrel sc f1 : forall f2 o s size,
  (length s < f1)%nat -> (length s < f2)%nat -> load_r f1 sc o s size = load_r f2 sc o s size.
Proof.
  induction f1 as [|f1 IH]; intros f2 o s size H1 H2; [lia|]. destruct f2 as [|f2]; [lia|].
  cbn [load_r]. destruct (read_size size s) as [[size' s1]|] eqn:Er; cbn [bind]; [|reflexivity].
  assert (Hs1 : (length s1 <= length s)%nat).
  { unfold read_size in Er. destruct size as [n|]; [destruct (n =? SIZE_DELIMITED)|].
    - destruct (load_varint s) as [[[n' r] s']|] eqn:Ev; cbn [bind] in Er; [|discriminate].
      injection Er as <- <-. apply load_varint_inv in Ev as (-> & _). rewrite app_length. lia.
    - injection Er as <- <-. lia.
    - injection Er as <- <-. lia. }
  assert (G : loop_r sc (fun c' bs => do (o', _) <- load_r f1 sc (new sc c') bs None; Ok o') (load_field f1) size'
                     (get_class sc (ocls (mark_on_wire o))) (S (length s1)) (mark_on_wire o) s1 0 =
              loop_r sc (fun c' bs => do (o', _) <- load_r f2 sc (new sc c') bs None; Ok o') (load_field f2) size'
                     (get_class sc (ocls (mark_on_wire o))) (S (length s1)) (mark_on_wire o) s1 0).
  { apply (loop_r_irrel sc _ _ f1 f2 size' _ (length s1)); try lia.
    intros c' bs Hb. rewrite (IH f2 (new sc c') bs None) by lia. reflexivity. }
  destruct size' as [[| |]|]; try exact G. reflexivity.
Qed.

(* ---------- class and _serialized_on_wire along the loop (no typing hypothesis) ---------- *)
Definition same_shell (o o' : obj) : Prop := ocls o' = ocls o /\ (osow o = true -> osow o' = true).

Lemma same_shell_refl o : same_shell o o.
Proof. split; auto. Qed.

Lemma same_shell_trans a b c : same_shell a b -> same_shell b c -> same_shell a c.
Proof. intros [A1 A2] [B1 B2]. split; [congruence | auto]. Qed.

Lemma getattr_shell sc o i o' r : getattr sc o i = (o', r) -> same_shell o o'.
Proof.
  destruct o as [c raw sow unk cur]. unfold getattr.
  destruct (nth_error _ i) as [f|]; [|intros H; injection H as <- _; apply same_shell_refl].
  destruct (group_selects cur f i) as [[|]|]; try (intros H; injection H as <- _; apply same_shell_refl);
    (destruct (nth i raw PPlaceholder); intros H; injection H as <- _; split; auto).
Qed.

Lemma setattr_shell sc o i v : same_shell o (setattr sc o i v).
Proof.
  destruct o as [c raw sow unk cur]. unfold setattr.
  destruct (nth_error _ i) as [f|]; [|apply same_shell_refl].
  destruct (fgroup f); split; auto.
Qed.

Lemma set_raw_shell o i v : same_shell o (set_raw o i v).
Proof. destruct o. split; auto. Qed.

Lemma add_unknown_shell o bs : same_shell o (add_unknown o bs).
Proof. destruct o. split; auto. Qed.

Lemma store_value_shell sc o i f v o' : store_value sc o i f v = Ok o' -> same_shell o o'.
Proof.
  unfold store_value, fetch_current.
  destruct (getattr sc o i) as [o1 [cur_v|e]] eqn:Eg.
  - pose proof (getattr_shell _ _ _ _ _ Eg) as S1.
    destruct (ptype_eqb (fty f) TMap).
    + destruct v; try discriminate. destruct cur_v; try discriminate.
      destruct (getattr sc o0 0) as [? [k|]]; [|discriminate].
      destruct (getattr sc o0 1) as [? [v'|]]; [|discriminate].
      intros H. injection H as <-. eapply same_shell_trans; [exact S1 | apply set_raw_shell].
    + destruct cur_v; intros H; injection H as <-;
        (eapply same_shell_trans; [exact S1 | first [apply set_raw_shell | apply setattr_shell]]).
  - cbv zeta. pose proof (setattr_shell sc o i (default_of sc f)) as S1.
    destruct (ptype_eqb (fty f) TMap).
    + destruct v; try discriminate. destruct (default_of sc f); try discriminate.
      destruct (getattr sc o0 0) as [? [k|]]; [|discriminate].
      destruct (getattr sc o0 1) as [? [v'|]]; [|discriminate].
      intros H. injection H as <-. eapply same_shell_trans; [exact S1 | apply set_raw_shell].
    + destruct (default_of sc f); intros H; injection H as <-;
        (eapply same_shell_trans; [exact S1 | first [apply set_raw_shell | apply setattr_shell]]).
Qed.

Lemma apply_field_shell sc pn cd o p o' : apply_field sc pn cd o p = Ok o' -> same_shell o o'.
Proof.
  unfold apply_field. destruct (field_by_number cd (pnum p)) as [[i f]|].
  - destruct (negb _); [intros H; injection H as <-; apply add_unknown_shell|].
    destruct (decode_value sc pn f p); cbn [bind]; [apply store_value_shell | discriminate].
  - intros H. injection H as <-. apply add_unknown_shell.
Qed.

Lemma loop_r_shell sc pn lf size cd : forall n o s read o' s',
  loop_r sc pn lf size cd n o s read = Ok (o', s') -> same_shell o o'.
Proof.
  induction n as [|n IH]; intros o s read o' s' H; [discriminate|]. cbn [loop_r] in H.
  destruct s as [|b s0].
  { destruct size as [sz|]; [destruct (read <? sz); [discriminate|]|]; injection H as <- <-; apply same_shell_refl. }
  destruct (load_varint (b :: s0)) as [[[nw r] s1]|]; cbn [bind] in H; [|discriminate].
  destruct (lf s1 nw r) as [[p s2]|]; cbn [bind] in H; [|discriminate].
  destruct (account size read p) as [read'|]; cbn [bind] in H; [|discriminate].
  destruct (apply_field sc pn cd o p) as [o1|] eqn:Ea; cbn [bind] in H; [|discriminate].
  apply apply_field_shell in Ea.
  destruct (finished size read').
  - injection H as <- <-. exact Ea.
  - eapply same_shell_trans; [exact Ea | eapply IH, H].
Qed.

(* ---------- splitting the loop after a run of complete records ---------- *)
Section Split.
  Variable sc : schema.
  Variable pn : nat -> list byte -> result obj.
  Variable fuel' : nat.
  Variable cd : cdesc.
  Notation loop := (loop_r sc pn (load_field fuel') None cd).

  Lemma loop_step_p nw tag pl p X n o read :
    VarintRep nw tag ->
    (forall fuel rest, (length (pl ++ rest) < fuel)%nat -> load_field fuel (pl ++ rest) nw tag = Ok (p, rest)) ->
    (length (tag ++ pl ++ X) <= fuel')%nat ->
    loop (S n) o (tag ++ pl ++ X) read = (do o' <- apply_field sc pn cd o p; loop n o' X read).
  Proof.
    intros Rt Hp Hf. pose proof (VarintRep_nonempty _ _ Rt) as Ht. rewrite !app_length in Hf.
    cbn [loop_r]. destruct (tag ++ pl ++ X) as [|b s] eqn:Es.
    { destruct tag; [cbn in Ht; lia | discriminate]. }
    rewrite <- Es. rewrite (load_varint_rep _ _ _ Rt). cbn [bind].
    rewrite Hp by (rewrite app_length; lia). cbn [bind account finished]. reflexivity.
  Qed.

  Lemma loop_counter_irrel n1 n2 o s read :
    (length s < n1)%nat -> (length s < n2)%nat -> (length s <= fuel')%nat ->
    loop n1 o s read = loop n2 o s read.
  Proof. intros. apply (loop_r_irrel sc pn pn fuel' fuel' None cd (length s)); auto; lia. Qed.

  Lemma loop_app pre : wrecs pre ->
    forall rest n o read, (length (pre ++ rest) < n)%nat -> (length (pre ++ rest) <= fuel')%nat ->
    loop n o (pre ++ rest) read =
    match loop n o pre read with Ok (o', _) => loop n o' rest read | Err e => Err e end.
  Proof.
    apply (wrecs_mind (fun _ _ => True)
             (fun pre => forall rest n o read, (length (pre ++ rest) < n)%nat -> (length (pre ++ rest) <= fuel')%nat ->
                loop n o (pre ++ rest) read =
                match loop n o pre read with Ok (o', _) => loop n o' rest read | Err e => Err e end));
      try (intros; exact I).
    - intros rest n o read Hn Hf. destruct n as [|n]; [lia|]. reflexivity.
    - intros nw tag pl rs Rt Wp _ Wr IH rest n o read Hn Hf.
      destruct n as [|n]; [lia|]. rewrite <- !app_assoc in *.
      destruct (load_field_frame nw pl tag Wp) as [p Hp].
      pose proof (VarintRep_nonempty _ _ Rt) as Ht. rewrite !app_length in Hn, Hf.
      rewrite (loop_step_p nw tag pl p (rs ++ rest) n o read Rt Hp) by (rewrite !app_length; lia).
      rewrite (loop_step_p nw tag pl p rs n o read Rt Hp) by (rewrite !app_length; lia).
      destruct (apply_field sc pn cd o p) as [o1|e]; cbn [bind]; [|reflexivity].
      rewrite IH by (rewrite ?app_length; lia).
      destruct (loop n o1 rs read) as [[o2 s2]|e]; [|reflexivity].
      apply loop_counter_irrel; lia.
  Qed.
End Split.

Lemma mark_on_wire_id o : osow o = true -> mark_on_wire o = o.
Proof. destruct o as [c raw sow unk cur]. cbn. intros ->. reflexivity. Qed.

Lemma pn_of_irrel sc f1 f2 c' bs : (length bs < f1)%nat -> (length bs < f2)%nat -> pn_of f1 sc c' bs = pn_of f2 sc c' bs.
Proof. intros H1 H2. unfold pn_of. rewrite (load_r_irrel sc f1 f2) by lia. reflexivity. Qed.

(* m.parse(pre ++ rest) = m.parse(pre).parse(rest) *)
Theorem parse_into_app sc o pre rest :
  wrecs pre ->
  parse_into sc o (pre ++ rest) = (do o1 <- parse_into sc o pre; parse_into sc o1 rest).
Proof.
  intros W. rewrite !parse_into_loop.
  set (L := length (pre ++ rest)). set (cd := get_class sc (ocls o)).
  assert (HL : (length pre <= L /\ length rest <= L)%nat) by (unfold L; rewrite app_length; lia).
  rewrite (loop_app sc (pn_of L sc) L cd pre W rest (S L) (mark_on_wire o) 0) by (fold L; lia).
  (* the run over pre, at the fuel of the whole input and at its own *)
  assert (E1 : loop_r sc (pn_of (length pre) sc) (load_field (length pre)) None cd (S (length pre)) (mark_on_wire o) pre 0 =
               loop_r sc (pn_of L sc) (load_field L) None cd (S L) (mark_on_wire o) pre 0).
  { apply (loop_r_irrel sc _ _ _ _ None cd (length pre)); try lia.
    intros c' bs Hb. apply pn_of_irrel; lia. }
  rewrite E1.
  destruct (loop_r sc (pn_of L sc) (load_field L) None cd (S L) (mark_on_wire o) pre 0) as [[o1 s1]|e] eqn:El;
    cbn [bind]; [|reflexivity].
  apply loop_r_shell in El. destruct El as [Hc Hs].
  assert (Hsow : osow o1 = true) by (apply Hs; destruct o; reflexivity).
  rewrite parse_into_loop, (mark_on_wire_id o1 Hsow), Hc.
  replace (ocls (mark_on_wire o)) with (ocls o) by (destruct o; reflexivity). fold cd.
  assert (E2 : loop_r sc (pn_of (length rest) sc) (load_field (length rest)) None cd (S (length rest)) o1 rest 0 =
               loop_r sc (pn_of L sc) (load_field L) None cd (S L) o1 rest 0).
  { apply (loop_r_irrel sc _ _ _ _ None cd (length rest)); try lia.
    intros c' bs Hb. apply pn_of_irrel; lia. }
  rewrite E2. reflexivity.
Qed.

(* the isolation theorems in the middle of a stream *)
Theorem foreign_record_in_stream sc o pre nw r post :
  wrecs pre -> wrec nw r ->
  (forall o1, ocls o1 = ocls o ->
     match field_by_number (get_class sc (ocls o1)) (tag_num nw) with
     | None => true
     | Some (i, f) => negb (wire_type_fits f (tag_wt nw))
     end = true) ->
  parse_into sc o (pre ++ r ++ post) =
  (do o1 <- parse_into sc o pre; parse_into sc (add_unknown o1 r) post).
Proof.
  intros Wp Wr Hf. rewrite (parse_into_app sc o pre (r ++ post) Wp).
  destruct (parse_into sc o pre) as [o1|e] eqn:E1; cbn [bind]; [|reflexivity].
  assert (Hshell : same_shell o o1).
  { rewrite parse_into_loop in E1.
    destruct (loop_r _ _ _ _ _ _ _ _ _) as [[o1' s1]|] eqn:El; cbn [bind] in E1; [|discriminate].
    injection E1 as <-. apply loop_r_shell in El. destruct El as [Hc Hs]. split.
    - rewrite Hc. destruct o; reflexivity.
    - intros _. apply Hs. destruct o; reflexivity. }
  assert (Hsow : osow o1 = true).
  { rewrite parse_into_loop in E1.
    destruct (loop_r _ _ _ _ _ _ _ _ _) as [[o1' s1]|] eqn:El; cbn [bind] in E1; [|discriminate].
    injection E1 as <-. apply loop_r_shell in El. apply El. destruct o; reflexivity. }
  assert (Wr' : wrecs r).
  { destruct Wr as (tag & pl & Rt & Wpl & ->). rewrite <- (app_nil_r pl). econstructor; [eassumption | eassumption | constructor]. }
  rewrite (parse_into_app sc o1 r post Wr').
  rewrite (parse_foreign_record sc o1 nw r Wr (Hf o1 (proj1 Hshell))). cbn [bind].
  rewrite (mark_on_wire_id o1 Hsow). reflexivity.
Qed.
