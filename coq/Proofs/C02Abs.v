(* C02: the abstraction from model objects (Model/Object.v) to the abstract message values of
   Spec/Wire.v, the decidable side conditions of the C02 theorems, and printers to the
   canonical [cv] type for the correspondence checks (T2/T3).  Definitions only. *)
From BP Require Import Base.Prelude Model.Types Model.Float Model.Utf8 Model.Object Model.Eq Model.TimeCore.
From BP Require Import Model.WellFormed Spec.Varint Spec.Wire.

(* ------------------------------------------------------------------ abs *)
Definition abs_scalar (v : pv) : aval :=
  match v with
  | PInt z => AInt z
  | PBool b => ABool b
  | PFloat b => AFloat b
  | PStr s => AStr s
  | PBytes b => ABytes b
  | _ => ANone
  end.

(* the default element of a field (what a selected oneof member holding PLACEHOLDER reads as) *)
Definition default_elem (sc : schema) (f : fdesc) : aval :=
  match msg_class f with
  | None => adefault (fty f)
  | Some c => empty_msg sc c
  end.

Definition value_field (sc : schema) (f : fdesc) : fdesc :=
  nth 1 (cfields (get_class sc (fentry f))) (plain_field [] 2 TBytes).

Definition unknown_of (unk : list byte) : list record :=
  match parse_wire unk with Some rs => rs | None => [] end.

Fixpoint abs_obj (sc : schema) (o : obj) {struct o} : aval :=
  let 'Obj c raw sow unk cur := o in
  (* one element of field f *)
  let elem (f : fdesc) (v : pv) : aval :=
    match msg_class f with
    | None => abs_scalar v
    | Some _ =>
        match v with
        | PMsg o' => abs_obj sc o'
        | PDatetime us => let '(s, n) := ts_pair_of_us us in AMsg [AInt s; AInt n] []
        | PTimedelta us => let '(s, n) := dur_pair_of_us us in AMsg [AInt s; AInt n] []
        | v => AMsg [abs_scalar v] []                 (* wrapper message around a scalar *)
        end
    end in
  AMsg
    ((fix go (i : nat) (raw : list pv) (fs : list fdesc) {struct raw} : list aval :=
        match raw, fs with
        | x :: raw', f :: fs' =>
            (match card_of f with
             | Implicit => match x with PPlaceholder => adefault (fty f) | v => abs_scalar v end
             | Repeated => match x with PList l => AList (map (elem f) l) | _ => AList [] end
             | MapOf =>
                 match x with
                 | PDict d => AMap (map (fun kv => (abs_scalar (fst kv), elem (value_field sc f) (snd kv))) d)
                 | _ => AMap []
                 end
             | Oneof g =>
                 if opt_nat_eqb (nth g cur None) (Some i)
                 then ASome (match x with PPlaceholder => default_elem sc f | v => elem f v end)
                 else ANone
             | Explicit =>
                 match x with
                 | PPlaceholder | PNone => ANone
                 | PMsg o' =>
                     (* a plain message field is present iff its value was (de)serialised or set;
                        an Optional[...] one iff it is not None *)
                     if (match fhint f with HPlain _ => osow o' | _ => true end)
                     then ASome (abs_obj sc o') else ANone
                 | v => ASome (elem f v)
                 end
             end) :: go (S i) raw' fs'
        | _, _ => []
        end) O raw (cfields (get_class sc c)))
    (unknown_of unk).

(* ------------------------------------------------------------------ supported *)
(* (seconds, nanos) pairs a datetime / timedelta can hold exactly *)
Definition ts_exact (s n : Z) : bool :=
  match us_of_ts s n with
  | Ok us => let '(s', n') := ts_pair_of_us us in (s' =? s) && (n' =? n)
  | Err _ => false
  end.
Definition dur_exact (s n : Z) : bool :=
  match us_of_dur s n with
  | Ok us => let '(s', n') := dur_pair_of_us us in (s' =? s) && (n' =? n)
  | Err _ => false
  end.

Definition narrow32 (t : ptype) : bool := match t with TUInt32 | TSInt32 => true | _ => false end.

Fixpoint varints_below (fuel : nat) (bound : Z) (b : list byte) : bool :=
  match fuel, b with
  | _, [] => true
  | O, _ => true
  | S fuel', _ =>
      match read_varint 10 b with
      | Some (n, r) => (n <? bound) && varints_below fuel' bound r
      | None => true
      end
  end.

(* betterproto does not truncate a varint that is wider than a uint32 / sint32 field
   (the reference keeps the low 32 bits); no conforming encoder emits such a value *)
Definition narrow_ok (f : fdesc) (p : payload) : bool :=
  if narrow32 (fty f) then
    match p with
    | Varint n => n <? 2 ^ 32
    | Len b => varints_below (length b) (2 ^ 32) b
    | _ => true
    end
  else true.

Definition is_nil {A} (l : list A) : bool := match l with [] => true | _ => false end.

(* [supported n sc c rs]: the record list stays inside what betterproto's decoder reproduces.
   Scope limits (each differs from the reference, none is in C02's list of alternative encodings):
   - a singular (or oneof member) MESSAGE field occurring again while it is set: the reference
     merges the occurrences, betterproto keeps the last;
   - a map entry carrying anything but its key and value (the reference sets the whole entry aside
     as an unknown field, betterproto keeps the entry and drops the rest);
   - unknown fields inside a Timestamp / Duration / wrapper payload (betterproto converts these to
     datetime / timedelta / the bare scalar, which cannot carry them), a Timestamp / Duration that
     datetime / timedelta cannot hold exactly (range, sub-microsecond nanos, non-normalised pairs);
   - a varint wider than 32 bits on a uint32 / sint32 field ([narrow_ok]). *)
Definition is_plain (a : aval) : bool :=
  match a with AInt _ | ABool _ | AFloat _ | AStr _ | ABytes _ => true | _ => false end.

Section Sup.
  Variable sc : schema.
  Variable nested : nat -> list byte -> option aval.      (* denotation of a nested payload *)
  Variable nested_ok : nat -> list byte -> bool.          (* the nested payload is itself supported *)

  Definition exact_ok (f : fdesc) (c' : nat) (b : list byte) : bool :=
    match elem_hint (fhint f), fwraps f with
    | PyDatetime, _ =>
        match nested c' b with
        | Some (AMsg [AInt s; AInt nn] []) => ts_exact s nn
        | Some _ => false
        | None => true
        end
    | PyTimedelta, _ =>
        match nested c' b with
        | Some (AMsg [AInt s; AInt nn] []) => dur_exact s nn
        | Some _ => false
        | None => true
        end
    | _, Some _ =>
        match nested c' b with
        | Some (AMsg [a] []) => is_plain a          (* the wrapper's one scalar field, no unknown fields *)
        | Some _ => false
        | None => true
        end
    | _, None => true
    end.

  (* one record, given the payloads gathered so far *)
  Definition record_ok (fs : list fdesc) (acc : list (list payload) * list record) (r : record) : bool :=
    match find_field fs (fst r) with
    | Some (i, f) =>
        if fits f (snd r) then
          narrow_ok f (snd r) &&
          match card_of f with
          | MapOf => entry_clean sc f (snd r) && nested_ok (fentry f) (len_bytes (snd r))
          | cd =>
              match msg_class f with
              | Some c' =>
                  nested_ok c' (len_bytes (snd r)) && exact_ok f c' (len_bytes (snd r)) &&
                  match cd with
                  | Explicit | Oneof _ => is_nil (nth i (fst acc) [])
                  | _ => true
                  end
              | None => true
              end
          end
        else true
    | None => true
    end.

  Fixpoint records_ok (fs : list fdesc) (acc : list (list payload) * list record) (rs : list record) : bool :=
    match rs with
    | [] => true
    | r :: rs' => record_ok fs acc r && records_ok fs (gather_step sc fs acc r) rs'
    end.
End Sup.

Definition nested_sem (n : nat) (sc : schema) (c' : nat) (b : list byte) : option aval :=
  let? rs' := parse_wire b in sem n sc c' rs'.

Fixpoint supported (n : nat) (sc : schema) (c : nat) (rs : list record) : bool :=
  match n with
  | O => false
  | S n' =>
      let fs := cfields (get_class sc c) in
      records_ok sc (nested_sem n' sc)
                 (fun c' b => match parse_wire b with Some rs' => supported n' sc c' rs' | None => true end)
                 fs (map (fun _ => []) fs, []) rs
  end.

(* ------------------------------------------------------------------ printers (correspondence) *)
Definition canon_nan' : Z := Z.shiftl 4095 51.

Fixpoint cv_of_payload (p : payload) : cv :=
  match p with
  | Varint n => CL [CZ 0; CZ n]
  | Fixed64 b => CL [CZ 1; CB b]
  | Len b => CL [CZ 2; CB b]
  | Fixed32 b => CL [CZ 5; CB b]
  | Group rs => CL [CZ 3; CL (map (fun r => CL [CZ (fst r); cv_of_payload (snd r)]) rs)]
  end.
Definition cv_of_record (r : record) : cv := CL [CZ (fst r); cv_of_payload (snd r)].

(* total order on the canonical forms of map keys (ints, bools, strings), for sorting *)
Fixpoint bytes_leb (a b : list byte) : bool :=
  match a, b with
  | [], _ => true
  | _ :: _, [] => false
  | x :: a', y :: b' =>
      if Z_of_byte x <? Z_of_byte y then true
      else if Z_of_byte y <? Z_of_byte x then false
      else bytes_leb a' b'
  end.
Definition key_leb (a b : cv) : bool :=
  match a, b with
  | CZ x, CZ y => x <=? y
  | CL [CZ 1; CZ x], CL [CZ 1; CZ y] => x <=? y
  | CL [CZ 3; CB x], CL [CZ 3; CB y] => bytes_leb x y
  | _, _ => true
  end.
Fixpoint insert_kv (kv : cv * cv) (l : list (cv * cv)) : list (cv * cv) :=
  match l with
  | [] => [kv]
  | kv' :: r => if key_leb (fst kv) (fst kv') then kv :: l else kv' :: insert_kv kv r
  end.
Definition sort_kv (l : list (cv * cv)) : list (cv * cv) := fold_right insert_kv [] l.

(* maps are printed sorted by key: they are compared up to order *)
Fixpoint cv_of_aval (a : aval) : cv :=
  match a with
  | AInt z => CZ z
  | ABool b => CL [CZ 1; cbool b]
  | AFloat b => CL [CZ 2; CZ (if f64_is_nan b then canon_nan' else b)]
  | AStr s => CL [CZ 3; CB s]
  | ABytes b => CB b
  | ANone => CN
  | ASome v => CL [CZ 4; cv_of_aval v]
  | AList l => CL [CZ 6; CL (map cv_of_aval l)]
  | AMap l =>
      CL [CZ 7; CL (map (fun kv => CL [fst kv; snd kv])
                        (sort_kv ((fix go (l : list (aval * aval)) : list (cv * cv) :=
                                     match l with
                                     | [] => []
                                     | (k, v) :: r => (cv_of_aval k, cv_of_aval v) :: go r
                                     end) l)))]
  | AMsg fields unk => CL [CZ 8; CL (map cv_of_aval fields); CL (map cv_of_record unk)]
  end.

Definition cv_of_aval_opt (o : option aval) : cv := match o with Some a => cv_of_aval a | None => CE EValue end.
Definition cv_abs_res (sc : schema) (r : result obj) : cv :=
  match r with Ok o => cv_of_aval (abs_obj sc o) | Err _ => CE EValue end.

Definition supported_bytes (sc : schema) (c : nat) (bs : list byte) : bool :=
  match parse_wire bs with Some rs => supported (S (length bs)) sc c rs | None => false end.

(* ------------------------------------------------------------------ side condition of C02_encode_legal *)
(* What the encoder needs beyond in_range for its output to denote abs m exactly.  Each conjunct names a
   (known, documented in the check's notes) way in which betterproto's object state holds more than its
   bytes say:
   - unknown bytes must themselves be a legal record sequence (they are copied verbatim);
   - a -0.0 in a float/double field without presence, or inside a wrapper, equals the default and is skipped;
   - a float32 field must hold a float32 value (anything else is rounded on the wire);
   - a plain Timestamp/Duration field holding the epoch / zero span is skipped (datetime has no presence);
   - a plain message field whose value has _serialized_on_wire = False but non-default content is emitted
     although betterproto itself reports it as not present (known finding K12 of C06);
   - dict keys are unique (a Python dict cannot hold duplicates). *)
Definition float_plain_ok (v : pv) : bool :=
  match v with PFloat b => negb (f64_is_zero b) || (b =? 0) | _ => true end.
Definition float32_ok (t : ptype) (v : pv) : bool :=
  match t, v with TFloat, PFloat b => f32_representable b | _, _ => true end.

Fixpoint keys_unique (sc : schema) (d : list (pv * pv)) : bool :=
  match d with
  | [] => true
  | (k, _) :: r => negb (existsb (fun kv => pv_eq sc (fst kv) k) r) && keys_unique sc r
  end.

Definition parses (b : list byte) : bool := match parse_wire b with Some _ => true | None => false end.

Fixpoint enc_faithful_pv (sc : schema) (v : pv) {struct v} : bool :=
  match v with
  | PMsg (Obj c raw sow unk cur) =>
      parses unk &&
      (fix go (raw : list pv) (fs : list fdesc) {struct raw} : bool :=
         match raw, fs with
         | x :: raw', f :: fs' =>
             (match card_of f with
              | Implicit => float_plain_ok x && float32_ok (fty f) x
              | Explicit =>
                  match fhint f, x with
                  | HPlain _, PDatetime us | HPlain _, PTimedelta us => negb (us =? 0)
                  | HPlain _, PMsg o' => (osow o' || is_default sc f x) && enc_faithful_pv sc x
                  | _, PMsg _ => enc_faithful_pv sc x
                  | _, _ => match fwraps f with
                            | Some w => float_plain_ok x && float32_ok w x
                            | None => float32_ok (fty f) x
                            end
                  end
              | Oneof _ => float32_ok (fty f) x && enc_faithful_pv sc x
              | Repeated =>
                  match x with
                  | PList l => (fix all (l : list pv) : bool :=
                                  match l with [] => true | y :: l' => float32_ok (fty f) y && enc_faithful_pv sc y && all l' end) l
                  | _ => true
                  end
              | MapOf =>
                  match x, fmap f with
                  | PDict d, Some (_, vt) =>
                      keys_unique sc d &&
                      (fix all (d : list (pv * pv)) : bool :=
                         match d with [] => true | (_, y) :: d' => float32_ok vt y && enc_faithful_pv sc y && all d' end) d
                  | _, _ => true
                  end
              end) && go raw' fs'
         | _, _ => true
         end) raw (cfields (get_class sc c))
  | _ => true
  end.

Definition enc_faithful (sc : schema) (o : obj) : bool :=
  Model.WellFormed.in_range sc o && enc_faithful_pv sc (PMsg o).

(* the bundled Timestamp / Duration classes have two plain integer fields (they are betterproto's own
   classes; msggen prints every schema as `builtin_classes ++ ...`, so this holds by construction) *)
Definition is_zz (l : list aval) : bool :=
  match l with [AInt z; AInt z'] => (z =? 0) && (z' =? 0) | _ => false end.
Definition builtins_std (sc : schema) : bool :=
  is_zz (map empty_field (cfields (get_class sc timestamp_cls))) &&
  is_zz (map empty_field (cfields (get_class sc duration_cls))).
