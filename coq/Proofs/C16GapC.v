(* C16 - gap closing, third group: composition with C09 (the length walk) for a singular field of a varint kind:
   "size_varint equals the encoded length" lifted from the primitive to the field: _len_single returns the number of bytes
   _serialize_single writes, key included (LenP.agree_single is the hypothesis-free agreement; here the success case is
   made explicit for in-range values of the six integer varint kinds). *)
From Coq Require Import ZArith List Bool Lia.
From BP Require Import Base.Prelude Model.Types Model.Varint Model.Scalar Model.Float Model.Object Model.Encode Model.Len.
From BP Require Import Spec.Varint Model.C16GapDef Proofs.LenP Proofs.C16GapB.
Import ListNotations.
Open Scope Z_scope.

Theorem len_varint_field msg num t w lo hi v se :
  1 <= num < 2 ^ 29 -> varint_kind_range t = Some (lo, hi) -> lo <= v < hi ->
  exists key bs, serialize_with msg num t (PInt v) se w = Ok (key ++ bs) /\
                 len_single_with msg num t (PInt v) se w = Ok (Zlength key + Zlength bs) /\
                 2 <= Zlength key + Zlength bs <= 15.
Proof.
  intros Hn Hr Hv.
  destruct (serialize_varint_field msg num t w lo hi v se Hn Hr Hv) as (key & bs & S & Ck & Cb & _).
  destruct (varint_kind_roundtrip msg t w lo hi v Hr Hv) as (bs' & _ & Cb' & Le & _).
  pose proof (Proofs.VarintP.canonical_unique _ _ _ Cb Cb') as <-.
  exists key, bs. split; [exact S|].
  pose proof (agree_single msg num t (PInt v) se w) as A. unfold agree in A. rewrite S in A.
  destruct (len_single_with msg num t (PInt v) se w) as [n|e]; [|tauto].
  subst n. rewrite Zlength_app. split; [reflexivity|].
  pose proof (Proofs.VarintP.canonical_length_lt_2p64 _ _ Ck ltac:(lia)) as Lk.
  assert (Lk5 : (length key <= 5)%nat).
  { destruct (Proofs.VarintP.canonical_length_bounds _ _ Ck ltac:(lia)) as [Lo _].
    assert (Z.of_nat (length key) - 1 < 5); [|lia].
    apply (Z.pow_lt_mono_r_iff 128); [lia|lia|]. change (128 ^ 5) with (2 ^ 35). lia. }
  destruct Ck as (Shk & _), Cb as (Shb & _).
  pose proof (Proofs.VarintP.shape_length_pos _ Shk). pose proof (Proofs.VarintP.shape_length_pos _ Shb).
  unfold Zlength. lia.
Qed.
