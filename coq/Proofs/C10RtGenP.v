(* C10 round-trip layer, part 1: the stream lemmas of C10StreamP.v again, with the size bound PER MESSAGE
   (|bytes(m)| < 2^64 for each m) instead of a bound on the whole stream, and in the form the compositions with
   C01 / C08 need: a run of loads over a written stream is [parse_each]; a cut run is a prefix of it and raises. *)
From BP Require Import Base.Prelude Model.Types Model.Varint Model.Object Model.Eq Model.Encode Model.Len Model.Decode.
From BP Require Import Model.C10Stream Model.C10Rt.
From BP Require Import Spec.Varint Proofs.VarintP Proofs.LenP Proofs.C10FieldP Proofs.C10FrameP Proofs.C10StreamP Proofs.C10TotalP.

Lemma msg_small_spec sc m :
  msg_small sc m = true <-> exists bs, enc_obj sc m = Ok bs /\ Zlength bs < 2 ^ 64.
Proof.
  unfold msg_small. destruct (enc_obj sc m) as [bs|e]; split.
  - intros H. exists bs. split; [reflexivity | lia].
  - intros (bs' & E & L). injection E as <-. lia.
  - discriminate.
  - intros (bs' & E & _). discriminate.
Qed.

(* what dump(stream, SIZE_DELIMITED) writes for a small message is a frame *)
Lemma dump_small_frame sc m :
  msg_small sc m = true ->
  exists pre p, enc_obj sc m = Ok p /\ encode_varint (Zlength p) = Ok pre /\ VarintRep (Zlength p) pre /\
                dump sc m true = Ok (pre ++ p).
Proof.
  intros H. apply msg_small_spec in H as (p & E & L). pose proof (Zlen_nonneg p).
  destruct (encode_in_range (Zlength p) ltac:(lia)) as (pre & EV & (Sh & Va & _) & Le).
  unfold wrap64 in Va. rewrite Z.mod_small in Va by lia.
  exists pre, p. split; [exact E|]. split; [exact EV|]. split; [repeat split; assumption|].
  rewrite (dump_delimited _ _ _ E), EV. reflexivity.
Qed.

Lemma dump_frame_small sc m F :
  msg_small sc m = true -> dump sc m true = Ok F ->
  exists pre p, enc_obj sc m = Ok p /\ VarintRep (Zlength p) pre /\ F = pre ++ p.
Proof.
  intros H D. destruct (dump_small_frame sc m H) as (pre & p & E & _ & R & D'). rewrite D in D'. injection D' as ->.
  exists pre, p. split; [exact E|]. split; [exact R | reflexivity].
Qed.

(* a frame is never empty: at least the length byte *)
Lemma frame_nonempty sc m F : msg_small sc m = true -> dump sc m true = Ok F -> (0 < length F)%nat.
Proof.
  intros H D. destruct (dump_frame_small sc m F H D) as (pre & p & _ & (Sh & _) & ->).
  rewrite app_length. destruct pre; [cbn in Sh; contradiction | cbn [length]; lia].
Qed.

(* the writer does not raise on small messages *)
Lemma dump_stream_small sc : forall ms,
  Forall (fun m => msg_small sc m = true) ms -> exists stream, dump_stream sc ms = Ok stream.
Proof.
  induction ms as [|m ms IH]; intros H; [exists []; reflexivity|].
  inversion H as [|? ? Hm Hms]; subst. destruct (IH Hms) as (S' & DS).
  destruct (dump_small_frame sc m Hm) as (pre & p & _ & _ & _ & D).
  exists ((pre ++ p) ++ S'). cbn [dump_stream]. rewrite D, DS. reflexivity.
Qed.

Lemma dump_stream_app sc : forall a b sa sb,
  dump_stream sc a = Ok sa -> dump_stream sc b = Ok sb -> dump_stream sc (a ++ b) = Ok (sa ++ sb).
Proof.
  induction a as [|m a IH]; intros b sa sb Da Db.
  - cbn in Da. injection Da as <-. exact Db.
  - destruct (dump_stream_cons _ _ _ _ Da) as (F & S' & DF & DS & ->).
    cbn [app dump_stream]. rewrite DF, (IH b S' sb DS Db). cbn [bind]. rewrite app_assoc. reflexivity.
Qed.

Lemma dump_stream_app_inv sc : forall a b s,
  dump_stream sc (a ++ b) = Ok s ->
  exists sa sb, dump_stream sc a = Ok sa /\ dump_stream sc b = Ok sb /\ s = sa ++ sb.
Proof.
  induction a as [|m a IH]; intros b s D.
  - exists [], s. repeat split. exact D.
  - cbn [app] in D. destruct (dump_stream_cons _ _ _ _ D) as (F & S' & DF & DS & ->).
    destruct (IH b S' DS) as (sa & sb & Da & Db & ->).
    exists (F ++ sa), sb. cbn [dump_stream]. rewrite DF, Da. cbn [bind]. rewrite app_assoc. repeat split. exact Db.
Qed.

(* ---- the stream read back: C10StreamP.stream_frames with the bound per message ---- *)
Theorem stream_frames_small scW scR : forall ms cs stream rest,
  Forall (fun m => msg_small scW m = true) ms ->
  dump_stream scW ms = Ok stream -> length cs = length ms ->
  exists r, loads scR cs (stream ++ rest) = (fst (parse_each scW scR cs ms), r) /\
            (if snd (parse_each scW scR cs ms) then r = Ok rest else exists e, r = Err e).
Proof.
  induction ms as [|m ms IH]; intros cs stream rest Hs D Hl; destruct cs as [|c cs]; cbn [length] in Hl; try lia.
  - cbn in D. injection D as <-. exists (Ok rest). split; reflexivity.
  - inversion Hs as [|? ? Hm Hms]; subst.
    destruct (dump_stream_cons _ _ _ _ D) as (F & S' & DF & DS & ->).
    destruct (dump_frame_small _ _ _ Hm DF) as (pre & p & E & R & ->).
    cbn [parse_each loads]. rewrite E. rewrite <- !app_assoc.
    destruct (parse scR c p) as [m'|e] eqn:P.
    + rewrite (frame_load_ok scR c pre p (S' ++ rest) m' R P).
      destruct (IH cs S' rest Hms DS ltac:(lia)) as (r & EL & Hr).
      rewrite EL. destruct (parse_each scW scR cs ms) as [l ok]. cbn [fst snd] in *.
      exists r. split; [reflexivity | exact Hr].
    + destruct (frame_load_err scR c pre p (S' ++ rest) e R P) as (e' & ->).
      exists (Err e'). split; [reflexivity | cbn [snd]; eauto].
Qed.

Corollary loads_parse_each scW scR ms cs stream rest l :
  Forall (fun m => msg_small scW m = true) ms ->
  dump_stream scW ms = Ok stream -> length cs = length ms ->
  parse_each scW scR cs ms = (l, true) ->
  loads scR cs (stream ++ rest) = (l, Ok rest).
Proof.
  intros Hs D Hl PE. destruct (stream_frames_small scW scR ms cs stream rest Hs D Hl) as (r & EL & Hr).
  rewrite PE in *. cbn [fst snd] in *. subst r. exact EL.
Qed.

(* parse_each over a list of reads that all succeed *)
Lemma parse_each_map scW scR (rd : obj -> obj) : forall ms,
  Forall (fun m => exists bs, enc_obj scW m = Ok bs /\ parse scR (ocls m) bs = Ok (rd m)) ms ->
  parse_each scW scR (map ocls ms) ms = (map rd ms, true).
Proof.
  induction ms as [|m ms IH]; intros H; [reflexivity|].
  inversion H as [|? ? (bs & E & P) Hms]; subst. cbn [map parse_each]. rewrite E, P, (IH Hms). reflexivity.
Qed.

Lemma parse_each_forall2 scW scR : forall ms mos,
  Forall2 (fun m mo => exists bs, enc_obj scW m = Ok bs /\ parse scR (ocls m) bs = Ok mo) ms mos ->
  parse_each scW scR (map ocls ms) ms = (mos, true).
Proof.
  induction ms as [|m ms IH]; intros mos H; inversion H as [|? mo ? l' (bs & E & P) H']; subst; [reflexivity|].
  cbn [map parse_each]. rewrite E, P, (IH l' H'). reflexivity.
Qed.

Lemma parse_each_firstn scW scR : forall cs ms l j,
  parse_each scW scR cs ms = (l, true) ->
  parse_each scW scR (firstn j cs) (firstn j ms) = (firstn j l, true).
Proof.
  induction cs as [|c cs IH]; intros ms l j H.
  - cbn [parse_each] in H. injection H as <-. destruct j; destruct ms; reflexivity.
  - destruct ms as [|m ms].
    + cbn [parse_each] in H. injection H as <-. destruct j; reflexivity.
    + destruct j; [reflexivity|]. cbn [parse_each firstn] in *.
      destruct (enc_obj scW m) as [bs|]; [|discriminate].
      destruct (parse scR c bs) as [m'|]; [|discriminate].
      destruct (parse_each scW scR cs ms) as [l0 ok] eqn:PE. injection H as <- ->.
      rewrite (IH ms l0 j PE). reflexivity.
Qed.

Lemma parse_each_length scW scR : forall cs ms l,
  length cs = length ms -> parse_each scW scR cs ms = (l, true) -> length l = length ms.
Proof.
  induction cs as [|c cs IH]; intros ms l Hl H; destruct ms as [|m ms]; cbn [length] in Hl; try lia.
  - injection H as <-. reflexivity.
  - cbn [parse_each] in H. destruct (enc_obj scW m) as [bs|]; [|discriminate].
    destruct (parse scR c bs) as [m'|]; [|discriminate].
    destruct (parse_each scW scR cs ms) as [l0 ok] eqn:PE. injection H as <- ->.
    cbn [length]. rewrite (IH ms l0 ltac:(lia) PE). reflexivity.
Qed.

(* ---- where a cut falls: exactly one frame contains byte number k of the stream ---- *)
Lemma cut_position sc : forall ms stream k,
  Forall (fun m => msg_small sc m = true) ms ->
  dump_stream sc ms = Ok stream -> (k < length stream)%nat ->
  exists ms1 m ms2 pre_s F,
    ms = ms1 ++ m :: ms2 /\ dump_stream sc ms1 = Ok pre_s /\ dump sc m true = Ok F /\
    (length pre_s <= k < length pre_s + length F)%nat /\ whole_frames sc ms k = length ms1.
Proof.
  induction ms as [|m ms IH]; intros stream k Hs D Hk.
  - cbn in D. injection D as <-. cbn [length] in Hk. lia.
  - inversion Hs as [|? ? Hm Hms]; subst.
    destruct (dump_stream_cons _ _ _ _ D) as (F & S' & DF & DS & ->).
    destruct (Nat.lt_ge_cases k (length F)) as [Hc|Hc].
    + exists [], m, ms, [], F. cbn [app length whole_frames]. rewrite DF.
      replace (length F <=? k)%nat with false by (symmetry; apply Nat.leb_gt; exact Hc).
      repeat split; try reflexivity; try lia.
    + rewrite app_length in Hk.
      destruct (IH S' (k - length F)%nat Hms DS ltac:(lia)) as (ms1 & m1 & ms2 & pre_s & F1 & -> & D1 & DF1 & Hr & Hw).
      exists (m :: ms1), m1, ms2, (F ++ pre_s), F1. cbn [app length whole_frames dump_stream]. rewrite DF, D1.
      replace (length F <=? k)%nat with true by (symmetry; apply Nat.leb_le; exact Hc).
      rewrite Hw, app_length. repeat split; try reflexivity; try lia. exact DF1.
Qed.

(* at or beyond the end of the stream every frame is whole *)
Lemma whole_frames_all sc : forall ms stream k,
  dump_stream sc ms = Ok stream -> (length stream <= k)%nat -> whole_frames sc ms k = length ms.
Proof.
  induction ms as [|m ms IH]; intros stream k D Hk; [reflexivity|].
  destruct (dump_stream_cons _ _ _ _ D) as (F & S' & DF & DS & ->). rewrite app_length in Hk.
  cbn [whole_frames length]. rewrite DF.
  replace (length F <=? k)%nat with true by (symmetry; apply Nat.leb_le; lia).
  rewrite (IH S' (k - length F)%nat DS) by lia. reflexivity.
Qed.

(* ---- truncation: the cut falls into frame number |ms1|; the loads return what the uncut run returns for ms1
        and the next one raises a Python exception ---- *)
Theorem stream_cut_small scW scR : forall ms1 m ms2 cs pre_s F stream k l,
  Forall (fun x => msg_small scW x = true) (ms1 ++ m :: ms2) ->
  dump_stream scW ms1 = Ok pre_s -> dump scW m true = Ok F ->
  dump_stream scW (ms1 ++ m :: ms2) = Ok stream ->
  (length ms1 < length cs)%nat ->
  (length pre_s <= k < length pre_s + length F)%nat ->
  parse_each scW scR (firstn (length ms1) cs) ms1 = (l, true) ->
  exists e, loads scR cs (firstn k stream) = (l, Err e) /\ e <> EFuel.
Proof.
  induction ms1 as [|m1 ms1 IH]; intros m ms2 cs pre_s F stream k l Hs D1 DF D Hl Hk PE.
  - cbn in D1. injection D1 as <-. cbn [length] in *. cbn [app] in D, Hs.
    inversion Hs as [|? ? Hm Hms]; subst.
    destruct cs as [|c cs]; [cbn [length] in Hl; lia|].
    destruct (dump_stream_cons _ _ _ _ D) as (F' & S' & DF' & DS & ->).
    rewrite DF in DF'. injection DF' as <-.
    destruct (dump_frame_small _ _ _ Hm DF) as (pre & p & E & R & EF).
    rewrite firstn_app. replace (k - length F)%nat with O by lia. cbn [firstn]. rewrite app_nil_r.
    assert (Hx : skipn k F <> []).
    { intros Hn. pose proof (firstn_skipn k F) as Hfs. rewrite Hn, app_nil_r in Hfs.
      pose proof (firstn_length k F) as Hfl. rewrite Hfs in Hfl. lia. }
    destruct (frame_cut_err scR c pre p (firstn k F) (skipn k F) R) as (e & He);
      [rewrite firstn_skipn; symmetry; exact EF | exact Hx |].
    cbn [firstn parse_each] in PE. injection PE as <-.
    exists e. cbn [loads]. rewrite He. split; [reflexivity|]. exact (load_delimited_raises _ _ _ _ He).
  - destruct cs as [|c cs]; [cbn [length] in Hl; lia|].
    cbn [app] in D, Hs. inversion Hs as [|? ? Hm1 Hms]; subst.
    destruct (dump_stream_cons _ _ _ _ D1) as (F1 & P1 & DF1 & DP1 & ->).
    destruct (dump_stream_cons _ _ _ _ D) as (F1' & S' & DF1' & DS & ->).
    rewrite DF1 in DF1'. injection DF1' as <-.
    destruct (dump_frame_small _ _ _ Hm1 DF1) as (pre & p & E & R & ->).
    cbn [length firstn parse_each] in *. rewrite E in PE.
    destruct (parse scR c p) as [m'|e0] eqn:P; [|discriminate].
    destruct (parse_each scW scR (firstn (length ms1) cs) ms1) as [l0 ok] eqn:PE0. injection PE as <- ->.
    rewrite app_length in Hk.
    rewrite firstn_app, firstn_all2 by lia. rewrite <- !app_assoc.
    cbn [loads]. rewrite (frame_load_ok scR c pre p _ m' R P).
    destruct (IH m ms2 cs P1 F S' (k - length (pre ++ p))%nat l0 Hms DP1 DF DS ltac:(lia) ltac:(lia) PE0) as (e & EL & Hne).
    rewrite EL. exists e. split; [reflexivity | exact Hne].
Qed.

(* the headline shape: ANY cut strictly inside the stream, for a reader that parses every payload *)
Theorem stream_cut_any scW scR ms cs stream k l :
  Forall (fun m => msg_small scW m = true) ms ->
  dump_stream scW ms = Ok stream -> length cs = length ms ->
  parse_each scW scR cs ms = (l, true) -> (k < length stream)%nat ->
  exists ms1 m ms2 pre_s F e,
    ms = ms1 ++ m :: ms2 /\ dump_stream scW ms1 = Ok pre_s /\ dump scW m true = Ok F /\
    (length pre_s <= k < length pre_s + length F)%nat /\ whole_frames scW ms k = length ms1 /\
    loads scR cs (firstn k stream) = (firstn (length ms1) l, Err e) /\ e <> EFuel.
Proof.
  intros Hs D Hl PE Hk.
  destruct (cut_position scW ms stream k Hs D Hk) as (ms1 & m & ms2 & pre_s & F & -> & D1 & DF & Hr & Hw).
  assert (PE1 : parse_each scW scR (firstn (length ms1) cs) ms1 = (firstn (length ms1) l, true)).
  { pose proof (parse_each_firstn scW scR cs (ms1 ++ m :: ms2) l (length ms1) PE) as H.
    rewrite firstn_app, firstn_all, Nat.sub_diag in H. cbn [firstn] in H. rewrite app_nil_r in H. exact H. }
  destruct (stream_cut_small scW scR ms1 m ms2 cs pre_s F stream k (firstn (length ms1) l) Hs D1 DF D) as (e & EL & Hne);
    try assumption.
  { rewrite Hl, app_length. cbn [length]. lia. }
  exists ms1, m, ms2, pre_s, F, e. repeat split; try assumption; lia.
Qed.

(* a cut at or beyond the end is no cut *)
Lemma firstn_beyond {A} (k : nat) (s : list A) : (length s <= k)%nat -> firstn k s = s.
Proof. apply firstn_all2. Qed.
