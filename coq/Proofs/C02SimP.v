(* C02: the simulation invariant between an object being loaded and the payloads gathered so far,
   and the facts about getattr / default_of / interp_field the per-cardinality step lemmas use. *)
From BP Require Import Base.Prelude Model.Types Model.Varint Model.Scalar Model.Float Model.Utf8.
From BP Require Import Model.Object Model.Eq Model.TimeCore Model.Decode Model.WellFormed.
From BP Require Import Spec.Varint Spec.Wire.
From BP Require Import Proofs.BytesP Proofs.C02Abs Proofs.C02WireP Proofs.C02LeafP Proofs.C02LoadP Proofs.C02ListP Proofs.C02StepP.
From BP Require Import gen.Tables.
From Coq Require Import ZifyBool ZifyN.
Ltac Zify.zify_post_hook ::= Z.to_euclidean_division_equations.

(* ------------------------------------------------------------------ well-formed classes *)
Lemma wf_class_get sc c : wf_schema sc = true -> wf_class sc (get_class sc c) = true.
Proof.
  intros WF. unfold wf_schema in WF. apply andb_true_iff in WF as [_ WF].
  unfold get_class. destruct (nth_error (classes sc) c) as [cd|] eqn:E.
  - rewrite (nth_error_nth _ _ _ E). eapply forallb_nth_error; eauto.
  - rewrite nth_overflow by (now apply nth_error_None). reflexivity.
Qed.

Lemma wf_field_get sc c i f :
  wf_schema sc = true -> nth_error (cfields (get_class sc c)) i = Some f ->
  wf_field sc (cngroups (get_class sc c)) f = true.
Proof.
  intros WF H. pose proof (wf_class_get sc c WF) as W. unfold wf_class in W.
  apply andb_true_iff in W as [W _]. eapply forallb_nth_error; eauto.
Qed.

Lemma wf_nodup sc c : wf_schema sc = true -> nodup_z (map fnum (cfields (get_class sc c))) = true.
Proof. intros WF. pose proof (wf_class_get sc c WF) as W. unfold wf_class in W. now apply andb_true_iff in W as [_ W]. Qed.

Ltac bsplit :=
  repeat match goal with
         | H : (_ && _) = true |- _ => apply andb_true_iff in H; destruct H
         end;
  repeat match goal with
         | H : negb _ = true |- _ => apply negb_true_iff in H
         end.

Lemma is_some'_false {A} (o : option A) : is_some' o = false -> o = None.
Proof. destruct o; [discriminate | reflexivity]. Qed.

(* what wf_field says, by cardinality *)
Lemma wf_implicit sc ng f : wf_field sc ng f = true -> card_of f = Implicit ->
  exists p, fhint f = HPlain p /\ fgroup f = None /\ fopt f = false /\ fwraps f = None /\ msg_class f = None /\
            ptype_eqb (fty f) TMap = false /\ pyty_fits (length (classes sc)) (length (enums sc)) (fty f) p = true.
Proof.
  unfold wf_field, card_of, msg_class. intros W C.
  destruct (fhint f) as [p|p|p|k v] eqn:H; try discriminate.
  destruct (fgroup f) eqn:G; [discriminate|]. bsplit.
  exists p. split; [reflexivity|]. split; [reflexivity|]. split; [assumption|].
  split; [now apply is_some'_false|]. split; [destruct (fty f); try reflexivity; discriminate|].
  split; assumption.
Qed.

Lemma wf_repeated sc ng f : wf_field sc ng f = true -> card_of f = Repeated ->
  exists p, fhint f = HList p /\ fgroup f = None /\ fopt f = false /\ fwraps f = None /\
            ptype_eqb (fty f) TMap = false /\ pyty_fits (length (classes sc)) (length (enums sc)) (fty f) p = true.
Proof.
  unfold wf_field, card_of. intros W C.
  destruct (fhint f) as [p|p|p|k v] eqn:H; try discriminate.
  - destruct (fgroup f); [discriminate|]. destruct (fty f); discriminate.
  - bsplit. exists p. split; [reflexivity|]. split; [now apply is_some'_false|]. split; [assumption|].
    split; [now apply is_some'_false|]. split; assumption.
Qed.

Lemma wf_singular sc ng f : wf_field sc ng f = true ->
  match card_of f with Repeated | MapOf => False | _ => True end ->
  ptype_eqb (fty f) TMap = false /\ (forall l, default_of sc f <> PList l) /\
  (match fgroup f with Some g => (g < ng)%nat | None => True end).
Proof.
  unfold wf_field, card_of. intros W C.
  assert (G : match fgroup f with Some g => (g < ng)%nat | None => True end).
  { bsplit. destruct (fgroup f); [|exact I]. now apply Nat.ltb_lt. }
  split; [|split; [|exact G]].
  - destruct (fhint f) as [p|p|p|k v] eqn:H; try contradiction.
    + bsplit. assumption.
    + destruct (fwraps f); bsplit.
      * match goal with E : ptype_eqb (fty f) TMessage = true |- _ => apply ptype_eqb_eq in E; now rewrite E end.
      * assumption.
  - intros l. unfold default_of. destruct (fhint f) as [p|p|p|k v]; try contradiction; try discriminate.
    destruct p; discriminate.
Qed.

(* ------------------------------------------------------------------ getattr *)
Lemma getattr_spec sc c raw sow unk cur i f x :
  nth_error (cfields (get_class sc c)) i = Some f -> nth_error raw i = Some x ->
  group_selects cur f i <> Some false ->
  getattr sc (Obj c raw sow unk cur) i =
  match x with
  | PPlaceholder => (Obj c (set_nth i (default_of sc f) raw) sow unk cur, Ok (default_of sc f))
  | v => (Obj c raw sow unk cur, Ok v)
  end.
Proof.
  intros Hf Hx Hg. unfold getattr. rewrite Hf. rewrite (nth_of_nth_error _ _ _ PPlaceholder Hx).
  destruct (group_selects cur f i) as [[|]|]; try congruence; destruct x; reflexivity.
Qed.

Lemma getattr_unselected sc c raw sow unk cur i f :
  nth_error (cfields (get_class sc c)) i = Some f -> group_selects cur f i = Some false ->
  getattr sc (Obj c raw sow unk cur) i = (Obj c raw sow unk cur, Err EAttribute).
Proof. intros Hf Hg. unfold getattr. now rewrite Hf, Hg. Qed.

(* ------------------------------------------------------------------ the invariant *)
Definition shape_ok (f : fdesc) (x : pv) : Prop :=
  match card_of f with
  | Repeated => x = PPlaceholder \/ exists l, x = PList l
  | MapOf => x = PPlaceholder \/ exists d, x = PDict d
  | Explicit =>
      (forall l, x <> PList l) /\
      (forall o', x = PMsg o' -> osow o' = true) /\    (* message values stored by the decoder are marked *)
      (x = PNone -> match fhint f with HOptional _ => True | _ => False end)
  | _ => forall l, x <> PList l
  end.

Section Inv.
  Variable sc : schema.
  Variable nested : nat -> list byte -> option aval.
  Variable c : nat.
  Let fs := cfields (get_class sc c).

  Record Inv (o : obj) (st : list (list payload)) (urs : list record) : Prop := {
    i_cls : ocls o = c;
    i_sow : osow o = true;
    i_raw : length (oraw o) = length fs;
    i_st : length st = length fs;
    i_cur : length (ocur o) = cngroups (get_class sc c);
    i_unk : wire_ok (ounk o) urs;
    i_fld : forall k fk x ps,
        nth_error fs k = Some fk -> nth_error (oraw o) k = Some x -> nth_error st k = Some ps ->
        interp_field nested sc fk ps = Some (abs_field sc (ocur o) k fk x) /\ shape_ok fk x }.

  (* at the end of the records: the abstraction of the object is the denotation *)
  Lemma Inv_final o st urs :
    Inv o st urs ->
    omap_all (fun '(f, ps) => interp_field nested sc f ps) (combine fs st) =
      Some (imap2 (abs_field sc (ocur o)) 0 fs (oraw o)) /\
    abs_obj sc o = AMsg (imap2 (abs_field sc (ocur o)) 0 fs (oraw o)) urs.
  Proof.
    intros I. destruct o as [c0 raw sow unk cur]. pose proof (i_cls _ _ _ I) as Ec. cbn [ocls oraw ocur] in *. subst c0.
    split.
    - apply omap_all_imap2; [symmetry; apply (i_raw _ _ _ I) | symmetry; apply (i_st _ _ _ I)|].
      intros k a b ps Ha Hb Hc. cbn [Nat.add]. apply (i_fld _ _ _ I k a b ps Ha Hb Hc).
    - rewrite abs_obj_eq. f_equal. unfold unknown_of.
      pose proof (i_unk _ _ _ I) as W. cbn [ounk] in W. now rewrite (wire_ok_parse _ _ W).
  Qed.
End Inv.

(* a freshly constructed object against the empty gather state *)
Lemma nth_repeat_none g n : nth g (repeat (@None nat) n) None = None.
Proof. revert g; induction n as [|n IH]; intros [|g]; cbn; auto. Qed.

Lemma interp_empty nested sc f : interp_field nested sc f [] = Some (empty_field f).
Proof.
  unfold interp_field, empty_field. destruct (card_of f); cbn [omap_all obind concat fold_left last]; try reflexivity.
  - destruct (msg_class f); reflexivity.
  - destruct (msg_class f); reflexivity.
Qed.

Lemma Inv_new sc nested c :
  wf_schema sc = true ->
  let o := new sc c in
  Inv sc nested c (Obj (ocls o) (oraw o) true (ounk o) (ocur o)) (map (fun _ => []) (cfields (get_class sc c))) [].
Proof.
  intros WF. cbn [new ocls oraw ounk ocur].
  constructor; cbn [ocls osow oraw ounk ocur]; try reflexivity.
  - now rewrite map_length.
  - now rewrite map_length.
  - now rewrite repeat_length.
  - constructor.
  - intros k fk x ps Hf Hx Hp.
    rewrite nth_error_map, Hf in Hx. cbn in Hx. injection Hx as <-.
    rewrite nth_error_map, Hf in Hp. cbn in Hp. injection Hp as <-.
    rewrite interp_empty. pose proof (wf_field_get sc c k fk WF Hf) as W.
    unfold abs_field, empty_field, shape_ok. destruct (card_of fk) eqn:C.
    + destruct (wf_implicit _ _ _ W C) as (p & _ & _ & -> & _). split; [reflexivity | discriminate].
    + split; [now destruct (fopt fk)|]. split; [destruct (fopt fk); discriminate|].
      split; [destruct (fopt fk); discriminate|].
      destruct (fopt fk) eqn:Fo; [|discriminate]. intros _.
      unfold wf_field in W. destruct (fhint fk); try exact I; bsplit; congruence.
    + rewrite nth_repeat_none. cbn [opt_nat_eqb]. split; [reflexivity | destruct (fopt fk); discriminate].
    + destruct (wf_repeated _ _ _ W C) as (p & _ & _ & -> & _). split; [reflexivity | now left].
    + assert (fopt fk = false) as ->.
      { unfold wf_field, card_of in W, C. destruct (fhint fk); try discriminate.
        - destruct (fgroup fk); [discriminate|]. destruct (fty fk); discriminate.
        - bsplit. assumption. }
      split; [reflexivity | now left].
Qed.
