(* C02, gap closure (3): re-encodings that change ONE field's payload list (specification level, Spec/Wire.v only).
     sem_local             two record lists that every other field sees alike and whose field-i payload lists have
                           the same interpretation denote the same message
     sem_duplicate_scalar  a valid earlier occurrence of a singular scalar field is overridden by a later one
     sem_repeated_rewrite  inside a repeated field a run of records may be replaced by any other run with the same
                           elements: packed <-> unpacked, chunk split, mixed forms, padded packed elements *)
From Coq Require Import ZArith List Bool Lia.
From BP Require Import Base.Prelude Model.Types Model.Object Model.WellFormed Spec.Varint Spec.Wire.
From BP Require Import Proofs.C02Abs Proofs.C02ListP Proofs.C02StepP Proofs.C02StoreP Proofs.C02MapP Proofs.C02LegalSpec.
From BP Require Import Model.C02GapDef Proofs.C02GapB.
Import ListNotations.

(* ------------------------------------------------------------------ list helpers *)
Lemma omap_all_app_eq {A B} (f : A -> option B) l1 l2 :
  omap_all f (l1 ++ l2) = (let? a := omap_all f l1 in let? b := omap_all f l2 in Some (a ++ b)).
Proof.
  induction l1 as [|x l1 IH]; cbn [app omap_all].
  - cbn [obind app]. destruct (omap_all f l2); reflexivity.
  - change (omap_all f (x :: l1 ++ l2)) with (let? y := f x in let? ys := omap_all f (l1 ++ l2) in Some (y :: ys)).
    change (omap_all f (x :: l1)) with (let? y := f x in let? ys := omap_all f l1 in Some (y :: ys)).
    rewrite IH. destruct (f x); cbn [obind]; [|reflexivity].
    destruct (omap_all f l1); cbn [obind]; [|reflexivity].
    destruct (omap_all f l2); cbn [obind]; reflexivity.
Qed.

Lemma last_app_ne {A} (a b : list A) d : b <> [] -> last (a ++ b) d = last b d.
Proof.
  induction a as [|x a IH]; intros Hb; [reflexivity|]. cbn [app]. specialize (IH Hb).
  change (last (x :: a ++ b) d) with (match a ++ b with [] => x | _ :: _ => last (a ++ b) d end).
  destruct (a ++ b) eqn:E; [apply app_eq_nil in E; tauto | exact IH].
Qed.

Lemma omap_all_combine_ext {B} (F : fdesc * list payload -> option B) : forall fs st st',
  length st = length fs -> length st' = length fs ->
  (forall k fk ps ps', nth_error fs k = Some fk -> nth_error st k = Some ps -> nth_error st' k = Some ps' ->
                       F (fk, ps) = F (fk, ps')) ->
  omap_all F (combine fs st) = omap_all F (combine fs st').
Proof.
  induction fs as [|f fs IH]; intros [|ps st] [|ps' st'] L L' H; try discriminate; [reflexivity|].
  cbn [combine].
  change (omap_all F ((f, ps) :: combine fs st)) with (let? y := F (f, ps) in let? ys := omap_all F (combine fs st) in Some (y :: ys)).
  change (omap_all F ((f, ps') :: combine fs st')) with (let? y := F (f, ps') in let? ys := omap_all F (combine fs st') in Some (y :: ys)).
  rewrite (H 0%nat f ps ps' eq_refl eq_refl eq_refl).
  rewrite (IH st st'); [reflexivity | cbn in L; lia | cbn in L'; lia |].
  intros k fk qs qs' Hk Hq Hq'. exact (H (S k) fk qs qs' Hk Hq Hq').
Qed.

(* ------------------------------------------------------------------ one field changes, the others do not *)
Theorem sem_local n sc c rs rs' i f :
  nth_error (cfields (get_class sc c)) i = Some f ->
  (forall nested, forallb (record_valid nested sc (cfields (get_class sc c))) rs =
                  forallb (record_valid nested sc (cfields (get_class sc c))) rs') ->
  unk_of sc (cfields (get_class sc c)) rs = unk_of sc (cfields (get_class sc c)) rs' ->
  (forall k fk, nth_error (cfields (get_class sc c)) k = Some fk -> k <> i ->
                proj sc (cfields (get_class sc c)) k fk rs = proj sc (cfields (get_class sc c)) k fk rs') ->
  (forall nested, interp_field nested sc f (proj sc (cfields (get_class sc c)) i f rs) =
                  interp_field nested sc f (proj sc (cfields (get_class sc c)) i f rs')) ->
  sem n sc c rs = sem n sc c rs'.
Proof.
  set (fs := cfields (get_class sc c)). intros Hi HV HU HP HI.
  destruct n as [|n']; [reflexivity|]. rewrite !sem_S. cbv zeta. fold fs. rewrite HV.
  destruct (forallb _ rs'); [|reflexivity].
  set (st0 := map (fun _ : fdesc => @nil payload) fs).
  assert (L0 : length st0 = length fs) by (unfold st0; apply map_length).
  pose proof (gather_length sc fs rs (st0, []) L0) as L1.
  pose proof (gather_length sc fs rs' (st0, []) L0) as L2.
  assert (U : snd (gather sc fs rs) = snd (gather sc fs rs')).
  { unfold gather. rewrite !gather_unk. cbn [app]. exact HU. }
  assert (N : forall rs0 k fk, nth_error fs k = Some fk ->
                nth_error (fst (gather sc fs rs0)) k = Some (proj sc fs k fk rs0)).
  { intros rs0 k fk Hk. unfold gather, proj. apply gather_nth; [exact L0 | exact Hk |].
    unfold st0. now rewrite (map_nth_error _ _ _ Hk). }
  fold st0 in L1, L2. change (fold_left (gather_step sc fs) rs (st0, [])) with (gather sc fs rs) in L1.
  change (fold_left (gather_step sc fs) rs' (st0, [])) with (gather sc fs rs') in L2.
  pose proof (N rs) as NA. pose proof (N rs') as NB. clear N.
  destruct (gather sc fs rs) as [st u]. destruct (gather sc fs rs') as [st' u']. cbn [fst snd] in *. subst u'.
  rewrite (omap_all_combine_ext (fun '(f0, ps) => interp_field (nested_sem n' sc) sc f0 ps) fs st st' L1 L2); [reflexivity|].
  intros k fk ps ps' Hk Hp Hp'.
  pose proof (NA k fk Hk) as N1. pose proof (NB k fk Hk) as N2.
  rewrite Hp in N1. rewrite Hp' in N2. injection N1 as ->. injection N2 as ->.
  destruct (Nat.eq_dec k i) as [->|Ne].
  - assert (fk = f) by congruence. subst fk. apply HI.
  - now rewrite (HP k fk Hk Ne).
Qed.

(* ------------------------------------------------------------------ what later records do to a field's payloads *)
Definition resets (sc : schema) (fs : list fdesc) (k : nat) (fk : fdesc) (rs : list record) : bool :=
  existsb (fun r => match slot sc fs r with
                    | Some (i, f) => negb (Nat.eqb i k) && same_group f fk
                    | None => false
                    end) rs.

Lemma proj_prefix sc fs k fk : forall rs ps,
  fold_left (proj_step sc fs k fk) rs ps =
  (if resets sc fs k fk rs then [] else ps) ++ fold_left (proj_step sc fs k fk) rs [].
Proof.
  induction rs as [|r rs IH]; intros ps; [cbn; now rewrite app_nil_r|].
  cbn [fold_left]. rewrite (IH (proj_step sc fs k fk ps r)), (IH (proj_step sc fs k fk [] r)).
  unfold resets. cbn [existsb]. fold (resets sc fs k fk rs). rewrite !proj_step_eq.
  destruct (slot sc fs r) as [[i f]|]; cbn [orb].
  - destruct (Nat.eqb i k); cbn [negb andb orb].
    + destruct (resets sc fs k fk rs); cbn [app]; [reflexivity | now rewrite <- app_assoc].
    + destruct (same_group f fk); cbn [orb]; destruct (resets sc fs k fk rs); reflexivity.
  - destruct (resets sc fs k fk rs); reflexivity.
Qed.

Lemma same_group_nogroup f g : fgroup g = None -> same_group f g = false.
Proof. unfold same_group. intros ->. destruct (fgroup f); reflexivity. Qed.

Lemma resets_nogroup sc fs k fk rs : fgroup fk = None -> resets sc fs k fk rs = false.
Proof.
  intros G. unfold resets. induction rs as [|r rs IH]; [reflexivity|]. cbn [existsb]. rewrite IH.
  destruct (slot sc fs r) as [[i f]|]; [|reflexivity]. rewrite (same_group_nogroup f fk G). now rewrite andb_false_r.
Qed.

Lemma fold_keeps_nonempty sc fs k fk : fgroup fk = None -> forall rs ps, ps <> [] ->
  fold_left (proj_step sc fs k fk) rs ps <> [].
Proof.
  intros G rs ps Hp. rewrite proj_prefix, (resets_nogroup sc fs k fk rs G).
  intros E. apply app_eq_nil in E. tauto.
Qed.

Lemma later_nonempty sc fs k fk : fgroup fk = None -> forall rs ps,
  later_for sc fs k rs = true -> fold_left (proj_step sc fs k fk) rs ps <> [].
Proof.
  intros G. induction rs as [|r rs IH]; intros ps H; [discriminate|].
  unfold later_for in H. cbn [existsb] in H. cbn [fold_left].
  destruct (slot_is sc fs k r) eqn:S1.
  - apply fold_keeps_nonempty; [exact G|]. rewrite proj_step_eq. unfold slot_is in S1.
    destruct (slot sc fs r) as [[i f]|]; [|discriminate]. rewrite S1. intros E. apply app_eq_nil in E. destruct E; discriminate.
  - apply IH. exact H.
Qed.

(* ------------------------------------------------------------------ duplicated singular scalar: the last one wins *)
Lemma record_valid_slot nested sc fs r i f :
  slot sc fs r = Some (i, f) -> record_valid nested sc fs r = payload_valid nested f (snd r).
Proof.
  unfold slot, record_valid. destruct (find_field fs (fst r)) as [[i0 f0]|]; [|discriminate].
  destruct (accepts sc f0 (snd r)); [|discriminate]. intros H. injection H as <- <-. reflexivity.
Qed.

Lemma singular_scalar_spec f : singular_scalar f = true ->
  fgroup f = None /\ msg_class f = None /\ (card_of f = Implicit \/ card_of f = Explicit).
Proof.
  unfold singular_scalar. destruct (fgroup f); [discriminate|]. destruct (msg_class f); [discriminate|].
  destruct (card_of f); try discriminate; auto.
Qed.

Theorem sem_duplicate_scalar n sc c pre r post i f :
  slot sc (cfields (get_class sc c)) r = Some (i, f) -> singular_scalar f = true ->
  is_some (scalar_of (fty f) (snd r)) = true ->
  later_for sc (cfields (get_class sc c)) i post = true ->
  sem n sc c (pre ++ r :: post) = sem n sc c (pre ++ post).
Proof.
  set (fs := cfields (get_class sc c)). intros Sl SS Hv Lt.
  destruct (singular_scalar_spec f SS) as (G & MC & Cd).
  pose proof (slot_nth _ _ _ _ _ Sl) as Hi.
  apply (sem_local n sc c _ _ i f Hi); fold fs.
  - intros nested. rewrite !forallb_app. cbn [forallb]. rewrite (record_valid_slot nested sc fs r i f Sl).
    unfold payload_valid, elem_of. rewrite MC. destruct Cd as [-> | ->]; rewrite Hv; reflexivity.
  - rewrite !unk_of_app, unk_of_cons, Sl. reflexivity.
  - intros k fk Hk Ne. unfold proj. rewrite !fold_proj_app. cbn [fold_left]. f_equal.
    rewrite proj_step_eq, Sl. replace (Nat.eqb i k) with false by (symmetry; apply Nat.eqb_neq; congruence).
    assert (same_group f fk = false) as ->; [|reflexivity].
    unfold same_group. rewrite G. reflexivity.
  - intros nested. unfold proj. rewrite !fold_proj_app. cbn [fold_left].
    set (P := fold_left (proj_step sc fs i f) pre []).
    rewrite (proj_prefix sc fs i f post (proj_step sc fs i f P r)), (proj_prefix sc fs i f post P).
    rewrite (resets_nogroup sc fs i f post G).
    pose proof (later_nonempty sc fs i f G post [] Lt) as NE.
    set (T := fold_left (proj_step sc fs i f) post []) in *.
    rewrite proj_step_eq, Sl, Nat.eqb_refl.
    destruct (scalar_of (fty f) (snd r)) as [v|] eqn:Ev; [|discriminate].
    unfold interp_field. rewrite MC.
    rewrite <- !app_assoc. rewrite !omap_all_app_eq. cbn [omap_all]. rewrite Ev. cbn [obind].
    destruct (omap_all (scalar_of (fty f)) P) as [a|]; cbn [obind]; [|destruct Cd as [-> | ->]; reflexivity].
    destruct (omap_all (scalar_of (fty f)) T) as [t|] eqn:ET; cbn [obind]; [|destruct Cd as [-> | ->]; reflexivity].
    assert (Nt : t <> []).
    { intros ->. apply omap_all_length in ET. destruct T; [congruence | discriminate]. }
    cbn [app].
    assert (E1 : forall d, last (a ++ v :: t) d = last t d).
    { intros d. change (v :: t) with ([v] ++ t). rewrite app_assoc. now apply last_app_ne. }
    assert (E2 : forall d, last (a ++ t) d = last t d) by (intros d; now apply last_app_ne).
    destruct Cd as [-> | ->].
    + now rewrite E1, E2.
    + rewrite E1, E2. destruct (a ++ v :: t) eqn:X; [apply app_eq_nil in X; destruct X; discriminate|].
      destruct (a ++ t) eqn:Y; [apply app_eq_nil in Y; tauto | reflexivity].
Qed.

(* ------------------------------------------------------------------ repeated fields: same elements, other records *)
Definition elems_all (nested : nat -> list byte -> option aval) (f : fdesc) (mid : list record) : option (list aval) :=
  let? ls := omap_all (elems_of nested f) (map snd mid) in Some (concat ls).

Definition all_slot (sc : schema) (fs : list fdesc) (i : nat) (f : fdesc) (mid : list record) : Prop :=
  forall r, In r mid -> slot sc fs r = Some (i, f).

Lemma fold_mid_self sc fs i f : forall mid ps, all_slot sc fs i f mid ->
  fold_left (proj_step sc fs i f) mid ps = ps ++ map snd mid.
Proof.
  induction mid as [|r mid IH]; intros ps A; [cbn; now rewrite app_nil_r|].
  cbn [fold_left map]. rewrite proj_step_eq, (A r (or_introl eq_refl)), Nat.eqb_refl.
  rewrite IH by (intros r' Hr'; apply A; now right). now rewrite <- app_assoc.
Qed.

Lemma fold_mid_other sc fs i f k fk : k <> i -> forall mid ps, all_slot sc fs i f mid -> mid <> [] ->
  fold_left (proj_step sc fs k fk) mid ps = if same_group f fk then [] else ps.
Proof.
  intros Ne. induction mid as [|r mid IH]; intros ps A Hne; [congruence|].
  cbn [fold_left]. rewrite proj_step_eq, (A r (or_introl eq_refl)).
  replace (Nat.eqb i k) with false by (symmetry; apply Nat.eqb_neq; congruence).
  destruct mid as [|r' mid'].
  - reflexivity.
  - rewrite IH; [| intros x Hx; apply A; now right | discriminate].
    destruct (same_group f fk); reflexivity.
Qed.

Lemma valid_mid nested sc fs i f : card_of f = Repeated -> forall mid, all_slot sc fs i f mid ->
  forallb (record_valid nested sc fs) mid = is_some (omap_all (elems_of nested f) (map snd mid)).
Proof.
  intros Cd. induction mid as [|r mid IH]; intros A; [reflexivity|].
  cbn [forallb map]. rewrite (record_valid_slot nested sc fs r i f (A r (or_introl eq_refl))).
  rewrite IH by (intros x Hx; apply A; now right).
  unfold payload_valid. rewrite Cd.
  change (omap_all (elems_of nested f) (snd r :: map snd mid))
    with (let? y := elems_of nested f (snd r) in let? ys := omap_all (elems_of nested f) (map snd mid) in Some (y :: ys)).
  destruct (elems_of nested f (snd r)); cbn [obind is_some andb]; [|reflexivity].
  destruct (omap_all (elems_of nested f) (map snd mid)); reflexivity.
Qed.

Lemma unk_of_all_slot sc fs i f mid : all_slot sc fs i f mid -> unk_of sc fs mid = [].
Proof.
  induction mid as [|r mid IH]; intros A; [reflexivity|]. rewrite unk_of_cons, (A r (or_introl eq_refl)). cbn [is_some].
  apply IH. intros x Hx. apply A. now right.
Qed.

Theorem sem_repeated_rewrite n sc c pre mid mid' post i f :
  all_slot sc (cfields (get_class sc c)) i f mid -> all_slot sc (cfields (get_class sc c)) i f mid' ->
  mid <> [] -> mid' <> [] -> card_of f = Repeated ->
  (forall nested, elems_all nested f mid = elems_all nested f mid') ->
  sem n sc c (pre ++ mid ++ post) = sem n sc c (pre ++ mid' ++ post).
Proof.
  set (fs := cfields (get_class sc c)). intros A A' Ne Ne' Cd HE.
  assert (Hi : nth_error fs i = Some f).
  { destruct mid as [|r0 mid0]; [congruence|]. exact (slot_nth _ _ _ _ _ (A r0 (or_introl eq_refl))). }
  assert (HS : forall nested, is_some (omap_all (elems_of nested f) (map snd mid)) =
                              is_some (omap_all (elems_of nested f) (map snd mid'))).
  { intros nested. specialize (HE nested). unfold elems_all in HE.
    destruct (omap_all (elems_of nested f) (map snd mid)), (omap_all (elems_of nested f) (map snd mid'));
      cbn [obind] in HE; try reflexivity; discriminate. }
  apply (sem_local n sc c _ _ i f Hi); fold fs.
  - intros nested. rewrite !forallb_app, (valid_mid nested sc fs i f Cd mid A), (valid_mid nested sc fs i f Cd mid' A').
    now rewrite HS.
  - rewrite !unk_of_app, (unk_of_all_slot sc fs i f mid A), (unk_of_all_slot sc fs i f mid' A'). reflexivity.
  - intros k fk Hk Nk. unfold proj. rewrite !fold_proj_app.
    rewrite (fold_mid_other sc fs i f k fk Nk mid _ A Ne), (fold_mid_other sc fs i f k fk Nk mid' _ A' Ne'). reflexivity.
  - intros nested. unfold proj. rewrite !fold_proj_app.
    rewrite (fold_mid_self sc fs i f mid _ A), (fold_mid_self sc fs i f mid' _ A').
    set (P := fold_left (proj_step sc fs i f) pre []).
    rewrite (proj_prefix sc fs i f post (P ++ map snd mid)), (proj_prefix sc fs i f post (P ++ map snd mid')).
    set (T := fold_left (proj_step sc fs i f) post []).
    destruct (resets sc fs i f post); [reflexivity|].
    unfold interp_field. rewrite Cd. rewrite <- !app_assoc, !omap_all_app_eq.
    specialize (HE nested). unfold elems_all in HE.
    destruct (omap_all (elems_of nested f) P) as [a|]; cbn [obind]; [|reflexivity].
    destruct (omap_all (elems_of nested f) (map snd mid)) as [m1|], (omap_all (elems_of nested f) (map snd mid')) as [m2|];
      cbn [obind] in HE |- *; try discriminate; try reflexivity.
    injection HE as HE.
    destruct (omap_all (elems_of nested f) T) as [t|]; cbn [obind]; [|reflexivity].
    rewrite !concat_app, HE. reflexivity.
Qed.
