(* C04, gap closure (3): the value hypotheses of the headline theorems for the objects the public API produces.
   C01's reachability theorem (run7 histories from Cls(): constructor, setattr, nested assignment, reads, from_dict, copies,
   pickle, parse of clean bytes - under C01's decidable conditions on the OPERATIONS) gives c01_value_ok for the final
   object.  From it two of the conjuncts of [good] are DERIVED here, at every depth:
       in_range     (all the per-kind range conditions: 64-bit integers, enum numbers, datetime range, types, lengths)
       no_unknown   (no unknown-field bytes anywhere)
   NOT derived (they remain hypotheses of rt_reachable, still evaluated on samples by the harness):
       oneof_ok     C01's invariant has the half "unselected member holds the sentinel" (oneof_clean), not the half
                    "the selected member holds a value";
       dicts_ok     C01's keys_unique compares k == k' in one direction, dicts_ok in both;
       no_lazy      K12: C01's sow_ok is a statement about the top-level object only;
       nan_ok       a property of the VALUES assigned (any NaN can be assigned), not of the history's shape. *)
From Coq Require Import ZArith List Bool Lia.
From BP Require Import Base.Prelude Model.Types Model.Object Model.Eq Model.Encode Model.WellFormed Model.Json Model.C04RepWrap.
From BP Require Import Proofs.C04Def Proofs.C04ScalarP Proofs.C04ElemP Proofs.C04InclDef Proofs.C04InclBaseP Proofs.C04InclMainP.
From BP Require Model.History Proofs.C04WitP Model.C01Def Model.C01Reach Model.C01Parse Model.C07Ops Model.Decode Proofs.C01Unfold Proofs.C01Reach2B Proofs.C04GapA.
Import ListNotations.

Lemma deep_in_list P : forall l x, C01Unfold.deep_list P l = true -> In x l -> C01Def.deep P x = true.
Proof.
  induction l as [|y l IH]; intros x D Hx; [destruct Hx|].
  rewrite C01Unfold.deep_list_cons in D. apply andb_prop in D as [D1 D2].
  destruct Hx as [->|Hx]; [exact D1|exact (IH x D2 Hx)].
Qed.

Lemma deep_in_dict P : forall d k x, C01Unfold.deep_dict P d = true -> In (k, x) d -> C01Def.deep P x = true.
Proof.
  induction d as [|[k0 y] d IH]; intros k x D Hx; [destruct Hx|].
  change (C01Unfold.deep_dict P ((k0, y) :: d)) with (C01Def.deep P y && C01Unfold.deep_dict P d) in D.
  apply andb_prop in D as [D1 D2].
  destruct Hx as [E|Hx]; [injection E as _ <-; exact D1|exact (IH k x D2 Hx)].
Qed.

(* C01's [deep] and C04's [pv_all] walk the same tree *)
Lemma deep_pv_all (P Q : obj -> bool) : (forall o, P o = true -> Q o = true) ->
  forall v, C01Def.deep P v = true -> pv_all Q v = true.
Proof.
  intros H v. induction v as [v IH] using pv_size_ind.
  destruct v as [| | | | | | | | |l|d|[c raw s u g]]; try (intros _; reflexivity).
  - rewrite C01Unfold.deep_plist. cbn [pv_all]. intros D. apply forallb_forall. intros x Hx.
    apply IH; [rewrite size_list; pose proof (in_sum_size x l Hx); lia|exact (deep_in_list P l x D Hx)].
  - rewrite C01Unfold.deep_pdict. cbn [pv_all]. intros D. apply forallb_forall. intros [k x] Hx. cbn [snd].
    apply IH; [rewrite size_dict; pose proof (in_sum_size_d k x d Hx); lia|exact (deep_in_dict P d k x D Hx)].
  - rewrite C01Unfold.deep_msg, pv_all_msg. intros D. apply andb_prop in D as [D1 D2]. rewrite (H _ D1). cbn [andb].
    apply forallb_forall. intros x Hx.
    apply IH; [rewrite size_msg; pose proof (in_sum_size x raw Hx); lia|exact (deep_in_list P raw x D2 Hx)].
Qed.

(* what C01's value condition gives of [good] *)
Theorem value_ok_gives sc m : C01Def.c01_value_ok sc m = true -> in_range sc m = true /\ no_unknown m = true.
Proof.
  unfold C01Def.c01_value_ok. intros H. apply andb_prop in H as [R D]. split; [exact R|].
  unfold no_unknown, obj_all. revert D. apply deep_pv_all. intros o Ho.
  apply andb_prop in Ho as [Ho _]. apply andb_prop in Ho as [_ U]. exact U.
Qed.

Lemma goodx_of_parts sc m : wf_schema sc = true ->
  C01Def.c01_value_ok sc m = true -> oneof_ok sc m = true -> dicts_ok sc m = true -> no_lazy sc m = true -> nan_ok m = true ->
  goodx sc m = true.
Proof.
  intros W V On Di La Na. destruct (value_ok_gives sc m V) as [R U].
  unfold goodx, json_supported. rewrite (in_rangex_in_range sc m W), R, On, Di, U, La, Na. reflexivity.
Qed.

Lemma c01_schema_wf sc : C01Def.c01_schema_ok sc = true -> wf_schema sc = true.
Proof.
  unfold C01Def.c01_schema_ok. intros H. apply andb_prop in H as [H _]. apply andb_prop in H as [H _]. exact H.
Qed.

(* the round trip for every object a history of public-API operations builds from Cls() (parse of clean bytes included):
   in_range and no_unknown are consequences of the history; the other four conditions stay *)
Theorem rt_reachable sc cs incl (text : bool) c ops m :
  C01Def.c01_schema_ok sc = true ->
  C01Reach.hist_ok C01Parse.op_value_ok_p sc (new sc c) ops = true -> C07Ops.run7 sc (new sc c) ops = Ok m ->
  keys_ok cs sc = true ->
  oneof_ok sc m = true -> dicts_ok sc m = true -> no_lazy sc m = true -> nan_ok m = true -> incl_ok incl sc m = true ->
  exists m' bs, from_dict_cls sc (ocls m) (tr text (to_dict cs incl sc m)) = Ok m' /\
                from_dict_inst sc (new sc (ocls m)) (tr text (to_dict cs incl sc m)) = Ok m' /\
                obj_eq sc m' m = true /\ enc_obj sc m' = Ok bs /\ enc_obj sc m = Ok bs /\
                (Zlength bs < 2 ^ 64 -> Decode.parse sc (ocls m) bs = Ok (C01Def.norm_obj sc m)).
Proof.
  intros S Hh E K On Di La Na I.
  pose proof (C01Reach2B.c01_reachable_value_ok_parse sc c ops m S Hh E) as V.
  exact (C04GapA.rt_then_binary sc cs incl text m S V K
           (goodx_of_parts sc m (c01_schema_wf sc S) V On Di La Na) I).
Qed.

(* to_dict of a reachable object is json.dumps-serialisable: here only oneof_ok remains *)
Theorem dumps_reachable sc cs c ops m :
  C01Def.c01_schema_ok sc = true ->
  C01Reach.hist_ok C01Parse.op_value_ok_p sc (new sc c) ops = true -> C07Ops.run7 sc (new sc c) ops = Ok m ->
  oneof_ok sc m = true -> dumpsable (to_dict cs false sc m) = true.
Proof.
  intros S Hh E On.
  pose proof (C01Reach2B.c01_reachable_value_ok_parse sc c ops m S Hh E) as V.
  destruct (value_ok_gives sc m V) as [R _].
  pose proof (c01_schema_wf sc S) as W.
  apply (dumps_total_mainG sc cs false m (wf_wfx_schema sc W)); [rewrite (in_rangex_in_range sc m W); exact R|exact On|discriminate].
Qed.

(* ---- non-vacuity: Cls(); m.x = -3; m.rec = Cls(x=5) ; m.v = b"" (a oneof member set to its default); m.rd = [0.0, 1.5] ---- *)
Definition reach_hist : list C07Ops.op7 :=
  [C07Ops.OBase (History.OSet [] 0 (PInt (-3)));
   C07Ops.OBase (History.OSet [] 2 (PMsg (C04WitP.with_x 5 true [])));
   C07Ops.OBase (History.OSet [] 9 (PBytes []));
   C07Ops.OBase (History.OSet [] 6 (PList [PFloat 0; PFloat 4609434218613702656]))].

Lemma reach_ex :
  C01Def.c01_schema_ok C04WitP.ex_sc = true /\ keys_ok CAMEL C04WitP.ex_sc = true /\ keys_ok SNAKE C04WitP.ex_sc = true /\
  C01Reach.hist_ok C01Parse.op_value_ok_p C04WitP.ex_sc (new C04WitP.ex_sc 11) reach_hist = true /\
  match C07Ops.run7 C04WitP.ex_sc (new C04WitP.ex_sc 11) reach_hist with
  | Ok m => oneof_ok C04WitP.ex_sc m = true /\ dicts_ok C04WitP.ex_sc m = true /\ no_lazy C04WitP.ex_sc m = true /\
            nan_ok m = true /\ incl_ok false C04WitP.ex_sc m = true /\ ocur m = [Some 9%nat] /\
            match enc_obj C04WitP.ex_sc m with Ok bs => (20 <? Zlength bs) = true | Err _ => False end
  | Err _ => False
  end.
Proof. vm_compute. repeat split; reflexivity. Qed.
