(* C04, gap closure (2): exactness of the hypotheses of the headline theorems (one witness each, vm_compute), the
   non-fresh instance, and the non-vacuity examples of Proofs/C04GapA.v.
   in_range: NO exactness result - on the values tried (list too short, str in an int32 field, 2^70 in an int64 member,
   2^40 in an int32 field) the conclusion of C04_dict_rt still holds in the model (both sides fail to encode, or encode
   alike); in_range is sufficient, not shown necessary. *)
From Coq Require Import ZArith List Bool.
From BP Require Import Base.Prelude Model.Types Model.Float Model.Object Model.Eq Model.Encode Model.Decode Model.WellFormed Model.Json Model.C04RepWrap.
From BP Require Import Proofs.C04Def Proofs.C04ScalarP Proofs.C04WitP Proofs.C04InclDef Proofs.C04InclWitP.
From BP Require Import Model.C04GapDef.
From BP Require Model.C01Def.
Import ListNotations.

(* ---- keys_ok: class 11 { x:int32=1  x_:int32=2 } - both names give the key "x" (rstrip("_")), under both casings ---- *)
Definition k_sc : schema :=
  mkS (builtin_classes ++
       [mkC [mkF [x78] 1 TInt32 None None None false (HPlain PyInt) 0;
             mkF [x78; x5f] 2 TInt32 None None None false (HPlain PyInt) 0] 0]) [].
Definition k_m : obj := Obj 11 [PInt 3; PInt 4] true [] [].

Lemma keys_ok_refuted :
  wf_schema k_sc = true /\ good k_sc k_m = true /\ keys_ok CAMEL k_sc = false /\ keys_ok SNAKE k_sc = false /\
  to_dict CAMEL false k_sc k_m = JObj [(JStr [x78], JInt 4)] /\
  match rt_class CAMEL false k_sc k_m, rt_class SNAKE false k_sc k_m with
  | Ok m1, Ok m2 => obj_eq k_sc m1 k_m = false /\ obj_eq k_sc m2 k_m = false /\
                    bytes_differ (enc_obj k_sc m1) (enc_obj k_sc k_m) = true
  | _, _ => False
  end.
Proof. vm_compute. repeat split; reflexivity. Qed.

(* ---- keys_ok for ONE casing only: class 11 { a_b:int32=1  aB:int32=2 } - SNAKE and CAMEL both collide, but a schema
        where only CAMEL collides does not exist for these two names; the witness shows the per-casing statement is
        what is needed: the result differs between the casings ---- *)
Definition k2_sc : schema :=
  mkS (builtin_classes ++
       [mkC [mkF [x61; x5f; x62] 1 TInt32 None None None false (HPlain PyInt) 0;
             mkF [x61; x42] 2 TInt32 None None None false (HPlain PyInt) 0] 0]) [].
Lemma keys_ok_casing_refuted :
  wf_schema k2_sc = true /\ good k2_sc k_m = true /\ keys_ok CAMEL k2_sc = false /\ keys_ok SNAKE k2_sc = false /\
  rt_class CAMEL false k2_sc k_m = Ok (Obj 11 [PPlaceholder; PInt 4] true [] []) /\
  rt_class SNAKE false k2_sc k_m = Ok (Obj 11 [PInt 4; PPlaceholder] true [] []).
Proof. vm_compute. repeat split; reflexivity. Qed.

(* ---- oneof_ok: both members of the group hold a value (u = 7, v = b"a"), the group selects v ---- *)
Definition wit_two_members : obj :=
  Obj 11 [PPlaceholder; PPlaceholder; PPlaceholder; PNone; PNone; PPlaceholder; PPlaceholder; PPlaceholder; PInt 7; PBytes [x61]]
      true [] [Some 9%nat].
Lemma oneof_ok_refuted :
  schema_ok ex_sc = true /\ in_range ex_sc wit_two_members = true /\ dicts_ok ex_sc wit_two_members = true /\
  json_supported ex_sc wit_two_members = true /\ oneof_ok ex_sc wit_two_members = false /\
  match rt_class CAMEL false ex_sc wit_two_members with
  | Ok m' => obj_eq ex_sc m' wit_two_members = false /\ enc_obj ex_sc m' = enc_obj ex_sc wit_two_members
  | Err _ => False
  end.
Proof. vm_compute. repeat split; reflexivity. Qed.

(* ---- dicts_ok: the model's PDict is an association list; with a repeated key (impossible for a Python dict) the
        statement is false of the MODEL, so the hypothesis cannot be dropped from the theorems ---- *)
Definition wit_dup_key : obj :=
  Obj 11 [PPlaceholder; PPlaceholder; PPlaceholder; PNone; PNone; PDict [(PInt 1, PBytes [x61]); (PInt 1, PBytes [x62])];
          PPlaceholder; PPlaceholder; PPlaceholder; PPlaceholder] true [] [None].
Lemma dicts_ok_refuted :
  schema_ok ex_sc = true /\ in_range ex_sc wit_dup_key = true /\ oneof_ok ex_sc wit_dup_key = true /\
  json_supported ex_sc wit_dup_key = true /\ dicts_ok ex_sc wit_dup_key = false /\
  match rt_class CAMEL false ex_sc wit_dup_key with
  | Ok m' => obj_eq ex_sc m' wit_dup_key = false
  | Err _ => False
  end.
Proof. vm_compute. repeat split; reflexivity. Qed.

(* ---- the instance form on a NON-fresh instance: Cls(s="a").from_dict(Cls(x=3).to_dict()) keeps s = "a" ---- *)
Definition stale_inst : obj := Obj 11 (PPlaceholder :: PStr [x61] :: tl (tl fresh_raw)) true [] [None].
Lemma inst_stale_refuted :
  schema_ok ex_sc = true /\ good ex_sc (with_x 3 true []) = true /\ ocls stale_inst = ocls (with_x 3 true []) /\
  in_range ex_sc stale_inst = true /\
  match from_dict_inst ex_sc stale_inst (to_dict CAMEL false ex_sc (with_x 3 true [])) with
  | Ok m' => obj_eq ex_sc m' (with_x 3 true []) = false /\
             enc_obj ex_sc m' = Ok [x08; x03; x12; x01; x61] /\ enc_obj ex_sc (with_x 3 true []) = Ok [x08; x03]
  | Err _ => False
  end.
Proof. vm_compute. repeat split; reflexivity. Qed.

(* ---- non-vacuity of Proofs/C04GapA.v ---- *)
Lemma gap_hyps_ex :
  wfx_schema ex_sc = true /\ keys_ok CAMEL ex_sc = true /\ keys_ok SNAKE ex_sc = true /\ goodx ex_sc ex_m = true /\
  reach_ok false ex_sc ex_m = true /\
  wfx_schema exi_sc = true /\ goodx exi_sc exi_m = true /\ reach_ok true exi_sc exi_m = true /\ incl_ok true exi_sc exi_m = true.
Proof. vm_compute. repeat split; reflexivity. Qed.

Lemma gap_unknown_ex :
  goodx ex_sc (strip_unk wit_unknown) = true /\ incl_ok false ex_sc (strip_unk wit_unknown) = true /\
  ounk wit_unknown = [x98; x06; x01] /\ goodx ex_sc wit_unknown = false /\
  match rt_class CAMEL false ex_sc wit_unknown with
  | Ok m' => enc_obj ex_sc m' = Ok [x08; x03] /\ enc_obj ex_sc wit_unknown = Ok ([x08; x03] ++ [x98; x06; x01])
  | Err _ => False
  end.
Proof. vm_compute. repeat split; reflexivity. Qed.

Lemma gap_binary_ex :
  C01Def.c01_schema_ok ex_sc = true /\ C01Def.c01_value_ok ex_sc ex_m = true /\ goodx ex_sc ex_m = true /\
  match enc_obj ex_sc ex_m with
  | Ok bs => (70 <? Zlength bs) = true /\ parse ex_sc 11 bs = Ok (C01Def.norm_obj ex_sc ex_m)
  | Err _ => False
  end.
Proof. vm_compute. repeat split; reflexivity. Qed.

Lemma gap_selection_ex :
  group_selects (ocur ex_m) (nth 9 (cfields (get_class ex_sc 11)) (mkF [] 0 TInt32 None None None false (HPlain PyInt) 0)) 9 = Some true /\
  nth 9 (oraw ex_m) PNone = PBytes [] /\
  match rt_class SNAKE true ex_sc ex_m with
  | Ok m' => ocur m' = [Some 9%nat]
  | Err _ => False
  end.
Proof. vm_compute. repeat split; reflexivity. Qed.
