(* C12 — basic lemmas about the task list, _wakeup_next, the case analysis of [step],
   and the history invariants (conservation, global FIFO, per-sender numbering). *)
From BP Require Import Base.Prelude Model.Channel.
From Coq Require Import Arith Lia.
Local Open Scope nat_scope.

(* ---------------------------------------------------------------- upd / nth_error / sumf *)
Lemma upd_length : forall l t x, length (upd l t x) = length l.
Proof. induction l as [|a l IH]; intros [|t] x; cbn; auto. Qed.

Lemma nth_upd_same : forall l t x a, nth_error l t = Some a -> nth_error (upd l t x) t = Some x.
Proof. induction l as [|b l IH]; intros [|t] x a H; cbn in *; try discriminate; eauto. Qed.

Lemma nth_upd_other : forall l t u x, t <> u -> nth_error (upd l t x) u = nth_error l u.
Proof.
  induction l as [|b l IH]; intros [|t] [|u] x H; cbn; auto; try congruence.
Qed.

Lemma nth_upd : forall l t u x, nth_error (upd l t x) u =
  if Nat.eqb t u then match nth_error l t with Some _ => Some x | None => None end else nth_error l u.
Proof.
  intros. destruct (Nat.eqb_spec t u) as [->|N].
  - destruct (nth_error l u) eqn:E. + eapply nth_upd_same; eauto.
    + apply nth_error_None. rewrite upd_length. apply nth_error_None; auto.
  - apply nth_upd_other; auto.
Qed.

Lemma upd_none : forall l t x, nth_error l t = None -> upd l t x = l.
Proof. induction l as [|b l IH]; intros [|t] x H; cbn in *; try discriminate; auto. f_equal; auto. Qed.

Lemma sumf_upd : forall f l t x a, nth_error l t = Some a -> sumf f (upd l t x) + f a = sumf f l + f x.
Proof.
  induction l as [|b l IH]; intros [|t] x a H; cbn in *; try discriminate.
  - injection H as ->. lia.
  - specialize (IH _ x _ H). lia.
Qed.

Lemma sumf_app : forall f l r, sumf f (l ++ r) = sumf f l + sumf f r.
Proof. induction l; intros; cbn; auto. rewrite IHl. lia. Qed.

Lemma sumf_pos : forall f l, sumf f l > 0 -> exists T, In T l /\ f T > 0.
Proof.
  induction l as [|a l IH]; cbn; intros H; [lia|].
  destruct (f a) eqn:E.
  - destruct IH as (T & HI & HT); [lia|]. eauto.
  - exists a. split; auto. lia.
Qed.

Lemma sumf_nth : forall f l t T, nth_error l t = Some T -> f T <= sumf f l.
Proof.
  induction l as [|a l IH]; intros [|t] T H; cbn in *; try discriminate.
  - injection H as ->. lia.
  - specialize (IH _ _ H). lia.
Qed.

Lemma sumf_zero : forall f l, sumf f l = 0 -> forall t T, nth_error l t = Some T -> f T = 0.
Proof. intros. pose proof (sumf_nth f _ _ _ H0). lia. Qed.

Lemma forallb_upd : forall (f : task -> bool) l t x, forallb f l = true -> f x = true -> forallb f (upd l t x) = true.
Proof.
  induction l as [|a l IH]; intros [|t] x H Hx; cbn in *; auto;
    apply andb_true_iff in H as [H1 H2]; apply andb_true_iff; split; auto.
Qed.

Lemma forallb_nth : forall (f : task -> bool) l t T, forallb f l = true -> nth_error l t = Some T -> f T = true.
Proof.
  intros. rewrite forallb_forall in H. apply H. eapply nth_error_In; eauto.
Qed.

Lemma status_eqb_eq : forall a b, status_eqb a b = true -> a = b.
Proof. destruct a, b; cbn; congruence. Qed.

Lemma status_eqb_refl_nf : forall a, is_fin a = false -> status_eqb a a = true.
Proof. destruct a; cbn; congruence. Qed.

(* ---------------------------------------------------------------- _wakeup_next *)
(* every task whose future is pending is in the deque *)
Definition cover (blk : status) (l : list nat) (ts : list task) : Prop :=
  forall u U, nth_error ts u = Some U -> st U = blk -> In u l.

Lemma wakeup_effect : forall blk woke l ts, is_fin blk = false ->
  (snd (wakeup blk woke l ts) = ts /\
   forall u U, In u l -> nth_error ts u = Some U -> st U <> blk) \/
  (exists u U, nth_error ts u = Some U /\ st U = blk /\ In u l /\
               snd (wakeup blk woke l ts) = upd ts u (set_st U woke)).
Proof.
  intros blk woke l ts NF. induction l as [|v l IH]; cbn.
  - left. split; [reflexivity|]. intros ? ? [].
  - destruct (nth_error ts v) as [V|] eqn:EV.
    + destruct (status_eqb (st V) blk) eqn:EB.
      * right. exists v, V. cbn. repeat split; auto. apply status_eqb_eq; auto.
      * destruct IH as [[H1 H2]|(u & U & H1 & H2 & H3 & H4)].
        -- left. split; auto. intros u U [<-|Hu] HU.
           ++ rewrite EV in HU. injection HU as <-. intros E. rewrite E in EB.
              rewrite status_eqb_refl_nf in EB; auto. discriminate.
           ++ eapply H2; eauto.
        -- right. exists u, U. repeat split; auto.
    + destruct IH as [[H1 H2]|(u & U & H1 & H2 & H3 & H4)].
      * left. split; auto. intros u U [<-|Hu] HU; [congruence|]. eapply H2; eauto.
      * right. exists u, U. repeat split; auto.
Qed.

(* what is left in the deque still covers every pending future *)
Lemma wakeup_cover : forall blk woke l ts, is_fin blk = false -> woke <> blk ->
  cover blk l ts -> cover blk (fst (wakeup blk woke l ts)) (snd (wakeup blk woke l ts)).
Proof.
  intros blk woke l ts NF NE. induction l as [|v l IH]; cbn; intros C.
  - exact C.
  - destruct (nth_error ts v) as [V|] eqn:EV.
    + destruct (status_eqb (st V) blk) eqn:EB; cbn.
      * intros u U HU HS. rewrite nth_upd in HU. destruct (Nat.eqb_spec v u) as [->|N].
        -- rewrite EV in HU. injection HU as <-. cbn in HS. congruence.
        -- destruct (C _ _ HU HS) as [->|]; [congruence|auto].
      * apply IH. intros u U HU HS. destruct (C _ _ HU HS) as [<-|]; auto.
        rewrite EV in HU. injection HU as <-. rewrite HS in EB.
        rewrite status_eqb_refl_nf in EB; auto. discriminate.
    + apply IH. intros u U HU HS. destruct (C _ _ HU HS) as [<-|]; auto. congruence.
Qed.
