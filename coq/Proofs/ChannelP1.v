(* C12 — basic lemmas about the task list, _wakeup_next, the case analysis of [step],
   and the history invariants (conservation, global FIFO, per-sender numbering). *)
From BP Require Import Base.Prelude Model.Channel.
From Coq Require Import Arith Lia.
Local Open Scope nat_scope.

(* ---------------------------------------------------------------- upd / nth_error / sumf *)
Lemma upd_length : forall l t x, length (upd l t x) = length l.
Proof. induction l as [|a l IH]; intros [|t] x; cbn; auto. Qed.

Lemma nth_upd_same : forall l t x a, nth_error l t = Some a -> nth_error (upd l t x) t = Some x.
Proof. induction l as [|b l IH]; intros [|t] x a H; cbn in *; try discriminate; eauto. Qed.

Lemma nth_upd_other : forall l t u x, t <> u -> nth_error (upd l t x) u = nth_error l u.
Proof.
  induction l as [|b l IH]; intros [|t] [|u] x H; cbn; auto; try congruence.
Qed.

Lemma nth_upd : forall l t u x, nth_error (upd l t x) u =
  if Nat.eqb t u then match nth_error l t with Some _ => Some x | None => None end else nth_error l u.
Proof.
  intros. destruct (Nat.eqb_spec t u) as [->|N].
  - destruct (nth_error l u) eqn:E. + eapply nth_upd_same; eauto.
    + apply nth_error_None. rewrite upd_length. apply nth_error_None; auto.
  - apply nth_upd_other; auto.
Qed.

Lemma upd_none : forall l t x, nth_error l t = None -> upd l t x = l.
Proof. induction l as [|b l IH]; intros [|t] x H; cbn in *; try discriminate; auto. f_equal; auto. Qed.

Lemma sumf_upd : forall f l t x a, nth_error l t = Some a -> sumf f (upd l t x) + f a = sumf f l + f x.
Proof.
  induction l as [|b l IH]; intros [|t] x a H; cbn in *; try discriminate.
  - injection H as ->. lia.
  - specialize (IH _ x _ H). lia.
Qed.

Lemma sumf_app : forall f l r, sumf f (l ++ r) = sumf f l + sumf f r.
Proof. induction l; intros; cbn; auto. rewrite IHl. lia. Qed.

Lemma sumf_pos : forall f l, sumf f l > 0 -> exists T, In T l /\ f T > 0.
Proof.
  induction l as [|a l IH]; cbn; intros H; [lia|].
  destruct (f a) eqn:E.
  - destruct IH as (T & HI & HT); [lia|]. eauto.
  - exists a. split; auto. lia.
Qed.

Lemma sumf_nth : forall f l t T, nth_error l t = Some T -> f T <= sumf f l.
Proof.
  induction l as [|a l IH]; intros [|t] T H; cbn in *; try discriminate.
  - injection H as ->. lia.
  - specialize (IH _ _ H). lia.
Qed.

Lemma sumf_zero : forall f l, sumf f l = 0 -> forall t T, nth_error l t = Some T -> f T = 0.
Proof. intros. pose proof (sumf_nth f _ _ _ H0). lia. Qed.

Lemma forallb_upd : forall (f : task -> bool) l t x, forallb f l = true -> f x = true -> forallb f (upd l t x) = true.
Proof.
  induction l as [|a l IH]; intros [|t] x H Hx; cbn in *; auto;
    apply andb_true_iff in H as [H1 H2]; apply andb_true_iff; split; auto.
Qed.

Lemma forallb_nth : forall (f : task -> bool) l t T, forallb f l = true -> nth_error l t = Some T -> f T = true.
Proof.
  intros. rewrite forallb_forall in H. apply H. eapply nth_error_In; eauto.
Qed.

Lemma status_eqb_eq : forall a b, status_eqb a b = true -> a = b.
Proof. destruct a, b; cbn; congruence. Qed.

Lemma status_eqb_refl_nf : forall a, is_fin a = false -> status_eqb a a = true.
Proof. destruct a; cbn; congruence. Qed.

(* ---------------------------------------------------------------- _wakeup_next *)
(* every task whose future is pending is in the deque *)
Definition cover (blk : status) (l : list nat) (ts : list task) : Prop :=
  forall u U, nth_error ts u = Some U -> st U = blk -> In u l.

Lemma wakeup_effect : forall blk woke l ts, is_fin blk = false ->
  (snd (wakeup blk woke l ts) = ts /\
   forall u U, In u l -> nth_error ts u = Some U -> st U <> blk) \/
  (exists u U, nth_error ts u = Some U /\ st U = blk /\ In u l /\
               snd (wakeup blk woke l ts) = upd ts u (set_st U woke)).
Proof.
  intros blk woke l ts NF. induction l as [|v l IH]; cbn.
  - left. split; [reflexivity|]. intros ? ? [].
  - destruct (nth_error ts v) as [V|] eqn:EV.
    + destruct (status_eqb (st V) blk) eqn:EB.
      * right. exists v, V. cbn. repeat split; auto. apply status_eqb_eq; auto.
      * destruct IH as [[H1 H2]|(u & U & H1 & H2 & H3 & H4)].
        -- left. split; auto. intros u U [<-|Hu] HU.
           ++ rewrite EV in HU. injection HU as <-. intros E. rewrite E in EB.
              rewrite status_eqb_refl_nf in EB; auto. discriminate.
           ++ eapply H2; eauto.
        -- right. exists u, U. repeat split; auto.
    + destruct IH as [[H1 H2]|(u & U & H1 & H2 & H3 & H4)].
      * left. split; auto. intros u U [<-|Hu] HU; [congruence|]. eapply H2; eauto.
      * right. exists u, U. repeat split; auto.
Qed.

(* what is left in the deque still covers every pending future *)
Lemma wakeup_cover : forall blk woke l ts, is_fin blk = false -> woke <> blk ->
  cover blk l ts -> cover blk (fst (wakeup blk woke l ts)) (snd (wakeup blk woke l ts)).
Proof.
  intros blk woke l ts NF NE. induction l as [|v l IH]; cbn; intros C.
  - exact C.
  - destruct (nth_error ts v) as [V|] eqn:EV.
    + destruct (status_eqb (st V) blk) eqn:EB; cbn.
      * intros u U HU HS. rewrite nth_upd in HU. destruct (Nat.eqb_spec v u) as [->|N].
        -- rewrite EV in HU. injection HU as <-. cbn in HS. congruence.
        -- destruct (C _ _ HU HS) as [->|]; [congruence|auto].
      * apply IH. intros u U HU HS. destruct (C _ _ HU HS) as [<-|]; auto.
        rewrite EV in HU. injection HU as <-. rewrite HS in EB.
        rewrite status_eqb_refl_nf in EB; auto. discriminate.
    + apply IH. intros u U HU HS. destruct (C _ _ HU HS) as [<-|]; auto. congruence.
Qed.

Lemma no_blk_count : forall f (ts : list task),
  (forall u U, nth_error ts u = Some U -> f U = 0) -> sumf f ts = 0.
Proof.
  induction ts as [|a ts IH]; intros H; cbn; auto.
  rewrite (H 0 a eq_refl). rewrite IH; auto. intros u U HU. apply (H (S u)); auto.
Qed.

Lemma cover_upd_other : forall b l ts t x, cover b l ts -> st x <> b -> cover b l (upd ts t x).
Proof.
  intros b l ts t x C N u U HU HS. rewrite nth_upd in HU. destruct (Nat.eqb t u).
  - destruct (nth_error ts t); [|discriminate]. injection HU as <-. congruence.
  - eapply C; eauto.
Qed.

Lemma cover_upd_blk : forall b l ts t x, cover b l ts -> cover b (l ++ [t]) (upd ts t x).
Proof.
  intros b l ts t x C u U HU HS. rewrite nth_upd in HU. apply in_or_app.
  destruct (Nat.eqb_spec t u) as [->|N]; [right; left; auto|]. left. eapply C; eauto.
Qed.

Lemma cover_app_tasks : forall b l ts x, cover b l ts -> st x <> b -> cover b l (ts ++ [x]).
Proof.
  intros b l ts x C N u U HU HS. destruct (Nat.lt_ge_cases u (length ts)) as [L|G].
  - rewrite nth_error_app1 in HU by auto. eapply C; eauto.
  - rewrite nth_error_app2 in HU by auto. destruct (u - length ts) as [|k]; cbn in HU.
    + injection HU as <-. congruence.
    + destruct k; discriminate.
Qed.

Lemma in_remove1 : forall t u l, In u l -> u <> t -> In u (remove1 t l).
Proof.
  induction l as [|v l IH]; cbn; intros H N; auto.
  destruct (Nat.eqb_spec v t) as [->|NE].
  - destruct H; [congruence|auto].
  - destruct H; [left; auto|right; auto].
Qed.

Lemma cover_remove : forall b l ts t x, cover b l ts -> st x <> b -> cover b (remove1 t l) (upd ts t x).
Proof.
  intros b l ts t x C N u U HU HS. rewrite nth_upd in HU. destruct (Nat.eqb_spec t u) as [->|NE].
  - destruct (nth_error ts u); [|discriminate]. injection HU as <-. congruence.
  - apply in_remove1; auto. eapply C; eauto.
Qed.

Lemma cover_weaken_list : forall b l l' ts, cover b l ts -> (forall u, In u l -> In u l') -> cover b l' ts.
Proof. intros b l l' ts C H u U HU HS. apply H. eapply C; eauto. Qed.

(* ---------------------------------------------------------------- case analysis of [step] *)
Ltac split_match H :=
  match type of H with
  | context [match ?x with _ => _ end] =>
      match x with
      | context [match _ with _ => _ end] => fail 1
      | _ => (is_var x; destruct x) || (let E := fresh "E" in destruct x eqn:E)
      end
  end.

Ltac step_inv H :=
  unfold step, step_b, step_ready, do_put, do_get, finally_cancelled, cancel_task, next_item in H;
  cbv beta iota in H;
  repeat (split_match H; try discriminate H; cbv beta iota in H);
  try (injection H as H); subst.

(* ---------------------------------------------------------------- configuration constants *)
Lemma step_pinned : forall s t s', step s t = Some s' -> pinned s' = pinned s.
Proof. intros s t s' H. step_inv H; reflexivity. Qed.

Lemma step_maxsize : forall s t s', step s t = Some s' -> maxsize s' = maxsize s.
Proof. intros s t s' H. step_inv H; reflexivity. Qed.

Lemma reach_pinned : forall c s, Reach c s -> pinned s = c_pinned c.
Proof. induction 1; [reflexivity|]. erewrite step_pinned; eauto. Qed.

Lemma reach_maxsize : forall c s, Reach c s -> maxsize s = c_maxsize c.
Proof. induction 1; [reflexivity|]. erewrite step_maxsize; eauto. Qed.

(* ---------------------------------------------------------------- history: conservation + global FIFO *)
Definition nocancel_state (s : state) : Prop := forallb task_nocancel (tasks s) = true.

(* the task at hand contradicts the absence of cancellation *)
Ltac nocancel_contra :=
  match goal with
  | N : nocancel_state ?s, E : nth_error (tasks ?s) _ = Some ?T |- _ =>
      let HN := fresh "HN" in
      pose proof (forallb_nth _ _ _ _ N E) as HN; unfold task_nocancel in HN;
      repeat match goal with
             | E1 : st T = _ |- _ => rewrite E1 in HN
             | E1 : mc T = _ |- _ => rewrite E1 in HN
             | E1 : prog T = _ |- _ => rewrite E1 in HN
             end;
      cbn in HN; rewrite ?andb_false_r in HN; discriminate HN
  end.

Definition hist_body (s : state) : Prop :=
  sent s = received s ++ reals (q s) /\ unfin s = length (q s).
Definition hist_inv (s : state) : Prop := pinned s = false -> hist_body s.

Lemma reals_app : forall a b, reals (a ++ b) = reals a ++ reals b.
Proof. intros. unfold reals. apply filter_app. Qed.

Ltac simp_proj :=
  cbn [q maxsize getters putters closed flushed W unfin tasks pinned sent recv npre drained
       set_task with_tasks with_getters with_putters with_W with_unfin with_drained
       wake_getters wake_putters put_nowait] in *.

(* holds for the repaired code always, and for the pinned code as long as nothing is cancelled *)
Lemma hist_step_gen : forall s t s', step s t = Some s' ->
  pinned s = false \/ nocancel_state s -> hist_body s -> hist_body s'.
Proof.
  intros s t s' H P I. step_inv H; simp_proj; unfold hist_body, received in *; simp_proj; try exact I.
  all: destruct I as [I1 I2].
  all: try (destruct P as [P|P]; [congruence|nocancel_contra]).
  all: repeat match goal with E : q _ = _ |- _ => rewrite E in *; clear E end.
  all: cbn [length] in *.
  all: split; [|rewrite ?app_length; cbn [length]; try lia; try congruence].
  all: try (rewrite I1, ?map_app, ?reals_app; cbn [map snd reals filter is_real app]; rewrite <- ?app_assoc; reflexivity).
  all: cbn [reals filter is_real] in I1; rewrite ?reals_app; cbn [reals filter is_real]; rewrite ?app_nil_r; try exact I1.
  all: exfalso; lia.
Qed.

Lemma hist_step : forall s t s', step s t = Some s' -> hist_inv s -> hist_inv s'.
Proof.
  intros s t s' H I P. pose proof (step_pinned _ _ _ H) as HP. rewrite P in HP. symmetry in HP.
  eapply hist_step_gen; eauto.
Qed.

(* ---------------------------------------------------------------- which future _wakeup_next completed *)
Ltac wake_cases :=
  match goal with
  | |- context [wakeup ?b ?w ?l ?ts] =>
      let HE := fresh "HE" in let Hno := fresh "Hno" in
      let u := fresh "u" in let U := fresh "U" in let HU := fresh "HU" in
      let HUs := fresh "HUs" in let HUin := fresh "HUin" in
      destruct (wakeup_effect b w l ts eq_refl) as [[HE Hno]|(u & U & HU & HUs & HUin & HE)];
      rewrite ?HE in *;
      [ | try match goal with
              | E : nth_error ts ?t = Some ?t0 |- _ =>
                  lazymatch t with u => fail | _ => idtac end;
                  assert (nth_error (upd ts u (set_st U w)) t = Some t0)
                    by (rewrite nth_upd_other; [exact E | intros ->; rewrite HU in E; injection E as ->; congruence])
              end ]
  end.

(* ---------------------------------------------------------------- per-sender numbering of the sent log *)
Definition nso (L : list task) (v : nat) : nat := match nth_error L v with Some T => nsent T | None => 0 end.

Lemma nso_upd_keep : forall L i x a v, nth_error L i = Some a -> nsent x = nsent a -> nso (upd L i x) v = nso L v.
Proof.
  intros. unfold nso. rewrite nth_upd. destruct (Nat.eqb_spec i v) as [->|]; auto. rewrite H. congruence.
Qed.

Lemma nso_upd_put : forall L i x a v, nth_error L i = Some a ->
  nso (upd L i x) v = if Nat.eqb i v then nsent x else nso L v.
Proof.
  intros. unfold nso. rewrite nth_upd. destruct (Nat.eqb_spec i v) as [->|]; auto. rewrite H. auto.
Qed.

Lemma nso_app_flush : forall L v, nso (L ++ [flush_task]) v = nso L v.
Proof.
  intros. unfold nso. destruct (Nat.lt_ge_cases v (length L)) as [Lt|G].
  - rewrite nth_error_app1; auto.
  - rewrite nth_error_app2 by auto. replace (nth_error L v) with (@None task) by (symmetry; apply nth_error_None; auto).
    destruct (v - length L) as [|[|k]]; reflexivity.
Qed.

Definition numbered (s : state) : Prop :=
  forall v, filter (from v) (sent s) = map (Msg v) (seq 0 (nso (tasks s) v)).

Ltac nso_simpl :=
  repeat first
    [ rewrite nso_app_flush
    | match goal with
      | H : nth_error ?L ?i = Some ?a |- context [nso (upd ?L ?i ?x) _] =>
          rewrite (nso_upd_keep L i x a _ H eq_refl)
      end ].

Lemma numbered_step : forall s t s', step s t = Some s' -> numbered s -> numbered s'.
Proof.
  intros s t s' H I. step_inv H; simp_proj; unfold numbered in *; simp_proj; try exact I.
  all: intros v; specialize (I v); try wake_cases; nso_simpl; try exact I.
  all: try match goal with
       | H : nth_error ?L ?i = Some ?a |- context [nso (upd ?L ?i ?x) _] => rewrite (nso_upd_put L i x a _ H); cbn [nsent]
       end.
  all: rewrite ?filter_app; cbn [filter from].
  all: try match goal with |- context [Nat.eqb ?a ?b] => destruct (Nat.eqb_spec a b) as [EQ|NE]; [try subst b|] end.
  all: rewrite ?app_nil_r; nso_simpl; try exact I.
  all: try (rewrite I; nso_simpl; unfold nso; match goal with E : nth_error _ _ = Some _ |- _ => rewrite E end;
            rewrite seq_S, map_app; reflexivity).
Qed.
