(* C12 extension (3), continued — the stability of done() under the weaker cancellation condition: only cancellations of
   receivers inside get() (and cancel() calls still to come) are excluded. *)
From BP Require Import Base.Prelude Model.Channel Model.C12X.
From BP Require Import Proofs.ChannelP1 Proofs.ChannelP2 Proofs.ChannelP3 Proofs.ChannelP4 Proofs.ChannelP5 Proofs.ChannelP6 Proofs.ChannelP7.
From BP Require Import Proofs.ChannelX2 Proofs.ChannelX3.
From Coq Require Import Arith Lia.
Local Open Scope nat_scope.

Definition gcT (T : task) : Prop := task_no_get_cancel T = true.

Lemma gcT_split : forall T, gcT T <->
  forallb op_nocancel (prog T) = true /\ cancelled_in_get_b T = false /\ (blocked_b T = true -> mc T = false).
Proof.
  intros T. unfold gcT, task_no_get_cancel. rewrite !andb_true_iff, !negb_true_iff, andb_false_iff.
  split.
  - intros [[H1 H2] H3]. repeat split; auto. intros HB. destruct H3; congruence.
  - intros (H1 & H2 & H3). repeat split; auto. destruct (blocked_b T); auto.
Qed.

Lemma alltasks_wakeup_st : forall (P : task -> Prop) b w l ts, is_fin b = false ->
  (forall U, st U = b -> P U -> P (set_st U w)) -> alltasks P ts -> alltasks P (snd (wakeup b w l ts)).
Proof.
  intros P b w l ts NF Hw A. destruct (wakeup_effect b w l ts NF) as [[-> _]|(u & U & HU & HS & _ & ->)]; auto.
  apply alltasks_upd; auto. apply Hw; auto. eapply A; eauto.
Qed.

Lemma gcT_wake : forall U b w, st U = b -> (b = BlkGet \/ b = BlkPut) -> (w = WokeGet \/ w = WokePut) -> gcT U -> gcT (set_st U w).
Proof.
  intros U b w HS Hb Hw H. apply gcT_split in H as (H1 & H2 & H3). apply gcT_split.
  assert (HM : mc U = false) by (apply H3; unfold blocked_b; destruct Hb as [Eb|Eb]; rewrite HS, Eb; reflexivity).
  unfold cancelled_in_get_b, blocked_b. cbn [st prog mc set_st]. rewrite HM.
  destruct Hw; subst w; repeat split; auto; discriminate.
Qed.

Lemma gc_step : forall s t s', step s t = Some s' -> alltasks gcT (tasks s) -> alltasks gcT (tasks s').
Proof.
  intros s t s' H A. step_inv H; simp_proj.
  all: match goal with E : nth_error (tasks _) _ = Some ?T |- _ => pose proof (proj1 (gcT_split _) (A _ _ E)) as (G1 & G2 & G3) end.
  all: unfold cancelled_in_get_b in G2;
       repeat match goal with
              | E1 : st ?T = _ |- _ => rewrite E1 in G2
              | E1 : mc ?T = _ |- _ => rewrite E1 in G2
              end; try discriminate G2.
  all: match goal with E2 : prog _ = _ |- _ => rewrite E2 in G1; cbn [forallb op_nocancel andb] in G1 | _ => idtac end;
       try discriminate G1.
  all: try apply alltasks_app1; repeat (apply alltasks_upd);
       try (apply alltasks_wakeup_st; [reflexivity|intros U0 HS0 HU0; eapply gcT_wake; eauto|]); try exact A.
  all: try match goal with |- context [after_item ?o _] => destruct o; cbn [after_item fst snd] in * end.
  all: apply gcT_split; unfold cancelled_in_get_b, blocked_b, flush_task, finished, set_prog;
       cbn [st prog mc forallb op_nocancel andb];
       repeat match goal with
              | E1 : st ?T = _ |- context [st ?T] => rewrite E1
              | E1 : mc ?T = _ |- context [mc ?T] => rewrite E1
              end;
       rewrite ?forallb_app, ?forallb_repeat_nc, ?forallb_repeat_nc2; cbn [forallb op_nocancel andb];
       repeat split; auto; try discriminate.
Qed.

Ltac gc_contra :=
  match goal with
  | A : alltasks gcT (tasks ?s), E : nth_error (tasks ?s) _ = Some ?T |- _ =>
      let G1 := fresh "G1" in let G2 := fresh "G2" in let G3 := fresh "G3" in
      pose proof (proj1 (gcT_split _) (A _ _ E)) as (G1 & G2 & G3); unfold cancelled_in_get_b in G2; clear G3;
      try match goal with E1 : prog T = _ |- _ => rewrite E1 in G1 end;
      try match goal with E1 : mc T = true |- _ => rewrite E1 in G2 end;
      try match goal with E1 : st T = WokeGet |- _ => rewrite E1 in G2 end;
      try match goal with E1 : st T = CancGet |- _ => rewrite E1 in G2 end;
      cbn [forallb op_nocancel andb] in G1; cbv beta iota in G2; first [discriminate G1 | discriminate G2]
  end.

Lemma fit_step_c : forall s t s', step s t = Some s' ->
  alltasks gcT (tasks s) -> alltasks shapeP (tasks s) -> alltasks noputT (tasks s) ->
  W s = sumf in_get (tasks s) -> (flushed s = false -> sumf nflush (tasks s) = 0) ->
  closed s = true -> length (q s) + sumf nflush (tasks s) <= W s ->
  length (q s') + sumf nflush (tasks s') <= W s'.
Proof.
  intros s t s' H N SH A HW NFl CL I. step_inv H; simp_proj; try exact I.
  all: try gc_contra.
  all: try noput_contra.
  all: try congruence.
  all: norm_tests; norm_done.
  all: repeat match goal with E : q _ = _ |- _ => rewrite E in *; clear E end.
  all: cbn [length] in *; try (exfalso; lia).
  all: shape_facts.
  all: try match goal with |- context [after_item ?o _] => destruct o; cbn [after_item fst snd] in * end.
  all: try match goal with E : nth_error (tasks _) _ = Some _ |- _ => pose proof (sumf_nth in_get _ _ _ E) as KG end.
  all: try wake_cases; sumf_norm; meas_simpl; rewrite ?app_length; cbn [length] in *.
  all: try lia.
  all: try (specialize (NFl ltac:(assumption)); lia).
  all: repeat match goal with E : _ \/ _ |- _ => destruct E end; try congruence; try lia.
Qed.

Lemma no_get_cancel_iff : forall s, no_get_cancel s = true <-> alltasks gcT (tasks s).
Proof.
  intros s. unfold no_get_cancel, alltasks, gcT. rewrite forallb_forall. split.
  - intros H u U HU. apply H. eapply nth_error_In; eauto.
  - intros H U HI. apply In_nth_error in HI as [u HU]. eapply H; eauto.
Qed.

Lemma settled_c_split : forall s, done_settled_c s = true <->
  (closed s = true /\ length (q s) <= W s) /\ alltasks noputT (tasks s) /\
  length (q s) + sumf nflush (tasks s) <= W s /\ alltasks gcT (tasks s).
Proof.
  intros s. unfold done_settled_c, sentinels_fit, done. rewrite !andb_true_iff, !Nat.leb_le, senders_idle_iff, no_get_cancel_iff.
  tauto.
Qed.

Theorem done_settled_c_step : forall c s t s', Reach c s -> done_settled_c s = true -> step s t = Some s' ->
  done_settled_c s' = true /\ done s' = true.
Proof.
  intros c s t s' R D H. apply settled_c_split in D as ((CL & DQ) & A & F & N).
  destruct (reach_gen _ _ R) as [I1 _ _ IS _ _ _].
  pose proof (fit_step_c s t s' H N IS A (i_W _ I1) (i_nf _ I1) CL F) as F'.
  pose proof (noput_step s t s' H CL A) as A'. pose proof (gc_step s t s' H N) as N'.
  pose proof (closed_stable s t s' H CL) as CL'.
  assert (DQ' : length (q s') <= W s') by lia.
  split; [apply settled_c_split; tauto|]. unfold done. rewrite CL'. apply Nat.leb_le in DQ'. rewrite DQ'. reflexivity.
Qed.

Theorem done_settled_c_run : forall c sch s s', Reach c s -> done_settled_c s = true -> exec s sch = Some s' ->
  done_settled_c s' = true /\ done s' = true.
Proof.
  induction sch as [|t r IH]; intros s s' R D H; cbn [exec] in H.
  - injection H as <-. split; auto. apply settled_c_split in D as ((CL & DQ) & _). unfold done. rewrite CL.
    apply Nat.leb_le in DQ. rewrite DQ. reflexivity.
  - destruct (step s t) as [s1|] eqn:E; [|discriminate].
    destruct (done_settled_c_step c s t s1 R D E) as [D1 _]. eapply IH; [econstructor; eauto|exact D1|exact H].
Qed.

(* the condition without any pending cancellation is a special case *)
Lemma nocancel_gcT : forall T, task_nocancel T = true -> gcT T.
Proof.
  intros T H. unfold task_nocancel in H. apply andb_true_iff in H as [H H3]. apply andb_true_iff in H as [H1 H2].
  apply negb_true_iff in H1. apply gcT_split. split; [exact H2|]. split; [|intros _; exact H1].
  unfold cancelled_in_get_b. destruct (st T); auto; discriminate.
Qed.

Theorem settled_implies_c : forall s, done_settled s = true -> done_settled_c s = true.
Proof.
  intros s H. apply settled_split in H as (H1 & H2 & H3 & H4). apply settled_c_split. repeat split; try tauto.
  intros u U HU. apply nocancel_gcT. eapply forallb_nth; eauto.
Qed.

(* a settled state with a cancellation still pending on a task outside get(): receiver 0 blocked, task 1 sends, closes and
   sleeps, task 2 cancels task 1 *)
Definition cfg_stc : config :=
  mkC 0 false [([URecvLoop], false); ([USend; UClose; UYield; UYield], false); ([UCancel 1], false)].

Example ex_done_settled_c :
  let s := final cfg_stc [0; 1; 2] in
  Reach cfg_stc s /\ done_settled_c s = true /\ done_settled s = false /\ no_cancel_pending s = false /\
  (exists T, nth_error (tasks s) 1 = Some T /\ st T = Ready /\ mc T = true) /\
  (exists s', step s 1 = Some s' /\ outcome_of s' 1 = Some OCancelled /\ done s' = true) /\
  (exists s', step s 0 = Some s' /\ done s' = true).
Proof.
  cbv zeta. split; [apply final_reach; vm_compute; reflexivity|]. vm_compute. repeat split; eauto.
Qed.
