(* C17_total: the fuel [parse] supplies never runs out.  Every recursive call of
   Message.load / load_fields / _load_field (nested messages, map entries, Timestamp /
   Duration / wrappers, nested groups, packed runs) is on a strictly shorter byte list. *)
From BP Require Import Base.Prelude Model.Types Model.Varint Model.Scalar Model.Float Model.Utf8.
From BP Require Import Model.Object Model.Eq Model.TimeCore Model.Decode Model.C17Step Model.C17Wire.
From BP Require Import Spec.Varint Proofs.VarintP Proofs.C17FieldP Proofs.C17StepP.
From BP Require Import gen.Tables.

Lemma unpack_int_not_fuel f bs : unpack_int f bs <> Err EFuel.
Proof. unfold unpack_int. destruct (fmt_int_range f) as [[[lo hi] n]|]; [destruct (Nat.eqb _ _)|]; discriminate. Qed.

Lemma unpack_value_not_fuel t bs : unpack_value t bs <> Err EFuel.
Proof.
  unfold unpack_value. destruct (pack_fmt t) as [[]|]; try discriminate;
    try (destruct (Nat.eqb _ _); discriminate);
    match goal with |- bind (unpack_int ?f bs) _ <> _ =>
      pose proof (unpack_int_not_fuel f bs); destruct (unpack_int f bs); cbn [bind]; congruence end.
Qed.

Lemma skipn_shorter {A} k (l : list A) : l <> [] -> (0 < k)%nat -> (length (skipn k l) < length l)%nat.
Proof. intros Hl Hk. rewrite skipn_length. destruct l; [congruence|]. cbn [length]. lia. Qed.

Lemma unpack_packed_fuel_ok n : forall t buf, (length buf < n)%nat -> unpack_packed n t buf <> Err EFuel.
Proof.
  induction n as [|n IH]; intros t buf Hl; [lia|]. cbn [unpack_packed].
  destruct buf as [|b buf']; [discriminate|]. set (buf := b :: buf') in *.
  assert (Hne : buf <> []) by discriminate.
  destruct (tmem t [TFloat; TFixed32; TSFixed32]).
  { pose proof (unpack_value_not_fuel t (firstn 4 buf)).
    destruct (unpack_value t (firstn 4 buf)); cbn [bind]; [|congruence].
    pose proof (IH t (skipn 4 buf) ltac:(pose proof (skipn_shorter 4 buf Hne); lia)).
    destruct (unpack_packed n t (skipn 4 buf)); cbn [bind]; congruence. }
  destruct (tmem t [TDouble; TFixed64; TSFixed64]).
  { pose proof (unpack_value_not_fuel t (firstn 8 buf)).
    destruct (unpack_value t (firstn 8 buf)); cbn [bind]; [|congruence].
    pose proof (IH t (skipn 8 buf) ltac:(pose proof (skipn_shorter 8 buf Hne); lia)).
    destruct (unpack_packed n t (skipn 8 buf)); cbn [bind]; congruence. }
  pose proof (load_varint_not_fuel buf).
  destruct (load_varint buf) as [[[v r] rest]|] eqn:Ev; cbn [bind]; [|congruence].
  apply load_varint_inv in Ev as (E & _ & Hr). rewrite E, app_length in Hl.
  pose proof (IH t rest ltac:(lia)).
  destruct (unpack_packed n t rest); cbn [bind]; congruence.
Qed.

Lemma getattr_not_fuel sc o i : snd (getattr sc o i) <> Err EFuel.
Proof.
  unfold getattr. destruct o as [c raw sow unk cur].
  destruct (nth_error _ i) as [f|]; [|discriminate].
  destruct (group_selects cur f i) as [[|]|]; try discriminate; destruct (nth i raw PPlaceholder); discriminate.
Qed.

Section Total.
  Variable sc : schema.
  Variable pn : nat -> list byte -> result obj.
  Variable L : nat.
  Hypothesis Hpn : forall c' bs, (length bs < L)%nat -> pn c' bs <> Err EFuel.

  Lemma post_len_not_fuel t ety w bs : (length bs < L)%nat -> post_len_r sc pn t ety w bs <> Err EFuel.
  Proof.
    intros Hl. unfold post_len_r.
    destruct (ptype_eqb t TString); [destruct (utf8_valid bs); discriminate|].
    destruct (ptype_eqb t TMessage); [|discriminate].
    assert (Hts : forall c', (do m <- pn c' bs;
               match snd (getattr sc m 0), snd (getattr sc m 1) with
               | Ok (PInt sec), Ok (PInt nan) => do us <- us_of_ts sec nan; Ok (PDatetime us)
               | _, _ => Err EType end) <> Err EFuel).
    { intros c'. pose proof (Hpn c' bs Hl). destruct (pn c' bs) as [m|]; cbn [bind]; [|congruence].
      destruct (snd (getattr sc m 0)) as [[]|]; try discriminate.
      destruct (snd (getattr sc m 1)) as [[]|]; try discriminate.
      unfold us_of_ts. destruct (_ && _); discriminate. }
    assert (Htd : forall c', (do m <- pn c' bs;
               match snd (getattr sc m 0), snd (getattr sc m 1) with
               | Ok (PInt sec), Ok (PInt nan) => do us <- us_of_dur sec nan; Ok (PTimedelta us)
               | _, _ => Err EType end) <> Err EFuel).
    { intros c'. pose proof (Hpn c' bs Hl). destruct (pn c' bs) as [m|]; cbn [bind]; [|congruence].
      destruct (snd (getattr sc m 0)) as [[]|]; try discriminate.
      destruct (snd (getattr sc m 1)) as [[]|]; try discriminate.
      unfold us_of_dur. destruct (td_ok _); discriminate. }
    assert (Hw : forall w', match wrapper_cls w' with
                            | None => Err EKey
                            | Some wc => do m <- pn wc bs; snd (getattr sc m 0) end <> Err EFuel).
    { intros w'. destruct (wrapper_cls w') as [wc|]; [|discriminate].
      pose proof (Hpn wc bs Hl). destruct (pn wc bs) as [m|]; cbn [bind]; [|congruence].
      apply getattr_not_fuel. }
    assert (Hm : forall c', (do m <- pn c' bs; Ok (mark_sow (PMsg m))) <> Err EFuel).
    { intros c'. pose proof (Hpn c' bs Hl). destruct (pn c' bs); cbn [bind]; congruence. }
    destruct ety, w; try discriminate; auto.
  Qed.

  Lemma decode_value_not_fuel f p : (length (pbytes p) < L)%nat -> decode_value sc pn f p <> Err EFuel.
  Proof.
    intros Hl. unfold decode_value.
    destruct (_ && _).
    { pose proof (unpack_packed_fuel_ok (S (length (pbytes p))) (fty f) (pbytes p) ltac:(lia)).
      destruct (unpack_packed _ _ _); cbn [bind]; congruence. }
    destruct (_ =? WIRE_VARINT); [discriminate|].
    destruct (_ || _); [apply unpack_value_not_fuel|].
    destruct (ptype_eqb (fty f) TMap).
    { pose proof (Hpn (fentry f) (pbytes p) Hl). destruct (pn _ _); cbn [bind]; congruence. }
    apply post_len_not_fuel, Hl.
  Qed.

  Lemma store_value_not_fuel o i f v : store_value sc o i f v <> Err EFuel.
  Proof.
    unfold store_value. destruct (fetch_current sc o i f) as [o' cur_v].
    destruct (ptype_eqb (fty f) TMap).
    - destruct v; try discriminate. destruct cur_v; try discriminate.
      destruct (getattr sc o0 0) as [? [|]]; try discriminate.
      destruct (getattr sc o0 1) as [? [|]]; discriminate.
    - destruct cur_v; discriminate.
  Qed.

  Lemma apply_field_not_fuel cd o p : (length (pbytes p) < L)%nat -> apply_field sc pn cd o p <> Err EFuel.
  Proof.
    intros Hl. unfold apply_field. destruct (field_by_number cd (pnum p)) as [[i f]|]; [|discriminate].
    destruct (negb _); [discriminate|].
    pose proof (decode_value_not_fuel f p Hl). destruct (decode_value sc pn f p); cbn [bind]; [|congruence].
    apply store_value_not_fuel.
  Qed.

  Lemma loop_r_fuel_ok fuel' size cd : forall n o s read,
    (length s < n)%nat -> (length s <= fuel')%nat -> (length s <= L)%nat ->
    loop_r sc pn (load_field fuel') size cd n o s read <> Err EFuel.
  Proof.
    induction n as [|n IH]; intros o s read Hn Hf HL; [lia|]. cbn [loop_r].
    destruct s as [|b s']; [destruct size; [destruct (_ <? _)|]; discriminate|].
    set (s := b :: s') in *.
    pose proof (load_varint_not_fuel s).
    destruct (load_varint s) as [[[nw r] s1]|] eqn:Ev; cbn [bind]; [|congruence].
    apply load_varint_inv in Ev as (E & _ & Hr). rewrite E, app_length in Hn, Hf, HL.
    pose proof (load_field_fuel_ok fuel' s1 nw r ltac:(lia)).
    destruct (load_field fuel' s1 nw r) as [[p s2]|] eqn:Ef; cbn [bind]; [|congruence].
    apply load_field_sound in Ef. destruct Ef as (pl & -> & _ & _ & _ & _ & _ & _ & _ & Hb).
    rewrite app_length in Hn, Hf, HL.
    unfold account. destruct size as [sz|]; [destruct (sz <? _); [discriminate|]|]; cbn [bind].
    all: pose proof (apply_field_not_fuel cd o p ltac:(lia));
      destruct (apply_field sc pn cd o p) as [o'|]; cbn [bind]; [|congruence];
      destruct (finished _ _); [discriminate | apply IH; lia].
  Qed.
End Total.

Lemma read_size_inv size s size' s' :
  read_size size s = Ok (size', s') -> (length s' <= length s)%nat.
Proof.
  unfold read_size. destruct size as [n|]; [destruct (n =? SIZE_DELIMITED)|].
  - destruct (load_varint s) as [[[n' r] s1]|] eqn:Ev; cbn [bind]; [|discriminate].
    intros H. injection H as <- <-. apply load_varint_inv in Ev as (-> & _). rewrite app_length. lia.
  - intros H. injection H as <- <-. lia.
  - intros H. injection H as <- <-. lia.
Qed.

Lemma read_size_not_fuel size s : read_size size s <> Err EFuel.
Proof.
  unfold read_size. destruct size as [n|]; [destruct (n =? SIZE_DELIMITED)|]; try discriminate.
  pose proof (load_varint_not_fuel s). destruct (load_varint s) as [[[? ?] ?]|]; cbn [bind]; congruence.
Qed.

Theorem load_r_fuel_ok sc fuel : forall o s size,
  (length s < fuel)%nat -> load_r fuel sc o s size <> Err EFuel.
Proof.
  induction fuel as [|fuel IH]; intros o s size Hl; [lia|]. cbn [load_r].
  pose proof (read_size_not_fuel size s).
  destruct (read_size size s) as [[size' s']|] eqn:Er; cbn [bind]; [|congruence].
  apply read_size_inv in Er.
  assert (G : loop_r sc (fun c' bs => do (o', _) <- load_r fuel sc (new sc c') bs None; Ok o')
                     (load_field fuel) size' (get_class sc (ocls (mark_on_wire o))) (S (length s'))
                     (mark_on_wire o) s' 0 <> Err EFuel).
  { apply (loop_r_fuel_ok sc _ fuel); try lia.
    intros c' bs Hb. pose proof (IH (new sc c') bs None Hb).
    destruct (load_r fuel sc (new sc c') bs None) as [[? ?]|]; cbn [bind]; congruence. }
  destruct size' as [[| |]|]; try exact G. discriminate.
Qed.

Theorem load_fuel_ok sc fuel o s size : (length s < fuel)%nat -> load fuel sc o s size <> Err EFuel.
Proof. rewrite load_eq. apply load_r_fuel_ok. Qed.

Theorem parse_total sc c bs : parse sc c bs <> Err EFuel.
Proof.
  unfold parse, parse_into. pose proof (load_fuel_ok sc (S (length bs)) (new sc c) bs None ltac:(lia)).
  destruct (load _ _ _ _ _) as [[? ?]|]; cbn [bind]; congruence.
Qed.

Theorem parse_into_total sc o bs : parse_into sc o bs <> Err EFuel.
Proof.
  unfold parse_into. pose proof (load_fuel_ok sc (S (length bs)) o bs None ltac:(lia)).
  destruct (load _ _ _ _ _) as [[? ?]|]; cbn [bind]; congruence.
Qed.

Theorem load_delimited_total sc c s : load_delimited sc c s <> Err EFuel.
Proof. unfold load_delimited. apply load_fuel_ok. lia. Qed.
