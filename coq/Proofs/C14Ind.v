(* C14, part 1: induction over the nested value type, syntactic equality [pv_same], and small facts
   about floats and defaults used by the materialisation lemmas. *)
From BP Require Import Base.Prelude Model.Types Model.Float Model.Object Model.Eq Model.Encode Model.History Model.C14Ops.
From BP Require Import Model.WellFormed Proofs.BytesP.
From Coq Require Import Lia.

(* ---- induction principle: the nested lists are covered by Forall ---- *)
Section PvInd.
  Variable P : pv -> Prop.
  Hypothesis HPl : P PPlaceholder.
  Hypothesis HNo : P PNone.
  Hypothesis HIn : forall z, P (PInt z).
  Hypothesis HBo : forall b, P (PBool b).
  Hypothesis HFl : forall b, P (PFloat b).
  Hypothesis HSt : forall s, P (PStr s).
  Hypothesis HBy : forall s, P (PBytes s).
  Hypothesis HDt : forall z, P (PDatetime z).
  Hypothesis HTd : forall z, P (PTimedelta z).
  Hypothesis HLi : forall l, Forall P l -> P (PList l).
  Hypothesis HDi : forall d, Forall (fun kv => P (fst kv) /\ P (snd kv)) d -> P (PDict d).
  Hypothesis HMs : forall c raw sow unk cur, Forall P raw -> P (PMsg (Obj c raw sow unk cur)).

  Fixpoint pv_induction (v : pv) : P v :=
    match v with
    | PPlaceholder => HPl
    | PNone => HNo
    | PInt z => HIn z
    | PBool b => HBo b
    | PFloat b => HFl b
    | PStr s => HSt s
    | PBytes s => HBy s
    | PDatetime z => HDt z
    | PTimedelta z => HTd z
    | PList l =>
        HLi l ((fix go (l : list pv) : Forall P l :=
                  match l with
                  | [] => Forall_nil P
                  | x :: r => Forall_cons x (pv_induction x) (go r)
                  end) l)
    | PDict d =>
        HDi d ((fix go (d : list (pv * pv)) : Forall (fun kv => P (fst kv) /\ P (snd kv)) d :=
                  match d with
                  | [] => Forall_nil _
                  | (k, x) :: r => Forall_cons (k, x) (conj (pv_induction k) (pv_induction x)) (go r)
                  end) d)
    | PMsg (Obj c raw sow unk cur) =>
        HMs c raw sow unk cur
          ((fix go (l : list pv) : Forall P l :=
              match l with
              | [] => Forall_nil P
              | x :: r => Forall_cons x (pv_induction x) (go r)
              end) raw)
    end.
End PvInd.

(* ---- pv_same is syntactic equality ---- *)
Lemma opt_nat_eqb_eq a b : opt_nat_eqb a b = true <-> a = b.
Proof.
  destruct a, b; cbn; split; intros H; try discriminate; try reflexivity.
  - apply Nat.eqb_eq in H. subst. reflexivity.
  - inversion H. apply Nat.eqb_refl.
Qed.

Lemma cur_same_eq a b : cur_same a b = true <-> a = b.
Proof.
  unfold cur_same. revert b. induction a as [|x a IH]; intros [|y b]; split; intros H; try discriminate; try reflexivity.
  - apply andb_true_iff in H as [H1 H2]. apply opt_nat_eqb_eq in H1. apply IH in H2. subst. reflexivity.
  - inversion H; subst. apply andb_true_iff. split; [apply opt_nat_eqb_eq; reflexivity | apply IH; reflexivity].
Qed.

Lemma bytes_eqb_refl s : bytes_eqb s s = true.
Proof. apply bytes_eqb_eq. reflexivity. Qed.

Lemma pv_same_sound : forall a b, pv_same a b = true -> a = b.
Proof.
  induction a using pv_induction; intros y Hs; destruct y; cbn [pv_same] in Hs; try discriminate; try reflexivity.
  - apply Z.eqb_eq in Hs. subst. reflexivity.
  - apply eqb_prop in Hs. subst. reflexivity.
  - apply Z.eqb_eq in Hs. subst. reflexivity.
  - apply bytes_eqb_eq in Hs. subst. reflexivity.
  - apply bytes_eqb_eq in Hs. subst. reflexivity.
  - apply Z.eqb_eq in Hs. subst. reflexivity.
  - apply Z.eqb_eq in Hs. subst. reflexivity.
  - f_equal. revert l0 Hs. induction H as [|x l Hx Hl IH]; intros [|y l0] Hs; try discriminate; [reflexivity|].
    apply andb_true_iff in Hs as [H1 H2]. f_equal; [apply Hx; exact H1 | apply IH; exact H2].
  - f_equal. revert l Hs. induction H as [|[k x] d [Hk Hx] Hd IH]; intros [|[k' y] l] Hs; try discriminate; [reflexivity|].
    apply andb_true_iff in Hs as [H1 H3]. apply andb_true_iff in H1 as [H1 H2]. cbn [fst snd] in *.
    f_equal; [f_equal; [apply Hk; exact H1 | apply Hx; exact H2] | apply IH; exact H3].
  - destruct o as [c' rb sb ub gb].
    apply andb_true_iff in Hs as [Hs H5]. apply andb_true_iff in Hs as [Hs H4].
    apply andb_true_iff in Hs as [Hs H3]. apply andb_true_iff in Hs as [H1 H2].
    apply Nat.eqb_eq in H1. apply eqb_prop in H2. apply bytes_eqb_eq in H3. apply cur_same_eq in H4. subst.
    do 2 f_equal. revert rb H5. induction H as [|x l Hx Hl IH]; intros [|y l0] Hs; try discriminate; [reflexivity|].
    apply andb_true_iff in Hs as [H1 H2]. f_equal; [apply Hx; exact H1 | apply IH; exact H2].
Qed.

Lemma cur_same_refl a : cur_same a a = true.
Proof. apply cur_same_eq. reflexivity. Qed.

Lemma pv_same_refl : forall a, pv_same a a = true.
Proof.
  induction a using pv_induction; cbn [pv_same]; try reflexivity;
    try apply Z.eqb_refl; try apply bytes_eqb_refl.
  - destruct b; reflexivity.
  - induction H as [|x l Hx Hl IH]; [reflexivity|]. rewrite Hx, IH. reflexivity.
  - induction H as [|[k x] d [Hk Hx] Hd IH]; [reflexivity|]. cbn [fst snd] in *. rewrite Hk, Hx, IH. reflexivity.
  - rewrite Nat.eqb_refl, eqb_reflx, bytes_eqb_refl, cur_same_refl. cbn [andb].
    induction H as [|x l Hx Hl IH]; [reflexivity|]. rewrite Hx, IH. reflexivity.
Qed.

(* ---- floats: what the comparison with the default 0.0 needs ---- *)
Lemma f64_nan_not_zero b : f64_is_nan b = true -> f64_is_zero b = false.
Proof.
  unfold f64_is_nan, f64_is_zero, f64_exp. intros H. apply andb_true_iff in H as [He _].
  apply Z.eqb_eq in He. apply Z.eqb_neq. intros Hz.
  assert (Hx : Z.land (Z.shiftr b 52) 2047 = 0).
  { apply Z.bits_inj'. intros n Hn. rewrite Z.land_spec, Z.shiftr_spec, Z.bits_0 by lia.
    destruct (Z.ltb n 11) eqn:Hlt.
    - apply Z.ltb_lt in Hlt.
      assert (Hb : Z.testbit (Z.land b (2 ^ 63 - 1)) (n + 52) = false) by (rewrite Hz; apply Z.bits_0).
      rewrite Z.land_spec in Hb. change (2 ^ 63 - 1) with (Z.ones 63) in Hb.
      rewrite Z.ones_spec_low in Hb by lia. rewrite andb_true_r in Hb. rewrite Hb. reflexivity.
    - apply Z.ltb_ge in Hlt. change 2047 with (Z.ones 11). rewrite Z.ones_spec_high by lia. apply andb_false_r. }
  rewrite Hx in He. discriminate.
Qed.

Lemma f64_eq_zero_l y : f64_eq 0 y = f64_is_zero y.
Proof.
  unfold f64_eq. change (f64_is_nan 0) with false. change (f64_is_zero 0) with true. cbn [orb andb].
  destruct (f64_is_nan y) eqn:Hn; [symmetry; apply f64_nan_not_zero; exact Hn|].
  destruct (f64_is_zero y) eqn:Hz; [reflexivity|].
  destruct (0 =? y) eqn:He; [|reflexivity]. apply Z.eqb_eq in He. subst y. discriminate.
Qed.

Lemma f64_eq_zero_r y : f64_eq y 0 = f64_is_zero y.
Proof.
  unfold f64_eq. change (f64_is_nan 0) with false. change (f64_is_zero 0) with true. rewrite orb_false_r, andb_true_r.
  destruct (f64_is_nan y) eqn:Hn; [symmetry; apply f64_nan_not_zero; exact Hn|].
  destruct (f64_is_zero y) eqn:Hz; [reflexivity|].
  destruct (y =? 0) eqn:He; [|reflexivity]. apply Z.eqb_eq in He. subst y. discriminate.
Qed.

(* ---- schema facts ---- *)
Lemma get_class_fields_in sc c f :
  In f (cfields (get_class sc c)) -> exists cd, In cd (classes sc) /\ In f (cfields cd).
Proof.
  unfold get_class. intros H. destruct (nth_in_or_default c (classes sc) empty_class) as [Hin|Hd].
  - eexists. split; [exact Hin | exact H].
  - rewrite Hd in H. destruct H.
Qed.

Lemma wf_field_opt_hint sc n f : wf_field sc n f = true -> opt_hint_ok f = true.
Proof.
  unfold wf_field, opt_hint_ok. intros H. destruct (fopt f) eqn:Ho; [|reflexivity].
  apply andb_true_iff in H as [_ H].
  destruct (fhint f); [|reflexivity| |]; cbn [negb andb] in H; discriminate H.
Qed.

Lemma wf_schema_opt_ok sc : wf_schema sc = true -> schema_opt_ok sc = true.
Proof.
  unfold wf_schema, schema_opt_ok. intros H. apply andb_true_iff in H as [_ H].
  apply forallb_forall. intros cd Hcd. rewrite forallb_forall in H. specialize (H cd Hcd).
  unfold wf_class in H. apply andb_true_iff in H as [H _].
  apply forallb_forall. intros f Hf. rewrite forallb_forall in H.
  eapply wf_field_opt_hint. apply H. exact Hf.
Qed.

(* the fact the proofs use: in a class of the schema, a proto3-optional field is annotated Optional *)
Lemma opt_ok_field sc c f :
  schema_opt_ok sc = true -> In f (cfields (get_class sc c)) -> opt_hint_ok f = true.
Proof.
  intros H Hin. destruct (get_class_fields_in sc c f Hin) as [cd [Hcd Hf]].
  unfold schema_opt_ok in H. rewrite forallb_forall in H. specialize (H cd Hcd).
  rewrite forallb_forall in H. apply H. exact Hf.
Qed.
