(* C10 — gap analysis of the property text against Properties/C10.v, and the first group of gap-closing proofs.

   PROPERTY TEXT, clause by clause  ->  theorems that existed  ->  gap  ->  closed by (GapA = this file, GapB = C10GapB.v)

   (1) "Any sequence of messages written to a stream with dump(..., SIZE_DELIMITED) is read back by successive
        load(..., SIZE_DELIMITED) calls as the same sequence"
         -> C10_stream_roundtrip / C10_stream_decoded (C01 composed), C10_stream_frames / _rt (any reader, parse_each).
         gap a: the value hypothesis c01_value_ok is only sampled by the harness.  -> GapB stream_roundtrip_reachable: discharged for
            every sequence of objects produced by public-API histories (run7) under C01's operation-level conditions; with
            sow_ok the attribute observers come for free.
         gap b: "the same sequence" as a statement about the STREAM: nothing said that a stream determines the sequence
            written (two different sequences of payloads never give the same stream).  -> GapA stream_unique.
   (2) "each call consuming exactly its own message"
         -> C10_frame_iff, C10_load_consumes_exactly (one call), C10_stream_frames (the run leaves exactly [rest]).
         gap: no statement about the stream position BETWEEN the calls (stream.tell() after the j-th load).
            -> GapA loads_positions: after j loads exactly the frames of the remaining messages (and what followed) are unread.
   (3) "including empty messages"
         -> C10_empty_frame (reading 00).  gap: converse / exactness: which messages are written as the single byte 00.
            -> GapA empty_frame_iff (exactly those with bytes(m) = b""), empty_first_byte.
   (4) "messages with unknown fields"
         -> C10_frame_ok (payload may hold unknown records), the older reader of C10_stream_older_reader KEEPS unknown bytes, but the
            end-to-end theorems require c01_value_ok, which EXCLUDES a written message that carries unknown bytes.
         gap: the end-to-end round trip and truncation for written messages with _unknown_fields.
            -> GapB stream_roundtrip_unknown / stream_truncate_unknown: unknown bytes at ANY nesting depth (C14's c14u_value_ok =
               c01_value_ok with "no unknown bytes" replaced by "complete records the class keeps verbatim"), returned message =
               normu_obj, same bytes, same unknown bytes, ==.  stream_unknown_needs_records_refuted: the side condition is needed.
   (5) "and messages of different types"
         -> all stream theorems take an arbitrary class list.  No gap (C10_ex_roundtrip mixes two classes).
   (6) "the framing is the varint length prefix the reference implementation reads and writes"
         -> C10_framing (dump = varint(|bytes|) ++ bytes, read back by any class), C10_frame_ok / _iff / _exact for padded prefixes.
         gap a: no reader-independent statement: the reference reader of one frame (Model/C10GapDefs.v ref_frame: one varint,
            then exactly n bytes; no schema) is not mentioned.  -> GapA load_ref_frame: load returns (m, s') EXACTLY when ref_frame
            splits s into (p, s') and parse p = m - both directions; load_total_spec: the three outcomes of a load in terms of the
            varint, the bytes available and parse alone (which error: the varint's own when the prefix is bad).
         gap b: "writes": the prefix dump writes is the CANONICAL (shortest) varint of len(m) - what the reference writer emits -
            and equals C09's __len__.  -> GapA dump_canonical; ref_frames_stream: the reference reader splits the whole stream into
            exactly the payloads bytes(m_i), nothing left.
         gap c: uniqueness: a byte string has at most one reading as frame ++ rest.  -> GapA frame_unique.
         gap d: which streams a load ACCEPTS.  -> GapA load_accept_iff: composition with C17_accept_iff.
   (7) "If the stream is cut at any byte, every load either returns a message equal to the one written or raises; it never
        returns a silently shortened message."
         -> C10_truncate_roundtrip (exact count whole_frames, ==), C10_cut_prefix (any stream), C10_truncate_older_reader / _any_reader.
         gap a ("fault_sequences" of the quantifier): only the CUT is treated; a stream damaged from byte k on in any other way
            (overwritten, garbage appended after a cut) is not.  -> GapA loads_fault: two streams that agree on their first k bytes
            return the same messages for every frame read wholly inside those k bytes; GapB stream_fault_roundtrip: for a written
            stream damaged from byte k on, at least the whole_frames k messages come back, each the decoded form of the written one.
         gap b: "never shortened" as bytes: GapB returned_same_bytes: every message a cut run returns re-encodes to the bytes written.
         gap c: whole_frames was only characterised for k < |stream|.  -> GapA whole_frames_mono, whole_frames_le.
   (8) quantifier "reader schema equal to or older than the writer schema": C10_stream_older_reader, C10_truncate_older_reader
        (masks at every depth; masks_ok exact by C08's witnesses).  gap: value hypothesis sampled -> GapB older_reader_reachable.
   (9) quantifier "for all cut points 0..len(stream)": C10_truncate_roundtrip has every k (also beyond the end).  No gap.
   (10) the size bound msg_small: no Python object reaches 2^64 bytes; it cannot be witnessed by vm_compute.  Left as a hypothesis. *)
From Coq Require Import ZArith List Bool Lia.
From BP Require Import Base.Prelude Model.Types Model.Varint Model.Object Model.Eq Model.Encode Model.Len Model.Decode.
From BP Require Import Model.WellFormed Model.C10Stream Model.C10Rt Model.C10GapDefs.
From BP Require Import Spec.Varint Proofs.VarintP Proofs.LenP Proofs.C10FieldP Proofs.C10FrameP Proofs.C10StreamP Proofs.C10TotalP
     Proofs.C10RtGenP.
From BP Require Model.C17Typed Model.C17Nested Proofs.C17NestedAcceptP.
Import ListNotations.

(* ---------- list / Zlength helpers ---------- *)
Lemma to_nat_Zlength {A} (p : list A) : Z.to_nat (Zlength p) = length p.
Proof. unfold Zlength. apply Nat2Z.id. Qed.

Lemma firstn_Zlength_app {A} (p r : list A) : firstn (Z.to_nat (Zlength p)) (p ++ r) = p.
Proof. rewrite to_nat_Zlength, firstn_app, Nat.sub_diag, firstn_all. cbn [firstn]. apply app_nil_r. Qed.

Lemma skipn_Zlength_app {A} (p r : list A) : skipn (Z.to_nat (Zlength p)) (p ++ r) = r.
Proof. rewrite to_nat_Zlength. apply skipn_app_exact. Qed.

Lemma Zlength_firstn_le {A} (n : Z) (r : list A) : 0 <= n -> n <= Zlength r -> Zlength (firstn (Z.to_nat n) r) = n.
Proof.
  intros H0 H1. unfold Zlength in *. rewrite firstn_length. lia.
Qed.

Lemma rep_nonneg n pre : VarintRep n pre -> 0 <= n.
Proof. intros (_ & <- & _). apply varint_value_nonneg. Qed.

(* ---------- (6a) the reference reader of one frame ---------- *)
Lemma ref_frame_app pre p r : VarintRep (Zlength p) pre -> ref_frame (pre ++ p ++ r) = Ok (p, r).
Proof.
  intros R. unfold ref_frame. rewrite (load_varint_rep _ _ _ R). cbn [bind].
  rewrite Zlen_app. pose proof (Zlen_nonneg r). replace (Zlength p + Zlength r <? Zlength p) with false by lia.
  rewrite firstn_Zlength_app, skipn_Zlength_app. reflexivity.
Qed.

Lemma ref_frame_inv s p s' :
  ref_frame s = Ok (p, s') -> exists pre, s = pre ++ p ++ s' /\ VarintRep (Zlength p) pre.
Proof.
  unfold ref_frame. intros H. destruct (load_varint s) as [[[n pre] r]|e] eqn:V; [|discriminate]. cbn [bind] in H.
  destruct (Zlength r <? n) eqn:L; [discriminate|]. injection H as <- <-.
  apply load_varint_sound in V. destruct V as (-> & R). pose proof (rep_nonneg _ _ R) as Hn.
  exists pre. rewrite firstn_skipn. split; [reflexivity|].
  rewrite Zlength_firstn_le by lia. exact R.
Qed.

Theorem load_ref_frame sc c s m s' :
  load_delimited sc c s = Ok (m, s') <-> exists p, ref_frame s = Ok (p, s') /\ parse sc c p = Ok m.
Proof.
  split.
  - intros H. destruct (frame_load_exact _ _ _ _ _ H) as (pre & p & V & P). exists p. split; [|exact P].
    apply load_varint_sound in V. destruct V as (-> & R). apply ref_frame_app. exact R.
  - intros (p & F & P). destruct (ref_frame_inv _ _ _ F) as (pre & -> & R). apply frame_load_ok; assumption.
Qed.

Theorem load_iff sc c s m s' :
  load_delimited sc c s = Ok (m, s') <->
  exists pre p, s = pre ++ p ++ s' /\ VarintRep (Zlength p) pre /\ parse sc c p = Ok m.
Proof.
  rewrite load_ref_frame. split.
  - intros (p & F & P). destruct (ref_frame_inv _ _ _ F) as (pre & E & R). exists pre, p. auto.
  - intros (pre & p & -> & R & P). exists p. split; [apply ref_frame_app; exact R | exact P].
Qed.

(* the three outcomes of one load, in terms of the length varint, the bytes available and parse alone *)
Theorem load_total_spec sc c s :
  (forall e, load_varint s = Err e -> load_delimited sc c s = Err e) /\
  (forall n pre r, load_varint s = Ok (n, pre, r) -> Zlength r < n -> exists e, load_delimited sc c s = Err e) /\
  (forall n pre r, load_varint s = Ok (n, pre, r) -> n <= Zlength r ->
     0 <= n /\
     match parse sc c (firstn (Z.to_nat n) r) with
     | Ok m => load_delimited sc c s = Ok (m, skipn (Z.to_nat n) r)
     | Err _ => exists e, load_delimited sc c s = Err e
     end).
Proof.
  split; [|split].
  - intros e V. rewrite (delim_as_loop sc c s (length s)) by lia. rewrite V. reflexivity.
  - intros n pre r V L. apply load_varint_sound in V. destruct V as (-> & R). apply (load_underrun sc c pre r n R L).
  - intros n pre r V L. apply load_varint_sound in V. destruct V as (-> & R). pose proof (rep_nonneg _ _ R) as Hn.
    split; [exact Hn|]. remember (firstn (Z.to_nat n) r) as p eqn:Hp. remember (skipn (Z.to_nat n) r) as r' eqn:Hr'.
    assert (Er : r = p ++ r') by (subst p r'; symmetry; apply firstn_skipn).
    assert (Zp : Zlength p = n) by (subst p; apply Zlength_firstn_le; lia).
    rewrite <- Zp in R. clear Hp Hr' L. subst r.
    destruct (parse sc c p) as [m|e] eqn:P.
    + apply frame_load_ok; assumption.
    + apply (frame_load_err sc c pre p r' e R P).
Qed.

(* ---------- (6c) a byte string has at most one reading as frame ++ rest ---------- *)
Theorem frame_unique pre p r pre' p' r' :
  VarintRep (Zlength p) pre -> VarintRep (Zlength p') pre' ->
  pre ++ p ++ r = pre' ++ p' ++ r' -> pre = pre' /\ p = p' /\ r = r'.
Proof.
  intros R R' E. pose proof (ref_frame_app pre p r R) as F. rewrite E, (ref_frame_app pre' p' r' R') in F.
  injection F as <- <-. split; [|split; reflexivity].
  apply (f_equal (@rev byte)) in E. rewrite !rev_app_distr in E. apply app_inv_head in E.
  apply (f_equal (@rev byte)) in E. rewrite !rev_involutive in E. exact E.
Qed.

(* ---------- (6b) what dump writes: the canonical varint of len(m), then bytes(m) ---------- *)
Theorem dump_canonical sc m F :
  dump sc m true = Ok F -> Zlength F < 2 ^ 64 ->
  exists pre p, F = pre ++ p /\ enc_obj sc m = Ok p /\ len_obj sc m = Ok (Zlength p) /\
                canonical (Zlength p) pre /\ VarintRep (Zlength p) pre /\
                forall rest, ref_frame (F ++ rest) = Ok (p, rest).
Proof.
  intros D L. destruct (dump_is_frame sc m F D L) as (pre & p & E & EV & R & ->).
  exists pre, p. split; [reflexivity|]. split; [exact E|]. split; [apply len_of_bytes; exact E|].
  pose proof (Zlen_nonneg p) as Hp.
  destruct (encode_nonneg_canonical (Zlength p) Hp) as (bs & EV' & C & _). rewrite EV in EV'. injection EV' as <-.
  split; [exact C|]. split; [exact R|]. intros rest. rewrite <- app_assoc. apply ref_frame_app. exact R.
Qed.

(* the canonical prefix is unique: the frame is a function of the payload *)
Theorem frame_of_payload sc sc' m m' F F' :
  dump sc m true = Ok F -> dump sc' m' true = Ok F' -> Zlength F < 2 ^ 64 -> Zlength F' < 2 ^ 64 ->
  (F = F' <-> enc_obj sc m = enc_obj sc' m').
Proof.
  intros D D' L L'.
  destruct (dump_canonical sc m F D L) as (pre & p & -> & E & _ & C & R & _).
  destruct (dump_canonical sc' m' F' D' L') as (pre' & p' & -> & E' & _ & C' & R' & _).
  rewrite E, E'. split.
  - intros H. destruct (frame_unique pre p [] pre' p' [] R R') as (_ & -> & _); [rewrite !app_nil_r; exact H | reflexivity].
  - intros H. injection H as <-. rewrite (canonical_unique _ _ _ C C'). reflexivity.
Qed.

(* ---------- (6b) the reference reader over the whole stream ---------- *)
Lemma ref_frames_stream_fuel sc : forall ms stream f,
  Forall (fun m => msg_small sc m = true) ms -> dump_stream sc ms = Ok stream -> (length stream < f)%nat ->
  exists ps, Forall2 (fun m p => enc_obj sc m = Ok p) ms ps /\ ref_frames f stream = Ok ps.
Proof.
  induction ms as [|m ms IH]; intros stream f Hs D Lf.
  - cbn in D. injection D as <-. exists []. split; [constructor|]. destruct f; [cbn in Lf; lia | reflexivity].
  - inversion Hs as [|? ? Hm Hms]; subst.
    destruct (dump_stream_cons _ _ _ _ D) as (F & S' & DF & DS & ->).
    destruct (dump_frame_small _ _ _ Hm DF) as (pre & p & E & R & ->).
    destruct f as [|f]; [lia|]. rewrite !app_length in Lf. cbn [length] in Lf.
    pose proof (shape_length_pos pre (proj1 R)) as Hpre.
    destruct (IH S' f Hms DS ltac:(lia)) as (ps & F2 & RF).
    exists (p :: ps). split; [constructor; assumption|].
    cbn [ref_frames]. rewrite <- app_assoc.
    destruct (pre ++ p ++ S') as [|b s0] eqn:Es.
    + destruct R as (Sh & _). destruct pre; [cbn in Sh; contradiction | discriminate].
    + rewrite <- Es, (ref_frame_app pre p S' R). cbn [bind]. rewrite RF. reflexivity.
Qed.

Theorem ref_frames_stream sc ms stream :
  Forall (fun m => msg_small sc m = true) ms -> dump_stream sc ms = Ok stream ->
  exists ps, Forall2 (fun m p => enc_obj sc m = Ok p) ms ps /\ ref_frames (S (length stream)) stream = Ok ps.
Proof. intros Hs D. apply (ref_frames_stream_fuel sc ms stream _ Hs D). lia. Qed.

(* ---------- (1b) a stream determines the sequence of payloads written ---------- *)
Lemma Forall2_same_right {A B} (P P' : A -> B -> Prop) (Q : A -> A -> Prop) :
  (forall a a' b, P a b -> P' a' b -> Q a a') ->
  forall l ps l', Forall2 P l ps -> Forall2 P' l' ps -> Forall2 Q l l'.
Proof.
  intros H l ps l' H1. revert l'. induction H1 as [|a b l ps Hab _ IH]; intros l' H2; inversion H2; subst; constructor; eauto.
Qed.

Theorem stream_unique sc sc' ms ms' stream :
  Forall (fun m => msg_small sc m = true) ms -> Forall (fun m => msg_small sc' m = true) ms' ->
  dump_stream sc ms = Ok stream -> dump_stream sc' ms' = Ok stream ->
  Forall2 (fun m m' => enc_obj sc m = enc_obj sc' m') ms ms'.
Proof.
  intros Hs Hs' D D'.
  destruct (ref_frames_stream sc ms stream Hs D) as (ps & F2 & RF).
  destruct (ref_frames_stream sc' ms' stream Hs' D') as (ps' & F2' & RF'). rewrite RF in RF'. injection RF' as <-.
  apply (Forall2_same_right (fun m p => enc_obj sc m = Ok p) (fun m p => enc_obj sc' m = Ok p)
           (fun m m' => enc_obj sc m = enc_obj sc' m')) with (ps := ps); [|exact F2 | exact F2'].
  intros a a' b Ha Ha'. congruence.
Qed.

(* ---------- (3) the empty message ---------- *)
Theorem empty_frame_iff sc m : dump sc m true = Ok [x00] <-> enc_obj sc m = Ok [].
Proof.
  split.
  - intros D. destruct (dump_is_frame sc m [x00] D ltac:(cbn; lia)) as (pre & p & E & _ & (Sh & _) & EF).
    destruct pre as [|b pre]; [cbn in Sh; contradiction|]. cbn [app] in EF. injection EF as _ EF.
    symmetry in EF. apply app_eq_nil in EF. destruct EF as (_ & ->). exact E.
  - intros E. rewrite (dump_delimited _ _ _ E). reflexivity.
Qed.

(* a written frame starts with the byte 00 exactly when the message is empty (then 00 is the whole frame) *)
Theorem empty_first_byte sc m F rest :
  dump sc m true = Ok (x00 :: F) -> Zlength (x00 :: F) < 2 ^ 64 ->
  F = [] /\ enc_obj sc m = Ok [] /\ forall c, load_delimited sc c (x00 :: F ++ rest) = Ok (sow_true (new sc c), rest).
Proof.
  intros D L. destruct (dump_is_frame sc m _ D L) as (pre & p & E & _ & R & EF).
  pose proof (ref_frame_app pre p rest R) as RF. rewrite app_assoc, <- EF in RF.
  assert (R0 : VarintRep (Zlength (@nil byte)) [x00]) by (repeat split; cbn; lia).
  pose proof (ref_frame_app [x00] [] (F ++ rest) R0) as RF0. cbn [app] in RF0, RF. rewrite RF0 in RF.
  injection RF as <- HF. assert (F = []).
  { apply (f_equal (@length byte)) in HF. rewrite app_length in HF. destruct F; [reflexivity | cbn [length] in HF; lia]. }
  subst F. split; [reflexivity|]. split; [exact E|]. intros c. cbn [app]. apply empty_frame.
Qed.

(* ---------- (2) the stream position between the calls ---------- *)
Theorem loads_positions scW scR ms cs stream rest l j :
  Forall (fun m => msg_small scW m = true) ms ->
  dump_stream scW ms = Ok stream -> length cs = length ms ->
  parse_each scW scR cs ms = (l, true) ->
  exists done todo,
    dump_stream scW (firstn j ms) = Ok done /\ dump_stream scW (skipn j ms) = Ok todo /\ stream = done ++ todo /\
    loads scR (firstn j cs) (stream ++ rest) = (firstn j l, Ok (todo ++ rest)) /\
    loads scR (skipn j cs) (todo ++ rest) = (skipn j l, Ok rest).
Proof.
  intros Hs D Hl PE.
  rewrite <- (firstn_skipn j ms) in D. destruct (dump_stream_app_inv _ _ _ _ D) as (sa & sb & Da & Db & ->).
  exists sa, sb. split; [exact Da|]. split; [exact Db|]. split; [reflexivity|].
  assert (Hsa : Forall (fun m => msg_small scW m = true) (firstn j ms)) by (apply Forall_forall; intros x Hx;
    rewrite Forall_forall in Hs; apply Hs; rewrite <- (firstn_skipn j ms); apply in_or_app; left; exact Hx).
  assert (Hsb : Forall (fun m => msg_small scW m = true) (skipn j ms)) by (apply Forall_forall; intros x Hx;
    rewrite Forall_forall in Hs; apply Hs; rewrite <- (firstn_skipn j ms); apply in_or_app; right; exact Hx).
  split.
  - rewrite <- app_assoc.
    apply (loads_parse_each scW scR (firstn j ms) (firstn j cs) sa (sb ++ rest) (firstn j l) Hsa Da).
    + rewrite !firstn_length. lia.
    + apply parse_each_firstn. exact PE.
  - apply (loads_parse_each scW scR (skipn j ms) (skipn j cs) sb rest (skipn j l) Hsb Db).
    + rewrite !skipn_length. lia.
    + clear - PE. revert cs ms l PE. induction j as [|j IH]; intros cs ms l PE; [exact PE|].
      destruct cs as [|c cs]; destruct ms as [|m ms]; cbn [parse_each] in PE.
      * injection PE as <-. reflexivity.
      * injection PE as <-. cbn [skipn]. reflexivity.
      * injection PE as <-. cbn [skipn]. destruct (skipn j cs); reflexivity.
      * destruct (enc_obj scW m) as [bs|]; [|discriminate]. destruct (parse scR c bs) as [m'|]; [|discriminate].
        destruct (parse_each scW scR cs ms) as [l0 ok] eqn:PE0. injection PE as <- ->. cbn [skipn]. apply IH. exact PE0.
Qed.

(* ---------- (7a) faults other than a cut: streams that agree on their first k bytes ---------- *)
Lemma firstn_len_firstn {A} : forall (j : nat) (L : list A), firstn (length (firstn j L)) L = firstn j L.
Proof.
  induction j as [|j IH]; intros L; [reflexivity|]. destruct L as [|x L]; [reflexivity|].
  cbn [firstn length]. rewrite IH. reflexivity.
Qed.

Theorem loads_fault sc cs k s1 s2 :
  agree_upto k s1 s2 ->
  let l := fst (loads sc cs (firstn k s1)) in
  firstn (length l) (fst (loads sc cs s1)) = l /\ firstn (length l) (fst (loads sc cs s2)) = l.
Proof.
  intros A l. split.
  - destruct (loads_prefix sc cs (firstn k s1) (skipn k s1)) as (j & H). rewrite firstn_skipn in H.
    subst l. rewrite H. apply firstn_len_firstn.
  - destruct (loads_prefix sc cs (firstn k s2) (skipn k s2)) as (j & H). rewrite firstn_skipn in H.
    subst l. unfold agree_upto in A. rewrite A, H. apply firstn_len_firstn.
Qed.

(* ---------- (7c) whole_frames: monotone in the cut point, never more than the messages ---------- *)
Lemma whole_frames_le sc : forall ms k, (whole_frames sc ms k <= length ms)%nat.
Proof.
  induction ms as [|m ms IH]; intros k; cbn [whole_frames length]; [lia|].
  destruct (dump sc m true) as [F|]; [|lia]. destruct (length F <=? k)%nat; [|lia]. specialize (IH (k - length F)%nat). lia.
Qed.

Lemma whole_frames_mono sc : forall ms k k', (k <= k')%nat -> (whole_frames sc ms k <= whole_frames sc ms k')%nat.
Proof.
  induction ms as [|m ms IH]; intros k k' H; cbn [whole_frames]; [lia|].
  destruct (dump sc m true) as [F|]; [|lia].
  destruct (length F <=? k)%nat eqn:L1; [|lia]. apply Nat.leb_le in L1.
  replace (length F <=? k')%nat with true by (symmetry; apply Nat.leb_le; lia).
  specialize (IH (k - length F)%nat (k' - length F)%nat ltac:(lia)). lia.
Qed.

(* ---------- (6d) which streams a load accepts: composition with C17's acceptance criterion ---------- *)
Theorem load_accept_iff sc :
  wf_schema sc = true -> C17Typed.has_builtins sc -> C17Typed.entries_agree sc = true ->
  forall c s, (exists m s', load_delimited sc c s = Ok (m, s')) <->
              (exists p s', ref_frame s = Ok (p, s') /\ C17Nested.valid sc c p).
Proof.
  intros Hwf Hb He c s. split.
  - intros (m & s' & H). apply load_ref_frame in H. destruct H as (p & F & P). exists p, s'. split; [exact F|].
    apply (C17NestedAcceptP.accept_iff sc Hwf Hb He). eauto.
  - intros (p & s' & F & V). apply (C17NestedAcceptP.accept_iff sc Hwf Hb He) in V. destruct V as (m & P).
    exists m, s'. apply load_ref_frame. eauto.
Qed.
