(* C08: records of different fields (not members of one oneof group) can be applied in either
   order: Message.load computes the same object.  [store] is put into a normal form
   ("what it reads" -> "which update it performs") and the updates are shown to commute. *)
From BP Require Import Base.Prelude Model.Types Model.Varint Model.Scalar Model.Float Model.Utf8.
From BP Require Import Model.Object Model.Eq Model.TimeCore Model.Encode Model.Decode Model.C08Step.
From BP Require Import gen.Tables Proofs.C08FrameP Proofs.C08StepP Proofs.C08UnknownP.

Local Transparent getattr setattr.

(* ---- list algebra ---- *)
Lemma set_nth_set_nth_same {A} i (x y : A) l : set_nth i x (set_nth i y l) = set_nth i x l.
Proof. revert i; induction l as [|a l IH]; intros [|i]; cbn [set_nth]; try reflexivity. f_equal. apply IH. Qed.

Lemma set_nth_comm {A} i j (x y : A) l : i <> j -> set_nth i x (set_nth j y l) = set_nth j y (set_nth i x l).
Proof.
  revert i j; induction l as [|a l IH]; intros [|i] [|j] H; cbn [set_nth]; try reflexivity; try congruence.
  f_equal. apply IH. congruence.
Qed.

Lemma nth_set_nth_other {A} i j (x d : A) l : i <> j -> nth i (set_nth j x l) d = nth i l d.
Proof.
  revert i j; induction l as [|a l IH]; intros [|i] [|j] H; cbn [set_nth nth]; try reflexivity; try congruence.
  apply IH. congruence.
Qed.

(* ---- the sibling reset of __setattr__ as a named function ---- *)
Section Reset.
  Variables g i : nat.
  Fixpoint reset_from (j : nat) (fs : list fdesc) (raw : list pv) {struct fs} : list pv :=
    match fs, raw with
    | f' :: fs', x :: raw' =>
        (if opt_nat_eqb (fgroup f') (Some g) && negb (Nat.eqb j i) then PPlaceholder else x)
        :: reset_from (Datatypes.S j) fs' raw'
    | _, _ => raw
    end.
End Reset.

Definition fix_val (sc : schema) (v : pv) : pv := if fieldless sc v then mark_sow v else v.

Lemma setattr_eq sc c raw sow unk cur i v :
  setattr sc (Obj c raw sow unk cur) i v =
  match nth_error (cfields (get_class sc c)) i with
  | None => Obj c raw sow unk cur
  | Some f =>
      match fgroup f with
      | None => Obj c (set_nth i (fix_val sc v) raw) true unk cur
      | Some g => Obj c (set_nth i (fix_val sc v) (reset_from g i 0 (cfields (get_class sc c)) raw)) true unk
                      (set_nth g (Some i) cur)
      end
  end.
Proof. reflexivity. Qed.

Lemma opt_nat_eqb_eq a b : opt_nat_eqb a b = true <-> a = b.
Proof.
  destruct a as [x|], b as [y|]; cbn; split; intros H; try congruence; try discriminate.
  - apply Nat.eqb_eq in H. congruence.
  - injection H as ->. apply Nat.eqb_refl.
Qed.

(* reset does not touch index i, nor any index whose field is not a member of group g *)
Lemma reset_set_nth g i fs : forall j0 raw k x,
  (k + j0 = i \/ (forall f, nth_error fs k = Some f -> fgroup f <> Some g))%nat ->
  reset_from g i j0 fs (set_nth k x raw) = set_nth k x (reset_from g i j0 fs raw).
Proof.
  induction fs as [|f fs IH]; intros j0 raw k x H; [destruct raw, k; reflexivity|].
  destruct raw as [|y raw]; [destruct k; reflexivity|].
  destruct k as [|k]; cbn [set_nth reset_from].
  - f_equal.
    destruct (opt_nat_eqb (fgroup f) (Some g) && negb (j0 =? i)%nat) eqn:E; [|reflexivity].
    apply andb_true_iff in E as [E1 E2]. apply opt_nat_eqb_eq in E1. apply negb_true_iff, Nat.eqb_neq in E2.
    destruct H as [H|H]; [cbn in H; lia|]. exfalso. apply (H f); [reflexivity | exact E1].
  - f_equal. apply IH. destruct H as [H|H]; [left; lia | right; intros f' Hf'; apply H; exact Hf'].
Qed.

Lemma nth_reset g i fs : forall j0 raw k d,
  (k + j0 = i \/ (forall f, nth_error fs k = Some f -> fgroup f <> Some g))%nat ->
  nth k (reset_from g i j0 fs raw) d = nth k raw d.
Proof.
  induction fs as [|f fs IH]; intros j0 raw k d H; [destruct raw; reflexivity|].
  destruct raw as [|y raw]; [reflexivity|].
  destruct k as [|k]; cbn [nth reset_from].
  - destruct (opt_nat_eqb (fgroup f) (Some g) && negb (j0 =? i)%nat) eqn:E; [|reflexivity].
    apply andb_true_iff in E as [E1 E2]. apply opt_nat_eqb_eq in E1. apply negb_true_iff, Nat.eqb_neq in E2.
    destruct H as [H|H]; [cbn in H; lia|]. exfalso. apply (H f); [reflexivity | exact E1].
  - apply IH. destruct H as [H|H]; [left; lia | right; intros f' Hf'; apply H; exact Hf'].
Qed.

Lemma reset_idem g i fs : forall j0 raw,
  reset_from g i j0 fs (reset_from g i j0 fs raw) = reset_from g i j0 fs raw.
Proof.
  induction fs as [|f fs IH]; intros j0 raw; [destruct raw; reflexivity|].
  destruct raw as [|y raw]; [reflexivity|]. cbn [reset_from]. f_equal; [|apply IH].
  destruct (opt_nat_eqb (fgroup f) (Some g) && negb (j0 =? i)%nat); reflexivity.
Qed.

Lemma reset_comm g1 i1 g2 i2 fs : g1 <> g2 -> forall j0 raw,
  reset_from g1 i1 j0 fs (reset_from g2 i2 j0 fs raw) = reset_from g2 i2 j0 fs (reset_from g1 i1 j0 fs raw).
Proof.
  intros Hg. induction fs as [|f fs IH]; intros j0 raw; [destruct raw; reflexivity|].
  destruct raw as [|y raw]; [reflexivity|]. cbn [reset_from]. f_equal; [|apply IH].
  destruct (opt_nat_eqb (fgroup f) (Some g1)) eqn:E1, (opt_nat_eqb (fgroup f) (Some g2)) eqn:E2; cbn [andb];
    try reflexivity.
  apply opt_nat_eqb_eq in E1, E2. congruence.
Qed.

(* ---- store in normal form ---- *)
Inductive upd :=
| ULocal (x : pv) (b : bool)     (* raw[i] := x ; _serialized_on_wire |= b *)
| UReset (g : nat) (x : pv).     (* siblings of group g := PLACEHOLDER ; raw[i] := x ; sow := True ; _group_current[g] := i *)

Definition apply_upd (fs : list fdesc) (i : nat) (u : upd) (o : obj) : obj :=
  let 'Obj c raw sow unk cur := o in
  match u with
  | ULocal x b => Obj c (set_nth i x raw) (sow || b) unk cur
  | UReset g x => Obj c (set_nth i x (reset_from g i 0 fs raw)) true unk (set_nth g (Some i) cur)
  end.

(* __getattribute__ on a declared field, by what it reads *)
Lemma getattr_eq sc c raw sow unk cur i f :
  nth_error (cfields (get_class sc c)) i = Some f ->
  getattr sc (Obj c raw sow unk cur) i =
  match group_selects cur f i with
  | Some false => (Obj c raw sow unk cur, Err EAttribute)
  | _ => match nth i raw PPlaceholder with
         | PPlaceholder => (Obj c (set_nth i (default_of sc f) raw) sow unk cur, Ok (default_of sc f))
         | v => (Obj c raw sow unk cur, Ok v)
         end
  end.
Proof. intros Hn. unfold getattr. rewrite Hn. reflexivity. Qed.

Local Opaque getattr setattr.

(* the part of store after `current` has been obtained *)
Definition store_rest (sc : schema) (o : obj) (i : nat) (f : fdesc) (value current : pv) : result obj :=
  let 'Obj c raw sow unk cur := o in
  if ptype_eqb (fty f) TMap then
    match value, current with
    | PMsg e, PDict d =>
        match getattr sc e 0, getattr sc e 1 with
        | (_, Ok k), (_, Ok v) => Ok (Obj c (set_nth i (PDict (dict_set d sc k v)) raw) sow unk cur)
        | _, _ => Err EAttribute
        end
    | _, _ => Err EType
    end
  else
    match current with
    | PList l =>
        let l' := match value with PList vs => l ++ vs | _ => l ++ [value] end in
        Ok (Obj c (set_nth i (PList l') raw) sow unk cur)
    | _ => Ok (setattr sc o i value)
    end.

Lemma store_split sc o i f v :
  store sc o i f v =
  match getattr sc o i with
  | (o', Ok cur_v) => store_rest sc o' i f v cur_v
  | (_, Err _) => store_rest sc (setattr sc o i (default_of sc f)) i f v (default_of sc f)
  end.
Proof.
  unfold store, store_rest. destruct (getattr sc o i) as [o' [cv|e]]; [destruct o' | destruct (setattr sc o i (default_of sc f))]; reflexivity.
Qed.

(* which update, given the current value *)
Definition upd_of (sc : schema) (f : fdesc) (v current : pv) : result upd :=
  if ptype_eqb (fty f) TMap then
    match v, current with
    | PMsg e, PDict dct =>
        match getattr sc e 0, getattr sc e 1 with
        | (_, Ok k), (_, Ok v') => Ok (ULocal (PDict (dict_set dct sc k v')) false)
        | _, _ => Err EAttribute
        end
    | _, _ => Err EType
    end
  else
    match current with
    | PList l => Ok (ULocal (PList (match v with PList vs => l ++ vs | _ => l ++ [v] end)) false)
    | _ => Ok (match fgroup f with Some g => UReset g (fix_val sc v) | None => ULocal (fix_val sc v) true end)
    end.

Lemma orb_false_r' b : b || false = b.
Proof. destruct b; reflexivity. Qed.

Lemma store_rest_norm sc c raw sow unk cur i f v current :
  nth_error (cfields (get_class sc c)) i = Some f ->
  store_rest sc (Obj c raw sow unk cur) i f v current =
  rmap (fun u => apply_upd (cfields (get_class sc c)) i u (Obj c raw sow unk cur)) (upd_of sc f v current).
Proof.
  intros Hn. unfold store_rest, upd_of.
  destruct (ptype_eqb (fty f) TMap).
  - destruct v; try reflexivity. destruct current; try reflexivity.
    destruct (getattr sc o 0) as [? [?|?]]; try reflexivity.
    destruct (getattr sc o 1) as [? [?|?]]; try reflexivity.
    cbn [rmap apply_upd]. rewrite orb_false_r'. reflexivity.
  - destruct current; cbn [rmap apply_upd]; rewrite ?orb_false_r'; try reflexivity;
      rewrite setattr_eq, Hn; destruct (fgroup f); cbn [apply_upd]; rewrite ?Bool.orb_true_r; reflexivity.
Qed.

Definition to_reset (g : nat) (u : upd) : upd :=
  match u with ULocal x _ => UReset g x | UReset _ x => UReset g x end.

(* what store does, as a function of the two things it reads: the raw attribute and the oneof selection *)
Definition store_fn (sc : schema) (f : fdesc) (v : pv) (ri : pv) (sel : option bool) : result upd :=
  match sel with
  | Some false =>
      match fgroup f with
      | Some g => rmap (to_reset g) (upd_of sc f v (default_of sc f))
      | None => Err EOther                 (* not reachable: an ungrouped field is never "unselected" *)
      end
  | _ => upd_of sc f v (match ri with PPlaceholder => default_of sc f | _ => ri end)
  end.

Lemma apply_absorb_local fs i u d c raw sow unk cur :
  apply_upd fs i u (Obj c (set_nth i d raw) sow unk cur) = apply_upd fs i u (Obj c raw sow unk cur).
Proof.
  destruct u; cbn [apply_upd].
  - rewrite set_nth_set_nth_same. reflexivity.
  - rewrite reset_set_nth by (left; lia). rewrite set_nth_set_nth_same. reflexivity.
Qed.

Lemma upd_of_group sc f v current u g g' x :
  upd_of sc f v current = Ok u -> fgroup f = Some g -> u = UReset g' x -> g' = g.
Proof.
  unfold upd_of. intros H Hg ->.
  destruct (ptype_eqb (fty f) TMap).
  - destruct v; try discriminate. destruct current; try discriminate.
    destruct (getattr sc o 0) as [? [?|?]]; try discriminate.
    destruct (getattr sc o 1) as [? [?|?]]; discriminate.
  - rewrite Hg in H. destruct current; injection H; congruence.
Qed.

Lemma store_norm sc c raw sow unk cur i f v :
  nth_error (cfields (get_class sc c)) i = Some f ->
  store sc (Obj c raw sow unk cur) i f v =
  rmap (fun u => apply_upd (cfields (get_class sc c)) i u (Obj c raw sow unk cur))
       (store_fn sc f v (nth i raw PPlaceholder) (group_selects cur f i)).
Proof.
  intros Hn. rewrite store_split, (getattr_eq _ _ _ _ _ _ _ _ Hn). unfold store_fn.
  set (fs := cfields (get_class sc c)) in *.
  assert (Hsel : group_selects cur f i = Some false -> exists g, fgroup f = Some g).
  { unfold group_selects. destruct (fgroup f); [eauto | discriminate]. }
  assert (Hok : forall ri,
    match ri with
    | PPlaceholder => store_rest sc (Obj c (set_nth i (default_of sc f) raw) sow unk cur) i f v (default_of sc f)
    | _ => store_rest sc (Obj c raw sow unk cur) i f v ri
    end = rmap (fun u => apply_upd fs i u (Obj c raw sow unk cur))
               (upd_of sc f v (match ri with PPlaceholder => default_of sc f | _ => ri end))).
  { intros ri. destruct ri; rewrite (store_rest_norm _ _ _ _ _ _ _ _ _ _ Hn); fold fs; try reflexivity.
    destruct (upd_of sc f v (default_of sc f)); cbn [rmap]; [|reflexivity].
    rewrite apply_absorb_local. reflexivity. }
  destruct (group_selects cur f i) as [[|]|] eqn:Hs.
  - specialize (Hok (nth i raw PPlaceholder)). destruct (nth i raw PPlaceholder); exact Hok.
  - destruct (Hsel eq_refl) as [g Hg]. rewrite Hg, setattr_eq. fold fs. rewrite Hn, Hg.
    rewrite (store_rest_norm _ _ _ _ _ _ _ _ _ _ Hn). fold fs.
    destruct (upd_of sc f v (default_of sc f)) as [u|] eqn:Hu; cbn [rmap]; [|reflexivity].
    f_equal. destruct u as [x b|g' x]; cbn [apply_upd to_reset].
    + rewrite set_nth_set_nth_same. reflexivity.
    + rewrite (upd_of_group _ _ _ _ _ _ _ _ Hu Hg eq_refl).
      rewrite reset_set_nth by (left; lia). rewrite reset_idem, !set_nth_set_nth_same. reflexivity.
  - specialize (Hok (nth i raw PPlaceholder)). destruct (nth i raw PPlaceholder); exact Hok.
Qed.

(* ---- updates of different fields commute ---- *)
Definition upd_group (u : upd) : option nat := match u with UReset g _ => Some g | ULocal _ _ => None end.

Lemma upd_of_group_some sc f v current u g :
  upd_of sc f v current = Ok u -> upd_group u = Some g -> fgroup f = Some g.
Proof.
  unfold upd_of. intros H Hg.
  destruct (ptype_eqb (fty f) TMap).
  - destruct v; try discriminate. destruct current; try discriminate.
    destruct (getattr sc o 0) as [? [?|?]]; try discriminate.
    destruct (getattr sc o 1) as [? [?|?]]; try discriminate.
    injection H as <-. discriminate.
  - destruct current; injection H as <-; try discriminate;
      destruct (fgroup f); cbn in Hg; congruence.
Qed.

Lemma store_fn_group sc f v ri sel u g :
  store_fn sc f v ri sel = Ok u -> upd_group u = Some g -> fgroup f = Some g.
Proof.
  unfold store_fn. intros H Hg.
  destruct sel as [[|]|]; try (eapply upd_of_group_some; eassumption).
  destruct (fgroup f) as [g'|]; [|discriminate].
  destruct (upd_of sc f v (default_of sc f)) as [u'|]; [|discriminate].
  injection H as <-. destruct u'; cbn in Hg; congruence.
Qed.

Lemma apply_cls fs i u o : ocls (apply_upd fs i u o) = ocls o.
Proof. destruct o, u; reflexivity. Qed.

Lemma apply_unk fs i u o : ounk (apply_upd fs i u o) = ounk o.
Proof. destruct o, u; reflexivity. Qed.

Lemma apply_read_raw fs i j uj o fi :
  i <> j -> nth_error fs i = Some fi ->
  (forall g, upd_group uj = Some g -> fgroup fi <> Some g) ->
  nth i (oraw (apply_upd fs j uj o)) PPlaceholder = nth i (oraw o) PPlaceholder.
Proof.
  intros Hij Hi Hg. destruct o as [c raw sow unk cur], uj as [x b|g x]; cbn [apply_upd oraw].
  - apply nth_set_nth_other, Hij.
  - rewrite nth_set_nth_other by exact Hij. apply nth_reset. right. intros f Hf.
    rewrite Hi in Hf. injection Hf as <-. apply Hg. reflexivity.
Qed.

Lemma apply_read_sel fs i j uj o fi :
  (forall g, upd_group uj = Some g -> fgroup fi <> Some g) ->
  group_selects (ocur (apply_upd fs j uj o)) fi i = group_selects (ocur o) fi i.
Proof.
  intros Hg. destruct o as [c raw sow unk cur], uj as [x b|g x]; cbn [apply_upd ocur]; [reflexivity|].
  unfold group_selects. destruct (fgroup fi) as [g'|] eqn:E; [|reflexivity].
  rewrite nth_set_nth_other; [reflexivity|]. intros ->. apply (Hg g); reflexivity.
Qed.

Lemma apply_comm fs i j ui uj o fi fj :
  i <> j -> nth_error fs i = Some fi -> nth_error fs j = Some fj ->
  (forall g, upd_group ui = Some g -> fgroup fj <> Some g) ->
  (forall g, upd_group uj = Some g -> fgroup fi <> Some g) ->
  (forall g, upd_group ui = Some g -> upd_group uj <> Some g) ->
  apply_upd fs i ui (apply_upd fs j uj o) = apply_upd fs j uj (apply_upd fs i ui o).
Proof.
  intros Hij Hi Hj Hgi Hgj Hgg. destruct o as [c raw sow unk cur].
  assert (Ri : forall g, upd_group ui = Some g -> forall f, nth_error fs j = Some f -> fgroup f <> Some g).
  { intros g Hg f Hf. rewrite Hj in Hf. injection Hf as <-. apply Hgi, Hg. }
  assert (Rj : forall g, upd_group uj = Some g -> forall f, nth_error fs i = Some f -> fgroup f <> Some g).
  { intros g Hg f Hf. rewrite Hi in Hf. injection Hf as <-. apply Hgj, Hg. }
  destruct ui as [xi bi|gi xi], uj as [xj bj|gj xj]; cbn [apply_upd].
  - rewrite (set_nth_comm i j) by exact Hij. f_equal. destruct sow, bi, bj; reflexivity.
  - rewrite (reset_set_nth gj j fs 0 raw i xi) by (right; apply (Rj gj eq_refl)).
    rewrite (set_nth_comm i j) by exact Hij. f_equal.
  - rewrite (reset_set_nth gi i fs 0 raw j xj) by (right; apply (Ri gi eq_refl)).
    rewrite (set_nth_comm i j) by exact Hij. f_equal.
  - assert (Hne : gi <> gj) by (intros ->; apply (Hgg gj); reflexivity).
    rewrite (reset_set_nth gi i fs 0 _ j xj) by (right; apply (Ri gi eq_refl)).
    rewrite (reset_set_nth gj j fs 0 _ i xi) by (right; apply (Rj gj eq_refl)).
    rewrite (reset_comm gi i gj j fs Hne), (set_nth_comm i j) by exact Hij.
    rewrite (set_nth_comm gi gj) by exact Hne. reflexivity.
Qed.

Lemma store_norm' sc o i f v :
  nth_error (cfields (get_class sc (ocls o))) i = Some f ->
  store sc o i f v =
  rmap (fun u => apply_upd (cfields (get_class sc (ocls o))) i u o)
       (store_fn sc f v (nth i (oraw o) PPlaceholder) (group_selects (ocur o) f i)).
Proof. destruct o. apply store_norm. Qed.

(* two known records of different fields that are not members of one oneof group *)
Definition separable (fi fj : fdesc) : Prop := fgroup fi = None \/ fgroup fi <> fgroup fj.

Lemma store_comm sc o i j fi fj vi vj o1 o2 :
  nth_error (cfields (get_class sc (ocls o))) i = Some fi ->
  nth_error (cfields (get_class sc (ocls o))) j = Some fj ->
  i <> j -> separable fi fj ->
  store sc o j fj vj = Ok o1 -> store sc o1 i fi vi = Ok o2 ->
  exists o1', store sc o i fi vi = Ok o1' /\ store sc o1' j fj vj = Ok o2.
Proof.
  intros Hi Hj Hij Hsep H1 H2.
  set (fs := cfields (get_class sc (ocls o))) in *.
  rewrite (store_norm' _ _ _ _ _ Hj) in H1. fold fs in H1.
  destruct (store_fn sc fj vj (nth j (oraw o) PPlaceholder) (group_selects (ocur o) fj j)) as [uj|] eqn:Ej;
    cbn [rmap] in H1; [|discriminate].
  injection H1 as <-.
  pose proof (fun g => store_fn_group _ _ _ _ _ _ g Ej) as Gj.
  assert (Hgj : forall g, upd_group uj = Some g -> fgroup fi <> Some g).
  { intros g Hg E. specialize (Gj g Hg). destruct Hsep as [Hs|Hs]; congruence. }
  rewrite store_norm' in H2 by (rewrite apply_cls; exact Hi).
  rewrite apply_cls in H2. fold fs in H2.
  rewrite (apply_read_raw fs i j uj o fi Hij Hi Hgj), (apply_read_sel fs i j uj o fi Hgj) in H2.
  destruct (store_fn sc fi vi (nth i (oraw o) PPlaceholder) (group_selects (ocur o) fi i)) as [ui|] eqn:Ei;
    cbn [rmap] in H2; [|discriminate].
  injection H2 as <-.
  pose proof (fun g => store_fn_group _ _ _ _ _ _ g Ei) as Gi.
  assert (Hgi : forall g, upd_group ui = Some g -> fgroup fj <> Some g).
  { intros g Hg E. specialize (Gi g Hg). destruct Hsep as [Hs|Hs]; congruence. }
  assert (Hgg : forall g, upd_group ui = Some g -> upd_group uj <> Some g).
  { intros g Hg Hg'. apply (Hgi g Hg). apply Gj, Hg'. }
  exists (apply_upd fs i ui o). split.
  - rewrite (store_norm' _ _ _ _ _ Hi). fold fs. rewrite Ei. reflexivity.
  - rewrite store_norm' by (rewrite apply_cls; exact Hj). rewrite apply_cls. fold fs.
    rewrite (apply_read_raw fs j i ui o fj (not_eq_sym Hij) Hj Hgi), (apply_read_sel fs j i ui o fj Hgi), Ej.
    cbn [rmap]. f_equal. symmetry. eapply apply_comm; eassumption.
Qed.
