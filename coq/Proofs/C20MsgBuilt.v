(* C20, message level: the hypotheses of the two message-level theorems are met, in EVERY well-formed schema, by the
   message   m = Cls(); m.f = v   (f = [v] / f = {k: v} for the container positions) for every enum-typed field f in any
   of the five positions and every int32 number v.  This file: the shape of that message ([built], Model/C20Msg.v) and what
   its raw attributes are; Proofs/C20MsgBuiltB.v / C20MsgBuiltJ.v derive C01's and C04's value conditions from it. *)
From Coq Require Import ZArith List Bool Lia ZifyBool.
From BP Require Import Base.Prelude Model.Types Model.Varint Model.Scalar Model.Float Model.Utf8.
From BP Require Import Model.Object Model.Eq Model.TimeCore Model.Encode Model.Decode Model.WellFormed Model.C01Def Model.C20Msg.
From BP Require Import gen.Tables Proofs.C01Apply Proofs.C01Builtin Proofs.C01Unfold Proofs.C01Slot Proofs.C01Msg Proofs.C20MsgDef.
From BP Require Model.Enum Proofs.EnumP.

(* ---------------------------------------------------------------- generic: a loop over (index, field, slot) *)
Fixpoint loop3 (P : nat -> fdesc -> pv -> bool) (j : nat) (raw : list pv) (fs : list fdesc) {struct raw} : bool :=
  match raw, fs with
  | x :: raw', f :: fs' => P j f x && loop3 P (S j) raw' fs'
  | _, _ => true
  end.

Lemma loop3_pointwise P : forall raw fs j,
  (forall k x f, nth_error raw k = Some x -> nth_error fs k = Some f -> P (j + k)%nat f x = true) ->
  loop3 P j raw fs = true.
Proof.
  induction raw as [|x raw IH]; intros [|f fs] j H; try reflexivity. cbn [loop3].
  rewrite <- (Nat.add_0_r j) at 1. rewrite (H 0%nat x f eq_refl eq_refl). cbn [andb].
  apply IH. intros k y g Hy Hg. replace (S j + k)%nat with (j + S k)%nat by lia. exact (H (S k) y g Hy Hg).
Qed.

Lemma forallb_pointwise {A} (P : A -> bool) l : (forall x, In x l -> P x = true) -> forallb P l = true.
Proof. intros H. apply forallb_forall. exact H. Qed.

(* ---------------------------------------------------------------- set_nth / nth_error *)
Lemma nth_error_set_nth {A} i (v : A) : forall l k,
  nth_error (set_nth i v l) k = if Nat.eqb k i then (if (i <? length l)%nat then Some v else None) else nth_error l k.
Proof.
  revert i. intros i l. revert i. induction l as [|a l IH]; intros i k.
  - destruct i; cbn [set_nth]; destruct k; cbn [nth_error Nat.eqb length Nat.ltb Nat.leb]; try reflexivity;
      destruct (Nat.eqb _ _); reflexivity.
  - destruct i as [|i], k as [|k]; cbn [set_nth nth_error Nat.eqb length]; try reflexivity.
    rewrite IH. change (S i <? S (length l))%nat with (i <? length l)%nat. reflexivity.
Qed.

(* ---------------------------------------------------------------- the built message *)
Lemma place_marked sc pos k v : marked sc (place pos k v) = place pos k v.
Proof. destruct pos; reflexivity. Qed.

Section Built.
  Variables (sc : schema) (c : nat).
  Let cd := get_class sc c.
  Let fs := cfields cd.
  Let ng := cngroups cd.
  Hypothesis Hwf : forallb (wf_field sc ng) fs = true.

  Variables (i : nat) (f : fdesc) (pos : epos) (e : nat) (k : pv) (v : Z).
  Hypothesis Hf : nth_error fs i = Some f.
  Hypothesis Hp : enum_position f = Some (pos, e).

  Definition braw : list pv := set_nth i (place pos k v) (map fresh_of fs).
  Definition bcur : list (option nat) := cur_after f i (repeat None ng).

  Lemma i_lt : (i < length fs)%nat.
  Proof. apply nth_error_Some. rewrite Hf. discriminate. Qed.

  Lemma built_unfold : built sc c i pos k v = Obj c braw true [] bcur.
  Proof.
    unfold built. rewrite new_unfold. fold cd. fold fs. fold ng.
    rewrite (setattr_clear sc c _ false [] _ i f (place pos k v) Hf).
    - rewrite place_marked. reflexivity.
    - intros g Hg j f' Hj Hg' Hne. fold cd. fold fs.
      rewrite (nth_map_error _ fs j f' PPlaceholder Hj).
      rewrite (group_member_not_opt sc ng f' g (forallb_nth_error _ _ _ _ Hwf Hj) Hg'). reflexivity.
  Qed.

  Lemma braw_length : length braw = length fs.
  Proof. unfold braw. rewrite set_nth_length, map_length. reflexivity. Qed.

  (* the raw attributes, one by one *)
  Lemma braw_nth j x :
    nth_error braw j = Some x ->
    (j = i /\ x = place pos k v) \/ (j <> i /\ exists f', nth_error fs j = Some f' /\ x = fresh_of f').
  Proof.
    unfold braw. rewrite nth_error_set_nth, map_length.
    destruct (Nat.eqb_spec j i) as [->|Hne].
    - replace (i <? length fs)%nat with true by (symmetry; apply Nat.ltb_lt; exact i_lt). intros [= <-]. left. auto.
    - intros H. right. split; [exact Hne|]. rewrite nth_error_map in H.
      destruct (nth_error fs j) as [f'|]; [|discriminate H]. injection H as <-. exists f'. auto.
  Qed.

  Lemma braw_at_i : nth_error braw i = Some (place pos k v).
  Proof.
    unfold braw. rewrite nth_error_set_nth, map_length, Nat.eqb_refl.
    replace (i <? length fs)%nat with true by (symmetry; apply Nat.ltb_lt; exact i_lt). reflexivity.
  Qed.

  Lemma bcur_length : length bcur = ng.
  Proof. unfold bcur, cur_after. destruct (fgroup f); rewrite ?set_nth_length, repeat_length; reflexivity. Qed.

  Lemma nth_repeat_None g n : nth g (repeat (@None nat) n) None = None.
  Proof. revert g; induction n as [|n IH]; intros [|g]; cbn; auto. Qed.

  (* _group_current: only the group of f (if any) selects, and it selects i *)
  Lemma bcur_nth g j : nth g bcur None = Some j -> j = i /\ fgroup f = Some g.
  Proof.
    unfold bcur, cur_after. destruct (fgroup f) as [g0|] eqn:Hg.
    - destruct (Nat.eq_dec g0 g) as [->|Hne].
      + destruct (Nat.lt_ge_cases g (length (repeat (@None nat) ng))) as [Hl|Hl].
        * rewrite nth_set_nth_same by exact Hl. intros [= <-]. auto.
        * rewrite nth_overflow by (rewrite set_nth_length; exact Hl). discriminate.
      + rewrite nth_set_nth_other by exact Hne. rewrite nth_repeat_None. discriminate.
    - rewrite nth_repeat_None. discriminate.
  Qed.

  Lemma bcur_selects_i : group_selects bcur f i <> Some false.
  Proof.
    unfold group_selects, bcur, cur_after. destruct (fgroup f) as [g|] eqn:Hg; [|discriminate].
    pose proof (wf_field_group sc ng f g (forallb_nth_error _ _ _ _ Hwf Hf) Hg) as Hlt.
    rewrite nth_set_nth_same by (rewrite repeat_length; exact Hlt). cbn [opt_nat_eqb]. rewrite Nat.eqb_refl. discriminate.
  Qed.

  (* any other field: a oneof member is not selected; everything else is not in a group *)
  Lemma bcur_selects_other j f' : j <> i -> nth_error fs j = Some f' -> group_selects bcur f' j <> Some true.
  Proof.
    intros Hne Hj. unfold group_selects. destruct (fgroup f') as [g|]; [|discriminate].
    destruct (nth g bcur None) as [j0|] eqn:E; [|discriminate].
    destruct (bcur_nth g j0 E) as (-> & _). cbn [opt_nat_eqb].
    replace (Nat.eqb i j) with false by (symmetry; apply Nat.eqb_neq; congruence). discriminate.
  Qed.

  Lemma fresh_group_member j f' g : nth_error fs j = Some f' -> fgroup f' = Some g -> fresh_of f' = PPlaceholder.
  Proof.
    intros Hj Hg. unfold fresh_of.
    rewrite (group_member_not_opt sc ng f' g (forallb_nth_error _ _ _ _ Hwf Hj) Hg). reflexivity.
  Qed.

  (* reading the field *)
  Lemma built_reads : read sc (built sc c i pos k v) i = Ok (place pos k v).
  Proof.
    rewrite built_unfold, (read_rdv sc c braw true [] bcur i f Hf).
    rewrite (nth_error_nth braw i PPlaceholder braw_at_i).
    pose proof bcur_selects_i as Hs.
    destruct (group_selects bcur f i) as [[|]|]; try congruence; destruct pos; reflexivity.
  Qed.

  Lemma place_holds : holds_enum pos (place pos k v) v = true.
  Proof. destruct pos; cbn; rewrite Z.eqb_refl; reflexivity. Qed.

  (* no raw attribute holds a message, a list of messages or a dict of messages *)
  Definition flat (x : pv) : Prop :=
    match x with
    | PMsg _ => False
    | PList l => Forall (fun y => match y with PMsg _ | PList _ | PDict _ => False | _ => True end) l
    | PDict d => Forall (fun ky => match snd ky with PMsg _ | PList _ | PDict _ => False | _ => True end) d
    | _ => True
    end.

  Lemma braw_flat x : In x braw -> flat x.
  Proof.
    intros Hin. apply In_nth_error in Hin as (j & Hj).
    destruct (braw_nth j x Hj) as [(_ & ->)|(_ & f' & _ & ->)].
    - destruct pos; cbn; repeat constructor.
    - unfold fresh_of. destruct (fopt f'); exact I.
  Qed.
  (* the slots are in range *)
  Hypothesis Hv : EnumP.int32 v.
  Hypothesis Hk : pos = PosMapValue -> scalar_in_range (key_type f) k = true.

  Lemma int32_in v0 : EnumP.int32 v0 -> int_in (- 2 ^ 31) (2 ^ 31) v0 = true.
  Proof. unfold EnumP.int32, int_in. lia. Qed.

  Lemma place_in_range : slot_in_range sc f (place pos k v) = true.
  Proof.
    destruct (enum_position_inv f pos e Hp) as (Hw & Hpos). unfold slot_in_range. pose proof (int32_in v Hv) as Hi.
    destruct pos; cbn [place].
    - destruct Hpos as (Hh & Ht & _). rewrite Hh, Ht. exact Hi.
    - destruct Hpos as (Hh & Ht & _). rewrite Hh, Ht. cbn [elem_in_range scalar_in_range]. rewrite Hi. reflexivity.
    - destruct Hpos as (pk & kt & Hh & Ht & Ho & Hg & Hm). rewrite Hh, Hm. specialize (Hk eq_refl). unfold key_type in Hk.
      rewrite Hm in Hk. rewrite Hk. cbn [elem_in_range scalar_in_range andb]. rewrite Hi. reflexivity.
    - destruct Hpos as (Hh & Ht & _). rewrite Hh, Ht. exact Hi.
    - destruct Hpos as (Hh & Ht & _). rewrite Hh, Hw, Ht. exact Hi.
  Qed.

  Lemma fresh_in_range f' : wf_field sc ng f' = true -> slot_in_range sc f' (fresh_of f') = true.
  Proof.
    intros W. unfold fresh_of, slot_in_range. destruct (fopt f') eqn:Ho; [|reflexivity].
    destruct (fhint f') as [p|p|p|pk p] eqn:Hh; [|reflexivity| |].
    - destruct (wf_plain _ _ _ _ W Hh) as (H & _). congruence.
    - destruct (wf_list _ _ _ _ W Hh) as (H & _). congruence.
    - destruct (wf_dict _ _ _ _ _ W Hh) as (H & _). congruence.
  Qed.

  Lemma slots_in_range_loop3 : forall raw fs0 j, loop3 (fun _ => slot_in_range sc) j raw fs0 = slots_in_range sc raw fs0.
  Proof. induction raw as [|x raw IH]; intros [|f0 fs0] j; try reflexivity. cbn [loop3 slots_in_range]. rewrite IH. reflexivity. Qed.

  Lemma built_in_range : in_range sc (built sc c i pos k v) = true.
  Proof.
    rewrite built_unfold, in_range_unfold. fold cd. fold fs. fold ng.
    rewrite Nat.eqb_refl, braw_length, Nat.eqb_refl, bcur_length, Nat.eqb_refl. cbn [andb].
    rewrite <- (slots_in_range_loop3 braw fs O). apply loop3_pointwise. intros j x f' Hx Hj.
    destruct (braw_nth j x Hx) as [(-> & ->)|(Hne & f'' & Hj' & ->)].
    - rewrite Hf in Hj. injection Hj as <-. exact place_in_range.
    - rewrite Hj in Hj'. injection Hj' as <-. apply fresh_in_range. exact (forallb_nth_error _ _ _ _ Hwf Hj).
  Qed.

End Built.
