(* C16, float clause, part 1: what Flocq's decoding of a bit pattern (b32_of_bits / b64_of_bits, IEEE754/Bits.v)
   yields, written with the field extractors the model uses (Z.shiftr / Z.land, Model/Float.v).
   For a pattern whose exponent field is not all ones the decoded binary float is finite, its sign is the
   top bit and its real value is   (-1)^s * sig * 2^ex   with
        sig = man, ex = emin              (exponent field 0: zero / subnormal)
        sig = 2^mw + man, ex = e - bias - mw   (normal).
   Everything here that mentions B2R rests on the real-number axioms of the standard library. *)
From Coq Require Import ZArith Reals List Bool Lia ZifyBool.
From Flocq Require Import Core IEEE754.Binary IEEE754.Bits.
From BP Require Import Base.Prelude Model.Float Proofs.C01Float.
Ltac Zify.zify_post_hook ::= Z.to_euclidean_division_equations.
Open Scope Z_scope.

(* ---- fields of a 32-bit pattern, exactly the expressions of Model/Float.v f2d ---- *)
Definition f32_sign (w : Z) : Z := Z.shiftr w 31.
Definition f32_exp (w : Z) : Z := Z.land (Z.shiftr w 23) 255.
Definition f32_man (w : Z) : Z := Z.land w (2 ^ 23 - 1).

(* integer significand and exponent of a finite pattern *)
Definition f32_sig (w : Z) : Z := if f32_exp w =? 0 then f32_man w else 2 ^ 23 + f32_man w.
Definition f32_ex (w : Z) : Z := if f32_exp w =? 0 then -149 else f32_exp w - 150.
Definition f64_sig (b : Z) : Z := if f64_exp b =? 0 then f64_man b else 2 ^ 52 + f64_man b.
Definition f64_ex (b : Z) : Z := if f64_exp b =? 0 then -1074 else f64_exp b - 1075.

Definition sgn (s : Z) (m : Z) : Z := if s =? 0 then m else - m.

(* the real number a finite pattern denotes *)
Definition f32_R (w : Z) : R := F2R (Float radix2 (sgn (f32_sign w) (f32_sig w)) (f32_ex w)).
Definition f64_R (b : Z) : R := F2R (Float radix2 (sgn (f64_sign b) (f64_sig b)) (f64_ex b)).

Ltac pw2 :=
  pw; change (2 ^ 8) with 256 in *; change (2 ^ 11) with 2048 in *; change (2 ^ 53) with 9007199254740992 in *.

Lemma Zeq_bool_eqb x y : Zeq_bool x y = (x =? y).
Proof. destruct (Zeq_bool_spec x y); lia. Qed.

Section W32.
  Variable w : Z.
  Hypothesis Hw : 0 <= w < 2 ^ 32.

  Lemma f32_sign_cases : f32_sign w = 0 \/ f32_sign w = 1.
  Proof. unfold f32_sign. rewrite shr by lia. pw2. lia. Qed.
  Lemma f32_exp_range : 0 <= f32_exp w < 256.
  Proof. unfold f32_exp. change 255 with (2 ^ 8 - 1). rewrite land_mask by lia. pw2. lia. Qed.
  Lemma f32_man_range : 0 <= f32_man w < 2 ^ 23.
  Proof. unfold f32_man. rewrite land_mask by lia. apply Z.mod_pos_bound. lia. Qed.
  Lemma f32_compose : w = f32_sign w * 2 ^ 31 + f32_exp w * 2 ^ 23 + f32_man w.
  Proof.
    unfold f32_sign, f32_exp, f32_man. change 255 with (2 ^ 8 - 1). rewrite !land_mask, !shr by lia. pw2. lia.
  Qed.

  Lemma split_bits_32 :
    split_bits 23 8 w = (negb (f32_sign w =? 0), f32_man w, f32_exp w).
  Proof.
    unfold split_bits, f32_sign, f32_exp, f32_man. change 255 with (2 ^ 8 - 1).
    rewrite !land_mask, !shr by lia.
    do 2 f_equal.
    change (2 ^ 23 * 2 ^ 8) with (2 ^ 31). pw2.
    destruct (Zle_bool_spec 2147483648 w); lia.
  Qed.

  Definition dummy_nan : full_float := F754_nan false xH.

  Lemma decode_32 :
    binary_float_of_bits_aux 23 8 w =
    let s := negb (f32_sign w =? 0) in
    if f32_exp w =? 0 then
      match f32_man w with Z0 => F754_zero s | Zpos p => F754_finite s p (-149) | Zneg _ => dummy_nan end
    else if f32_exp w =? 255 then
      match f32_man w with Z0 => F754_infinity s | Zpos p => F754_nan s p | Zneg _ => dummy_nan end
    else
      match f32_man w + 2 ^ 23 with Zpos p => F754_finite s p (f32_exp w - 150) | _ => dummy_nan end.
  Proof.
    unfold binary_float_of_bits_aux. rewrite split_bits_32. rewrite !Zeq_bool_eqb.
    change (2 ^ 8 - 1) with 255. cbv zeta.
    destruct (f32_exp w =? 0); [reflexivity|]. destruct (f32_exp w =? 255); [reflexivity|].
    replace (f32_exp w + SpecFloat.emin (23 + 1) (2 ^ (8 - 1)) - 1) with (f32_exp w - 150)
      by (change (SpecFloat.emin (23 + 1) (2 ^ (8 - 1))) with (-149); lia).
    reflexivity.
  Qed.

  Hypothesis Hfin : f32_exp w <> 255.

  Lemma b32_finite_all :
    B2R 24 128 (b32_of_bits w) = f32_R w /\
    is_finite 24 128 (b32_of_bits w) = true /\
    Bsign 24 128 (b32_of_bits w) = negb (f32_sign w =? 0).
  Proof.
    unfold b32_of_bits, binary_float_of_bits.
    rewrite B2R_FF2B, is_finite_FF2B, Bsign_FF2B. rewrite decode_32. cbv zeta.
    pose proof f32_sign_cases as Hs. pose proof f32_man_range as Hm. pose proof f32_exp_range as He.
    unfold f32_R, f32_sig, f32_ex.
    destruct (f32_exp w =? 0) eqn:E0.
    - destruct (f32_man w) as [|p|p] eqn:Em.
      + cbn [FF2R is_finite_FF sign_FF]. repeat split. unfold sgn.
        destruct (f32_sign w =? 0); cbn [Z.opp]; rewrite F2R_0; reflexivity.
      + cbn [FF2R is_finite_FF sign_FF]. repeat split. unfold sgn.
        destruct (f32_sign w =? 0); reflexivity.
      + lia.
    - replace (f32_exp w =? 255) with false by lia.
      destruct (f32_man w + 2 ^ 23) as [|p|p] eqn:Em; [pw2; lia| |pw2; lia].
      cbn [FF2R is_finite_FF sign_FF]. repeat split. unfold sgn.
      rewrite (Z.add_comm (2 ^ 23)), Em.
      destruct (f32_sign w =? 0); reflexivity.
  Qed.
End W32.

Section W64.
  Variable b : Z.
  Hypothesis Hb : 0 <= b < 2 ^ 64.

  Lemma f64_compose : b = f64_sign b * 2 ^ 63 + f64_exp b * 2 ^ 52 + f64_man b.
  Proof.
    unfold f64_sign, f64_exp, f64_man. change 2047 with (2 ^ 11 - 1). rewrite !land_mask, !shr by lia. pw2. lia.
  Qed.

  Lemma split_bits_64 :
    split_bits 52 11 b = (negb (f64_sign b =? 0), f64_man b, f64_exp b).
  Proof.
    unfold split_bits, f64_sign, f64_exp, f64_man. change 2047 with (2 ^ 11 - 1).
    rewrite !land_mask, !shr by lia.
    do 2 f_equal.
    change (2 ^ 52 * 2 ^ 11) with (2 ^ 63). pw2.
    destruct (Zle_bool_spec 9223372036854775808 b); lia.
  Qed.

  Lemma decode_64 :
    binary_float_of_bits_aux 52 11 b =
    let s := negb (f64_sign b =? 0) in
    if f64_exp b =? 0 then
      match f64_man b with Z0 => F754_zero s | Zpos p => F754_finite s p (-1074) | Zneg _ => dummy_nan end
    else if f64_exp b =? 2047 then
      match f64_man b with Z0 => F754_infinity s | Zpos p => F754_nan s p | Zneg _ => dummy_nan end
    else
      match f64_man b + 2 ^ 52 with Zpos p => F754_finite s p (f64_exp b - 1075) | _ => dummy_nan end.
  Proof.
    unfold binary_float_of_bits_aux. rewrite split_bits_64. rewrite !Zeq_bool_eqb.
    change (2 ^ 11 - 1) with 2047. cbv zeta.
    destruct (f64_exp b =? 0); [reflexivity|]. destruct (f64_exp b =? 2047); [reflexivity|].
    replace (f64_exp b + SpecFloat.emin (52 + 1) (2 ^ (11 - 1)) - 1) with (f64_exp b - 1075)
      by (change (SpecFloat.emin (52 + 1) (2 ^ (11 - 1))) with (-1074); lia).
    reflexivity.
  Qed.

  Hypothesis Hfin : f64_exp b <> 2047.

  Lemma b64_finite_all :
    B2R 53 1024 (b64_of_bits b) = f64_R b /\
    is_finite 53 1024 (b64_of_bits b) = true /\
    Bsign 53 1024 (b64_of_bits b) = negb (f64_sign b =? 0).
  Proof.
    unfold b64_of_bits, binary_float_of_bits.
    rewrite B2R_FF2B, is_finite_FF2B, Bsign_FF2B. rewrite decode_64. cbv zeta.
    pose proof (sign_cases b Hb) as Hs. pose proof (man_range b) as Hm. pose proof (exp_range b) as He.
    unfold f64_R, f64_sig, f64_ex.
    destruct (f64_exp b =? 0) eqn:E0.
    - destruct (f64_man b) as [|p|p] eqn:Em.
      + cbn [FF2R is_finite_FF sign_FF]. repeat split. unfold sgn.
        destruct (f64_sign b =? 0); cbn [Z.opp]; rewrite F2R_0; reflexivity.
      + cbn [FF2R is_finite_FF sign_FF]. repeat split. unfold sgn.
        destruct (f64_sign b =? 0); reflexivity.
      + lia.
    - replace (f64_exp b =? 2047) with false by lia.
      destruct (f64_man b + 2 ^ 52) as [|p|p] eqn:Em; [pw2; lia| |pw2; lia].
      cbn [FF2R is_finite_FF sign_FF]. repeat split. unfold sgn.
      rewrite (Z.add_comm (2 ^ 52)), Em.
      destruct (f64_sign b =? 0); reflexivity.
  Qed.
End W64.
