(* C14: the unpickled message is a fixed point of pickling - every later pickle, after any further observers / copies,
   returns the very same object: sequences with several pickles in any position. *)
From BP Require Import Base.Prelude Model.Types Model.Object Model.Eq Model.Encode Model.Decode Model.History Model.C14Ops Model.C14Seq.
From BP Require Import Model.WellFormed Model.C01Def Model.C14Pickle.
From BP Require Import Proofs.C14Ind Proofs.C14Mat Proofs.C14Obs Proofs.C14Pres Proofs.C14Refl Proofs.C14Thm.
From BP Require Import Proofs.C14Pickle Proofs.C14PicklePres2 Proofs.C14Seq.

Lemma pickle_pre_wf sc o : pickle_pre sc o = true -> wf_schema sc = true.
Proof.
  unfold pickle_pre. intros Hp. apply andb_true_iff in Hp as [Hp _]. apply andb_true_iff in Hp as [Hp _].
  apply andb_true_iff in Hp as [Hs _]. apply c01_schema_wf. exact Hs.
Qed.

Theorem pickle_fixed_point sc o o' :
  pickle_pre sc o = true -> pickle_rt sc o = Ok o' ->
  pickle_rt sc o' = Ok o' /\
  forall o2, mat_obj sc o' o2 = true ->
    pickle_rt sc o2 = Ok o' /\ enc_obj sc o2 = enc_obj sc o' /\ ounk o2 = ounk o' /\
    (forall p, presence_at sc o2 p = presence_at sc o' p) /\
    (eq_refl_ok sc (PMsg o') = true -> obj_eq sc o' o2 = true /\ obj_eq sc o2 o' = true).
Proof.
  intros Hpre Hp. pose proof (pickle_pre_wf sc o Hpre) as Hwf.
  destruct (pickle_summary sc o o Hpre (mat_obj_refl sc o)) as (o1 & Hp1 & Henc & _ & Hcls & _).
  rewrite Hp in Hp1. injection Hp1 as <-.
  assert (Hfix : pickle_rt sc o' = Ok o').
  { unfold pickle_rt in *. rewrite Henc, Hcls. exact Hp. }
  split; [exact Hfix|]. intros o2 Hm.
  destruct (mat_indistinguishable sc Hwf o' o2 Hm) as (Me & Meq & _ & Mp & Mu & _).
  split; [rewrite (pickle_of_mat sc Hwf o' o2 Hm); exact Hfix|]. split; [exact Me|]. split; [exact Mu|]. split; [exact Mp|].
  intros Hr. destruct (Meq o') as (M1 & M2). rewrite M1, M2. split; apply obj_eq_refl; exact Hr.
Qed.
