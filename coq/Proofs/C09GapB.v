(* C09 gap closing, group B: ILL-TYPED VALUES (header comment of Properties/C09.v).
   The unconditional statements of C09 cover ill-typed values only as far as the model goes: the model raises
   TypeError / AttributeError on BOTH walks, the code on the write walk only.  Here: the exact decidable condition
   [leaf_typed t v] (Model/C09GapDefs.v) under which the model's TypeError / AttributeError arms of
   _preprocess_single / _len_preprocessed_single / _serialize_single / _len_single are unreachable:
     typed   => neither walk raises a typing error of its own (whatever bytes(value) of a nested message does, as long as
                that does not raise one);
     untyped => BOTH walks raise the same typing error (this is where model and code differ: see preprocess_untyped_raises).
   So the statements of C09 read on values with [leaf_typed] everywhere are statements about arms where the model IS the
   code (the source-translation tie of Properties/C09Src.v classifies a value by its Python type alone).
   NOT DONE (time): the lifting to whole objects (a nested fixpoint following the walk + induction over obj). *)
From Coq Require Import ZArith List Bool Lia.
From BP Require Import Base.Prelude Model.Types Model.Varint Model.Scalar Model.Float.
From BP Require Import Model.Object Model.Eq Model.TimeCore Model.Encode Model.Len Model.C09GapDefs.
From BP Require Import gen.Tables Proofs.LenP.
Import ListNotations.

Lemma encode_varint_err v e : encode_varint v = Err e -> e = EValue.
Proof. unfold encode_varint. destruct (v <? - 2 ^ 63); intros H; [congruence|discriminate]. Qed.

Lemma pack_value_err t v e : pack_value t v = Err e -> type_err e = false.
Proof.
  unfold pack_value, pack_int. intros H.
  repeat match type of H with
         | context [match ?X with _ => _ end] => destruct X
         end; try discriminate; injection H as <-; reflexivity.
Qed.

Definition msg_type_safe (msg : option ptype -> pv -> result (list byte)) : Prop :=
  forall w v e, msg w v = Err e -> type_err e = false.

Local Opaque encode_varint size_varint pack_value zigzag.

Lemma preprocess_typed_sound msg t w v e : msg_type_safe msg ->
  leaf_typed t v = true -> preprocess_with msg t w v = Err e -> type_err e = false.
Proof.
  intros Hm T H.
  destruct t; cbn in T, H;
    try (destruct v; cbn in T, H; try discriminate;
         try (apply encode_varint_err in H; subst e; reflexivity);
         try (apply pack_value_err in H; exact H); fail).
  (* TMessage *)
  destruct v, w; try (apply Hm in H; exact H); discriminate.
Qed.

Lemma preprocess_untyped_raises msg t w v : leaf_typed t v = false ->
  exists e, type_err e = true /\ preprocess_with msg t w v = Err e /\ len_preprocessed_with msg t w v = Err e.
Proof.
  intros T.
  destruct t; cbn in T; try discriminate;
    destruct v; cbn in T; try discriminate;
    try (exists EType; repeat split; reflexivity);
    try (exists EAttribute; repeat split; reflexivity).
Qed.

(* the exact statement for the write walk and for the size walk of one value *)
Lemma preprocess_type_err_iff msg t w v : msg_type_safe msg ->
  ((exists e, type_err e = true /\ preprocess_with msg t w v = Err e) <-> leaf_typed t v = false) /\
  ((exists e, type_err e = true /\ len_preprocessed_with msg t w v = Err e) <-> leaf_typed t v = false).
Proof.
  intros Hm.
  assert (A : (exists e, type_err e = true /\ preprocess_with msg t w v = Err e) <-> leaf_typed t v = false).
  { split.
    - intros [e [Te H]]. destruct (leaf_typed t v) eqn:T; [|reflexivity].
      rewrite (preprocess_typed_sound msg t w v e Hm T H) in Te. discriminate.
    - intros T. destruct (preprocess_untyped_raises msg t w v T) as [e [Te [H _]]]. eauto. }
  split; [exact A|].
  rewrite <- A. pose proof (agree_preprocess msg t w v) as G. unfold agree in G.
  split; intros [e [Te H]]; exists e; (split; [exact Te|]).
  - rewrite H in G. destruct (preprocess_with msg t w v); [contradiction|congruence].
  - rewrite H in G. destruct (len_preprocessed_with msg t w v); [contradiction|congruence].
Qed.

(* _serialize_single / _len_single: the key and the length prefix add ValueError at most, the final else EOther *)
Lemma serialize_typed_sound msg num t v se w e : msg_type_safe msg ->
  leaf_typed t v = true -> serialize_with msg num t v se w = Err e -> type_err e = false.
Proof.
  intros Hm T H. unfold serialize_with in H.
  destruct (preprocess_with msg t w v) as [value|e'] eqn:P; cbn [bind] in H.
  - repeat match type of H with
           | context [if ?X then _ else _] => destruct X
           | context [bind (encode_varint ?X) _] =>
               let E := fresh "E" in destruct (encode_varint X) eqn:E; cbn [bind] in H;
               [|apply encode_varint_err in E; subst; injection H as <-; reflexivity]
           end; try discriminate.
    injection H as <-. reflexivity.
  - injection H as <-. exact (preprocess_typed_sound msg t w v e' Hm T P).
Qed.

Lemma single_untyped_raises msg num t v se w : leaf_typed t v = false ->
  exists e, type_err e = true /\ serialize_with msg num t v se w = Err e /\ len_single_with msg num t v se w = Err e.
Proof.
  intros T. destruct (preprocess_untyped_raises msg t w v T) as [e [Te [P L]]].
  exists e. split; [exact Te|]. unfold serialize_with, len_single_with. rewrite P, L. split; reflexivity.
Qed.

Lemma single_type_err_iff msg num t v se w : msg_type_safe msg ->
  ((exists e, type_err e = true /\ serialize_with msg num t v se w = Err e) <-> leaf_typed t v = false) /\
  ((exists e, type_err e = true /\ len_single_with msg num t v se w = Err e) <-> leaf_typed t v = false).
Proof.
  intros Hm.
  assert (A : (exists e, type_err e = true /\ serialize_with msg num t v se w = Err e) <-> leaf_typed t v = false).
  { split.
    - intros [e [Te H]]. destruct (leaf_typed t v) eqn:T; [|reflexivity].
      rewrite (serialize_typed_sound msg num t v se w e Hm T H) in Te. discriminate.
    - intros T. destruct (single_untyped_raises msg num t v se w T) as [e [Te [H _]]]. eauto. }
  split; [exact A|].
  rewrite <- A. pose proof (agree_single msg num t v se w) as G. unfold agree in G.
  split; intros [e [Te H]]; exists e; (split; [exact Te|]).
  - rewrite H in G. destruct (serialize_with msg num t v se w); [contradiction|congruence].
  - rewrite H in G. destruct (len_single_with msg num t v se w); [contradiction|congruence].
Qed.

