(* C03 - gap analysis of the property text against Properties/C03.v, and the first group of gap-closing proofs.

   PROPERTY TEXT, clause by clause  ->  theorems that existed  ->  gap  ->  closed by (GapA = this file, GapB = C03GapB.v)

   (1) "For every valid proto3 schema the protoc plugin succeeds and its output imports as a Python package"
         -> C03_field_faithful (reflect (compile D) = Ok t for every protoc_wf / names_ok D), C03_output_dirs (every package
            directory and every ancestor gets an __init__.py).  Text -> module goes through Jinja / CPython for real (tie only).
         gap a: which MODULES exist was only implicit in the equation with class_table_of.
            -> GapA table_packages: the modules of the table are exactly the non-google.protobuf packages of D, in order of
               first appearance, each exactly once.
         gap b: the hypothesis protoc_wf is sampled (T3 evaluates it on what protoc emits); no theorem said it is needed.
            -> GapB protoc_wf_needed_refuted: a map-entry type whose fields come as (value = 2, key = 1) - names_ok holds,
               protoc_wf fails, and the plugin (which reads the entry BY POSITION) swaps key and value.
         gap c: names_ok has seven conjuncts; Properties/C03.v had a descriptor-level witness for four of them
               (class_nodup: D_k1, fields_nodup: D_k8, pkg_names_ok: D_k2, map_keys_ok: D_k13), a function-level one for wraps_ok,
               none for members_nodup and flat_dotted_ok.
            -> GapB names_ok_conjuncts_exact: for EVERY conjunct a descriptor set on which exactly that conjunct fails (the other
               six and protoc_wf hold) and the plugin's table is not the schema's.
   (2) "each message and enum of the schema (including nested ones) is represented by exactly one class"
         -> C03_field_faithful (equation with class_table_of, whose DEFINITION has one class per message / enum);
            C03_message_reference_faithful / C03_enum_reference_faithful (a reference finds the class; existence only).
         gap: "exactly one" and "each" were never theorems about the table: no count, no uniqueness, no converse.
            -> GapA one_class_per_type: in the module of package pkg the class names are, in order, the names of the enums and
               the non-map-entry messages of pkg (class_paths), as many classes as types; under class_nodup they are pairwise
               distinct and so are the types' paths;
            -> GapA class_of_message / class_of_enum: the class of a given message / enum EXISTS in its package's module, its body
               is determined (any class of that name in that module has this body: uniqueness);
            -> GapA class_origin: CONVERSE - every class of the table is the class of a message or enum of D (no extra classes;
               in particular no class for a map-entry type).
   (3) "Each class has exactly one field per schema field, carrying the schema's field number, scalar type, cardinality
        (singular / optional / repeated / map with its key and value types), oneof group and wrapper / Timestamp / Duration mapping"
         -> C03_class_faithful (Forall2 field_agrees at the RUNTIME schema, under bridge_ok), C03_message_reference_faithful
            (numbers, names).
         gap a: nothing at the level of the class table itself (FieldMetadata + type hints, what the tie observes) without
            bridge_ok, which excludes e.g. repeated wrappers and Any.  -> GapA class_of_message gives Forall2 spec_field, and the
            readings of spec_field are theorems for every field (no bridge_ok):
              field_number_name_unique  exactly one field per schema field: same length, numbers / names in order, names distinct
              field_map_iff             map_types present <-> Dict hint <-> the field is a map (spec reading)
              field_map_types           ... with the proto types and Python types of the entry's fields NUMBERED 1 and 2
              field_repeated_iff        List hint <-> not a map and label = repeated
              field_optional_iff        optional flag <-> not a map and proto3_optional
              field_group_iff           group = Some g <-> member of a REAL oneof and g is that oneof's declared name
              field_scalar              each of the 15 scalar kinds: proto_type name, Python type, no wraps, hint shape
              scalar_kinds_15           there are exactly 15 of them (quantifier: "all 15 scalar kinds")
              field_wkt_iff             wraps = Some k <-> message-typed with one of the nine wrapper names and k its scalar kind;
                                        hint Optional[py]; Timestamp -> datetime, Duration -> timedelta
              field_singular            none of the above: the plain value type
         gap b: these are about class_table_of; composed with C03_field_faithful they are about the plugin's output.
            -> GapA compiled_* (the statements of Properties/C03.v are the composed ones).
   (4) "and each enum member carries the schema's number"
         -> C03_enum_reference_faithful (runtime enum table).  gap: table level, "negative / aliased numbers" of the quantifier.
            -> GapA class_of_enum: members = (pythonised name, number) in declaration order; the numbers are the schema's
               whatever they are (no condition on the numbers: negative and repeated numbers included); members_nodup is about NAMES.
   (5) "The bundled descriptor and well-known-type classes ... agree with descriptor.proto / plugin.proto on every field number
        they share"  -> C03_bundled_agree, C03_bundled_enums_agree (finite, regenerated tables).  No gap.
   (6) compositions asked by the neighbouring properties (C03 is what gives them "for every generated class"):
         -> C03_generated_* (chain) carry C01 C02 C04 C05 C06 C07 C08 C10 C14 C17.
         gap a: the value hypothesis c01_value_ok of C03_generated_roundtrip is sampled.
            -> GapB generated_roundtrip_reachable: discharged for every object a run7 history of public-API operations (parse
               included) produces on a generated class (C01_roundtrip_reachable_parse at the generated schema).
         gap b: acceptance criterion.  -> GapB generated_accept_iff: a generated class parses bs iff bs is [valid] (C17_accept_iff).
   (7) quantifier: packages (any number of files / packages), nested types at any depth, recursive and mutually recursive messages
       (type names resolve through the symbol table of the whole set: no ordering or acyclicity condition anywhere), well-known
       types: all theorems are for every descriptor; keyword / builtin-colliding names are the naming functions' business (C19;
       universally quantified here, evaluated by the harness); comments: NOT modelled (F12, tie only). *)
From BP Require Import Base.Prelude Model.Types Model.Object Model.WellFormed.
From BP Require Import Spec.Descriptor Model.Plugin Model.C03Bridge Proofs.PluginP Proofs.C03BridgeA Proofs.C03BridgeB Proofs.C03BridgeD.
From Coq Require Import Lia.

Definition is_some {A} (o : option A) : bool := match o with Some _ => true | None => false end.

(* ---------- small list facts ---------- *)
Lemma NoDup_map_inv' {A B} (f : A -> B) l : NoDup (map f l) -> NoDup l.
Proof.
  induction l as [|a r IH]; intros H; [constructor|]. cbn [map] in H. inversion H as [|? ? Hn Hr]; subst.
  constructor; [|now apply IH]. intros Hin. apply Hn. now apply in_map.
Qed.

Lemma nodup_fst_unique {A B} (l : list (A * B)) a b1 b2 :
  NoDup (map fst l) -> In (a, b1) l -> In (a, b2) l -> b1 = b2.
Proof.
  induction l as [|[a0 b0] r IH]; intros Hnd H1 H2; [contradiction|].
  cbn [map fst] in Hnd. inversion Hnd as [|? ? Hn Hr]; subst.
  destruct H1 as [E1 | H1], H2 as [E2 | H2].
  - congruence.
  - injection E1 as -> ->. exfalso. apply Hn. change a with (fst (a, b2)). now apply in_map.
  - injection E2 as -> ->. exfalso. apply Hn. change a with (fst (a, b1)). now apply in_map.
  - now apply IH.
Qed.

Lemma sym_msg_intro D f p m : In f D -> In (p, m) (file_msgs f) -> In (SymMsg (fl_package f) p m) (symbols D).
Proof.
  intros Hf Hm. unfold symbols. apply in_flat_map. exists f. split; [assumption|]. unfold file_symbols.
  apply in_or_app. left. apply in_map_iff. exists (p, m). split; [reflexivity | assumption].
Qed.

Lemma sym_enum_intro D f p e : In f D -> In (p, e) (file_enums f) -> In (SymEnum (fl_package f) p e) (symbols D).
Proof.
  intros Hf He. unfold symbols. apply in_flat_map. exists f. split; [assumption|]. unfold file_symbols.
  apply in_or_app. right. apply in_map_iff. exists (p, e). split; [reflexivity | assumption].
Qed.

(* ======================================================================================
   the readings of one field (no hypothesis on the descriptor: they hold whenever the specification gives the field
   a meaning, which it does for every field of a protoc_wf descriptor set)
   ====================================================================================== *)
Section FieldReadings.
  Variable field_name : str -> str.
  Variable class_name : str -> str.
  Variable D : descriptor.
  Variables (pkg : str) (p : list str) (m : msg_d) (x : field_d) (pf : py_field).
  Hypothesis Hs : spec_field field_name class_name D pkg p m x = Some pf.

  Definition base_type (t : pytype) : Prop :=
    match t with PyList _ | PyDict _ _ => False | _ => True end.

  Lemma value_type_base f vt : spec_value_type class_name D f = Some vt -> base_type vt.
  Proof.
    unfold spec_value_type. destruct (scalar_kind (fd_type f)) as [[n py]|] eqn:Es.
    - intros H. injection H as <-. unfold scalar_kind in Es.
      repeat match type of Es with (if ?c then _ else _) = _ => destruct c end; try discriminate; injection Es as <- <-; exact I.
    - destruct ((fd_type f =? T_MESSAGE) || (fd_type f =? T_ENUM)); [|discriminate].
      destruct (lookup (fd_type_name f) wkt_wrappers) as [[k py]|]; [intros H; injection H as <-; exact I|].
      destruct (str_eqb (fd_type_name f) wkt_duration); [intros H; injection H as <-; exact I|].
      destruct (str_eqb (fd_type_name f) wkt_timestamp); [intros H; injection H as <-; exact I|].
      destruct (resolve D (fd_type_name f)); [intros H; injection H as <-; exact I | discriminate].
  Qed.

  (* the two shapes of spec_field *)
  Lemma spec_field_map_inv e : spec_map_entry pkg p m x = Some e ->
    exists k v kn vn kt vt,
      field_numbered 1 e = Some k /\ field_numbered 2 e = Some v
      /\ kind_name (fd_type k) = Some kn /\ kind_name (fd_type v) = Some vn
      /\ spec_value_type class_name D k = Some kt /\ spec_value_type class_name D v = Some vt
      /\ pf = mkPyField (field_name (fd_name x)) (fd_number x) s_map (Some (kn, vn)) None None false (PyDict kt vt).
  Proof.
    intros E. unfold spec_field in Hs. rewrite E in Hs.
    destruct (field_numbered 1 e) as [k|]; [|discriminate]. destruct (field_numbered 2 e) as [v|]; [|discriminate].
    destruct (kind_name (fd_type k)) as [kn|] eqn:E1; [|discriminate].
    destruct (kind_name (fd_type v)) as [vn|] eqn:E2; [|discriminate].
    destruct (spec_value_type class_name D k) as [kt|] eqn:E3; [|discriminate].
    destruct (spec_value_type class_name D v) as [vt|] eqn:E4; [|discriminate].
    injection Hs as <-. exists k, v, kn, vn, kt, vt. repeat split; assumption || reflexivity.
  Qed.

  Definition plain_hint (vt : pytype) : pytype :=
    if fd_label x =? L_REPEATED then PyList vt
    else if fd_proto3_optional x then match vt with PyOptional _ => vt | _ => PyOptional vt end
    else vt.

  Lemma spec_field_plain_inv : spec_map_entry pkg p m x = None ->
    exists kn vt grp,
      kind_name (fd_type x) = Some kn /\ spec_value_type class_name D x = Some vt /\ spec_group m x = Some grp
      /\ pf = mkPyField (field_name (fd_name x)) (fd_number x) kn None grp (spec_wraps x) (fd_proto3_optional x) (plain_hint vt).
  Proof.
    intros E. unfold spec_field in Hs. rewrite E in Hs.
    destruct (kind_name (fd_type x)) as [kn|] eqn:E1; [|discriminate].
    destruct (spec_value_type class_name D x) as [vt|] eqn:E2; [|discriminate].
    destruct (spec_group m x) as [grp|] eqn:E3; [|discriminate].
    injection Hs as <-. exists kn, vt, grp. repeat split; reflexivity.
  Qed.

  Lemma is_map_cases :
    (spec_is_map pkg p m x = true /\ exists e, spec_map_entry pkg p m x = Some e)
    \/ (spec_is_map pkg p m x = false /\ spec_map_entry pkg p m x = None).
  Proof. unfold spec_is_map. destruct (spec_map_entry pkg p m x) as [e|]; [left | right]; eauto. Qed.

  (* number and name *)
  Theorem field_number_name : pf_number pf = fd_number x /\ pf_name pf = field_name (fd_name x).
  Proof. exact (spec_field_number_name field_name class_name D pkg p m x pf Hs). Qed.

  (* cardinality: map *)
  Theorem field_map_iff :
    is_some (pf_map_types pf) = spec_is_map pkg p m x
    /\ ((exists k v, pf_hint pf = PyDict k v) <-> spec_is_map pkg p m x = true)
    /\ (spec_is_map pkg p m x = true ->
        pf_proto_type pf = s_map /\ pf_group pf = None /\ pf_wraps pf = None /\ pf_optional pf = false).
  Proof.
    destruct is_map_cases as [[-> (e & E)] | [-> E]].
    - destruct (spec_field_map_inv e E) as (k & v & kn & vn & kt & vt & _ & _ & _ & _ & _ & _ & ->). cbn.
      split; [reflexivity|]. split; [split; [reflexivity | eauto] | auto].
    - destruct (spec_field_plain_inv E) as (kn & vt & grp & _ & Hv & _ & ->). cbn.
      split; [reflexivity|]. split; [|discriminate]. split; [|discriminate].
      intros (k & v & H). exfalso. apply value_type_base in Hv. unfold plain_hint in H.
      destruct (fd_label x =? L_REPEATED); [discriminate|].
      destruct (fd_proto3_optional x); [destruct vt; discriminate || (subst; exact Hv) | subst; exact Hv].
  Qed.

  (* ... with its key and value types: the entry's fields NUMBERED 1 and 2 *)
  Theorem field_map_types e : spec_map_entry pkg p m x = Some e ->
    In e (md_nested m) /\ md_map_entry e = true /\ full_name pkg (p ++ [md_name e]) = fd_type_name x
    /\ exists k v kn vn kt vt,
         field_numbered 1 e = Some k /\ field_numbered 2 e = Some v
         /\ kind_name (fd_type k) = Some kn /\ kind_name (fd_type v) = Some vn
         /\ spec_value_type class_name D k = Some kt /\ spec_value_type class_name D v = Some vt
         /\ pf_map_types pf = Some (kn, vn) /\ pf_hint pf = PyDict kt vt.
  Proof.
    intros E. pose proof E as E0. unfold spec_map_entry in E0. destruct (fd_type x =? T_MESSAGE); [|discriminate].
    apply find_some in E0 as [Hin Hc]. apply andb_prop in Hc as [Hme Hfn]. apply str_eqb_eq in Hfn.
    split; [assumption|]. split; [assumption|]. split; [assumption|].
    destruct (spec_field_map_inv e E) as (k & v & kn & vn & kt & vt & H1 & H2 & H3 & H4 & H5 & H6 & ->).
    exists k, v, kn, vn, kt, vt. cbn. repeat split; assumption.
  Qed.

  (* cardinality: repeated *)
  Theorem field_repeated_iff :
    (exists u, pf_hint pf = PyList u) <-> (spec_is_map pkg p m x = false /\ fd_label x = L_REPEATED).
  Proof.
    destruct is_map_cases as [[-> (e & E)] | [-> E]].
    - destruct (spec_field_map_inv e E) as (k & v & kn & vn & kt & vt & _ & _ & _ & _ & _ & _ & ->). cbn.
      split; [intros (u & H); discriminate | intros [H _]; discriminate].
    - destruct (spec_field_plain_inv E) as (kn & vt & grp & _ & Hv & _ & ->). cbn. apply value_type_base in Hv.
      unfold plain_hint. destruct (fd_label x =? L_REPEATED) eqn:El.
      + apply Z.eqb_eq in El. split; eauto.
      + apply Z.eqb_neq in El. split; [|intros [_ H]; contradiction].
        intros (u & H). exfalso. destruct (fd_proto3_optional x); [destruct vt; discriminate || (subst; exact Hv) | subst; exact Hv].
  Qed.

  (* cardinality: proto3 optional *)
  Theorem field_optional_iff :
    pf_optional pf = negb (spec_is_map pkg p m x) && fd_proto3_optional x
    /\ (spec_is_map pkg p m x = false -> fd_label x <> L_REPEATED -> fd_proto3_optional x = true ->
        exists u, pf_hint pf = PyOptional u /\ spec_value_type class_name D x = Some u \/
                  spec_value_type class_name D x = Some (PyOptional u) /\ pf_hint pf = PyOptional u).
  Proof.
    destruct is_map_cases as [[-> (e & E)] | [-> E]].
    - destruct (spec_field_map_inv e E) as (k & v & kn & vn & kt & vt & _ & _ & _ & _ & _ & _ & ->). cbn.
      split; [reflexivity | discriminate].
    - destruct (spec_field_plain_inv E) as (kn & vt & grp & _ & Hv & _ & ->). cbn. split; [reflexivity|].
      intros _ Hl Ho. unfold plain_hint. apply Z.eqb_neq in Hl. rewrite Hl, Ho.
      destruct vt; eauto.
  Qed.

  (* singular: neither map, nor repeated, nor proto3 optional: the hint is the value type itself *)
  Theorem field_singular :
    spec_is_map pkg p m x = false -> fd_label x <> L_REPEATED -> fd_proto3_optional x = false ->
    spec_value_type class_name D x = Some (pf_hint pf) /\ pf_optional pf = false /\ pf_map_types pf = None.
  Proof.
    intros Hm Hl Ho. destruct is_map_cases as [[H _] | [_ E]]; [congruence|].
    destruct (spec_field_plain_inv E) as (kn & vt & grp & _ & Hv & _ & ->). cbn.
    unfold plain_hint. apply Z.eqb_neq in Hl. rewrite Hl, Ho. auto.
  Qed.

  (* oneof group: exactly the members of a REAL oneof, with the declared name *)
  Theorem field_group_iff g :
    pf_group pf = Some g <->
    (spec_is_map pkg p m x = false /\ fd_proto3_optional x = false
     /\ exists i, fd_oneof_index x = Some i /\ 0 <= i < Zlength (md_oneofs m) /\ g = nth (Z.to_nat i) (md_oneofs m) []).
  Proof.
    destruct is_map_cases as [[-> (e & E)] | [-> E]].
    - destruct (spec_field_map_inv e E) as (k & v & kn & vn & kt & vt & _ & _ & _ & _ & _ & _ & ->). cbn.
      split; [discriminate | intros [H _]; discriminate].
    - destruct (spec_field_plain_inv E) as (kn & vt & grp & _ & _ & Hg & ->). cbn. unfold spec_group in Hg.
      destruct (fd_oneof_index x) as [i|].
      + destruct (fd_proto3_optional x).
        * injection Hg as <-. split; [discriminate | intros (_ & H & _); discriminate].
        * destruct ((0 <=? i) && (i <? Zlength (md_oneofs m))) eqn:Er; [|discriminate]. injection Hg as <-.
          apply andb_prop in Er as [E1 E2]. apply Z.leb_le in E1. apply Z.ltb_lt in E2. split.
          -- intros H. injection H as <-. split; [reflexivity|]. split; [reflexivity|]. exists i. auto.
          -- intros (_ & _ & j & Hj & _ & ->). injection Hj as <-. reflexivity.
      + injection Hg as <-. split; [discriminate | intros (_ & _ & j & Hj & _); discriminate].
  Qed.

  (* scalar types: each of the 15 scalar kinds *)
  Theorem field_scalar n py : scalar_kind (fd_type x) = Some (n, py) ->
    spec_is_map pkg p m x = false /\ pf_proto_type pf = n /\ pf_wraps pf = None /\ pf_map_types pf = None
    /\ pf_hint pf = plain_hint py.
  Proof.
    intros Hk.
    assert (Hnm : fd_type x =? T_MESSAGE = false).
    { destruct (fd_type x =? T_MESSAGE) eqn:E; [|reflexivity]. apply Z.eqb_eq in E. rewrite E in Hk. discriminate. }
    assert (E : spec_map_entry pkg p m x = None) by (unfold spec_map_entry; now rewrite Hnm).
    split; [unfold spec_is_map; now rewrite E|].
    destruct (spec_field_plain_inv E) as (kn & vt & grp & Hkn & Hv & _ & ->). cbn.
    unfold kind_name in Hkn. rewrite Hk in Hkn. injection Hkn as <-.
    unfold spec_value_type in Hv. rewrite Hk in Hv. injection Hv as <-.
    unfold spec_wraps. rewrite Hnm. auto.
  Qed.

  (* wrapper / Timestamp / Duration mapping *)
  Theorem field_wkt_iff : spec_is_map pkg p m x = false ->
    (forall k, pf_wraps pf = Some k <->
               (fd_type x = T_MESSAGE /\ exists py, lookup (fd_type_name x) wkt_wrappers = Some (k, py)))
    /\ (forall k py, fd_type x = T_MESSAGE -> lookup (fd_type_name x) wkt_wrappers = Some (k, py) ->
          pf_proto_type pf = s_message /\ pf_hint pf = plain_hint (PyOptional py))
    /\ (fd_type x = T_MESSAGE -> fd_type_name x = wkt_timestamp -> pf_hint pf = plain_hint PyDatetime /\ pf_wraps pf = None)
    /\ (fd_type x = T_MESSAGE -> fd_type_name x = wkt_duration -> pf_hint pf = plain_hint PyTimedelta /\ pf_wraps pf = None).
  Proof.
    intros Hm. destruct is_map_cases as [[H _] | [_ E]]; [congruence|].
    destruct (spec_field_plain_inv E) as (kn & vt & grp & Hkn & Hv & _ & ->). cbn [pf_wraps pf_proto_type pf_hint].
    split; [|split; [|split]].
    - intros k. unfold spec_wraps. destruct (fd_type x =? T_MESSAGE) eqn:Et.
      + apply Z.eqb_eq in Et. destruct (lookup (fd_type_name x) wkt_wrappers) as [[k' py]|].
        * split; [intros H; injection H as <-; eauto | intros (_ & py' & H); congruence].
        * split; [discriminate | intros (_ & py' & H); discriminate].
      + apply Z.eqb_neq in Et. split; [discriminate | intros [H _]; contradiction].
    - intros k py Ht Hl. unfold spec_value_type in Hv. rewrite Ht in Hkn, Hv. rewrite Hl in Hv. cbn in Hv, Hkn.
      injection Hv as <-. injection Hkn as <-. auto.
    - intros Ht Hn. unfold spec_value_type in Hv. unfold spec_wraps. rewrite Ht in Hv |- *. rewrite Hn in Hv |- *.
      cbn in Hv. injection Hv as <-. split; reflexivity.
    - intros Ht Hn. unfold spec_value_type in Hv. unfold spec_wraps. rewrite Ht in Hv |- *. rewrite Hn in Hv |- *.
      cbn in Hv. injection Hv as <-. split; reflexivity.
  Qed.
End FieldReadings.

(* the quantifier's "all 15 scalar kinds": there are exactly 15, with pairwise distinct proto_type names *)
Definition type_numbers : list Z := [1; 2; 3; 4; 5; 6; 7; 8; 9; 10; 11; 12; 13; 14; 15; 16; 17; 18].
Definition scalar_numbers : list Z := filter (fun t => is_some (scalar_kind t)) type_numbers.

Lemma scalar_kinds_15 :
  length scalar_numbers = 15%nat
  /\ nodupb (map (fun t => match scalar_kind t with Some (n, _) => n | None => [] end) scalar_numbers) = true
  /\ (forall t, is_some (scalar_kind t) = true -> In t scalar_numbers).
Proof.
  split; [vm_compute; reflexivity|]. split; [vm_compute; reflexivity|].
  intros t H. unfold scalar_kind in H.
  repeat match type of H with
         | is_some (if ?c then _ else _) = true => destruct c eqn:?E; [apply Z.eqb_eq in E; subst t; vm_compute; tauto|]; clear E
         end.
  discriminate.
Qed.

(* ======================================================================================
   the structure of the table
   ====================================================================================== *)
Section TableStructure.
  Variable field_name : str -> str.
  Variable class_name : str -> str.
  Variable enum_member_name : str -> str -> str.
  Variable D : descriptor.
  Variable t : class_table.
  Hypothesis Ht : class_table_of field_name class_name enum_member_name D = Some t.

  Let TM := table_modules field_name class_name enum_member_name D t Ht.

  (* (1a) the modules are exactly the generated packages, each once, in order of first appearance *)
  Theorem table_packages : map fst t = output_packages D /\ NoDup (map fst t).
  Proof.
    assert (E : map fst t = output_packages D).
    { rewrite <- (map_id (output_packages D)). apply (Forall2_map_l fst (fun q : str => q)).
      eapply Forall2_impl; [|exact TM]. cbn beta. intros pkg md H.
      destruct (module_shape field_name class_name enum_member_name D pkg md H) as (msgs & -> & _). reflexivity. }
    split; [exact E|]. rewrite E. apply output_packages_nodup.
  Qed.

  Lemma module_in pkg cls : In (pkg, cls) t ->
    In pkg (output_packages D) /\ spec_module field_name class_name enum_member_name D pkg = Some (pkg, cls).
  Proof.
    intros H. destruct (Forall2_in_r _ _ _ _ TM H) as (q & Hq & Hs).
    destruct (module_shape field_name class_name enum_member_name D q _ Hs) as (msgs & E & _).
    injection E as <- ->. split; [assumption|]. exact Hs.
  Qed.

  Lemma module_unique pkg c1 c2 : In (pkg, c1) t -> In (pkg, c2) t -> c1 = c2.
  Proof. apply nodup_fst_unique. apply table_packages. Qed.

  (* (2) as many classes as types, with the types' names, in order; pairwise distinct under class_nodup *)
  Theorem one_class_per_type pkg cls : In (pkg, cls) t ->
    map fst cls = map (fun q => class_name (dotted q)) (class_paths D pkg)
    /\ length cls = length (class_paths D pkg)
    /\ (class_nodup class_name D = true -> NoDup (map fst cls) /\ NoDup (class_paths D pkg)).
  Proof.
    intros H. destruct (module_in pkg cls H) as [Hout Hs].
    destruct (module_shape field_name class_name enum_member_name D pkg _ Hs) as (msgs & E & F). injection E as ->.
    assert (Hn : map fst (map (spec_enum_class class_name enum_member_name) (flat_map file_enums (files_of D pkg)) ++ msgs)
                 = map (fun q => class_name (dotted q)) (class_paths D pkg)).
    { unfold class_paths. fold (nonentry D pkg). rewrite !map_app. f_equal.
      - rewrite !map_map. apply map_ext. now intros [q e].
      - rewrite map_map. apply (Forall2_map_l fst (fun pm => class_name (dotted (fst pm)))).
        eapply Forall2_impl; [|exact F]. cbn beta. intros pm c Hc.
        destruct (message_class_shape field_name class_name D pkg pm c Hc) as (fs & -> & _). reflexivity. }
    split; [exact Hn|]. split.
    - pose proof (f_equal (@List.length _) Hn) as Hl. rewrite !map_length in Hl. exact Hl.
    - intros Hcn. unfold class_nodup in Hcn. rewrite forallb_forall in Hcn. specialize (Hcn pkg Hout).
      apply nodupb_NoDup in Hcn. split; [rewrite Hn; exact Hcn | exact (NoDup_map_inv' _ _ Hcn)].
  Qed.

  (* (2) + (3): the class of a message exists, field by field, and is the only class of that name *)
  Theorem class_of_message pkg p m :
    In (SymMsg pkg p m) (symbols D) -> pkg <> google_protobuf -> md_map_entry m = false ->
    exists cls fs, In (pkg, cls) t /\ In (class_name (dotted p), ClsMessage fs) cls
      /\ Forall2 (fun x pf => spec_field field_name class_name D pkg p m x = Some pf) (md_fields m) fs
      /\ (class_nodup class_name D = true -> forall body, In (class_name (dotted p), body) cls -> body = ClsMessage fs).
  Proof.
    intros Hsym Hne Hme. destruct (sym_msg_in D pkg p m Hsym) as (f & Hf & <- & Hm).
    destruct (module_of_pkg field_name class_name enum_member_name D t Ht _ (output_package_in D f Hf Hne)) as (md & Hmd & Hs).
    destruct (module_shape field_name class_name enum_member_name D _ _ Hs) as (msgs & -> & F).
    assert (Hin : In (p, m) (nonentry D (fl_package f))).
    { unfold nonentry. apply filter_In. split; [|cbn [snd]; now rewrite Hme].
      apply in_flat_map. exists f. split; [now apply files_of_intro | assumption]. }
    destruct (Forall2_in_l _ _ _ _ F Hin) as (c & Hc & Hsc).
    destruct (message_class_shape field_name class_name D _ _ _ Hsc) as (fs & -> & FF). cbn [fst snd] in FF.
    eexists _, fs. split; [exact Hmd|]. split; [apply in_or_app; now right|]. split; [exact FF|].
    intros Hcn body Hb. destruct (one_class_per_type _ _ Hmd) as (_ & _ & Hnd). destruct (Hnd Hcn) as [Hnd' _].
    eapply nodup_fst_unique; [exact Hnd' | exact Hb | apply in_or_app; now right].
  Qed.

  (* (2) + (4): the class of an enum: members = (pythonised name, the schema's number), in order; no condition on the numbers *)
  Theorem class_of_enum pkg p e :
    In (SymEnum pkg p e) (symbols D) -> pkg <> google_protobuf ->
    exists cls ms, In (pkg, cls) t /\ In (class_name (dotted p), ClsEnum ms) cls
      /\ ms = map (fun nv => (enum_member_name (fst nv) (flat p), snd nv)) (ed_values e)
      /\ map snd ms = map snd (ed_values e)
      /\ (class_nodup class_name D = true -> forall body, In (class_name (dotted p), body) cls -> body = ClsEnum ms).
  Proof.
    intros Hsym Hne. destruct (sym_enum_in D pkg p e Hsym) as (f & Hf & <- & He).
    destruct (module_of_pkg field_name class_name enum_member_name D t Ht _ (output_package_in D f Hf Hne)) as (md & Hmd & Hs).
    destruct (module_shape field_name class_name enum_member_name D _ _ Hs) as (msgs & -> & F).
    assert (Hrow : In (class_name (dotted p), ClsEnum (map (fun nv => (enum_member_name (fst nv) (flat p), snd nv)) (ed_values e)))
                      (map (spec_enum_class class_name enum_member_name) (flat_map file_enums (files_of D (fl_package f))) ++ msgs)).
    { apply in_or_app. left. apply in_map_iff. exists (p, e). split.
      - unfold spec_enum_class. cbn [fst snd]. do 2 f_equal. apply map_ext. now intros [n v].
      - apply in_flat_map. exists f. split; [now apply files_of_intro | assumption]. }
    eexists _, _. split; [exact Hmd|]. split; [exact Hrow|]. split; [reflexivity|]. split.
    - rewrite map_map. reflexivity.
    - intros Hcn body Hb. destruct (one_class_per_type _ _ Hmd) as (_ & _ & Hnd). destruct (Hnd Hcn) as [Hnd' _].
      eapply nodup_fst_unique; [exact Hnd' | exact Hb | exact Hrow].
  Qed.

  (* (2) converse: every class of the table is the class of an enum or of a non-map-entry message of D *)
  Theorem class_origin pkg cls n body : In (pkg, cls) t -> In (n, body) cls ->
    pkg <> google_protobuf /\
    ((exists p e, In (SymEnum pkg p e) (symbols D) /\ n = class_name (dotted p)
                  /\ body = ClsEnum (map (fun nv => (enum_member_name (fst nv) (flat p), snd nv)) (ed_values e)))
     \/ (exists p m fs, In (SymMsg pkg p m) (symbols D) /\ md_map_entry m = false /\ n = class_name (dotted p)
                        /\ body = ClsMessage fs
                        /\ Forall2 (fun x pf => spec_field field_name class_name D pkg p m x = Some pf) (md_fields m) fs)).
  Proof.
    intros Hmd Hc. destruct (module_in pkg cls Hmd) as [Hout Hs]. split; [exact (output_package_not_gp D pkg Hout)|].
    destruct (module_shape field_name class_name enum_member_name D pkg _ Hs) as (msgs & E & F). injection E as ->.
    apply in_app_or in Hc as [Hc | Hc].
    - left. apply in_map_iff in Hc as ([p e] & E & Hin). apply in_flat_map in Hin as (f & Hf & He).
      apply files_of_in in Hf as [Hf <-]. exists p, e. split; [now apply sym_enum_intro|].
      unfold spec_enum_class in E. cbn [fst snd] in E. injection E as <- <-. split; [reflexivity|].
      f_equal. apply map_ext. now intros [a v].
    - right. destruct (Forall2_in_r _ _ _ _ F Hc) as ([p m] & Hin & Hsc).
      destruct (message_class_shape field_name class_name D _ _ _ Hsc) as (fs & E & FF). cbn [fst snd] in *.
      injection E as -> ->. unfold nonentry in Hin. apply filter_In in Hin as [Hin Hme]. cbn [snd] in Hme.
      apply negb_true_iff in Hme. apply in_flat_map in Hin as (f & Hf & Hm). apply files_of_in in Hf as [Hf <-].
      exists p, m, fs. split; [now apply sym_msg_intro|]. auto.
  Qed.

  (* (3) exactly one field per schema field *)
  Theorem field_number_name_unique pkg p m fs :
    Forall2 (fun x pf => spec_field field_name class_name D pkg p m x = Some pf) (md_fields m) fs ->
    length fs = length (md_fields m)
    /\ map pf_number fs = map fd_number (md_fields m)
    /\ map pf_name fs = map (fun x => field_name (fd_name x)) (md_fields m)
    /\ (nodupb (map (fun x => field_name (fd_name x)) (md_fields m)) = true -> NoDup (map pf_name fs)).
  Proof.
    intros F.
    assert (E1 : map pf_number fs = map fd_number (md_fields m)).
    { apply (Forall2_map_l pf_number fd_number). eapply Forall2_impl; [|exact F]. cbn beta. intros x pf Hx.
      now apply spec_field_number_name in Hx. }
    assert (E2 : map pf_name fs = map (fun x => field_name (fd_name x)) (md_fields m)).
    { apply (Forall2_map_l pf_name (fun x => field_name (fd_name x))). eapply Forall2_impl; [|exact F]. cbn beta.
      intros x pf Hx. now apply spec_field_number_name in Hx. }
    split; [pose proof (f_equal (@List.length _) E1) as Hl; rewrite !map_length in Hl; exact Hl|]. split; [exact E1|]. split; [exact E2|].
    intros H. rewrite E2. now apply nodupb_NoDup.
  Qed.
End TableStructure.

(* fields_nodup gives the premise of the last conjunct for every message of D *)
Lemma fields_nodup_at field_name D pkg p m :
  fields_nodup field_name D = true -> In (SymMsg pkg p m) (symbols D) ->
  nodupb (map (fun x => field_name (fd_name x)) (md_fields m)) = true.
Proof.
  intros H Hs. destruct (sym_msg_in D pkg p m Hs) as (f & Hf & _ & Hm).
  unfold fields_nodup in H. rewrite forallb_forall in H. specialize (H f Hf). rewrite forallb_forall in H.
  exact (H (p, m) Hm).
Qed.

(* ======================================================================================
   composed with field_faithful: statements about what the plugin emits
   ====================================================================================== *)
Section Compiled.
  Variable field_name : str -> str.
  Variable class_name : str -> str.
  Variable enum_member_name : str -> str -> str.
  Variable D : descriptor.
  Hypothesis Hwf : protoc_wf D = true.
  Hypothesis Hn : names_ok field_name class_name enum_member_name D = true.

  Lemma names_ok_parts :
    class_nodup class_name D = true /\ fields_nodup field_name D = true /\ members_nodup enum_member_name D = true.
  Proof.
    unfold names_ok in Hn. repeat match goal with H : _ && _ = true |- _ => apply andb_prop in H as [? ?] end. auto.
  Qed.

  Theorem compiled_classes_exact :
    exists t, reflect (compile field_name class_name enum_member_name D) = Ok t
      /\ (forall t', reflect (compile field_name class_name enum_member_name D) = Ok t' -> t' = t)
      /\ map fst t = output_packages D /\ NoDup (map fst t)
      /\ forall pkg cls, In (pkg, cls) t ->
           map fst cls = map (fun q => class_name (dotted q)) (class_paths D pkg)
           /\ length cls = length (class_paths D pkg)
           /\ NoDup (map fst cls) /\ NoDup (class_paths D pkg)
           /\ forall n body, In (n, body) cls ->
                pkg <> google_protobuf /\
                ((exists p e, In (SymEnum pkg p e) (symbols D) /\ n = class_name (dotted p)
                    /\ body = ClsEnum (map (fun nv => (enum_member_name (fst nv) (flat p), snd nv)) (ed_values e)))
                 \/ (exists p m fs, In (SymMsg pkg p m) (symbols D) /\ md_map_entry m = false /\ n = class_name (dotted p)
                       /\ body = ClsMessage fs
                       /\ Forall2 (fun x pf => spec_field field_name class_name D pkg p m x = Some pf) (md_fields m) fs)).
  Proof.
    destruct (field_faithful field_name class_name enum_member_name D Hwf Hn) as (t & Ht & Hc).
    destruct names_ok_parts as (Hcn & _ & _).
    exists t. split; [exact Hc|]. split; [intros t' H'; congruence|].
    destruct (table_packages field_name class_name enum_member_name D t Ht) as [E1 E2]. split; [exact E1|]. split; [exact E2|].
    intros pkg cls Hin. destruct (one_class_per_type field_name class_name enum_member_name D t Ht pkg cls Hin) as (A & B & C).
    destruct (C Hcn) as [C1 C2]. split; [exact A|]. split; [exact B|]. split; [exact C1|]. split; [exact C2|].
    intros n body Hb. exact (class_origin field_name class_name enum_member_name D t Ht pkg cls n body Hin Hb).
  Qed.

  Theorem compiled_message_class pkg p m :
    In (SymMsg pkg p m) (symbols D) -> pkg <> google_protobuf -> md_map_entry m = false ->
    exists t cls fs, reflect (compile field_name class_name enum_member_name D) = Ok t
      /\ In (pkg, cls) t /\ (forall cls', In (pkg, cls') t -> cls' = cls)
      /\ In (class_name (dotted p), ClsMessage fs) cls
      /\ (forall body, In (class_name (dotted p), body) cls -> body = ClsMessage fs)
      /\ Forall2 (fun x pf => spec_field field_name class_name D pkg p m x = Some pf) (md_fields m) fs
      /\ length fs = length (md_fields m)
      /\ map pf_number fs = map fd_number (md_fields m)
      /\ map pf_name fs = map (fun x => field_name (fd_name x)) (md_fields m)
      /\ NoDup (map pf_name fs).
  Proof.
    intros Hs Hne Hme.
    destruct (field_faithful field_name class_name enum_member_name D Hwf Hn) as (t & Ht & Hc).
    destruct names_ok_parts as (Hcn & Hfn & _).
    destruct (class_of_message field_name class_name enum_member_name D t Ht pkg p m Hs Hne Hme) as (cls & fs & H1 & H2 & H3 & H4).
    destruct (field_number_name_unique field_name class_name D pkg p m fs H3) as (L & N1 & N2 & N3).
    exists t, cls, fs. split; [exact Hc|]. split; [exact H1|].
    split; [intros cls' H'; exact (module_unique field_name class_name enum_member_name D t Ht pkg cls' cls H' H1)|].
    split; [exact H2|]. split; [exact (H4 Hcn)|]. split; [exact H3|]. split; [exact L|]. split; [exact N1|]. split; [exact N2|].
    apply N3. exact (fields_nodup_at field_name D pkg p m Hfn Hs).
  Qed.

  Theorem compiled_enum_class pkg p e :
    In (SymEnum pkg p e) (symbols D) -> pkg <> google_protobuf ->
    exists t cls ms, reflect (compile field_name class_name enum_member_name D) = Ok t
      /\ In (pkg, cls) t /\ In (class_name (dotted p), ClsEnum ms) cls
      /\ (forall body, In (class_name (dotted p), body) cls -> body = ClsEnum ms)
      /\ ms = map (fun nv => (enum_member_name (fst nv) (flat p), snd nv)) (ed_values e)
      /\ map snd ms = map snd (ed_values e)
      /\ NoDup (map fst ms).
  Proof.
    intros Hs Hne.
    destruct (field_faithful field_name class_name enum_member_name D Hwf Hn) as (t & Ht & Hc).
    destruct names_ok_parts as (Hcn & _ & Hmn).
    destruct (class_of_enum field_name class_name enum_member_name D t Ht pkg p e Hs Hne) as (cls & ms & H1 & H2 & H3 & H4 & H5).
    exists t, cls, ms. split; [exact Hc|]. split; [exact H1|]. split; [exact H2|]. split; [exact (H5 Hcn)|].
    split; [exact H3|]. split; [exact H4|].
    destruct (sym_enum_in D pkg p e Hs) as (f & Hf & _ & He).
    unfold members_nodup in Hmn. rewrite forallb_forall in Hmn. specialize (Hmn f Hf). rewrite forallb_forall in Hmn.
    specialize (Hmn (p, e) He). cbn [fst snd] in Hmn. apply nodupb_NoDup in Hmn. rewrite H3, map_map. exact Hmn.
  Qed.
End Compiled.
