(* C03 chain, part B: from the DESCRIPTOR-level premises (protoc_wf, names_ok, bridge_ok, and for JSON gen_keys_ok) to
   every schema-level side condition of the runtime theorems, for the schema of what the plugin emits. *)
From BP Require Import Base.Prelude Model.Types Spec.Descriptor Model.Object Model.WellFormed Model.C01Def Model.Json.
From BP Require Import Model.Plugin Proofs.PluginP.
From BP Require Import Model.C03Bridge Model.C03Chain Proofs.C03BridgeA Proofs.C03BridgeB Proofs.C03BridgeC Proofs.C03BridgeD.
From BP Require Import Proofs.C03ChainA Proofs.C04Def Proofs.C08EvoDef.
From BP Require Model.C17Typed Proofs.C02Abs Spec.C06Wire.
From Coq Require Import Lia.

Section Keys.
  Variable field_name : str -> str.
  Variable class_name : str -> str.
  Variable enum_member_name : str -> str -> str.
  Variable D : descriptor.
  Variable t : class_table.
  Hypothesis Ht : class_table_of field_name class_name enum_member_name D = Some t.

  Lemma spec_field_name pkg p m x pf :
    spec_field field_name class_name D pkg p m x = Some pf -> pf_name pf = field_name (fd_name x).
  Proof.
    unfold spec_field. intros Hs.
    destruct (spec_map_entry pkg p m x) as [e|].
    - destruct (field_numbered 1 e) as [k|], (field_numbered 2 e) as [v|]; try discriminate.
      destruct (kind_name (fd_type k)), (kind_name (fd_type v)), (spec_value_type class_name D k),
        (spec_value_type class_name D v); try discriminate. now injection Hs as <-.
    - destruct (kind_name (fd_type x)), (spec_value_type class_name D x), (spec_group m x); try discriminate.
      now injection Hs as <-.
  Qed.

  (* the test on the descriptor's field names gives the test on the table ... *)
  Lemma gen_keys_table cs : gen_keys_ok cs field_name D = true -> table_keys_ok cs t = true.
  Proof.
    intros H. unfold table_keys_ok. apply forallb_forall. intros fs Hfs.
    destruct (msg_row_origin field_name class_name enum_member_name D t Ht fs Hfs) as (f & p & m & Hf & Hne & Hm & Hme & F).
    unfold gen_keys_ok in H. rewrite forallb_forall in H. specialize (H f Hf).
    apply str_eqb_neq in Hne. rewrite Hne in H. cbn [orb] in H. rewrite forallb_forall in H.
    specialize (H (p, m) Hm). cbn [snd] in H. rewrite Hme in H. cbn [orb] in H.
    replace (map pf_name fs) with (map (fun x => field_name (fd_name x)) (md_fields m)); [exact H|].
    symmetry. apply (Forall2_map_l pf_name (fun x => field_name (fd_name x))).
    eapply Forall2_impl; [|exact F]. cbn beta. intros x pf Hs. now apply (spec_field_name _ _ _ _ _ Hs).
  Qed.

  (* ... and, class names being distinct per package, conversely: the condition is exact *)
  Lemma table_keys_gen cs : class_nodup class_name D = true -> table_keys_ok cs t = true -> gen_keys_ok cs field_name D = true.
  Proof.
    intros Hcn H. rewrite <- keys_ok_table in H. unfold keys_ok in H. rewrite forallb_forall in H.
    unfold gen_keys_ok. apply forallb_forall. intros f Hf.
    destruct (str_eqb (fl_package f) google_protobuf) eqn:Hg; [reflexivity|]. cbn [orb].
    apply forallb_forall. intros [p m] Hm. cbn [snd]. destruct (md_map_entry m) eqn:Hme; [reflexivity|]. cbn [orb].
    apply str_eqb_neq in Hg.
    assert (Hs : In (SymMsg (fl_package f) p m) (symbols D)).
    { unfold symbols. apply in_flat_map. exists f. split; [assumption|]. unfold file_symbols. apply in_or_app. left.
      apply in_map_iff. exists (p, m). split; [reflexivity | assumption]. }
    destruct (message_ref_faithful field_name class_name enum_member_name D t Ht Hcn _ p m Hs Hg Hme)
      as (c & _ & Hc & _ & Hn).
    rewrite <- Hn, <- class_keys_ok_spec. apply H. unfold get_class. apply nth_In. rewrite sc_nclasses. lia.
  Qed.
End Keys.

(* ==========================================================================================
   THE HUB: every schema-level hypothesis of the runtime theorems, for everything the plugin emits
   ========================================================================================== *)
Theorem generated_side_conditions field_name class_name enum_member_name D :
  protoc_wf D = true -> names_ok field_name class_name enum_member_name D = true -> bridge_ok D = true ->
  exists t, class_table_of field_name class_name enum_member_name D = Some t
    /\ reflect (compile field_name class_name enum_member_name D) = Ok t
    /\ table_ok t = true
    /\ let sc := schema_of_table t in
       c01_schema_ok sc = true /\ wf_schema sc = true
       /\ C02Abs.builtins_std sc = true                                   (* C02_decode_refines *)
       /\ C17Typed.has_builtins sc /\ C17Typed.entries_agree sc = true     (* C17_welltyped *)
       /\ C06Wire.std_builtins_b sc = true                                 (* C06 decode-presence theorems *)
       /\ (forall cs, keys_ok cs sc = gen_keys_ok cs field_name D)         (* C04, C05_accept *)
       /\ (forall masks, masks_ok sc masks = gen_masks_ok t masks)             (* C08, C10 older reader *)
       /\ (forall um, (length um <= n_msgs t)%nat -> masks_ok sc (user_masks um) = true).
Proof.
  intros Hwf Hn Hbr. destruct (generated_schema_ok field_name class_name enum_member_name D Hwf Hn Hbr) as (t & Ht & Hc & Hok & Hs).
  exists t. split; [assumption|]. split; [assumption|]. split; [assumption|]. cbv zeta.
  destruct (c01_parts _ Hs) as (Hw & _ & _).
  split; [assumption|]. split; [assumption|]. split; [now apply c01_builtins_std|].
  split; [apply gen_has_builtins|]. split; [now apply c01_entries_agree|]. split; [apply gen_std_builtins_b|].
  split; [|split].
  - intros cs. rewrite keys_ok_table.
    assert (Hcn : class_nodup class_name D = true).
    { unfold names_ok in Hn. repeat match goal with H : _ && _ = true |- _ => apply andb_prop in H as [? ?] end. assumption. }
    destruct (gen_keys_ok cs field_name D) eqn:Eg.
    + now apply (gen_keys_table field_name class_name enum_member_name D t Ht).
    + destruct (table_keys_ok cs t) eqn:Et; [|reflexivity].
      now rewrite (table_keys_gen field_name class_name enum_member_name D t Ht cs Hcn Et) in Eg.
  - intros masks. now apply gen_masks_exact.
  - intros um Hl. apply gen_masks; [assumption | now apply user_masks_ok].
Qed.
