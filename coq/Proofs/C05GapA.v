(* C05 — gap analysis of the property text against Properties/C05.v, and the first group of gap-closing proofs.

   PROPERTY TEXT, clause by clause  ->  theorems that existed  ->  gap  ->  closed by (GapA = this file, GapB = C05GapB.v)

   (1) "For every message value, the JSON text betterproto emits is accepted by the reference implementation's JSON parser
        for the same schema and yields the same message"
         -> C05_emit (+ _json_supported, _jschema_of, C05_generated_emit): all objects of all matched schemas, under emit_good.
         gap a: emit_good = in_range && oneof_sel && nan_canon && no_neg_zero is only SAMPLED by the harness; nothing ties it to
            what the public API can build.  -> GapA emit_reachable: in_range is discharged for every object a public-API
            history (run7: setattr / getattr / parse / copies / pickle / observers / construct / from_dict) produces, under
            C01's operation-level conditions (C01_reachable_value_ok_parse); the three remaining conjuncts stay premises and
            GapA shows each of them EXACT: no_neg_zero by the existing K13 witness, which GapA shows reachable by a one-step
            history (emit_neg_zero_reachable_refuted); nan_canon by emit_nan_payload_refuted (float("nan") with a payload bit,
            reachable by one assignment: the text says "NaN", the reference reads the canonical NaN, the denoted message
            differs); in_range by emit_out_of_range_refuted (int32 field holding 2^31, reachable by one assignment - betterproto
            range-checks only in bytes(): the reference REJECTS the text); oneof_sel by emit_oneof_sel_refuted (state-level
            witness; not shown reachable).
         gap b: "yields the same message" is an equation on abs_obj; no theorem said that the text DETERMINES the message.
            -> GapA emit_text_determines: two emit_good objects whose to_dict(CAMEL) agree denote the same abstract message.
         gap c: the emitted text was never fed back: betterproto -> reference -> betterproto.  -> GapB abs_obj_wf (the message an
            emit_good object with duplicate-free dicts denotes is a well-formed abstract message) and GapB full_cycle.
   (2) "and the JSON text the reference emits for a message is accepted by betterproto and yields the same message"
         -> C05_accept: stated through model_reads_canonical = read, EMIT AGAIN, parse with the specified reference parser.
         gap a: no statement about the object from_dict returns.  -> GapA accept_object: from_dict returns (does not raise)
            an object o with abs_obj o = a, emit_good o, of the right class - "accepted" and "the same message" said directly.
         gap b: "the same message" needs the canonical text to determine the message.  -> GapA spec_injective: json_spec is
            injective on well-formed abstract messages; spec_total: json_spec is defined on every well-formed message.
         gap c: wf_aval leaves out K13 / PLAIN-ZERO-TIME (witnesses exist) and "values below microsecond resolution (the
            quantifier of C05)" - for the latter there was no witness that the restriction is NEEDED.
            -> GapA accept_nanosecond_refuted: a Timestamp with nanos = 1 in an optional field: every other hypothesis holds,
            betterproto reads the text, the nanosecond is gone.
         gap d: the chain reference -> betterproto -> reference -> betterproto.  -> GapA accept_idempotent (what from_dict built
            is again emit_good, so C05_emit applies to it, and the message it denotes is again readable).
   (3) "In particular keys are lowerCamelCase JSON names"
         -> protoc_json_name_agrees (+ refuted witnesses, exactness on short names): a statement about NAMES.
         gap: no theorem about the keys of the emitted OBJECT.  -> GapB emit_keys_are_json_names: every key of to_dict(CAMEL) of
            a matched class is the json_name of a field of that class.
   (4) "64-bit integers are strings, bytes are base64, enums are value names, NaN/Infinity are strings"
         -> C05_emit_scalar_canonical: conv (scalar_to_json ..) = spec_scalar k a - an equation with the SPEC printer; the shapes
            the text names are visible only by unfolding the specification.
         gap: explicit shapes with converses.  -> GapB emit_int_shape (a string of decimal digits EXACTLY for the six 64-bit
            types, a JSON number for the 32-bit ones), emit_bytes_base64 (+ the decoder takes it back), emit_float_shape (a string
            EXACTLY for the non-finite values, and then one of the three tokens), emit_enum_shape (the member's name when the
            number has one, the number otherwise; never anything else).
   (5) "Timestamp is RFC 3339 UTC and Duration is decimal seconds with an 's' suffix"
         -> C05_emit_timestamp / C05_emit_duration: equations with the spec's printer / reader.
         gap: the shape.  -> GapB timestamp_shape (calendar part ++ 0 / 3 / 6 fractional digits ++ "Z", never a numeric offset),
            duration_shape ([-] digits "." 3 or 6 digits "s").
   (6) quantifier "for all message types": js_matches / C05_generated_js_matches (descriptor level) - no gap found beyond the open
       findings K3 / enum prefix.  keys_ok CAMEL of C05_accept: stays a premise (gen_keys_ok: C03_keys_residual_refuted).
   (7) quantifier "values as in C01": see (1a).  "restricted to microsecond-resolution times": see (2c). *)
From Coq Require Import ZArith List Bool Lia.
From BP Require Import Base.Prelude Model.Types Model.Float Model.Utf8 Model.Object Model.WellFormed Model.TimeCore Spec.Time.
From BP Require Model.Json Spec.JsonMap.
From BP Require Import Proofs.C04Def Proofs.C05Casing Proofs.C05Leaf Proofs.C05Model Proofs.C05MsgDef Proofs.C05MsgEmit.
From BP Require Import Proofs.C05AccDef Proofs.C05AccRead Proofs.C05AccObj Proofs.C05AccMain.
From BP Require Import Model.History Model.C07Ops Model.C01Def Model.C01Reach Model.C01Parse Proofs.C01Reach2B.
Import ListNotations.

(* ====================================================================================== *)
(* (2a) the object from_dict returns                                                        *)
(* ====================================================================================== *)
Theorem accept_object sc js off c a :
  wf_schema sc = true -> js_matches off sc js = true -> keys_ok J.CAMEL sc = true ->
  wf_aval sc js off (S.JMsg c) a = true ->
  exists j o, S.json_spec js c a = Some j /\ J.from_dict_cls sc (c + off) (unconv j) = Ok o /\
              abs_obj sc o = a /\ emit_good sc o = true /\ ocls o = (c + off)%nat /\
              model_emit_accepts sc js c o = Some a.
Proof.
  intros WF JM KO W.
  destruct a as [| | | | | | | |afs]; try discriminate W.
  assert (Hc : (c < length (S.jclasses js))%nat).
  { cbn [wf_aval] in W. apply andb_prop in W as [W _]. apply andb_prop in W as [W _]. apply Nat.ltb_lt in W. exact W. }
  destruct (msg_read sc js off JM WF KO c afs W) as (j & Sj & Rd).
  destruct (conc_obj_ok sc js off JM WF c afs W) as (G & A & Ec).
  exists j, (conc_obj sc js off c afs). repeat split; try assumption.
  rewrite (emit_accepted sc js off JM WF c _ G Ec Hc), A. reflexivity.
Qed.

(* (2b) json_spec is defined on, and injective on, the well-formed abstract messages *)
Theorem spec_total sc js off c a :
  wf_schema sc = true -> js_matches off sc js = true -> keys_ok J.CAMEL sc = true ->
  wf_aval sc js off (S.JMsg c) a = true -> exists j, S.json_spec js c a = Some j.
Proof.
  intros WF JM KO W. destruct (accept_object sc js off c a WF JM KO W) as (j & _ & Sj & _). exists j. exact Sj.
Qed.

Theorem spec_injective sc js off c a a' :
  wf_schema sc = true -> js_matches off sc js = true -> keys_ok J.CAMEL sc = true ->
  wf_aval sc js off (S.JMsg c) a = true -> wf_aval sc js off (S.JMsg c) a' = true ->
  S.json_spec js c a = S.json_spec js c a' -> a = a'.
Proof.
  intros WF JM KO W W' E.
  pose proof (reads_canonical sc js off c a WF JM KO W) as R.
  pose proof (reads_canonical sc js off c a' WF JM KO W') as R'.
  unfold model_reads_canonical in R, R'. rewrite E in R. rewrite R in R'. inversion R'. reflexivity.
Qed.

(* (2d) what from_dict built from the reference's text is emitted, accepted, printed by the reference and read again *)
Theorem accept_idempotent sc js off c a :
  wf_schema sc = true -> js_matches off sc js = true -> keys_ok J.CAMEL sc = true ->
  wf_aval sc js off (S.JMsg c) a = true ->
  exists j o, S.json_spec js c a = Some j /\ J.from_dict_cls sc (c + off) (unconv j) = Ok o /\
    model_emit_accepts sc js c o = Some a /\
    model_reads_canonical sc js c (c + off) (abs_obj sc o) = Some (abs_obj sc o).
Proof.
  intros WF JM KO W. destruct (accept_object sc js off c a WF JM KO W) as (j & o & Sj & Rd & A & _ & _ & E).
  exists j, o. repeat split; try assumption. rewrite A. apply (reads_canonical sc js off c a WF JM KO W).
Qed.

(* ====================================================================================== *)
(* (1b) the emitted text determines the message                                             *)
(* ====================================================================================== *)
Theorem emit_text_determines sc js off c o1 o2 :
  wf_schema sc = true -> js_matches off sc js = true -> emit_good sc o1 = true -> emit_good sc o2 = true ->
  ocls o1 = (c + off)%nat -> ocls o2 = (c + off)%nat -> (c < length (S.jclasses js))%nat ->
  J.to_dict J.CAMEL false sc o1 = J.to_dict J.CAMEL false sc o2 -> abs_obj sc o1 = abs_obj sc o2.
Proof.
  intros WF JM G1 G2 C1 C2 Hc E.
  pose proof (emit_accepted sc js off JM WF c o1 G1 C1 Hc) as A1.
  pose proof (emit_accepted sc js off JM WF c o2 G2 C2 Hc) as A2.
  unfold model_emit_accepts in A1, A2. rewrite E in A1. rewrite A1 in A2. inversion A2. reflexivity.
Qed.

(* ====================================================================================== *)
(* (1a) in_range discharged for what the public API builds (composition with C01)           *)
(* ====================================================================================== *)
Theorem emit_reachable sc js off c cls ops o :
  c01_schema_ok sc = true -> js_matches off sc js = true ->
  hist_ok op_value_ok_p sc (new sc cls) ops = true -> run7 sc (new sc cls) ops = Ok o ->
  oneof_sel sc o && nan_canon o && no_neg_zero sc o = true ->
  ocls o = (c + off)%nat -> (c < length (S.jclasses js))%nat ->
  model_emit_accepts sc js c o = Some (abs_obj sc o).
Proof.
  intros SO JM H R G Ec Hc.
  pose proof (c01_reachable_value_ok_parse sc cls ops o SO H R) as V.
  unfold c01_value_ok in V. apply andb_prop in V as [IR _].
  unfold c01_schema_ok in SO. apply andb_prop in SO as [SO _]. apply andb_prop in SO as [WF _].
  apply (emit_accepted sc js off JM WF c o); try assumption.
  unfold emit_good. apply andb_prop in G as [G Z]. apply andb_prop in G as [O N]. rewrite IR, O, N, Z. reflexivity.
Qed.

(* ====================================================================================== *)
(* (1a) each remaining conjunct of emit_good is needed                                      *)
(* ====================================================================================== *)
Definition gNB : nat := length builtin_classes.

(* K13 is reachable: Cls(); m.x = -0.0 meets C01's operation-level conditions *)
Definition nz_ops : list op7 := [OBase (OSet [] 0 (PFloat (2 ^ 63)))].
Theorem emit_neg_zero_reachable_refuted :
  c01_schema_ok nz_sc = true /\ js_matches gNB nz_sc nz_js = true /\
  hist_ok op_value_ok_p nz_sc (new nz_sc gNB) nz_ops = true /\ run7 nz_sc (new nz_sc gNB) nz_ops = Ok nz_obj /\
  oneof_sel nz_sc nz_obj && nan_canon nz_obj = true /\ no_neg_zero nz_sc nz_obj = false /\
  model_emit_accepts nz_sc nz_js 0 nz_obj <> Some (abs_obj nz_sc nz_obj).
Proof. repeat split; try (vm_compute; reflexivity). vm_compute. intros E. inversion E. Qed.

(* nan_canon: float("nan") with one payload bit set (struct.unpack("<d", ...)), assigned to a double field: the text is
   "NaN", the reference reads the canonical quiet NaN - a different binary64 value than the one the message holds *)
Definition np_bits : Z := 9221120237041090561.
Definition np_ops : list op7 := [OBase (OSet [] 0 (PFloat np_bits))].
Definition np_obj : obj := Obj gNB [PFloat np_bits] true [] [].
Theorem emit_nan_payload_refuted :
  f64_is_nan np_bits = true /\
  hist_ok op_value_ok_p nz_sc (new nz_sc gNB) np_ops = true /\ run7 nz_sc (new nz_sc gNB) np_ops = Ok np_obj /\
  in_range nz_sc np_obj && oneof_sel nz_sc np_obj && no_neg_zero nz_sc np_obj = true /\ nan_canon np_obj = false /\
  model_emit_accepts nz_sc nz_js 0 np_obj = Some (S.AMsg [S.FOne (S.AFloat S.nan_bits)]) /\
  abs_obj nz_sc np_obj = S.AMsg [S.FOne (S.AFloat np_bits)] /\
  model_emit_accepts nz_sc nz_js 0 np_obj <> Some (abs_obj nz_sc np_obj).
Proof. repeat split; try (vm_compute; reflexivity). vm_compute. intros E. inversion E. Qed.

(* in_range: `int32 x = 1;`, m.x = 2**31 (setattr does not check; bytes() would raise, to_dict does not):
   the text {"x": 2147483648} is REJECTED by the reference.  The history is outside C01's conditions (hist_ok = false). *)
Definition ir_sc : schema := mkS (builtin_classes ++ [mkC [plain_field nz_name 1 TInt32] 0]) [].
Definition ir_js : S.jschema := S.mkJS [[S.mkJF nz_name nz_name (S.JScalar S.KInt32) S.Implicit None]] [].
Definition ir_ops : list op7 := [OBase (OSet [] 0 (PInt (2 ^ 31)))].
Definition ir_obj : obj := Obj gNB [PInt (2 ^ 31)] true [] [].
Theorem emit_out_of_range_refuted :
  c01_schema_ok ir_sc = true /\ js_matches gNB ir_sc ir_js = true /\
  run7 ir_sc (new ir_sc gNB) ir_ops = Ok ir_obj /\ hist_ok op_value_ok_p ir_sc (new ir_sc gNB) ir_ops = false /\
  oneof_sel ir_sc ir_obj && nan_canon ir_obj && no_neg_zero ir_sc ir_obj = true /\ in_range ir_sc ir_obj = false /\
  J.to_dict J.CAMEL false ir_sc ir_obj = J.JObj [(J.JStr nz_name, J.JInt (2 ^ 31))] /\
  model_emit_accepts ir_sc ir_js 0 ir_obj = None.
Proof. repeat split; vm_compute; reflexivity. Qed.

(* oneof_sel: a state whose group selects member `a` while the raw attribute is still PLACEHOLDER: to_dict writes the
   default {"a": 0}, the reference reads member a as SET; the abstraction (raw state) has no member set.
   (state-level witness: no public-API history producing it is known) *)
Definition os_sc : schema :=
  mkS (builtin_classes ++ [mkC [mkF [x61] 1 TInt32 None (Some 0%nat) None false (HPlain PyInt) 0;
                               mkF [x62] 2 TString None (Some 0%nat) None false (HPlain PyStr) 0] 1]) [].
Definition os_js : S.jschema :=
  S.mkJS [[S.mkJF [x61] [x61] (S.JScalar S.KInt32) S.Explicit (Some 0%nat);
           S.mkJF [x62] [x62] (S.JScalar S.KString) S.Explicit (Some 0%nat)]] [].
Definition os_obj : obj := Obj gNB [PPlaceholder; PPlaceholder] true [] [Some 0%nat].
Theorem emit_oneof_sel_refuted :
  wf_schema os_sc = true /\ js_matches gNB os_sc os_js = true /\
  in_range os_sc os_obj && nan_canon os_obj && no_neg_zero os_sc os_obj = true /\ oneof_sel os_sc os_obj = false /\
  J.to_dict J.CAMEL false os_sc os_obj = J.JObj [(J.JStr [x61], J.JInt 0)] /\
  model_emit_accepts os_sc os_js 0 os_obj = Some (S.AMsg [S.FOne (S.AInt 0); S.FAbsent]) /\
  abs_obj os_sc os_obj = S.AMsg [S.FAbsent; S.FAbsent].
Proof. repeat split; vm_compute; reflexivity. Qed.

(* ====================================================================================== *)
(* (2c) the microsecond restriction of the quantifier is needed                             *)
(* ====================================================================================== *)
(* `optional google.protobuf.Timestamp ts = 1;` holding 1970-01-01T00:00:01.000000001Z: every schema-level premise of
   C05_accept holds, the same message at 1 microsecond is well-formed and read back, the nanosecond is lost *)
Definition ns_sc : schema :=
  mkS (builtin_classes ++ [mkC [mkF pz_name 1 TMessage None None None true (HOptional PyDatetime) 0] 0]) [].
Definition ns_aval : S.aval := S.AMsg [S.FOne (S.ATime 1 1)].
Definition us_aval : S.aval := S.AMsg [S.FOne (S.ATime 1 1000)].
Theorem accept_nanosecond_refuted :
  wf_schema ns_sc = true /\ js_matches gNB ns_sc pz_js = true /\ keys_ok J.CAMEL ns_sc = true /\
  wf_aval ns_sc pz_js gNB (S.JMsg 0) us_aval = true /\ model_reads_canonical ns_sc pz_js 0 gNB us_aval = Some us_aval /\
  wf_aval ns_sc pz_js gNB (S.JMsg 0) ns_aval = false /\
  model_reads_canonical ns_sc pz_js 0 gNB ns_aval = Some (S.AMsg [S.FOne (S.ATime 1 0)]) /\
  S.AMsg [S.FOne (S.ATime 1 0)] <> ns_aval.
Proof. repeat split; try (vm_compute; reflexivity). intros E. inversion E. Qed.

(* ---- non-vacuity of the universally quantified theorems of this file ---- *)
(* accept_object / spec_total / spec_injective / accept_idempotent / emit_text_determines: the hand-written schema with every
   field shape (Proofs/C05MsgEx.v) meets the premises: C05_msg_hypotheses_satisfiable.  emit_reachable: *)
Definition rc_ops : list op7 := [OBase (OSet [] 0 (PFloat 4609434218613702656)); OBase OBytes; OBase OCopy].
Example emit_reachable_nonvacuous :
  c01_schema_ok nz_sc = true /\ js_matches gNB nz_sc nz_js = true /\
  hist_ok op_value_ok_p nz_sc (new nz_sc gNB) rc_ops = true /\
  match run7 nz_sc (new nz_sc gNB) rc_ops with
  | Ok o => oneof_sel nz_sc o && nan_canon o && no_neg_zero nz_sc o = true /\ ocls o = (0 + gNB)%nat /\
            model_emit_accepts nz_sc nz_js 0 o = Some (S.AMsg [S.FOne (S.AFloat 4609434218613702656)])
  | Err _ => False
  end.
Proof. repeat split; vm_compute; reflexivity. Qed.
