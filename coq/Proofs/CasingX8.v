(* C19, part X8: a str as code points versus a str as UTF-8 bytes.  casing.py run on the code points (Spec/C19Unicode.v:
   the regex matcher at A = N) and encoded afterwards gives what the model gives on the encoded bytes.
   Route: code points --phi--> one byte each (ASCII kept, everything else becomes the byte 0x80) by the homomorphism
   lemma of X7; then the scanner cannot tell one symbol byte from a run of symbol bytes. *)
From Coq Require Import ZifyN.
From BP Require Import Base.Prelude Model.Casing Spec.C19Regex Spec.C19Unicode Proofs.BytesP Proofs.CasingP Proofs.CasingP3
  Proofs.CasingX4 Proofs.CasingX5 Proofs.CasingX6 Proofs.CasingX7.
From BP Require gen.C19Tables.
Ltac Zify.zify_post_hook ::= Z.to_euclidean_division_equations.

Definition phi (c : N) : byte := if (c <? 128)%N then bN c else x80.

Lemma to_N_bN n : (n < 256)%N -> Byte.to_N (bN n) = n.
Proof.
  intros L. unfold bN. destruct (Byte.of_N n) as [b|] eqn:E; [apply Byte.to_of_N; exact E|].
  apply Byte.of_N_None_iff in E. lia.
Qed.

(* ---------------------------------------------------------------- the character sets agree on c and phi c *)
Lemma in_ranges_high rs x : forallb (fun r => (snd r <? 128)%N) rs = true -> (128 <= x)%N -> in_ranges x rs = false.
Proof.
  intros H L. unfold in_ranges. induction rs as [|r t IH]; [reflexivity|]. cbn [forallb existsb] in *.
  apply andb_true_iff in H. destruct H as [Hr Ht]. rewrite (IH Ht), orb_false_r.
  apply N.ltb_lt in Hr. apply andb_false_iff. right. apply N.leb_gt. lia.
Qed.

Lemma cset_ok c : forallb (fun r => (snd r <? 128)%N) (cs_ranges c) = true ->
  forall x, in_cset cp_code c x = in_cset byte_code c (phi x).
Proof.
  intros H x. unfold in_cset, cp_code, byte_code, phi. destruct (x <? 128)%N eqn:L.
  - apply N.ltb_lt in L. rewrite to_N_bN by lia. reflexivity.
  - apply N.ltb_ge in L. rewrite (in_ranges_high _ x H L). rewrite (in_ranges_high _ (Byte.to_N x80) H); [reflexivity|].
    cbn. lia.
Qed.

Lemma snake_re_ok : cs_ok cp_code byte_code phi snake_re.
Proof. cbn [cs_ok snake_re re_body re_symbols re_word_upper re_word]. repeat split; apply cset_ok; reflexivity. Qed.
Lemma pascal_re_ok : cs_ok cp_code byte_code phi pascal_re.
Proof. cbn [cs_ok pascal_re re_body re_symbols re_word_upper re_word]. repeat split; apply cset_ok; reflexivity. Qed.

(* ---------------------------------------------------------------- the callbacks agree *)
Lemma ascii_cases (P : N -> bool) : forallb P (map N.of_nat (seq 0 128)) = true -> forall c, (c < 128)%N -> P c = true.
Proof.
  intros H c L. rewrite forallb_forall in H. apply H. apply in_map_iff. exists (N.to_nat c).
  split; [apply N2Nat.id|]. apply in_seq. lia.
Qed.

Lemma phi_lower1 c : to_lower (phi c) = phi (cp_lower1 c).
Proof.
  destruct (c <? 128)%N eqn:L.
  - apply N.ltb_lt in L. apply Byte.byte_dec_bl.
    revert c L. apply (ascii_cases (fun c => Byte.eqb (to_lower (phi c)) (phi (cp_lower1 c)))). vm_compute. reflexivity.
  - unfold cp_lower1. apply N.ltb_ge in L. assert ((c <=? 90)%N = false) as -> by (apply N.leb_gt; lia).
    rewrite andb_false_r. unfold phi. apply N.ltb_ge in L. rewrite L. reflexivity.
Qed.

Lemma phi_upper1 c : to_upper (phi c) = phi (cp_upper1 c).
Proof.
  destruct (c <? 128)%N eqn:L.
  - apply N.ltb_lt in L. apply Byte.byte_dec_bl.
    revert c L. apply (ascii_cases (fun c => Byte.eqb (to_upper (phi c)) (phi (cp_upper1 c)))). vm_compute. reflexivity.
  - unfold cp_upper1. apply N.ltb_ge in L. assert ((c <=? 122)%N = false) as -> by (apply N.leb_gt; lia).
    rewrite andb_false_r. unfold phi. apply N.ltb_ge in L. rewrite L. reflexivity.
Qed.

Lemma phi_lower w : lower (map phi w) = map phi (cp_lower w).
Proof. unfold lower, cp_lower. rewrite !map_map. apply map_ext. intros c. apply phi_lower1. Qed.

Lemma phi_capitalize w : capitalize (map phi w) = map phi (cp_capitalize w).
Proof.
  destruct w as [|c r]; [reflexivity|]. cbn [map capitalize cp_capitalize]. rewrite phi_upper1, phi_lower. reflexivity.
Qed.

Lemma phi_lowercase_first w : lowercase_first (map phi w) = map phi (cp_lowercase_first w).
Proof. destruct w as [|c r]; [reflexivity|]. cbn [map lowercase_first cp_lowercase_first]. rewrite phi_lower1. reflexivity. Qed.

Lemma snake_repl_ok caps : substitute_snake (map_caps phi caps) = map phi (cp_substitute_snake caps).
Proof.
  unfold substitute_snake, cp_substitute_snake. rewrite group_str_map, group_map.
  destruct (group_str 3 caps) as [|c r]; [reflexivity|]. rewrite phi_lower.
  cbn [map]. destruct (group 1 caps); cbn [option_map]; rewrite map_app; reflexivity.
Qed.

Lemma pascal_repl_ok caps : substitute_pascal (map_caps phi caps) = map phi (cp_substitute_pascal caps).
Proof. unfold substitute_pascal, cp_substitute_pascal. rewrite group_str_map. apply phi_capitalize. Qed.

(* ---------------------------------------------------------------- the scanner on UTF-8 *)
Lemma classify_high b : (128 <=? Byte.to_N b)%N = true -> classify b = Sym.
Proof. destruct b; cbn; intros H; (reflexivity || discriminate H). Qed.

Lemma sym_high n : (128 <= n)%N -> (n < 256)%N -> is_sym_b (bN n) = true.
Proof.
  intros L U. unfold is_sym_b. rewrite classify_high; [reflexivity|]. rewrite to_N_bN by exact U. apply N.leb_le. exact L.
Qed.

Lemma utf8_cp_low c : (c < 128)%N -> utf8_cp c = [phi c].
Proof. intros L. unfold utf8_cp, phi. apply N.ltb_lt in L. rewrite L. reflexivity. Qed.

Lemma utf8_cp_high c : (128 <= c)%N -> (c < 1114112)%N ->
  exists b r, utf8_cp c = b :: r /\ classify b = Sym /\ forallb is_sym_b r = true.
Proof.
  intros L U. unfold utf8_cp. assert ((c <? 128)%N = false) as -> by (apply N.ltb_ge; exact L).
  destruct (c <? 2048)%N eqn:E1; [|destruct (c <? 65536)%N eqn:E2].
  - apply N.ltb_lt in E1. eexists _, _. split; [reflexivity|]. split.
    + apply class_sym, sym_high; lia.
    + cbn [forallb]. rewrite sym_high by lia. reflexivity.
  - apply N.ltb_ge in E1. apply N.ltb_lt in E2. eexists _, _. split; [reflexivity|]. split.
    + apply class_sym, sym_high; lia.
    + cbn [forallb]. rewrite !sym_high by lia. reflexivity.
  - apply N.ltb_ge in E1. apply N.ltb_ge in E2. eexists _, _. split; [reflexivity|]. split.
    + apply class_sym, sym_high; lia.
    + cbn [forallb]. rewrite !sym_high by lia. reflexivity.
Qed.

Lemma step_sym st b : classify b = Sym -> step st b = (flush st, S0).
Proof. intros E. destruct st; unfold step; rewrite E; reflexivity. Qed.

Lemma scan_sym st b l : classify b = Sym -> scan st (b :: l) = flush st ++ scan S0 l.
Proof. intros E. cbn [scan]. rewrite (step_sym st b E). reflexivity. Qed.

Lemma scan_utf8 s : forallb valid_cp s = true -> forall st, scan st (utf8 s) = scan st (map phi s).
Proof.
  induction s as [|c t IH]; intros V st; [reflexivity|]. cbn [forallb] in V. apply andb_true_iff in V. destruct V as [Vc Vt].
  unfold valid_cp in Vc. apply N.ltb_lt in Vc. unfold utf8. cbn [flat_map map]. fold (utf8 t).
  destruct (c <? 128)%N eqn:L.
  - apply N.ltb_lt in L. rewrite (utf8_cp_low c L). cbn [app scan]. destruct (step st (phi c)) as [o st'].
    rewrite (IH Vt st'). reflexivity.
  - apply N.ltb_ge in L. destruct (utf8_cp_high c L Vc) as (b & r & -> & Eb & Hr). cbn [app].
    rewrite (scan_sym st b _ Eb), (scan_S0_syms r _ Hr), (IH Vt S0).
    assert (phi c = x80) as -> by (unfold phi; apply N.ltb_ge in L; rewrite L; reflexivity).
    rewrite (scan_sym st x80 _ eq_refl). reflexivity.
Qed.

Lemma words_utf8 s : forallb valid_cp s = true -> words (utf8 s) = words (map phi s).
Proof. intros V. apply scan_utf8, V. Qed.

(* ---------------------------------------------------------------- ASCII results: phi is UTF-8 *)
Lemma utf8_ascii out : forallb (fun b => negb (Byte.eqb b x80)) (map phi out) = true -> utf8 out = map phi out.
Proof.
  induction out as [|c t IH]; [reflexivity|]. cbn [map forallb]. intros H. apply andb_true_iff in H. destruct H as [Hc Ht].
  unfold utf8. cbn [flat_map]. fold (utf8 t). rewrite (IH Ht).
  destruct (c <? 128)%N eqn:L.
  - apply N.ltb_lt in L. rewrite (utf8_cp_low c L). reflexivity.
  - unfold phi in Hc. rewrite L in Hc. discriminate Hc.
Qed.

Lemma snake_char_not_x80 b : snake_char b = true -> negb (Byte.eqb b x80) = true.
Proof. destruct b; cbn; intros H; (reflexivity || discriminate H). Qed.
Lemma alnum_not_x80 b : is_alnum b = true -> negb (Byte.eqb b x80) = true.
Proof. destruct b; cbn; intros H; (reflexivity || discriminate H). Qed.

Lemma forallb_impl {A} (f g : A -> bool) l : (forall x, f x = true -> g x = true) -> forallb f l = true -> forallb g l = true.
Proof. intros H. rewrite !forallb_forall. intros F x I. apply H, F, I. Qed.

Lemma pascal_alnum s : forallb is_alnum (pascal_case s) = true.
Proof. rewrite pascal_lws. apply alnum_concat_cap, words_lwords. Qed.

Lemma camel_alnum s : forallb is_alnum (camel_case s) = true.
Proof.
  unfold camel_case. pose proof (pascal_alnum s) as H. destruct (pascal_case s) as [|c r]; [reflexivity|].
  cbn [lowercase_first forallb] in *. rewrite is_alnum_to_lower. exact H.
Qed.

(* ---------------------------------------------------------------- the three functions *)
Theorem snake_case_code_points s : forallb valid_cp s = true ->
  option_map utf8 (snake_case_cp s) = Some (snake_case (utf8 s)).
Proof.
  intros V. unfold snake_case_cp, cp_sub_pattern. rewrite parse_snake. cbn [option_map]. f_equal.
  pose proof (re_sub_hom cp_code byte_code phi snake_re snake_re_ok cp_substitute_snake substitute_snake snake_repl_ok s) as H.
  rewrite snake_re_sub in H.
  assert (snake_case (utf8 s) = snake_case (map phi s)) as E by (unfold snake_case; rewrite (words_utf8 s V); reflexivity).
  rewrite E, H. apply utf8_ascii. rewrite <- H.
  apply (forallb_impl snake_char); [apply snake_char_not_x80|apply snake_chars].
Qed.

Theorem pascal_case_code_points s : forallb valid_cp s = true ->
  option_map utf8 (pascal_case_cp s) = Some (pascal_case (utf8 s)).
Proof.
  intros V. unfold pascal_case_cp, cp_sub_pattern. rewrite parse_pascal. cbn [option_map]. f_equal.
  pose proof (re_sub_hom cp_code byte_code phi pascal_re pascal_re_ok cp_substitute_pascal substitute_pascal pascal_repl_ok s) as H.
  rewrite pascal_re_sub in H.
  assert (pascal_case (utf8 s) = pascal_case (map phi s)) as E by (unfold pascal_case; rewrite (words_utf8 s V); reflexivity).
  rewrite E, H. apply utf8_ascii. rewrite <- H.
  apply (forallb_impl is_alnum); [apply alnum_not_x80|apply pascal_alnum].
Qed.

Theorem camel_case_code_points s : forallb valid_cp s = true ->
  option_map utf8 (camel_case_cp s) = Some (camel_case (utf8 s)).
Proof.
  intros V. unfold camel_case_cp, pascal_case_cp, cp_sub_pattern. rewrite parse_pascal. cbn [option_map]. f_equal.
  pose proof (re_sub_hom cp_code byte_code phi pascal_re pascal_re_ok cp_substitute_pascal substitute_pascal pascal_repl_ok s) as H.
  rewrite pascal_re_sub in H.
  assert (camel_case (utf8 s) = camel_case (map phi s)) as E by (unfold camel_case, pascal_case; rewrite (words_utf8 s V); reflexivity).
  rewrite E. unfold camel_case at 1. rewrite H, phi_lowercase_first. apply utf8_ascii.
  rewrite <- phi_lowercase_first, <- H. fold (camel_case (map phi s)).
  apply (forallb_impl is_alnum); [apply alnum_not_x80|apply camel_alnum].
Qed.
