(* C06: an explicit-presence field that was set — by attribute assignment, by the constructor or
   by parse — contributes a record with its number to bytes(m); the lazy-path witness (K12). *)
From BP Require Import Base.Prelude Model.Types Model.Varint Model.Object Model.Eq Model.Encode Model.Decode.
From BP Require Import Model.WellFormed Model.C06Obs.
From BP Require Import gen.Tables Spec.Varint Spec.C06Wire.
From BP Require Import Proofs.C06SpecP Proofs.C06LoopP Proofs.C06EncP Proofs.C06StoreP Proofs.C06DecP Proofs.C06PresP.

(* bytes(m) contains, as a contiguous segment, a contribution of field i that starts with the tag
   (number of f, wire type of f's proto type) *)
Definition emitted_in (sc : schema) (o : obj) (i : nat) (f : fdesc) : Prop :=
  forall all, enc_obj sc o = Ok all ->
  exists pre h post, all = pre ++ h ++ post /\ here sc (ocur o) i (raw_at o i) f = Ok h /\
                     starts_with_tag (fnum f) (base_wire_type (fty f)) h.

Lemma wf_num_range sc ng f : wf_field sc ng f = true -> 1 <= fnum f < 2 ^ 29.
Proof.
  unfold wf_field. intros W. apply andb_prop in W as [W _]. apply andb_prop in W as [W _].
  apply andb_prop in W as [A B]. lia.
Qed.

Lemma wf_singular_fmap sc ng f :
  wf_field sc ng f = true -> singular_hint (fhint f) = true -> fmap f = None.
Proof.
  unfold wf_field. intros W Hs. apply andb_prop in W as [_ W].
  destruct (fhint f) as [p|p|p|k v]; try discriminate.
  - destruct (fmap f); [|reflexivity]. cbn in W. rewrite ?andb_false_r, ?andb_false_l in W.
    repeat (apply andb_prop in W as [W ?]); discriminate.
  - destruct (fmap f); [|reflexivity]. cbn in W. discriminate.
Qed.

Lemma wf_group_plain sc ng f g :
  wf_field sc ng f = true -> fgroup f = Some g -> exists p, fhint f = HPlain p.
Proof.
  unfold wf_field. intros W G. rewrite G in W. apply andb_prop in W as [_ W].
  destruct (fhint f) as [p|p|p|k v]; [eauto| | |]; cbn in W; rewrite ?andb_false_r, ?andb_false_l in W;
    repeat (apply andb_prop in W as [W ?]); discriminate.
Qed.

Lemma nth_error_of_nth {A} (l : list A) i d : (i < length l)%nat -> nth_error l i = Some (nth i l d).
Proof. revert i. induction l; destruct i; cbn; intros; try lia; auto. apply IHl. lia. Qed.

Lemma emit_explicit_state sc ng o i f :
  wf_field sc ng f = true ->
  nth_error (fields_of sc o) i = Some f -> length (oraw o) = length (fields_of sc o) ->
  singular_hint (fhint f) = true ->
  explicit_kind (ocur o) i f -> is_value (raw_at o i) -> singular_value (raw_at o i) ->
  emitted_in sc o i f.
Proof.
  intros W Hf Hl Hs Hk Hv Hsv all Hall.
  destruct o as [c raw sow unk cur]. unfold fields_of, raw_at in *. cbn [ocls oraw ocur] in *.
  assert (Hx : nth_error raw i = Some (nth i raw PPlaceholder)).
  { apply nth_error_of_nth. rewrite Hl. eapply nth_error_lt. exact Hf. }
  destruct (enc_obj_split sc c raw sow unk cur i _ f all Hx Hf Hall) as (pre & h & post & Hh & ->).
  exists pre, h, post. split; [reflexivity|]. split; [exact Hh|].
  eapply explicit_emit_here; try eassumption.
  - eapply wf_num_range. exact W.
  - eapply wf_singular_fmap; eassumption.
Qed.

Lemma marked_value sc v : is_value v -> is_value (marked sc v).
Proof.
  intros [A B]. unfold marked. destruct (fieldless sc v); [|split; assumption].
  destruct v; cbn [mark_sow]; try (split; assumption). destruct o. split; discriminate.
Qed.

Lemma marked_singular sc v : singular_value v -> singular_value (marked sc v).
Proof.
  intros A. unfold marked. destruct (fieldless sc v); [|assumption].
  destruct v; cbn [mark_sow]; try assumption. destruct o. intros l. discriminate.
Qed.

(* the kinds with explicit presence, as a property of the field alone *)
Definition explicit_field (f : fdesc) : Prop := optional_like f \/ exists g, fgroup f = Some g.

Lemma explicit_field_singular sc ng f :
  wf_field sc ng f = true -> explicit_field f -> singular_hint (fhint f) = true.
Proof.
  intros W [Ho|(g & G)].
  - destruct (optional_like_hint _ _ _ W Ho) as (t & ->). reflexivity.
  - destruct (wf_group_plain _ _ _ _ W G) as (p & ->). reflexivity.
Qed.

(* ---- way 2: attribute assignment ---- *)
Theorem emit_after_setattr sc o i f v :
  wf_schema sc = true ->
  nth_error (fields_of sc o) i = Some f ->
  length (oraw o) = length (fields_of sc o) -> length (ocur o) = cngroups (get_class sc (ocls o)) ->
  explicit_field f -> is_value v -> singular_value v ->
  emitted_in sc (setattr sc o i v) i f /\
  (forall g, fgroup f = Some g -> which_one_of (setattr sc o i v) g = Some i).
Proof.
  intros W Hf Hl Hc He Hv Hs.
  pose proof (wf_field_of sc (ocls o) f W (nth_error_In _ _ Hf)) as Wf.
  assert (Hgl : forall g, fgroup f = Some g -> (g < length (ocur o))%nat).
  { intros g G. rewrite Hc. eapply wf_group_lt; eassumption. }
  pose proof (setattr_effect sc o i f v Hf Hl Hgl) as E.
  pose proof (effect_fields _ _ _ _ _ _ E) as Efs.
  split.
  - eapply emit_explicit_state.
    + exact Wf.
    + rewrite Efs. exact Hf.
    + rewrite Efs, (ef_len _ _ _ _ _ _ E). exact Hl.
    + eapply explicit_field_singular; eassumption.
    + destruct He as [Ho|(g & G)]; [left; exact Ho|right].
      unfold group_selects. rewrite G, (effect_selected _ _ _ _ _ _ E g G). cbn. rewrite Nat.eqb_refl. reflexivity.
    + rewrite (ef_here _ _ _ _ _ _ E). apply marked_value. exact Hv.
    + rewrite (ef_here _ _ _ _ _ _ E). apply marked_singular. exact Hs.
  - intros g G. unfold which_one_of. apply (effect_selected _ _ _ _ _ _ E g G).
Qed.

(* ---- way 3: parse ---- *)
Lemma good_singular sc o j f :
  good sc o -> nth_error (fields_of sc o) j = Some f -> singular_hint (fhint f) = true ->
  singular_value (raw_at o j).
Proof.
  intros (_ & _ & Hg) Hf Hs l E. specialize (Hg j f Hf). rewrite E in Hg. destruct Hg as (t & Ht).
  rewrite Ht in Hs. discriminate.
Qed.

Theorem emit_after_parse_optional sc c bs rs m j f :
  wf_schema sc = true -> std_builtins_b sc = true ->
  is_records rs bs -> parse sc c bs = Ok m ->
  nth_error (cfields (get_class sc c)) j = Some f -> optional_like f ->
  has_record f rs = true -> emitted_in sc m j f.
Proof.
  intros W Sb Hrs Hp Hf Hol Hr.
  destruct (parse_presence sc c bs rs m W Sb Hrs Hp) as ((I1 & _ & _) & G & C).
  pose proof (wf_field_of sc c f W (nth_error_In _ _ Hf)) as Wf.
  assert (Hs : singular_hint (fhint f) = true) by (eapply explicit_field_singular; [exact Wf|left; exact Hol]).
  assert (Hfm : nth_error (fields_of sc m) j = Some f) by (unfold fields_of; rewrite C; exact Hf).
  rewrite C in I1. destruct (I1 j f Hf (proj1 Hol) Hs) as [It _]. destruct (It Hr) as [Hv _].
  eapply emit_explicit_state; try eassumption.
  - apply G.
  - left. exact Hol.
  - eapply good_singular; eassumption.
Qed.

Theorem emit_after_parse_oneof sc c bs rs m g i f :
  wf_schema sc = true -> std_builtins_b sc = true ->
  is_records rs bs -> parse sc c bs = Ok m ->
  nth_error (cfields (get_class sc c)) i = Some f ->
  last_member (get_class sc c) g rs = Some i ->
  which_one_of m g = Some i /\ emitted_in sc m i f.
Proof.
  intros W Sb Hrs Hp Hf Hlast.
  destruct (parse_presence sc c bs rs m W Sb Hrs Hp) as ((_ & I2 & I3) & G & C).
  pose proof (wf_field_of sc c f W (nth_error_In _ _ Hf)) as Wf.
  assert (Hsel : nth g (ocur m) None = Some i) by (rewrite I2, C; exact Hlast).
  split; [exact Hsel|].
  pose proof (last_member_in_group _ _ _ _ Hlast) as Hin.
  rewrite (in_group_spec _ g i f Hf) in Hin. apply opt_nat_eqb_eq in Hin.
  assert (Hfm : nth_error (fields_of sc m) i = Some f) by (unfold fields_of; rewrite C; exact Hf).
  assert (Hs : singular_hint (fhint f) = true) by (eapply explicit_field_singular; [exact Wf|right; eauto]).
  eapply emit_explicit_state; try eassumption.
  - apply G.
  - right. unfold group_selects. rewrite Hin, Hsel. cbn. rewrite Nat.eqb_refl. reflexivity.
  - eapply I3. exact Hsel.
  - eapply good_singular; eassumption.
Qed.
