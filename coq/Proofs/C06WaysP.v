(* C06: an explicit-presence field that was set — by attribute assignment, by the constructor or
   by parse — contributes a record with its number to bytes(m); the lazy-path witness (K12). *)
From BP Require Import Base.Prelude Model.Types Model.Varint Model.Object Model.Eq Model.Encode Model.Decode.
From BP Require Import Model.WellFormed Model.C06Obs.
From BP Require Import gen.Tables Spec.Varint Spec.C06Wire.
From BP Require Import Proofs.C06SpecP Proofs.C06LoopP Proofs.C06EncP Proofs.C06StoreP Proofs.C06DecP Proofs.C06PresP.

Lemma wf_num_range sc ng f : wf_field sc ng f = true -> 1 <= fnum f < 2 ^ 29.
Proof.
  unfold wf_field. intros W. apply andb_prop in W as [W _]. apply andb_prop in W as [W _].
  apply andb_prop in W as [A B]. lia.
Qed.

Lemma wf_singular_fmap sc ng f :
  wf_field sc ng f = true -> singular_hint (fhint f) = true -> fmap f = None.
Proof.
  unfold wf_field. intros W Hs. apply andb_prop in W as [_ W].
  destruct (fhint f) as [p|p|p|k v]; try discriminate.
  - destruct (fmap f); [|reflexivity]. cbn in W. rewrite ?andb_false_r, ?andb_false_l in W.
    repeat (apply andb_prop in W as [W ?]); discriminate.
  - destruct (fmap f); [|reflexivity]. cbn in W. discriminate.
Qed.

Lemma wf_group_plain sc ng f g :
  wf_field sc ng f = true -> fgroup f = Some g -> exists p, fhint f = HPlain p.
Proof.
  unfold wf_field. intros W G. rewrite G in W. apply andb_prop in W as [_ W].
  destruct (fhint f) as [p|p|p|k v]; [eauto| | |]; cbn in W; rewrite ?andb_false_r, ?andb_false_l in W;
    repeat (apply andb_prop in W as [W ?]); discriminate.
Qed.

Lemma nth_error_of_nth {A} (l : list A) i d : (i < length l)%nat -> nth_error l i = Some (nth i l d).
Proof. revert i. induction l; destruct i; cbn; intros; try lia; auto. apply IHl. lia. Qed.

Lemma emit_explicit_state sc ng o i f :
  wf_field sc ng f = true ->
  nth_error (fields_of sc o) i = Some f -> length (oraw o) = length (fields_of sc o) ->
  singular_hint (fhint f) = true ->
  explicit_kind (ocur o) i f -> is_value (raw_at o i) -> singular_value (raw_at o i) ->
  emitted_in sc o i f.
Proof.
  intros W Hf Hl Hs Hk Hv Hsv all Hall.
  destruct o as [c raw sow unk cur]. unfold fields_of, raw_at in *. cbn [ocls oraw ocur] in *.
  assert (Hx : nth_error raw i = Some (nth i raw PPlaceholder)).
  { apply nth_error_of_nth. rewrite Hl. eapply nth_error_lt. exact Hf. }
  destruct (enc_obj_split sc c raw sow unk cur i _ f all Hx Hf Hall) as (pre & h & post & Hh & ->).
  exists pre, h, post. split; [reflexivity|]. split; [exact Hh|].
  eapply explicit_emit_here; try eassumption.
  - eapply wf_num_range. exact W.
  - eapply wf_singular_fmap; eassumption.
Qed.

Lemma marked_value sc v : is_value v -> is_value (marked sc v).
Proof.
  intros [A B]. unfold marked. destruct (fieldless sc v); [|split; assumption].
  destruct v; cbn [mark_sow]; try (split; assumption). destruct o. split; discriminate.
Qed.

Lemma marked_singular sc v : singular_value v -> singular_value (marked sc v).
Proof.
  intros A. unfold marked. destruct (fieldless sc v); [|assumption].
  destruct v; cbn [mark_sow]; try assumption. destruct o. intros l. discriminate.
Qed.

Lemma explicit_field_singular sc ng f :
  wf_field sc ng f = true -> explicit_field f -> singular_hint (fhint f) = true.
Proof.
  intros W [Ho|(g & G)].
  - destruct (optional_like_hint _ _ _ W Ho) as (t & ->). reflexivity.
  - destruct (wf_group_plain _ _ _ _ W G) as (p & ->). reflexivity.
Qed.

(* ---- way 2: attribute assignment ---- *)
Theorem emit_after_setattr sc o i f v :
  wf_schema sc = true ->
  nth_error (fields_of sc o) i = Some f ->
  length (oraw o) = length (fields_of sc o) -> length (ocur o) = cngroups (get_class sc (ocls o)) ->
  explicit_field f -> is_value v -> singular_value v ->
  emitted_in sc (setattr sc o i v) i f /\
  (forall g, fgroup f = Some g -> which_one_of (setattr sc o i v) g = Some i).
Proof.
  intros W Hf Hl Hc He Hv Hs.
  pose proof (wf_field_of sc (ocls o) f W (nth_error_In _ _ Hf)) as Wf.
  assert (Hgl : forall g, fgroup f = Some g -> (g < length (ocur o))%nat).
  { intros g G. rewrite Hc. eapply wf_group_lt; eassumption. }
  pose proof (setattr_effect sc o i f v Hf Hl Hgl) as E.
  pose proof (effect_fields _ _ _ _ _ _ E) as Efs.
  split.
  - eapply emit_explicit_state.
    + exact Wf.
    + rewrite Efs. exact Hf.
    + rewrite Efs, (ef_len _ _ _ _ _ _ E). exact Hl.
    + eapply explicit_field_singular; eassumption.
    + destruct He as [Ho|(g & G)]; [left; exact Ho|right].
      unfold group_selects. rewrite G, (effect_selected _ _ _ _ _ _ E g G). cbn. rewrite Nat.eqb_refl. reflexivity.
    + rewrite (ef_here _ _ _ _ _ _ E). apply marked_value. exact Hv.
    + rewrite (ef_here _ _ _ _ _ _ E). apply marked_singular. exact Hs.
  - intros g G. unfold which_one_of. apply (effect_selected _ _ _ _ _ _ E g G).
Qed.

(* ---- way 3: parse ---- *)
Lemma good_singular sc o j f :
  good sc o -> nth_error (fields_of sc o) j = Some f -> singular_hint (fhint f) = true ->
  singular_value (raw_at o j).
Proof.
  intros (_ & _ & Hg) Hf Hs l E. specialize (Hg j f Hf). rewrite E in Hg. destruct Hg as (t & Ht).
  rewrite Ht in Hs. discriminate.
Qed.

Theorem emit_after_parse_optional sc c bs rs m j f :
  wf_schema sc = true -> std_builtins_b sc = true ->
  is_records rs bs -> parse sc c bs = Ok m ->
  nth_error (cfields (get_class sc c)) j = Some f -> optional_like f ->
  has_record f rs = true -> emitted_in sc m j f.
Proof.
  intros W Sb Hrs Hp Hf Hol Hr.
  destruct (parse_presence sc c bs rs m W Sb Hrs Hp) as ((I1 & _ & _) & G & C).
  pose proof (wf_field_of sc c f W (nth_error_In _ _ Hf)) as Wf.
  assert (Hs : singular_hint (fhint f) = true) by (eapply explicit_field_singular; [exact Wf|left; exact Hol]).
  assert (Hfm : nth_error (fields_of sc m) j = Some f) by (unfold fields_of; rewrite C; exact Hf).
  rewrite C in I1. destruct (I1 j f Hf (proj1 Hol) Hs) as [It _]. destruct (It Hr) as [Hv _].
  eapply emit_explicit_state; try eassumption.
  - apply G.
  - left. exact Hol.
  - eapply good_singular; eassumption.
Qed.

Theorem emit_after_parse_oneof sc c bs rs m g i f :
  wf_schema sc = true -> std_builtins_b sc = true ->
  is_records rs bs -> parse sc c bs = Ok m ->
  nth_error (cfields (get_class sc c)) i = Some f ->
  last_member (get_class sc c) g rs = Some i ->
  which_one_of m g = Some i /\ emitted_in sc m i f.
Proof.
  intros W Sb Hrs Hp Hf Hlast.
  destruct (parse_presence sc c bs rs m W Sb Hrs Hp) as ((_ & I2 & I3) & G & C).
  pose proof (wf_field_of sc c f W (nth_error_In _ _ Hf)) as Wf.
  assert (Hsel : nth g (ocur m) None = Some i) by (rewrite I2, C; exact Hlast).
  split; [exact Hsel|].
  pose proof (last_member_in_group _ _ _ _ Hlast) as Hin.
  rewrite (in_group_spec _ g i f Hf) in Hin. apply opt_nat_eqb_eq in Hin.
  assert (Hfm : nth_error (fields_of sc m) i = Some f) by (unfold fields_of; rewrite C; exact Hf).
  assert (Hs : singular_hint (fhint f) = true) by (eapply explicit_field_singular; [exact Wf|right; eauto]).
  eapply emit_explicit_state; try eassumption.
  - apply G.
  - right. unfold group_selects. rewrite Hin, Hsel. cbn. rewrite Nat.eqb_refl. reflexivity.
  - eapply I3. exact Hsel.
  - eapply good_singular; eassumption.
Qed.

(* ---- way 1: the constructor ---- *)
Definition cur_loop : nat -> list fdesc -> list pv -> list (option nat) -> list (option nat) :=
  fix go (j : nat) (fs : list fdesc) (raw : list pv) (cur : list (option nat)) : list (option nat) :=
    match fs, raw with
    | f :: fs', v :: raw' =>
        let cur' := match fgroup f with
                    | Some g => if is_sentinel f v then cur else set_nth g (Some j) cur
                    | None => cur
                    end in
        go (Datatypes.S j) fs' raw' cur'
    | _, _ => cur
    end.

Lemma post_init_cur sc c raw :
  ocur (post_init sc c raw) =
  cur_loop 0 (cfields (get_class sc c)) raw (repeat None (cngroups (get_class sc c))).
Proof. reflexivity. Qed.

Lemma cur_loop_cons j f fs v raw cur :
  cur_loop j (f :: fs) (v :: raw) cur =
  cur_loop (S j) fs raw (match fgroup f with
                         | Some g => if is_sentinel f v then cur else set_nth g (Some j) cur
                         | None => cur
                         end).
Proof. reflexivity. Qed.

Lemma cur_loop_keep g : forall fs raw j cur,
  (forall k f x, nth_error fs k = Some f -> nth_error raw k = Some x -> fgroup f = Some g -> is_sentinel f x = true) ->
  nth g (cur_loop j fs raw cur) None = nth g cur None.
Proof.
  induction fs as [|f fs IH]; intros raw j cur H; [reflexivity|].
  destruct raw as [|v raw]; [reflexivity|]. rewrite cur_loop_cons.
  rewrite IH by (intros k f' x Hk Hx; apply (H (S k) f' x Hk Hx)).
  destruct (fgroup f) as [g'|] eqn:G; [|reflexivity].
  destruct (is_sentinel f v) eqn:Sv; [reflexivity|].
  destruct (Nat.eq_dec g' g) as [->|Ne]; [|apply nth_set_nth_neq; exact Ne].
  rewrite (H O f v eq_refl eq_refl G) in Sv. discriminate.
Qed.

Lemma cur_loop_last g : forall fs raw j cur i f x,
  nth_error fs i = Some f -> nth_error raw i = Some x -> fgroup f = Some g -> is_sentinel f x = false ->
  (forall k f' x', (i < k)%nat -> nth_error fs k = Some f' -> nth_error raw k = Some x' ->
                   fgroup f' = Some g -> is_sentinel f' x' = true) ->
  (g < length cur)%nat ->
  nth g (cur_loop j fs raw cur) None = Some (j + i)%nat.
Proof.
  induction fs as [|f0 fs IH]; intros raw j cur i f x Hf Hx G Sx Hlater Hg; [destruct i; discriminate|].
  destruct raw as [|v raw]; [destruct i; discriminate|]. rewrite cur_loop_cons.
  destruct i as [|i].
  - cbn in Hf, Hx. injection Hf as <-. injection Hx as <-. rewrite G, Sx.
    rewrite cur_loop_keep.
    + rewrite Nat.add_0_r. apply nth_set_nth_eq. exact Hg.
    + intros k f' x' Hk Hx' G'. apply (Hlater (S k) f' x'); [lia|exact Hk|exact Hx'|exact G'].
  - cbn in Hf, Hx. replace (j + S i)%nat with (S j + i)%nat by lia.
    eapply IH; try eassumption.
    + intros k f' x' Lt Hk Hx' G'. apply (Hlater (S k) f' x'); [lia|exact Hk|exact Hx'|exact G'].
    + destruct (fgroup f0); [|exact Hg]. destruct (is_sentinel f0 v); [exact Hg|]. rewrite set_nth_length. exact Hg.
Qed.

Lemma construct_raw_length sc c kw :
  length (oraw (construct sc c kw)) = length (cfields (get_class sc c)).
Proof.
  unfold construct, post_init. cbn [oraw].
  assert (H : forall r, length (fold_left (fun r '(i, v) => set_nth i (if fieldless sc v then mark_sow v else v) r) kw r) = length r).
  { induction kw as [|[i v] kw IH]; intros r; [reflexivity|]. cbn [fold_left]. rewrite IH. apply set_nth_length. }
  rewrite H. unfold new. cbn [oraw]. apply map_length.
Qed.

Lemma value_not_sentinel f x : is_value x -> is_sentinel f x = false.
Proof. intros [A B]. destruct x; try reflexivity; congruence. Qed.

Lemma construct_facts sc c kw :
  ocls (construct sc c kw) = c /\
  ocur (construct sc c kw) =
    cur_loop 0 (cfields (get_class sc c)) (oraw (construct sc c kw)) (repeat None (cngroups (get_class sc c))).
Proof. split; reflexivity. Qed.

(* whatever keyword arguments were given: if the attribute of an explicit-presence field ended up holding a
   value and (for a oneof member) no later member of its group was given too, the field is emitted *)
Theorem emit_after_construct sc c kw i f o :
  wf_schema sc = true ->
  nth_error (cfields (get_class sc c)) i = Some f -> explicit_field f ->
  o = construct sc c kw ->
  is_value (raw_at o i) -> singular_value (raw_at o i) ->
  (forall g, fgroup f = Some g ->
     forall k f', (i < k)%nat -> nth_error (cfields (get_class sc c)) k = Some f' -> fgroup f' = Some g ->
                  is_sentinel f' (raw_at o k) = true) ->
  emitted_in sc o i f /\ (forall g, fgroup f = Some g -> which_one_of o g = Some i).
Proof.
  intros W Hf He Eo Hv Hs Hlater.
  pose proof (wf_field_of sc c f W (nth_error_In _ _ Hf)) as Wf.
  pose proof (construct_raw_length sc c kw) as Hl.
  destruct (construct_facts sc c kw) as [Hcls Hcur].
  rewrite <- Eo in Hl, Hcls, Hcur. clear Eo.
  assert (Hsel : forall g, fgroup f = Some g -> nth g (ocur o) None = Some i).
  { intros g G. rewrite Hcur.
    apply (cur_loop_last g (cfields (get_class sc c)) (oraw o) O _ i f (raw_at o i) Hf).
    - apply nth_error_of_nth. rewrite Hl. eapply nth_error_lt. exact Hf.
    - exact G.
    - apply value_not_sentinel. exact Hv.
    - intros k f' x' Lt Hk Hx' G'. specialize (Hlater g G k f' Lt Hk G').
      unfold raw_at in Hlater. rewrite (nth_error_nth _ _ _ Hx') in Hlater. exact Hlater.
    - rewrite repeat_length. eapply wf_group_lt; eassumption. }
  split; [|intros g G; apply Hsel; exact G].
  apply (emit_explicit_state sc (cngroups (get_class sc c)) o i f Wf).
  - unfold fields_of. rewrite Hcls. exact Hf.
  - unfold fields_of. rewrite Hcls. exact Hl.
  - eapply explicit_field_singular; eassumption.
  - destruct He as [Ho|(g & G)]; [left; exact Ho|right].
    unfold group_selects. rewrite G, (Hsel g G). cbn. rewrite Nat.eqb_refl. reflexivity.
  - exact Hv.
  - exact Hs.
Qed.

(* ---- K12: assignment through lazily created intermediates ---- *)
Definition k12_schema : schema :=
  mkS (builtin_classes ++
       [mkC [mkF [x78] 1 TInt32 None None None false (HPlain PyInt) 0;
             mkF [x72; x65; x63] 3 TMessage None None None false (HPlain (PyMsg 11)) 0] 0]) [].

(* m = Inner(); m.rec.rec.x = v *)
Definition k12_after (v : Z) : result obj := assign_path k12_schema (new k12_schema 11) [1%nat; 1%nat] 0 (PInt v).

(* serialized_on_wire(m.rec.rec) is True, yet bytes(m) is empty: nothing tells the intermediates *)
Lemma lazy_path_default_witness :
  wf_schema k12_schema = true /\
  exists m leaf, k12_after 0 = Ok m /\ descend k12_schema m [1%nat; 1%nat] = Ok leaf /\
                 osow leaf = true /\ enc_obj k12_schema m = Ok [].
Proof.
  split; [vm_compute; reflexivity|].
  exists (Obj 11 [PPlaceholder; PMsg (Obj 11 [PPlaceholder; PMsg (Obj 11 [PInt 0; PPlaceholder] true [] [])] false [] [])] false [] []),
         (Obj 11 [PInt 0; PPlaceholder] true [] []).
  repeat split; vm_compute; reflexivity.
Qed.

(* with a non-default value the intermediate m.rec IS emitted although serialized_on_wire(m.rec) is False *)
Lemma lazy_path_nondefault_witness :
  exists m child, k12_after 5 = Ok m /\ descend k12_schema m [1%nat] = Ok child /\
                  osow child = false /\ child_on_wire m 1 = false /\
                  enc_obj k12_schema m = Ok [x1a; x04; x1a; x02; x08; x05].
Proof.
  exists (Obj 11 [PPlaceholder; PMsg (Obj 11 [PPlaceholder; PMsg (Obj 11 [PInt 5; PPlaceholder] true [] [])] false [] [])] false [] []),
         (Obj 11 [PPlaceholder; PMsg (Obj 11 [PInt 5; PPlaceholder] true [] [])] false [] []).
  repeat split; vm_compute; reflexivity.
Qed.
