(* Independent specification for C19, continued: casing.py on a Python str seen as its CODE POINTS (what CPython's re
   works on), and UTF-8.  Model/Casing.v and the rest of the framework represent a str by its UTF-8 bytes; the
   theorems C19_*_code_points (Proofs/CasingX7.v, X8.v) show that this changes nothing for snake_case / pascal_case /
   camel_case: run on the code points and encoded afterwards, or run by the model on the encoded bytes - same result.

   The regex matcher is the one of Spec/C19Regex.v, instantiated at A = N with the identity as character code: a set
   such as [^a-zA-Z0-9] then matches one code point, whatever its size in UTF-8.
   str.lower() / str.capitalize() are modelled on ASCII letters only; the callbacks only ever receive a word
   [A-Za-z0-9]*, on which that is what CPython does. *)
From BP Require Import Base.Prelude Spec.C19Regex.
From BP Require gen.C19Tables.
Local Open Scope N_scope.

Definition cp_code : N -> N := fun c => c.

Definition bN (n : N) : byte := match Byte.of_N n with Some b => b | None => x00 end.

(* UTF-8 of one code point below 0x110000 (a lone surrogate, which a Python str may hold, is encoded like any other
   three-byte value) *)
Definition utf8_cp (c : N) : list byte :=
  if c <? 128 then [bN c]
  else if c <? 2048 then [bN (192 + c / 64); bN (128 + c mod 64)]
  else if c <? 65536 then [bN (224 + c / 4096); bN (128 + (c / 64) mod 64); bN (128 + c mod 64)]
  else [bN (240 + c / 262144); bN (128 + (c / 4096) mod 64); bN (128 + (c / 64) mod 64); bN (128 + c mod 64)].
Definition utf8 (s : list N) : list byte := flat_map utf8_cp s.
Definition valid_cp (c : N) : bool := c <? 1114112.

Definition cp_lower1 (c : N) : N := if (65 <=? c) && (c <=? 90) then c + 32 else c.
Definition cp_upper1 (c : N) : N := if (97 <=? c) && (c <=? 122) then c - 32 else c.
Definition cp_lower (w : list N) : list N := map cp_lower1 w.
Definition cp_capitalize (w : list N) : list N := match w with [] => [] | c :: r => cp_upper1 c :: cp_lower r end.
Definition cp_lowercase_first (s : list N) : list N := match s with [] => [] | c :: r => cp_lower1 c :: r end.

(* the callbacks of casing.py (strict mode), as in Spec/C19Regex.v *)
Definition cp_substitute_snake (caps : list (nat * list N)) : list N :=
  let word := group_str 3 caps in
  let is_start := match group 1 caps with Some _ => true | None => false end in
  match word with
  | [] => []
  | _ => (if is_start then [] else [95]) ++ cp_lower word
  end.
Definition cp_substitute_pascal (caps : list (nat * list N)) : list N := cp_capitalize (group_str 2 caps).

Definition cp_sub_pattern (pattern : list byte) (repl : list (nat * list N) -> list N) (s : list N) : option (list N) :=
  match parse pattern with Some r => Some (re_sub cp_code r repl s) | None => None end.

Definition snake_case_cp (s : list N) : option (list N) := cp_sub_pattern C19Tables.snake_pattern cp_substitute_snake s.
Definition pascal_case_cp (s : list N) : option (list N) := cp_sub_pattern C19Tables.pascal_pattern cp_substitute_pascal s.
Definition camel_case_cp (s : list N) : option (list N) :=
  match pascal_case_cp s with Some p => Some (cp_lowercase_first p) | None => None end.

(* for the correspondence check: the three functions on a str given by its code points, result as UTF-8 *)
Definition cp_case (s : list N) : cv :=
  match snake_case_cp s, pascal_case_cp s, camel_case_cp s with
  | Some a, Some b, Some c => CL [CB (utf8 a); CB (utf8 b); CB (utf8 c)]
  | _, _, _ => CN
  end.
