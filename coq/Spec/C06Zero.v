(* L0 for C06, second part: the zero value of each scalar proto type as the Python value a user passes, with what the
   wire format prescribes for it: (wire type, the bytes that follow the tag, the payload field of the record).
   varint 0 is the single byte 00; an empty string / bytes is the length byte 00; fixed-width zeros are 4 / 8 zero bytes. *)
From BP Require Import Base.Prelude Model.Types Model.Object.

Definition zero_record (t : ptype) (x : pv) : option (Z * list byte * list byte) :=
  (* wire type, bytes after the tag, rbytes of the record *)
  match t, x with
  | (TEnum | TInt32 | TInt64 | TUInt32 | TUInt64 | TSInt32 | TSInt64), PInt 0 => Some (0, [x00], [])
  | TBool, PBool false => Some (0, [x00], [])
  | TString, PStr [] => Some (2, [x00], [])
  | TBytes, PBytes [] => Some (2, [x00], [])
  | (TFixed32 | TSFixed32), PInt 0 => Some (5, [x00; x00; x00; x00], [x00; x00; x00; x00])
  | (TFixed64 | TSFixed64), PInt 0 =>
      Some (1, [x00; x00; x00; x00; x00; x00; x00; x00], [x00; x00; x00; x00; x00; x00; x00; x00])
  | TDouble, PFloat 0 =>
      Some (1, [x00; x00; x00; x00; x00; x00; x00; x00], [x00; x00; x00; x00; x00; x00; x00; x00])
  | TFloat, PFloat 0 => Some (5, [x00; x00; x00; x00], [x00; x00; x00; x00])
  | _, _ => None
  end.

