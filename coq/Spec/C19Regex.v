(* Independent specification for C19: what Python's  re.sub(pattern, callable, string)  MEANS for the
   regex subset casing.py uses, and casing.snake_case / pascal_case (strict mode) written exactly as the
   source does: one re.sub over the PATTERN STRING with the substitute_word callback.

   Nothing here knows about words or scanners.  Model/Casing.v implements the same functions by a hand-derived
   deterministic scanner; Proofs/CasingX4..X6.v prove that the scanner computes what this specification says, for
   every byte string, starting from the pattern strings regenerated from the live module (gen/C19Tables.v).

   - [parse]: pattern text -> AST, for the subset: character sets [..] / [^..] with ranges, literal characters,
     ^, ( ) capturing groups numbered by their opening parenthesis, (?! ) negative lookahead, | alternation,
     greedy * + ? (not on ^ or a lookahead).  Anything else (backslash, {m,n}, lazy quantifiers, ., $, flags ...) makes [parse] fail (fail closed).
   - [m]: the backtracking matcher in continuation-passing style.  Priority order is Python's: alternation left
     to right, greedy quantifiers try one more iteration first and give back on failure; captures are undone on
     backtracking (they live in the threaded state); a group that did not take part stays unset (None).
   - [re_sub]: the loop of CPython's pattern_subx: search the leftmost match from the current position; an empty
     match is not allowed at the position where the previous match was empty (must_advance); text between matches
     is copied; the loop ends when the search fails.
   Strings are UTF-8 bytes (see the header of Model/Casing.v for why this is right for these patterns). *)
From BP Require Import Base.Prelude.
From BP Require Model.Casing gen.C19Tables.

(* ---------------------------------------------------------------- syntax *)
Record cset := mk_cset { cs_neg : bool; cs_ranges : list (N * N) }.

Inductive re :=
| REps
| RSet (c : cset)          (* one character of the set *)
| RBol                     (* ^ (no MULTILINE flag: start of the string only) *)
| RSeq (a b : re)
| RAlt (a b : re)
| RStar (a : re)
| RPlus (a : re)
| ROpt (a : re)
| RGroup (n : nat) (a : re)
| RNegLook (a : re).

Definition in_ranges (n : N) (rs : list (N * N)) : bool :=
  existsb (fun r => (fst r <=? n)%N && (n <=? snd r)%N) rs.

(* ---------------------------------------------------------------- parser (fail closed) *)
Definition ch (b : byte) : N := Byte.to_N b.
Definition isb (b : byte) (n : N) : bool := (ch b =? n)%N.
(* \ . $ { } [ ] ( ) * + ? | ^ *)
Definition is_meta (b : byte) : bool :=
  existsb (isb b) [92; 46; 36; 123; 125; 91; 93; 40; 41; 42; 43; 63; 124; 94]%N.

(* the items of a set up to the closing bracket:  c  or  c-d *)
Fixpoint p_items (l : list byte) (acc : list (N * N)) : option (list (N * N) * list byte) :=
  match l with
  | [] => None
  | a :: t =>
      if isb a 93 then (match acc with [] => None | _ => Some (rev acc, t) end)
      else if isb a 92 || isb a 91 then None
      else match t with
           | d :: hi :: t' =>
               if isb d 45 && negb (isb hi 93)
               then (if isb hi 92 || isb hi 91 then None
                     else if (ch a <=? ch hi)%N then p_items t' ((ch a, ch hi) :: acc) else None)
               else p_items t ((ch a, ch a) :: acc)
           | _ => p_items t ((ch a, ch a) :: acc)
           end
  end.

Definition quant (a : re) (t : list byte) : re * list byte :=
  match t with
  | q :: t' => if isb q 42 then (RStar a, t') else if isb q 43 then (RPlus a, t')
               else if isb q 63 then (ROpt a, t') else (a, t)
  | [] => (a, t)
  end.

(* g = number of groups opened so far *)
Fixpoint p_alt (n : nat) (l : list byte) (g : nat) : option (re * list byte * nat) :=
  match n with
  | O => None
  | S n' =>
      match p_seq n' l g with
      | Some (a, t, g') =>
          match t with
          | bar :: t1 => if isb bar 124
                         then match p_alt n' t1 g' with
                              | Some (b, t2, g'') => Some (RAlt a b, t2, g'')
                              | None => None
                              end
                         else Some (a, t, g')
          | [] => Some (a, t, g')
          end
      | None => None
      end
  end
with p_seq (n : nat) (l : list byte) (g : nat) : option (re * list byte * nat) :=
  match n with
  | O => None
  | S n' =>
      match l with
      | [] => Some (REps, [], g)
      | c :: _ =>
          if isb c 124 || isb c 41 then Some (REps, l, g)
          else match p_atom n' l g with
               | Some (a, t, g') =>
                   let '(a', t') := match a with RBol | RNegLook _ => (a, t) | _ => quant a t end in
                   match p_seq n' t' g' with
                   | Some (REps, t'', g'') => Some (a', t'', g'')
                   | Some (b, t'', g'') => Some (RSeq a' b, t'', g'')
                   | None => None
                   end
               | None => None
               end
      end
  end
with p_atom (n : nat) (l : list byte) (g : nat) : option (re * list byte * nat) :=
  match n with
  | O => None
  | S n' =>
      match l with
      | [] => None
      | c :: t =>
          if isb c 91 then
            match t with
            | h :: t1 => if isb h 94
                         then match p_items t1 [] with Some (rs, t2) => Some (RSet (mk_cset true rs), t2, g) | None => None end
                         else match p_items t [] with Some (rs, t2) => Some (RSet (mk_cset false rs), t2, g) | None => None end
            | [] => None
            end
          else if isb c 40 then
            match t with
            | q :: t1 =>
                if isb q 63 then
                  match t1 with
                  | e :: t2 => if isb e 33
                               then match p_alt n' t2 g with
                                    | Some (a, cl :: t3, g') => if isb cl 41 then Some (RNegLook a, t3, g') else None
                                    | _ => None
                                    end
                               else None
                  | [] => None
                  end
                else match p_alt n' t (S g) with
                     | Some (a, cl :: t3, g') => if isb cl 41 then Some (RGroup (S g) a, t3, g') else None
                     | _ => None
                     end
            | [] => None
            end
          else if isb c 94 then Some (RBol, t, g)
          else if is_meta c then None
          else Some (RSet (mk_cset false [(ch c, ch c)]), t, g)
      end
  end.

(* the AST and the number of capturing groups *)
Definition parse_groups (l : list byte) : option (re * nat) :=
  match p_alt (4 * length l + 8) l 0 with
  | Some (r, [], g) => Some (r, g)
  | _ => None
  end.
Definition parse (l : list byte) : option re :=
  match parse_groups l with Some (r, _) => Some r | None => None end.

(* ---------------------------------------------------------------- matcher *)
(* The matcher is generic in the character type A: [code] gives the code of a character, which is all a character set
   looks at.  Two instances are used: A = byte with [byte_code] (a str as its UTF-8 bytes, what Model/Casing.v works on)
   and A = N with [cp_code] (a str as its code points, what CPython works on; Spec/C19Unicode.v). *)
Definition in_cset {A} (code : A -> N) (c : cset) (x : A) : bool :=
  xorb (cs_neg c) (in_ranges (code x) (cs_ranges c)).
Definition byte_code : byte -> N := Byte.to_N.

Record mst (A : Type) := mk_mst {
  m_pos : nat;                       (* absolute position in the subject string *)
  m_rem : list A;                    (* the rest of the subject from here *)
  m_caps : list (nat * list A) }.    (* captured groups, most recent first *)
Arguments mk_mst {A}.
Arguments m_pos {A}.
Arguments m_rem {A}.
Arguments m_caps {A}.
Definition K (A : Type) := mst A -> option (mst A).

(* greedy repetition: one more iteration and then, if it consumed something, possibly further ones; an iteration that
   consumed nothing is kept but ends the repetition (sre's zero-width protection in MAX_UNTIL); if that path fails,
   stop before the iteration *)
Fixpoint star {A} (ma : mst A -> K A -> option (mst A)) (fuel : nat) (s : mst A) (k : K A) : option (mst A) :=
  match fuel with
  | O => k s
  | S f =>
      match ma s (fun s' => if (length (m_rem s') <? length (m_rem s))%nat then star ma f s' k else k s') with
      | Some x => Some x
      | None => k s
      end
  end.

Fixpoint m {A} (code : A -> N) (r : re) (s : mst A) (k : K A) {struct r} : option (mst A) :=
  match r with
  | REps => k s
  | RSet c => match m_rem s with
              | b :: t => if in_cset code c b then k (mk_mst (S (m_pos s)) t (m_caps s)) else None
              | [] => None
              end
  | RBol => if (m_pos s =? 0)%nat then k s else None
  | RSeq a b => m code a s (fun s' => m code b s' k)
  | RAlt a b => match m code a s k with Some x => Some x | None => m code b s k end
  | RStar a => star (m code a) (S (length (m_rem s))) s k
  | RPlus a => m code a s (fun s' => star (m code a) (S (length (m_rem s'))) s' k)
  | ROpt a => match m code a s k with Some x => Some x | None => k s end
  | RGroup n a =>
      m code a s (fun s' => k (mk_mst (m_pos s') (m_rem s')
                                      ((n, firstn (length (m_rem s) - length (m_rem s')) (m_rem s)) :: m_caps s')))
  | RNegLook a => match m code a s (fun s' => Some s') with Some _ => None | None => k s end
  end.

(* match object: group(n), None when the group did not take part *)
Definition group {A} (n : nat) (caps : list (nat * list A)) : option (list A) :=
  match find (fun p => (fst p =? n)%nat) caps with Some p => Some (snd p) | None => None end.
Definition group_str {A} (n : nat) (caps : list (nat * list A)) : list A :=
  match group n caps with Some x => x | None => [] end.

(* ---------------------------------------------------------------- re.sub with a callable *)
(* the first match, in priority order, that starts exactly here *)
Definition match_here {A} (code : A -> N) (r : re) (pos : nat) (rem : list A) (must_advance : bool) : option (mst A) :=
  m code r (mk_mst pos rem [])
    (fun s' => if must_advance && (length (m_rem s') =? length rem)%nat then None else Some s').

(* leftmost match at or after this position: (text skipped before it, final state) *)
Fixpoint search {A} (code : A -> N) (r : re) (pos : nat) (rem : list A) (must_advance : bool)
  : option (list A * mst A) :=
  match match_here code r pos rem must_advance with
  | Some s' => Some ([], s')
  | None =>
      match rem with
      | [] => None
      | c :: t => match search code r (S pos) t false with
                  | Some (skipped, s') => Some (c :: skipped, s')
                  | None => None
                  end
      end
  end.

Fixpoint sub_go {A} (code : A -> N) (r : re) (repl : list (nat * list A) -> list A) (fuel pos : nat) (rem : list A)
                (must_advance : bool) : list A :=
  match fuel with
  | O => rem
  | S f =>
      match search code r pos rem must_advance with
      | None => rem
      | Some (skipped, s') =>
          skipped ++ repl (m_caps s')
          ++ sub_go code r repl f (m_pos s') (m_rem s') ((length skipped + length (m_rem s') =? length rem)%nat)
      end
  end.

(* every iteration consumes a character or is an empty match followed by one that must advance *)
Definition re_sub {A} (code : A -> N) (r : re) (repl : list (nat * list A) -> list A) (s : list A) : list A :=
  sub_go code r repl (2 * length s + 2) 0 s false.

(* ---------------------------------------------------------------- casing.py, strict mode, as written *)
(*  def substitute_word(symbols, word, is_start):
        if not word: return ""
        delimiter_count = 0 if is_start else 1
        return ("_" * delimiter_count) + word.lower()
    re.sub(f"(^)?({SYMBOLS})({WORD_UPPER}|{WORD})",
           lambda groups: substitute_word(groups[2], groups[3], groups[1] is not None), value)          *)
Definition substitute_snake (caps : list (nat * list byte)) : list byte :=
  let word := group_str 3 caps in
  let is_start := match group 1 caps with Some _ => true | None => false end in
  match word with
  | [] => []
  | _ => (if is_start then [] else [Casing.us]) ++ Casing.lower word
  end.

(*  def substitute_word(symbols, word): return word.capitalize()
    re.sub(f"({SYMBOLS})({WORD_UPPER}|{WORD})", lambda groups: substitute_word(groups[1], groups[2]), value) *)
Definition substitute_pascal (caps : list (nat * list byte)) : list byte :=
  Casing.capitalize (group_str 2 caps).

Definition sub_pattern (pattern : list byte) (repl : list (nat * list byte) -> list byte) (s : list byte)
  : option (list byte) :=
  match parse pattern with Some r => Some (re_sub byte_code r repl s) | None => None end.

(* on the pattern strings handed to re.sub by the live module *)
Definition snake_case_spec (s : list byte) : option (list byte) := sub_pattern C19Tables.snake_pattern substitute_snake s.
Definition pascal_case_spec (s : list byte) : option (list byte) := sub_pattern C19Tables.pascal_pattern substitute_pascal s.
Definition camel_case_spec (s : list byte) : option (list byte) :=
  match pascal_case_spec s with Some p => Some (Casing.lowercase_first p) | None => None end.

(* ---------------------------------------------------------------- for the correspondence check of this specification
   with CPython's re (harness/props/c19.py, stage "regex spec"): re.sub with a callback that shows every group,
     lambda m: "<" + "".join((g if g is not None else "~") + "|" for g in m.groups()) + ">"                          *)
Definition show_groups (n : nat) (caps : list (nat * list byte)) : list byte :=
  [x3c] ++ concat (map (fun i => match group i caps with Some x => x ++ [x7c] | None => [x7e; x7c] end) (seq 1 n)) ++ [x3e].
Definition sub_show (pattern subject : list byte) : cv :=
  match parse_groups pattern with
  | Some (r, g) => CB (re_sub byte_code r (show_groups g) subject)
  | None => CN
  end.
