(* Spec/PyImport.v — what Python's import statements bind, and what a dotted
   annotation string denotes inside a module.  Written from the Python language
   reference (import system, "from ... import", relative imports: PEP 328),
   independently of betterproto: nothing here mentions how the plugin builds its
   strings.

   World: a set of importable packages (absolute dotted paths, as lists of
   segments) and, per package, the class names its module defines at top level.
   A value is a module object or a class object of a module.

   Modelled: the FINAL bindings once every import has completed.  The order in
   which circularly dependent packages are initialised (the reason betterproto
   puts these imports at the bottom of the module) is not modelled here; it is
   exercised for real by the generation tie of harness/props/c13.py.

   Statement syntax accepted (a subset of Python's, one space between tokens,
   exactly the canonical spelling):
       import a.b.c as z
       from <dots><a.b> import n
       from <dots><a.b> import n as z
   with at least one dot or one module segment after `from`.  Anything else is
   rejected (None), so a theorem "the statement denotes X" can never be satisfied
   by a string Python would not read this way. *)
From BP Require Import Base.Prelude.
Local Open Scope nat_scope.

Notation name := (list byte) (only parsing).
Notation path := (list (list byte)) (only parsing).

Inductive value :=
| VMod (p : path)                 (* the module object of package p *)
| VCls (p : path) (n : name).     (* the class named n defined by the module of package p *)

Record world := {
  w_pkg : path -> bool;           (* p is an importable package (a directory on the path, __init__.py or namespace) *)
  w_cls : path -> name -> bool    (* the module of p defines class n at top level *)
}.

(* ---- characters ---- *)
Definition c_dot : byte := x2e.
Definition c_us : byte := x5f.
Definition c_space : byte := x20.
Definition c_quote : byte := x22.

Definition in_range (lo hi : N) (c : byte) : bool :=
  let n := Byte.to_N c in (N.leb lo n && N.leb n hi)%bool.
Definition is_upper (c : byte) : bool := in_range 65 90 c.
Definition is_lower (c : byte) : bool := in_range 97 122 c.
Definition is_digit (c : byte) : bool := in_range 48 57 c.
Definition is_ident_start (c : byte) : bool := is_upper c || is_lower c || Byte.eqb c c_us.
Definition is_ident_char (c : byte) : bool := is_ident_start c || is_digit c.

Definition py_keywords : list name :=
  [[x46; x61; x6c; x73; x65]  (* False *);
   [x4e; x6f; x6e; x65]  (* None *);
   [x54; x72; x75; x65]  (* True *);
   [x61; x6e; x64]  (* and *);
   [x61; x73]  (* as *);
   [x61; x73; x73; x65; x72; x74]  (* assert *);
   [x61; x73; x79; x6e; x63]  (* async *);
   [x61; x77; x61; x69; x74]  (* await *);
   [x62; x72; x65; x61; x6b]  (* break *);
   [x63; x6c; x61; x73; x73]  (* class *);
   [x63; x6f; x6e; x74; x69; x6e; x75; x65]  (* continue *);
   [x64; x65; x66]  (* def *);
   [x64; x65; x6c]  (* del *);
   [x65; x6c; x69; x66]  (* elif *);
   [x65; x6c; x73; x65]  (* else *);
   [x65; x78; x63; x65; x70; x74]  (* except *);
   [x66; x69; x6e; x61; x6c; x6c; x79]  (* finally *);
   [x66; x6f; x72]  (* for *);
   [x66; x72; x6f; x6d]  (* from *);
   [x67; x6c; x6f; x62; x61; x6c]  (* global *);
   [x69; x66]  (* if *);
   [x69; x6d; x70; x6f; x72; x74]  (* import *);
   [x69; x6e]  (* in *);
   [x69; x73]  (* is *);
   [x6c; x61; x6d; x62; x64; x61]  (* lambda *);
   [x6e; x6f; x6e; x6c; x6f; x63; x61; x6c]  (* nonlocal *);
   [x6e; x6f; x74]  (* not *);
   [x6f; x72]  (* or *);
   [x70; x61; x73; x73]  (* pass *);
   [x72; x61; x69; x73; x65]  (* raise *);
   [x72; x65; x74; x75; x72; x6e]  (* return *);
   [x74; x72; x79]  (* try *);
   [x77; x68; x69; x6c; x65]  (* while *);
   [x77; x69; x74; x68]  (* with *);
   [x79; x69; x65; x6c; x64]  (* yield *)].

Definition is_keyword (s : name) : bool := existsb (bytes_eqb s) py_keywords.

(* an ASCII Python identifier that is not a keyword (non-ASCII identifiers are
   legal Python but are rejected here: the spec is deliberately the smaller language) *)
Definition identb (s : name) : bool :=
  match s with
  | [] => false
  | c :: _ => is_ident_start c && forallb is_ident_char s && negb (is_keyword s)
  end.

(* ---- lexing ---- *)
Fixpoint split_on (c : byte) (s : list byte) : list (list byte) :=
  match s with
  | [] => [[]]
  | x :: r =>
      if Byte.eqb x c then [] :: split_on c r
      else match split_on c r with
           | h :: t => (x :: h) :: t
           | [] => [[x]]
           end
  end.

Fixpoint count_dots (s : list byte) : nat * list byte :=
  match s with
  | c :: r => if Byte.eqb c c_dot then let '(n, t) := count_dots r in (S n, t) else (0, s)
  | [] => (0, [])
  end.

Definition parse_dotted (s : list byte) : option path :=
  let segs := split_on c_dot s in
  if forallb identb segs then Some segs else None.

Inductive stmt :=
| SImport (m : path) (alias : name)                          (* import m as alias *)
| SFrom (level : nat) (sub : path) (n : name) (alias : name). (* from {level dots}sub import n as alias  (alias = n without `as`) *)

Definition parse_from_target (f : list byte) : option (nat * path) :=
  let '(lvl, rest) := count_dots f in
  match rest with
  | [] => match lvl with O => None | _ => Some (lvl, []) end
  | _ => match parse_dotted rest with Some p => Some (lvl, p) | None => None end
  end.

Definition kw_from : list byte := [x66; x72; x6f; x6d].
Definition kw_import : list byte := [x69; x6d; x70; x6f; x72; x74].
Definition kw_as : list byte := [x61; x73].

Definition parse_stmt (s : list byte) : option stmt :=
  match split_on c_space s with
  | [t0; m; t2; a] =>
      if bytes_eqb t0 kw_import && bytes_eqb t2 kw_as then
        match parse_dotted m with
        | Some p => if identb a then Some (SImport p a) else None
        | None => None
        end
      else if bytes_eqb t0 kw_from && bytes_eqb t2 kw_import then
        match parse_from_target m with
        | Some (l, p) => if identb a then Some (SFrom l p a a) else None
        | None => None
        end
      else None
  | [t0; f; t2; n; t4; a] =>
      if bytes_eqb t0 kw_from && bytes_eqb t2 kw_import && bytes_eqb t4 kw_as then
        match parse_from_target f with
        | Some (l, p) => if identb n && identb a then Some (SFrom l p n a) else None
        | None => None
        end
      else None
  | _ => None
  end.

(* ---- semantics ---- *)

(* getattr(module p, n): a class the module defines, else the submodule p.n
   (`from p import n` tries the attribute first and falls back to importing the
   submodule, which then is that attribute). *)
Definition mod_attr (w : world) (p : path) (n : name) : option value :=
  if w_cls w p n then Some (VCls p n)
  else if w_pkg w (p ++ [n]) then Some (VMod (p ++ [n]))
  else None.

Definition from_import (w : world) (m : path) (n : name) : option value :=
  if w_pkg w m then mod_attr w m n else None.

(* The package a relative import of the given level starts from, when executed
   in the __init__.py of package P (so __package__ = P): one dot is P itself,
   each further dot one level up; going above the top-level package is an
   ImportError ("attempted relative import beyond top-level package"), and a
   module that is in no package at all (P = []) cannot use relative imports. *)
Definition rel_base (P : path) (level : nat) : option path :=
  match level with
  | O => None
  | S k => if Nat.ltb k (length P) then Some (firstn (length P - k) P) else None
  end.

(* the (name, value) a statement binds when executed inside package P *)
Definition exec_stmt (w : world) (P : path) (s : stmt) : option (name * value) :=
  match s with
  | SImport m a => if w_pkg w m then Some (a, VMod m) else None
  | SFrom O sub n a =>
      match from_import w sub n with Some v => Some (a, v) | None => None end
  | SFrom level sub n a =>
      match rel_base P level with
      | Some b => match from_import w (b ++ sub) n with Some v => Some (a, v) | None => None end
      | None => None
      end
  end.

Definition binds (w : world) (P : path) (text : list byte) : option (name * value) :=
  match parse_stmt text with Some s => exec_stmt w P s | None => None end.

(* the name a statement binds, regardless of the world *)
Definition bound_name (text : list byte) : option name :=
  match parse_stmt text with
  | Some (SImport _ a) => Some a
  | Some (SFrom _ _ _ a) => Some a
  | None => None
  end.

Definition env := list (name * value).   (* in execution order; a later binding of a name replaces an earlier one *)

Fixpoint lookup_env (e : env) (x : name) : option value :=
  match e with
  | [] => None
  | (y, v) :: r =>
      match lookup_env r x with
      | Some v' => Some v'
      | None => if bytes_eqb x y then Some v else None
      end
  end.

(* execute the statements in order; None if any of them raises *)
Fixpoint exec_all (w : world) (P : path) (texts : list (list byte)) : option env :=
  match texts with
  | [] => Some []
  | t :: r =>
      match binds w P t, exec_all w P r with
      | Some b, Some e => Some (b :: e)
      | _, _ => None
      end
  end.

(* a global name of module P: the import bindings were executed after the class
   statements, so they win; then the module's own classes *)
Definition lookup_name (w : world) (P : path) (e : env) (x : name) : option value :=
  match lookup_env e x with
  | Some v => Some v
  | None => if w_cls w P x then Some (VCls P x) else None
  end.

Definition attr (w : world) (v : value) (n : name) : option value :=
  match v with
  | VMod p => mod_attr w p n
  | VCls _ _ => None          (* generated classes are flat: no nested class attributes *)
  end.

Fixpoint attrs (w : world) (v : value) (ns : list name) : option value :=
  match ns with
  | [] => Some v
  | n :: r => match attr w v n with Some v' => attrs w v' r | None => None end
  end.

(* eval("a.b.C", module globals) *)
Definition resolve (w : world) (P : path) (e : env) (expr : list byte) : option value :=
  match parse_dotted expr with
  | Some (x :: ns) => match lookup_name w P e x with Some v => attrs w v ns | None => None end
  | _ => None
  end.

(* an annotation that is a string literal "..." is a forward reference: its
   content is evaluated as an expression (typing.get_type_hints) *)
Definition unquote (s : list byte) : option (list byte) :=
  match s with
  | q :: r =>
      if Byte.eqb q c_quote then
        match rev r with
        | q' :: body => if Byte.eqb q' c_quote then Some (rev body) else None
        | [] => None
        end
      else None
  | [] => None
  end.

Definition resolve_annotation (w : world) (P : path) (e : env) (ann : list byte) : option value :=
  match unquote ann with Some x => resolve w P e x | None => None end.

(* What a generated reference means: the module executes the import line that came with
   the reference (if any) and the annotation is then evaluated in the module's globals. *)
Definition denotes (w : world) (P : path) (ref : list byte * option (list byte)) (v : value) : Prop :=
  exists e, exec_all w P (match snd ref with Some s => [s] | None => [] end) = Some e
            /\ resolve_annotation w P e (fst ref) = Some v.
