(* L0: the canonical proto3 JSON mapping as a specification, written from the protobuf
   documentation (https://protobuf.dev/programming-guides/proto3/#json) and protoc's
   descriptor.cc (ToJsonName), independently of betterproto:

     protoc_json_name  the JSON name protoc assigns to a field
     json_spec         schema -> class -> abstract message -> JSON     (what a conforming PRINTER emits)
     json_accepts      schema -> class -> JSON -> option abstract message   (what the reference PARSER takes)

   Both are executable and are validated against google.protobuf.json_format (MessageToJson / Parse)
   and the descriptor pool's json_name by tie T3 of harness/props/c05.py on every run; a
   disagreement there means this file is wrong.

   [json_accepts] is exact on the inputs T3 generates (reference output, betterproto output, the
   legal variants listed below) and CONSERVATIVE elsewhere: leniencies of the Python reference
   that no printer relies on (numeric strings for floats, "1_0" for ints, blanks inside base64,
   integral floats for ints, exponent notation for durations) are rejected here.  A theorem
   "json_accepts j = Some a" therefore implies acceptance by the reference, not conversely.

   JSON numbers: Python's json distinguishes integer syntax ([JNum]) from everything else ([JFloat],
   a binary64 pattern; the decimal text <-> binary64 conversion is CPython's repr/float and is an
   oracle, as is binary64 -> binary32 rounding, taken from Model/Float.v which is validated
   against struct).  Strings are UTF-8 byte lists. *)
From BP Require Import Base.Prelude Model.Float Spec.Time.

(* ====================================================================================== *)
(* 1. schemas and abstract message values                                                  *)
(* ====================================================================================== *)
Inductive skind :=
| KDouble | KFloat | KInt32 | KInt64 | KUInt32 | KUInt64 | KSInt32 | KSInt64
| KFixed32 | KFixed64 | KSFixed32 | KSFixed64 | KBool | KString | KBytes.

Inductive jkind :=
| JScalar (k : skind)
| JEnum (e : nat)            (* index into the schema's enum table *)
| JMsg (c : nat)             (* index into the schema's message table *)
| JTimestamp | JDuration     (* google.protobuf.Timestamp / Duration *)
| JWrapper (k : skind).      (* google.protobuf.{Bool,Bytes,Double,Float,Int32,Int64,String,UInt32,UInt64}Value *)

Inductive jcard :=
| Implicit                   (* proto3 singular scalar / enum without presence *)
| Explicit                   (* field with presence: proto3 optional, oneof member, any message-typed field *)
| Repeated
| MapOf (key : skind).

Record jfield := mkJF {
  jf_name : list byte;       (* the name written in the .proto file *)
  jf_json : list byte;       (* FieldDescriptorProto.json_name *)
  jf_kind : jkind;
  jf_card : jcard;
  jf_oneof : option nat }.   (* real oneof the field belongs to *)

Record jschema := mkJS {
  jclasses : list (list jfield);
  jenums : list (list (list byte * Z)) }.     (* value name, number; declaration order (aliases allowed) *)

Definition jclass (S : jschema) (c : nat) : list jfield := nth c (jclasses S) [].
Definition jenum (S : jschema) (e : nat) : list (list byte * Z) := nth e (jenums S) [].

(* abstract message values: one [afield] per field of the class, declaration order *)
Inductive aval :=
| AInt (z : Z)
| ABool (b : bool)
| AFloat (bits : Z)          (* binary64 pattern; `float` fields hold binary32-representable values *)
| AStr (s : list byte)
| ABytes (b : list byte)
| AEnum (n : Z)
| ATime (s n : Z)            (* Timestamp seconds, nanos *)
| ADur (s n : Z)             (* Duration seconds, nanos *)
| AMsg (fs : list afield)
with afield :=
| FAbsent                    (* Explicit field not set *)
| FOne (v : aval)            (* Implicit: always; Explicit: set *)
| FRep (l : list aval)
| FMap (l : list (aval * aval)).

(* ====================================================================================== *)
(* 2. protoc's ToJsonName                                                                  *)
(* ====================================================================================== *)
Definition c_us : byte := x5f.
Definition is_us_b (b : byte) : bool := Z_of_byte b =? 95.
(* absl::ascii_toupper *)
Definition ascii_upper (b : byte) : byte :=
  let z := Z_of_byte b in if (97 <=? z) && (z <=? 122) then byte_of_Z (z - 32) else b.

(* for each character: '_' is dropped and arms capitalize_next; an armed character is
   upper-cased and disarms; anything else is copied *)
Fixpoint to_json_name (cap : bool) (l : list byte) : list byte :=
  match l with
  | [] => []
  | c :: r => if is_us_b c then to_json_name true r
              else (if cap then ascii_upper c else c) :: to_json_name false r
  end.
Definition protoc_json_name (name : list byte) : list byte := to_json_name false name.

(* ====================================================================================== *)
(* 3. text forms of the leaves                                                             *)
(* ====================================================================================== *)
(* ---- integers ---- *)
Definition int_str (z : Z) : list byte := if z <? 0 then cMINUS :: dec (- z) else dec z.
Definition all_digits (l : list byte) : bool := negb (is_nil l) && forallb is_digit l.
Definition parse_int (s : list byte) : option Z :=
  match s with
  | b :: r => if Byte.eqb b cMINUS then (if all_digits r then Some (- dval r) else None)
              else if all_digits s then Some (dval s) else None
  | [] => None
  end.

Definition is64 (k : skind) : bool :=
  match k with KInt64 | KUInt64 | KSInt64 | KFixed64 | KSFixed64 => true | _ => false end.
Definition int_range (k : skind) : option (Z * Z) :=        (* inclusive *)
  match k with
  | KInt32 | KSInt32 | KSFixed32 => Some (- 2 ^ 31, 2 ^ 31 - 1)
  | KUInt32 | KFixed32 => Some (0, 2 ^ 32 - 1)
  | KInt64 | KSInt64 | KSFixed64 => Some (- 2 ^ 63, 2 ^ 63 - 1)
  | KUInt64 | KFixed64 => Some (0, 2 ^ 64 - 1)
  | _ => None
  end.
Definition in_int_range (k : skind) (z : Z) : bool :=
  match int_range k with Some (lo, hi) => (lo <=? z) && (z <=? hi) | None => false end.

(* ---- floats ---- *)
Definition nan_bits : Z := Z.lor f64_pos_inf (Z.shiftl 1 51).       (* float("nan") *)
Definition s_NaN : list byte := [x4e; x61; x4e].
Definition s_Infinity : list byte := [x49; x6e; x66; x69; x6e; x69; x74; x79].
Definition s_NegInfinity : list byte := cMINUS :: s_Infinity.
Definition f64_finite (b : Z) : bool := negb (f64_exp b =? 2047).
(* float(z) for |z| < 2^53 (exact) *)
Definition double_of_small_int (z : Z) : option Z :=
  if z =? 0 then Some 0
  else if Z.abs z <? 2 ^ 53 then
    let a := Z.abs z in
    let e := Z.log2 a in
    Some (Z.lor (if z <? 0 then Z.shiftl 1 63 else 0)
                (Z.lor (Z.shiftl (e + 1023) 52) (Z.shiftl a (52 - e) - 2 ^ 52)))
  else None.
(* the value a `float` (binary32) field takes from a finite binary64: None = out of range *)
Definition to_f32 (b : Z) : option Z :=
  match d2f b with
  | Some w => let r := f2d w in if f64_finite r then Some r else None
  | None => None
  end.

(* ---- base64 (RFC 4648 section 4, with padding) ---- *)
Definition b64_alphabet : list byte :=
  [x41; x42; x43; x44; x45; x46; x47; x48; x49; x4a; x4b; x4c; x4d; x4e; x4f; x50;
   x51; x52; x53; x54; x55; x56; x57; x58; x59; x5a;
   x61; x62; x63; x64; x65; x66; x67; x68; x69; x6a; x6b; x6c; x6d; x6e; x6f; x70;
   x71; x72; x73; x74; x75; x76; x77; x78; x79; x7a;
   x30; x31; x32; x33; x34; x35; x36; x37; x38; x39; x2b; x2f].
Definition b64_char (i : Z) : byte := nth (Z.to_nat i) b64_alphabet x41.
Definition c_eq : byte := x3d.
Fixpoint b64_encode (l : list byte) : list byte :=
  match l with
  | [] => []
  | [a] => let a := Z_of_byte a in [b64_char (a / 4); b64_char ((a mod 4) * 16); c_eq; c_eq]
  | [a; b] => let a := Z_of_byte a in let b := Z_of_byte b in
              [b64_char (a / 4); b64_char ((a mod 4) * 16 + b / 16); b64_char ((b mod 16) * 4); c_eq]
  | a :: b :: c :: r =>
      let a := Z_of_byte a in let b := Z_of_byte b in let c := Z_of_byte c in
      b64_char (a / 4) :: b64_char ((a mod 4) * 16 + b / 16) :: b64_char ((b mod 16) * 4 + c / 64)
      :: b64_char (c mod 64) :: b64_encode r
  end.
(* the reader takes the standard and the URL-safe alphabet *)
Definition b64_val (c : byte) : option Z :=
  let z := Z_of_byte c in
  if (65 <=? z) && (z <=? 90) then Some (z - 65)
  else if (97 <=? z) && (z <=? 122) then Some (z - 71)
  else if (48 <=? z) && (z <=? 57) then Some (z + 4)
  else if (z =? 43) || (z =? 45) then Some 62
  else if (z =? 47) || (z =? 95) then Some 63
  else None.
Fixpoint strip_eq_rev (l : list byte) : list byte :=
  match l with c :: r => if Byte.eqb c c_eq then strip_eq_rev r else l | [] => [] end.
Fixpoint b64_groups (l : list Z) : option (list byte) :=
  match l with
  | [] => Some []
  | [_] => None
  | [a; b] => Some [byte_of_Z (a * 4 + b / 16)]
  | [a; b; c] => Some [byte_of_Z (a * 4 + b / 16); byte_of_Z ((b mod 16) * 16 + c / 4)]
  | a :: b :: c :: d :: r =>
      match b64_groups r with
      | Some t => Some (byte_of_Z (a * 4 + b / 16) :: byte_of_Z ((b mod 16) * 16 + c / 4)
                        :: byte_of_Z ((c mod 4) * 64 + d) :: t)
      | None => None
      end
  end.
Fixpoint all_some {A} (l : list (option A)) : option (list A) :=
  match l with
  | [] => Some []
  | Some a :: r => match all_some r with Some t => Some (a :: t) | None => None end
  | None :: _ => None
  end.
(* padding optional, both alphabets *)
Definition b64_decode (s : list byte) : option (list byte) :=
  match all_some (map b64_val (rev (strip_eq_rev (rev s)))) with
  | Some vs => b64_groups vs
  | None => None
  end.

(* ---- calendar: days since 1970-01-01 <-> proleptic Gregorian (year, month, day) ---- *)
Definition civil_from_days (z0 : Z) : Z * Z * Z :=
  let z := z0 + 719468 in
  let era := z / 146097 in
  let doe := z mod 146097 in
  let yoe := (doe - doe / 1460 + doe / 36524 - doe / 146096) / 365 in
  let doy := doe - (365 * yoe + yoe / 4 - yoe / 100) in
  let mp := (5 * doy + 2) / 153 in
  let d := doy - (153 * mp + 2) / 5 + 1 in
  let m := if mp <? 10 then mp + 3 else mp - 9 in
  let y := yoe + era * 400 + (if m <=? 2 then 1 else 0) in
  (y, m, d).
Definition days_from_civil (y0 m d : Z) : Z :=
  let y := if m <=? 2 then y0 - 1 else y0 in
  let era := y / 400 in
  let yoe := y mod 400 in
  let doy := (153 * (if 2 <? m then m - 3 else m + 9) + 2) / 5 + d - 1 in
  let doe := yoe * 365 + yoe / 4 - yoe / 100 + doy in
  era * 146097 + doe - 719468.

Definition TS_MIN_S : Z := -62135596800.      (* 0001-01-01T00:00:00Z *)
Definition TS_MAX_S : Z := 253402300799.      (* 9999-12-31T23:59:59Z *)
Definition cT : byte := x54.
Definition cCOLON : byte := x3a.
(* "YYYY-MM-DDTHH:MM:SS" of a whole second *)
Definition cal_str (s : Z) : list byte :=
  let '(y, m, d) := civil_from_days (s / 86400) in
  let sod := s mod 86400 in
  pad 4 y ++ [cMINUS] ++ pad 2 m ++ [cMINUS] ++ pad 2 d ++ [cT]
  ++ pad 2 (sod / 3600) ++ [cCOLON] ++ pad 2 (sod / 60 mod 60) ++ [cCOLON] ++ pad 2 (sod mod 60).
Definition ts_str (s n : Z) : list byte := ts_json (cal_str s) n.

(* fixed-width fields *)
Definition take_digits (k : nat) (l : list byte) : option (Z * list byte) :=
  let d := firstn k l in
  if (length d =? k)%nat && forallb is_digit d then Some (dval d, skipn k l) else None.
Definition expect (c : byte) (l : list byte) : option (list byte) :=
  match l with b :: r => if Byte.eqb b c then Some r else None | [] => None end.
(* "Z" | ("+"|"-") HH ":" MM   ->  offset in seconds east of UTC *)
Definition parse_offset (l : list byte) : option Z :=
  match l with
  | b :: r =>
      if Byte.eqb b cZ then (if is_nil r then Some 0 else None)
      else if Byte.eqb b cPLUS || Byte.eqb b cMINUS then
        match take_digits 2 r with
        | Some (hh, r1) =>
            match expect cCOLON r1 with
            | Some r2 =>
                match take_digits 2 r2 with
                | Some (mm, r3) =>
                    if is_nil r3 && (hh <? 24) && (mm <? 60)
                    then Some ((if Byte.eqb b cMINUS then -1 else 1) * (hh * 3600 + mm * 60)) else None
                | None => None
                end
            | None => None
            end
        | None => None
        end
      else None
  | [] => None
  end.
(* RFC 3339: date "T" time [ "." 1..9 digits ] offset; result (seconds, nanos), year 0001..9999 *)
Definition ts_parse (v : list byte) : option (Z * Z) :=
  match take_digits 4 v with None => None | Some (y, r) =>
  match expect cMINUS r with None => None | Some r =>
  match take_digits 2 r with None => None | Some (mo, r) =>
  match expect cMINUS r with None => None | Some r =>
  match take_digits 2 r with None => None | Some (d, r) =>
  match expect cT r with None => None | Some r =>
  match take_digits 2 r with None => None | Some (hh, r) =>
  match expect cCOLON r with None => None | Some r =>
  match take_digits 2 r with None => None | Some (mi, r) =>
  match expect cCOLON r with None => None | Some r =>
  match take_digits 2 r with None => None | Some (ss, r) =>
    let '(nanos, r, frac_ok) :=
      match r with
      | b :: r' =>
          if Byte.eqb b cDOT then
            let '(fp, r'') := span_digits r' in
            (dval fp * 10 ^ (9 - Z.of_nat (length fp)), r'', negb (is_nil fp) && (Z.of_nat (length fp) <=? 9))
          else (0, r, true)
      | [] => (0, r, true)
      end in
    match parse_offset r with
    | None => None
    | Some off =>
        let days := days_from_civil y mo d in
        let valid := frac_ok && (1 <=? mo) && (mo <=? 12) && (1 <=? d)
                     && (let '(y', m', d') := civil_from_days days in (y' =? y) && (m' =? mo) && (d' =? d))
                     && (hh <? 24) && (mi <? 60) && (ss <? 60) in
        let s := days * 86400 + hh * 3600 + mi * 60 + ss - off in
        if valid && (TS_MIN_S <=? s) && (s <=? TS_MAX_S) then Some (s, nanos) else None
    end
  end end end end end end end end end end end.

Definition dur_in_range (s n : Z) : bool :=
  (- DUR_MAX_S <=? s) && (s <=? DUR_MAX_S) && (-999999999 <=? n) && (n <=? 999999999)
  && negb ((0 <? s) && (n <? 0)) && negb ((s <? 0) && (0 <? n)).
Definition ts_in_range (s n : Z) : bool :=
  (TS_MIN_S <=? s) && (s <=? TS_MAX_S) && (0 <=? n) && (n <=? 999999999).

(* ====================================================================================== *)
(* 4. JSON                                                                                 *)
(* ====================================================================================== *)
Inductive json :=
| JNull
| JBool (b : bool)
| JNum (z : Z)                 (* a number written in integer syntax *)
| JFloat (bits : Z)            (* any other number, as the binary64 Python's json reads *)
| JStr (s : list byte)
| JArr (l : list json)
| JObj (kvs : list (list byte * json)).

Definition s_true : list byte := [x74; x72; x75; x65].
Definition s_false : list byte := [x66; x61; x6c; x73; x65].

(* ---- scalars ---- *)
Definition spec_scalar (k : skind) (v : aval) : option json :=
  match k, v with
  | KBool, ABool b => Some (JBool b)
  | KString, AStr s => Some (JStr s)
  | KBytes, ABytes b => Some (JStr (b64_encode b))
  | (KDouble | KFloat), AFloat bits =>
      Some (if f64_is_nan bits then JStr s_NaN
            else if bits =? f64_pos_inf then JStr s_Infinity
            else if bits =? f64_neg_inf then JStr s_NegInfinity
            else JFloat bits)
  | (KBool | KString | KBytes | KDouble | KFloat), _ => None
  | _, AInt z => Some (if is64 k then JStr (int_str z) else JNum z)
  | _, _ => None
  end.

Definition default_scalar (k : skind) : aval :=
  match k with
  | KBool => ABool false | KString => AStr [] | KBytes => ABytes []
  | KDouble | KFloat => AFloat 0
  | _ => AInt 0
  end.

(* proto3: an implicit-presence field is omitted iff it holds its default (floats: +0.0 only) *)
Definition is_default_val (v : aval) : bool :=
  match v with
  | AInt z | AEnum z => z =? 0
  | ABool b => negb b
  | AFloat bits => bits =? 0
  | AStr s | ABytes s => is_nil s
  | _ => false
  end.

(* enum: the name of the first value with that number, the number itself when there is none *)
Fixpoint enum_name (members : list (list byte * Z)) (n : Z) : option (list byte) :=
  match members with
  | [] => None
  | (name, v) :: r => if v =? n then Some name else enum_name r n
  end.
Fixpoint enum_number (members : list (list byte * Z)) (name : list byte) : option Z :=
  match members with
  | [] => None
  | (nm, v) :: r => if bytes_eqb nm name then Some v else enum_number r name
  end.

Definition key_str (k : skind) (v : aval) : option (list byte) :=
  match k, v with
  | KString, AStr s => Some s
  | KBool, ABool b => Some (if b then s_true else s_false)
  | (KString | KBool | KBytes | KDouble | KFloat), _ => None
  | _, AInt z => Some (int_str z)
  | _, _ => None
  end.

(* ---- json_spec ---- *)
Section Spec.
Variable S : jschema.

Fixpoint spec_val (k : jkind) (v : aval) {struct v} : option json :=
  match v with
  | AMsg fs =>
      match k with
      | JMsg c =>
          option_map JObj
          ((fix go (fds : list jfield) (fs : list afield) {struct fs} : option (list (list byte * json)) :=
             match fds, fs with
             | [], [] => Some []
             | fd :: fds', f :: fs' =>
                 match spec_field fd f, go fds' fs' with
                 | Some None, Some t => Some t
                 | Some (Some j), Some t => Some ((jf_json fd, j) :: t)
                 | _, _ => None
                 end
             | _, _ => None
             end) (jclass S c) fs)
      | _ => None
      end
  | ATime s n => match k with JTimestamp => Some (JStr (ts_str s n)) | _ => None end
  | ADur s n => match k with JDuration => Some (JStr (dur_json s n)) | _ => None end
  | AEnum n =>
      match k with
      | JEnum e => Some (match enum_name (jenum S e) n with Some nm => JStr nm | None => JNum n end)
      | _ => None
      end
  | _ =>
      match k with
      | JScalar sk | JWrapper sk => spec_scalar sk v
      | _ => None
      end
  end
(* Some None: the field is omitted; None: the value does not fit the schema *)
with spec_field (fd : jfield) (f : afield) {struct f} : option (option json) :=
  match f with
  | FAbsent => match jf_card fd with Explicit => Some None | _ => None end
  | FOne v =>
      match jf_card fd with
      | Implicit => if is_default_val v then
                      (match spec_val (jf_kind fd) v with Some _ => Some None | None => None end)
                    else option_map Some (spec_val (jf_kind fd) v)
      | Explicit => option_map Some (spec_val (jf_kind fd) v)
      | _ => None
      end
  | FRep l =>
      match jf_card fd with
      | Repeated =>
          match l with
          | [] => Some None
          | _ =>
              option_map (fun js => Some (JArr js))
              ((fix each (l : list aval) : option (list json) :=
                 match l with
                 | [] => Some []
                 | x :: r => match spec_val (jf_kind fd) x, each r with
                             | Some j, Some t => Some (j :: t)
                             | _, _ => None
                             end
                 end) l)
          end
      | _ => None
      end
  | FMap l =>
      match jf_card fd with
      | MapOf kk =>
          match l with
          | [] => Some None
          | _ =>
              option_map (fun kvs => Some (JObj kvs))
              ((fix each (l : list (aval * aval)) : option (list (list byte * json)) :=
                 match l with
                 | [] => Some []
                 | (kv, x) :: r => match key_str kk kv, spec_val (jf_kind fd) x, each r with
                                   | Some ks, Some j, Some t => Some ((ks, j) :: t)
                                   | _, _, _ => None
                                   end
                 end) l)
          end
      | _ => None
      end
  end.

Definition json_spec (c : nat) (a : aval) : option json := spec_val (JMsg c) a.

(* ---- json_accepts ---- *)
Definition acc_scalar (k : skind) (j : json) : option aval :=
  match k with
  | KBool => match j with JBool b => Some (ABool b) | _ => None end
  | KString => match j with JStr s => Some (AStr s) | _ => None end
  | KBytes => match j with JStr s => option_map ABytes (b64_decode s) | _ => None end
  | KDouble | KFloat =>
      let fit (b : Z) := if f64_finite b
                         then (match k with KFloat => option_map AFloat (to_f32 b) | _ => Some (AFloat b) end)
                         else None in       (* bare NaN / Infinity tokens are not JSON: rejected *)
      match j with
      | JFloat b => fit b
      | JNum z => match double_of_small_int z with Some b => fit b | None => None end
      | JStr s => if bytes_eqb s s_NaN then Some (AFloat nan_bits)
                  else if bytes_eqb s s_Infinity then Some (AFloat f64_pos_inf)
                  else if bytes_eqb s s_NegInfinity then Some (AFloat f64_neg_inf)
                  else None
      | _ => None
      end
  | _ =>
      match j with
      | JNum z => if in_int_range k z then Some (AInt z) else None
      | JStr s => match parse_int s with
                  | Some z => if in_int_range k z then Some (AInt z) else None
                  | None => None
                  end
      | _ => None
      end
  end.

Definition acc_key (k : skind) (s : list byte) : option aval :=
  match k with
  | KString => Some (AStr s)
  | KBool => if bytes_eqb s s_true then Some (ABool true)
             else if bytes_eqb s s_false then Some (ABool false) else None
  | KBytes | KDouble | KFloat => None
  | _ => match parse_int s with
         | Some z => if in_int_range k z then Some (AInt z) else None
         | None => None
         end
  end.

(* the field a key addresses: json_name first, then the original proto name *)
Fixpoint find_field_by (sel : jfield -> list byte) (fds : list jfield) (key : list byte) (i : nat) : option (nat * jfield) :=
  match fds with
  | [] => None
  | fd :: r => if bytes_eqb (sel fd) key then Some (i, fd) else find_field_by sel r key (Datatypes.S i)
  end.
Definition find_field (fds : list jfield) (key : list byte) : option (nat * jfield) :=
  match find_field_by jf_json fds key O with
  | Some x => Some x
  | None => find_field_by jf_name fds key O
  end.

Definition default_field (fd : jfield) : afield :=
  match jf_card fd with
  | Implicit =>
      match jf_kind fd with
      | JScalar k => FOne (default_scalar k)
      | JEnum _ => FOne (AEnum 0)
      | _ => FAbsent                      (* not a legal proto3 combination *)
      end
  | Explicit => FAbsent
  | Repeated => FRep []
  | MapOf _ => FMap []
  end.

Fixpoint set_nth_af (i : nat) (x : afield) (l : list afield) : list afield :=
  match l, i with
  | [], _ => []
  | _ :: r, O => x :: r
  | y :: r, Datatypes.S i' => y :: set_nth_af i' x r
  end.
Definition mem_nat (x : nat) (l : list nat) : bool := existsb (Nat.eqb x) l.

Fixpoint acc_val (k : jkind) (j : json) {struct j} : option aval :=
  match k with
  | JScalar sk | JWrapper sk => acc_scalar sk j
  | JEnum e =>
      match j with
      | JStr s =>                     (* a value name; failing that, a number written as a string *)
          match enum_number (jenum S e) s with
          | Some n => Some (AEnum n)
          | None => match parse_int s with
                    | Some z => if (- 2 ^ 31 <=? z) && (z <? 2 ^ 31) then Some (AEnum z) else None
                    | None => None
                    end
          end
      | JNum z => if (- 2 ^ 31 <=? z) && (z <? 2 ^ 31) then Some (AEnum z) else None
      | _ => None
      end
  | JTimestamp =>
      match j with
      | JStr s => match ts_parse s with Some (sec, n) => Some (ATime sec n) | None => None end
      | _ => None
      end
  | JDuration =>
      match j with
      | JStr s => match dur_parse s with
                  | Some (sec, n) => if dur_in_range sec n then Some (ADur sec n) else None
                  | None => None
                  end
      | _ => None
      end
  | JMsg c =>
      match j with
      | JObj kvs =>
          let fds := jclass S c in
          option_map AMsg
          ((fix go (kvs : list (list byte * json)) (acc : list afield) (seen : list nat) (groups : list nat)
             {struct kvs} : option (list afield) :=
             match kvs with
             | [] => Some acc
             | (key, v) :: r =>
                 match find_field fds key with
                 | None => None                                   (* unknown field name *)
                 | Some (i, fd) =>
                     if mem_nat i seen then None                  (* the same field twice *)
                     else
                       match v with
                       | JNull => go r acc (i :: seen) groups     (* null: the field stays unset *)
                       | _ =>
                           let grp_clash := match jf_oneof fd with Some g => mem_nat g groups | None => false end in
                           let groups' := match jf_oneof fd with Some g => g :: groups | None => groups end in
                           if grp_clash then None                 (* two members of one oneof *)
                           else
                             let fv : option afield :=
                               match jf_card fd with
                               | Implicit | Explicit => option_map FOne (acc_val (jf_kind fd) v)
                               | Repeated =>
                                   match v with
                                   | JArr l =>
                                       option_map FRep
                                       ((fix each (l : list json) : option (list aval) :=
                                          match l with
                                          | [] => Some []
                                          | x :: t => match acc_val (jf_kind fd) x, each t with
                                                      | Some a, Some t' => Some (a :: t')
                                                      | _, _ => None
                                                      end
                                          end) l)
                                   | _ => None
                                   end
                               | MapOf kk =>
                                   match v with
                                   | JObj es =>
                                       option_map FMap
                                       ((fix each (es : list (list byte * json)) : option (list (aval * aval)) :=
                                          match es with
                                          | [] => Some []
                                          | (ks, x) :: t => match acc_key kk ks, acc_val (jf_kind fd) x, each t with
                                                            | Some ka, Some a, Some t' => Some ((ka, a) :: t')
                                                            | _, _, _ => None
                                                            end
                                          end) es)
                                   | _ => None
                                   end
                               end in
                             match fv with
                             | Some f => go r (set_nth_af i f acc) (i :: seen) groups'
                             | None => None
                             end
                       end
                 end
             end) kvs (map default_field fds) [] [])
      | _ => None
      end
  end.

Definition json_accepts (c : nat) (j : json) : option aval := acc_val (JMsg c) j.
End Spec.

(* ====================================================================================== *)
(* 5. canonical values for the tie with the reference (object members sorted by key)      *)
(* ====================================================================================== *)
Fixpoint bytes_leb (a b : list byte) : bool :=
  match a, b with
  | [], _ => true
  | _ :: _, [] => false
  | x :: a', y :: b' => let x := Z_of_byte x in let y := Z_of_byte y in
                        if x <? y then true else if y <? x then false else bytes_leb a' b'
  end.
Fixpoint insert_kv (k : list byte) (v : cv) (l : list (list byte * cv)) : list (list byte * cv) :=
  match l with
  | [] => [(k, v)]
  | (k', v') :: r => if bytes_leb k k' then (k, v) :: l else (k', v') :: insert_kv k v r
  end.
Fixpoint cv_of_json (j : json) : cv :=
  match j with
  | JNull => CN
  | JBool b => CL [CZ 0; cbool b]
  | JNum z => CL [CZ 1; CZ z]
  | JFloat b => CL [CZ 2; CZ b]
  | JStr s => CB s
  | JArr l => CL (CZ 3 :: map cv_of_json l)
  | JObj kvs =>
      CL (CZ 4 :: map (fun '(k, v) => CL [CB k; v])
                      (fold_right (fun '(k, j) acc => insert_kv k (cv_of_json j) acc) [] kvs))
  end.

Fixpoint cv_of_aval (v : aval) : cv :=
  match v with
  | AInt z => CL [CZ 0; CZ z]
  | ABool b => CL [CZ 1; cbool b]
  | AFloat b => CL [CZ 2; CZ (if f64_is_nan b then nan_bits else b)]
  | AStr s => CL [CZ 3; CB s]
  | ABytes s => CL [CZ 4; CB s]
  | AEnum z => CL [CZ 5; CZ z]
  | ATime s n => CL [CZ 6; CZ s; CZ n]
  | ADur s n => CL [CZ 7; CZ s; CZ n]
  | AMsg fs => CL (CZ 8 :: map cv_of_afield fs)
  end
with cv_of_afield (f : afield) : cv :=
  match f with
  | FAbsent => CN
  | FOne v => CL [CZ 0; cv_of_aval v]
  | FRep l => CL (CZ 1 :: map cv_of_aval l)
  | FMap l => CL (CZ 2 :: map (fun '(k, x) => CL [cv_of_aval k; cv_of_aval x]) l)
  end.
