(* L0: the protobuf wire format at the level of records, written independently of betterproto
   (and of the decoder model): what "a byte string made of complete records" means.
   A record is a tag (a varint, in any legal representation, padded ones included, holding
   field_number * 8 + wire_type with field_number >= 1) followed by a payload:
     wire type 0  a varint                      wire type 1  eight bytes
     wire type 2  a varint length + that many bytes          wire type 5  four bytes
     wire type 3  (group) a sequence of records that are not end-group tags, closed by the
                  end-group tag (wire type 4) carrying the same field number. *)
From BP Require Import Base.Prelude Spec.Varint.

Inductive wire_record : list byte -> Z -> Z -> Prop :=
| WR_varint tagb valb num v :
    1 <= num -> VarintRep (num * 8 + 0) tagb -> VarintRep v valb ->
    wire_record (tagb ++ valb) num 0
| WR_fixed64 tagb payload num :
    1 <= num -> VarintRep (num * 8 + 1) tagb -> length payload = 8%nat ->
    wire_record (tagb ++ payload) num 1
| WR_len tagb lenb payload num :
    1 <= num -> VarintRep (num * 8 + 2) tagb -> VarintRep (Zlength payload) lenb ->
    wire_record (tagb ++ lenb ++ payload) num 2
| WR_fixed32 tagb payload num :
    1 <= num -> VarintRep (num * 8 + 5) tagb -> length payload = 4%nat ->
    wire_record (tagb ++ payload) num 5
| WR_group tagb inner endb num :
    1 <= num -> VarintRep (num * 8 + 3) tagb -> wire_stream inner -> VarintRep (num * 8 + 4) endb ->
    wire_record (tagb ++ inner ++ endb) num 3
with wire_stream : list byte -> Prop :=
| WS_nil : wire_stream []
| WS_cons r num wt rest : wire_record r num wt -> wire_stream rest -> wire_stream (r ++ rest).

Scheme wire_record_mut := Induction for wire_record Sort Prop
  with wire_stream_mut := Induction for wire_stream Sort Prop.

(* a byte string and the records it consists of: (number, wire type, bytes occupied) *)
Inductive wire_records : list byte -> list (Z * Z * list byte) -> Prop :=
| WRS_nil : wire_records [] []
| WRS_cons r num wt rest rs :
    wire_record r num wt -> wire_records rest rs -> wire_records (r ++ rest) ((num, wt, r) :: rs).
