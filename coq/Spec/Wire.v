(* L0: what a protobuf (proto3) wire encoding *means*, written from the encoding
   documentation and validated against google.protobuf (tie T3, harness/props/c02.py).
   Nothing here looks at betterproto's decoder; the only thing taken from the model side is
   the *schema language* (fdesc/cdesc/schema of Model/Object.v), read as a .proto file by
   [card_of] / [msg_class] below.

   1. records and their legal serialisations   ([rec_ok], [wire_ok], [parse_wire])
   2. the abstract message value               ([aval])
   3. the denotation of a record list          ([sem]): gather the payloads field by field
      (a oneof member clears its siblings), then interpret each field's payload list
   4. presence as the reference reports it     ([has_field]) *)
From BP Require Import Base.Prelude Model.Types Model.Float Model.Utf8 Model.Object Spec.Varint.

(* ------------------------------------------------------------------ 1. records *)
Inductive payload :=
| Varint (n : Z)                     (* 0 <= n < 2^64 *)
| Fixed64 (b : list byte)            (* 8 bytes *)
| Len (b : list byte)
| Fixed32 (b : list byte)            (* 4 bytes *)
| Group (rs : list (Z * payload)).   (* proto2 group: start tag, records, matching end tag *)
Definition record := (Z * payload)%type.      (* field number, payload *)

Definition wt_of (p : payload) : Z :=
  match p with Varint _ => 0 | Fixed64 _ => 1 | Len _ => 2 | Group _ => 3 | Fixed32 _ => 5 end.

(* A tag is the varint of number*8 + wire type, number in 1 .. 2^29-1.  Tags and lengths are
   32-bit quantities: parsers (upb, the C++ parser) read them as varints of at most [tag_max]
   bytes and reject longer ones.  A value varint has at most 10 bytes and denotes a number
   below 2^64. *)
Definition tag_max : nat := 5.
Definition TagRep (num wt : Z) (bs : list byte) : Prop :=
  VarintRep (num * 8 + wt) bs /\ (length bs <= tag_max)%nat /\ 1 <= num < 2 ^ 29.

(* the legal serialisations of one record / of a record list (padded varints included) *)
Inductive rec_ok : list byte -> record -> Prop :=
| ok_varint num t v n : TagRep num 0 t -> VarintRep n v -> n < 2 ^ 64 -> rec_ok (t ++ v) (num, Varint n)
| ok_fixed64 num t b : TagRep num 1 t -> length b = 8%nat -> rec_ok (t ++ b) (num, Fixed64 b)
| ok_len num t l b : TagRep num 2 t -> VarintRep (Zlength b) l -> (length l <= tag_max)%nat ->
                     rec_ok (t ++ l ++ b) (num, Len b)
| ok_fixed32 num t b : TagRep num 5 t -> length b = 4%nat -> rec_ok (t ++ b) (num, Fixed32 b)
| ok_group num t body rs e : TagRep num 3 t -> wire_ok body rs -> TagRep num 4 e ->
                             rec_ok (t ++ body ++ e) (num, Group rs)
with wire_ok : list byte -> list record -> Prop :=
| ok_nil : wire_ok [] []
| ok_cons a r b rs : rec_ok a r -> wire_ok b rs -> wire_ok (a ++ b) (r :: rs).

(* ---- the same thing as a function ---- *)
Fixpoint read_varint (k : nat) (bs : list byte) : option (Z * list byte) :=
  match k, bs with
  | S k', b :: r =>
      if Z_of_byte b <? 128 then Some (Z_of_byte b, r)
      else match read_varint k' r with
           | Some (v, r') => Some (Z_of_byte b - 128 + 128 * v, r')
           | None => None
           end
  | _, _ => None
  end.

Definition take (n : nat) (bs : list byte) : option (list byte * list byte) :=
  if Nat.leb n (length bs) then Some (firstn n bs, skipn n bs) else None.
Definition takez (n : Z) (bs : list byte) : option (list byte * list byte) :=
  if n <=? Zlength bs then take (Z.to_nat n) bs else None.

(* one record (tag, payload) and whatever [rec] reads after it.  [grp] = Some g while inside
   group g: the records end at the matching end tag. *)
Definition parse_one (rec : option Z -> list byte -> option (list record * list byte))
           (grp : option Z) (bs : list byte) : option (list record * list byte) :=
  match read_varint tag_max bs with
  | None => None
  | Some (tag, r1) =>
      let num := tag / 8 in
      let wt := tag mod 8 in
      let continue (p : payload) (rest : list byte) :=
        match rec grp rest with
        | Some (rs, rest') => Some ((num, p) :: rs, rest')
        | None => None
        end in
      if (num <? 1) || (2 ^ 29 <=? num) then None
      else if wt =? 0 then
        match read_varint 10 r1 with
        | Some (v, r2) => if v <? 2 ^ 64 then continue (Varint v) r2 else None
        | None => None
        end
      else if wt =? 1 then
        match take 8 r1 with Some (b, r2) => continue (Fixed64 b) r2 | None => None end
      else if wt =? 2 then
        match read_varint tag_max r1 with
        | Some (n, r2) =>
            match takez n r2 with Some (b, r3) => continue (Len b) r3 | None => None end
        | None => None
        end
      else if wt =? 5 then
        match take 4 r1 with Some (b, r2) => continue (Fixed32 b) r2 | None => None end
      else if wt =? 3 then
        match rec (Some num) r1 with
        | Some (inner, r2) => continue (Group inner) r2
        | None => None
        end
      else if wt =? 4 then
        match grp with
        | Some g => if g =? num then Some ([], r1) else None
        | None => None
        end
      else None
  end.

(* the fuel counts records; [parse_wire] supplies more than there can be *)
Fixpoint parse_records (fuel : nat) (grp : option Z) (bs : list byte) : option (list record * list byte) :=
  match fuel with
  | O => None
  | S fuel' =>
      match bs with
      | [] => match grp with None => Some ([], []) | Some _ => None end
      | _ => parse_one (parse_records fuel') grp bs
      end
  end.

Definition parse_wire (bs : list byte) : option (list record) :=
  match parse_records (S (length bs)) None bs with
  | Some (rs, _) => Some rs
  | None => None
  end.

(* ------------------------------------------------------------------ 2. abstract values *)
Inductive aval :=
| AInt (z : Z)                     (* every integer kind, enum numbers included *)
| ABool (b : bool)
| AFloat (bits : Z)                (* float and double: the binary64 pattern of the value *)
| AStr (s : list byte)             (* valid UTF-8 *)
| ABytes (b : list byte)
| ANone                            (* field with presence: not present *)
| ASome (v : aval)                 (* field with presence: present *)
| AList (l : list aval)            (* repeated *)
| AMap (l : list (aval * aval))    (* map: keys unique, in order of first insertion *)
| AMsg (fields : list aval) (unknown : list record).   (* one entry per declared field, in declaration order *)

(* ------------------------------------------------------------------ 3. the schema, read as a .proto *)
Inductive wkind := WVarint | WFixed64 | WLen | WFixed32.
Definition wire_of (t : ptype) : wkind :=
  match t with
  | TEnum | TBool | TInt32 | TInt64 | TUInt32 | TUInt64 | TSInt32 | TSInt64 => WVarint
  | TDouble | TFixed64 | TSFixed64 => WFixed64
  | TFloat | TFixed32 | TSFixed32 => WFixed32
  | TString | TBytes | TMessage | TMap => WLen
  end.
Definition packable (t : ptype) : bool := match wire_of t with WLen => false | _ => true end.

Definition elem_hint (h : hint) : pyty := match h with HPlain t | HOptional t | HList t => t | HDict _ v => v end.

(* the message type a TYPE_MESSAGE field refers to: google.protobuf.Timestamp / Duration /
   a wrapper message / a user message *)
Definition msg_class (f : fdesc) : option nat :=
  match fty f with
  | TMessage =>
      match elem_hint (fhint f), fwraps f with
      | PyDatetime, _ => Some timestamp_cls
      | PyTimedelta, _ => Some duration_cls
      | _, Some w => wrapper_cls w
      | PyMsg c, None => Some c
      | _, None => None
      end
  | _ => None
  end.

Inductive card :=
| Implicit               (* singular scalar without presence *)
| Explicit               (* proto3 optional, or a singular message field *)
| Oneof (g : nat)
| Repeated
| MapOf.
Definition card_of (f : fdesc) : card :=
  match fhint f with
  | HList _ => Repeated
  | HDict _ _ => MapOf
  | HOptional _ => Explicit
  | HPlain _ =>
      match fgroup f with
      | Some g => Oneof g
      | None => match fty f with TMessage => Explicit | _ => Implicit end
      end
  end.

Definition same_group (f f' : fdesc) : bool :=
  match fgroup f, fgroup f' with Some g, Some g' => Nat.eqb g g' | _, _ => false end.

(* ------------------------------------------------------------------ scalars *)
Definition signed (bits n : Z) : Z :=
  let m := n mod 2 ^ bits in if m <? 2 ^ (bits - 1) then m else m - 2 ^ bits.
Definition unzz (n : Z) : Z := if Z.even n then n / 2 else - ((n + 1) / 2).

Definition of_varint (t : ptype) (n : Z) : option aval :=
  match t with
  | TInt32 | TEnum => Some (AInt (signed 32 n))
  | TInt64 => Some (AInt (signed 64 n))
  | TUInt32 => Some (AInt (n mod 2 ^ 32))
  | TUInt64 => Some (AInt (n mod 2 ^ 64))
  | TSInt32 => Some (AInt (unzz (n mod 2 ^ 32)))
  | TSInt64 => Some (AInt (unzz (n mod 2 ^ 64)))
  | TBool => Some (ABool (negb (n =? 0)))
  | _ => None
  end.
Definition of_fixed32 (t : ptype) (b : list byte) : option aval :=
  match t with
  | TFixed32 => Some (AInt (le_value b))
  | TSFixed32 => Some (AInt (signed 32 (le_value b)))
  | TFloat => Some (AFloat (f2d (le_value b)))
  | _ => None
  end.
Definition of_fixed64 (t : ptype) (b : list byte) : option aval :=
  match t with
  | TFixed64 => Some (AInt (le_value b))
  | TSFixed64 => Some (AInt (signed 64 (le_value b)))
  | TDouble => Some (AFloat (le_value b))
  | _ => None
  end.

Definition adefault (t : ptype) : aval :=
  match t with
  | TBool => ABool false
  | TFloat | TDouble => AFloat 0
  | TString => AStr []
  | TBytes => ABytes []
  | _ => AInt 0
  end.

(* the message no record has been added to *)
Definition empty_field (f : fdesc) : aval :=
  match card_of f with
  | Implicit => adefault (fty f)
  | Explicit | Oneof _ => ANone
  | Repeated => AList []
  | MapOf => AMap []
  end.
Definition empty_msg (sc : schema) (c : nat) : aval :=
  AMsg (map empty_field (cfields (get_class sc c))) [].

(* option-monad helpers *)
Definition obind {A B} (o : option A) (f : A -> option B) : option B :=
  match o with Some a => f a | None => None end.
Notation "'let?' x := o 'in' k" := (obind o (fun x => k))
  (at level 200, x pattern, o at level 100, k at level 200, right associativity).
Definition omap_all {A B} (f : A -> option B) : list A -> option (list B) :=
  fix go (l : list A) : option (list B) :=
    match l with
    | [] => Some []
    | x :: r => let? y := f x in let? ys := go r in Some (y :: ys)
    end.

(* the elements of a packed payload *)
Fixpoint unpack_varints (fuel : nat) (t : ptype) (b : list byte) : option (list aval) :=
  match fuel, b with
  | _, [] => Some []
  | O, _ => None
  | S fuel', _ =>
      let? (n, r) := read_varint 10 b in
      if n <? 2 ^ 64 then
        let? x := of_varint t n in let? xs := unpack_varints fuel' t r in Some (x :: xs)
      else None
  end.
Fixpoint unpack_fixed (fuel : nat) (w : nat) (one : list byte -> option aval) (b : list byte) : option (list aval) :=
  match fuel, b with
  | _, [] => Some []
  | O, _ => None
  | S fuel', _ =>
      let? (x, r) := take w b in
      let? v := one x in let? vs := unpack_fixed fuel' w one r in Some (v :: vs)
  end.
Definition unpack (t : ptype) (b : list byte) : option (list aval) :=
  match wire_of t with
  | WVarint => unpack_varints (length b) t b
  | WFixed32 => unpack_fixed (length b) 4 (of_fixed32 t) b
  | WFixed64 => unpack_fixed (length b) 8 (of_fixed64 t) b
  | WLen => None
  end.

(* ------------------------------------------------------------------ gather *)
(* does payload [p] belong to field [f] (right wire type)?  A length-delimited payload is
   also accepted by a repeated field of packable type (packed encoding). *)
Definition fits (f : fdesc) (p : payload) : bool :=
  match p, wire_of (fty f) with
  | Varint _, WVarint | Fixed64 _, WFixed64 | Fixed32 _, WFixed32 | Len _, WLen => true
  | Len _, _ => match card_of f with Repeated => packable (fty f) | _ => false end
  | _, _ => false
  end.

Definition find_field (fs : list fdesc) (num : Z) : option (nat * fdesc) :=
  (fix go (i : nat) (fs : list fdesc) : option (nat * fdesc) :=
     match fs with
     | [] => None
     | f :: fs' => if fnum f =? num then Some (i, f) else go (S i) fs'
     end) O fs.

(* a map entry is a two-field message (key = 1, value = 2); an entry that carries anything
   else is set aside as an unknown field of the enclosing message *)
Definition entry_clean (sc : schema) (f : fdesc) (p : payload) : bool :=
  match p with
  | Len b =>
      match parse_wire b with
      | Some ers =>
          forallb (fun '(num, q) =>
                     match find_field (cfields (get_class sc (fentry f))) num with
                     | Some (_, fe) => fits fe q
                     | None => false
                     end) ers
      | None => true            (* malformed: reported by [sem], not set aside *)
      end
  | _ => false
  end.

Definition accepts (sc : schema) (f : fdesc) (p : payload) : bool :=
  fits f p && match card_of f with MapOf => entry_clean sc f p | _ => true end.

(* add payload p to field i; the other members of its oneof group are cleared *)
Fixpoint add_payload (i : nat) (f : fdesc) (p : payload) (j : nat) (fs : list fdesc) (st : list (list payload))
  : list (list payload) :=
  match fs, st with
  | fj :: fs', pj :: st' =>
      (if Nat.eqb j i then pj ++ [p] else if same_group f fj then [] else pj)
      :: add_payload i f p (S j) fs' st'
  | _, _ => []
  end.

Definition gather_step (sc : schema) (fs : list fdesc) (acc : list (list payload) * list record) (r : record)
  : list (list payload) * list record :=
  let '(st, unk) := acc in
  let '(num, p) := r in
  match find_field fs num with
  | Some (i, f) => if accepts sc f p then (add_payload i f p O fs st, unk) else (st, unk ++ [r])
  | None => (st, unk ++ [r])
  end.

Definition gather (sc : schema) (fs : list fdesc) (rs : list record) : list (list payload) * list record :=
  fold_left (gather_step sc fs) rs (map (fun _ => []) fs, []).

(* ------------------------------------------------------------------ interpret *)
Definition len_bytes (p : payload) : list byte := match p with Len b => b | _ => [] end.

Section Interp.
  (* the denotation of a nested message of class c given by its serialisation *)
  Variable nested : nat -> list byte -> option aval.

  (* one element of a non-message field from one payload *)
  Definition scalar_of (t : ptype) (p : payload) : option aval :=
    match p with
    | Varint n => of_varint t n
    | Fixed32 b => of_fixed32 t b
    | Fixed64 b => of_fixed64 t b
    | Len b => match t with
               | TString => if utf8_valid b then Some (AStr b) else None
               | TBytes => Some (ABytes b)
               | _ => None
               end
    | Group _ => None
    end.

  Definition elem_of (f : fdesc) (p : payload) : option aval :=
    match msg_class f with
    | Some c => nested c (len_bytes p)
    | None => scalar_of (fty f) p
    end.

  (* the elements one payload contributes to a repeated field *)
  Definition elems_of (f : fdesc) (p : payload) : option (list aval) :=
    match p with
    | Len b => if packable (fty f) then unpack (fty f) b
               else let? x := elem_of f p in Some [x]
    | _ => let? x := elem_of f p in Some [x]
    end.

  Fixpoint map_put (k v : aval) (eqb : aval -> aval -> bool) (l : list (aval * aval)) : list (aval * aval) :=
    match l with
    | [] => [(k, v)]
    | (k', v') :: r => if eqb k' k then (k', v) :: r else (k', v') :: map_put k v eqb r
    end.

  Definition key_eqb (a b : aval) : bool :=
    match a, b with
    | AInt x, AInt y => x =? y
    | ABool x, ABool y => Bool.eqb x y
    | AStr x, AStr y => bytes_eqb x y
    | _, _ => false
    end.

  (* a map value that is a message and is missing from its entry is the empty message *)
  Definition strip (dflt : aval) (v : aval) : aval :=
    match v with ASome x => x | ANone => dflt | x => x end.

  Definition interp_field (sc : schema) (f : fdesc) (ps : list payload) : option aval :=
    match card_of f with
    | Repeated =>
        let? ls := omap_all (elems_of f) ps in Some (AList (concat ls))
    | MapOf =>
        let? es := omap_all (fun p => nested (fentry f) (len_bytes p)) ps in
        let dflt := match cfields (get_class sc (fentry f)) with
                    | [_; fv] => match msg_class fv with Some c => empty_msg sc c | None => ANone end
                    | _ => ANone
                    end in
        Some (AMap (fold_left (fun acc e =>
                                 match e with
                                 | AMsg [k; v] _ => map_put k (strip dflt v) key_eqb acc
                                 | _ => acc
                                 end) es []))
    | Implicit =>
        let? vs := omap_all (scalar_of (fty f)) ps in Some (last vs (adefault (fty f)))
    | Explicit | Oneof _ =>
        match msg_class f with
        | Some c =>
            (* every occurrence (since the group last changed hands) is merged:
               parsing the concatenation of the payloads *)
            match ps with
            | [] => Some ANone
            | _ => let? m := nested c (concat (map len_bytes ps)) in Some (ASome m)
            end
        | None =>
            let? vs := omap_all (scalar_of (fty f)) ps in
            Some (match vs with [] => ANone | _ => ASome (last vs ANone) end)
        end
    end.
End Interp.

(* every record that belongs to a field must be valid by itself, whether or not a later record
   overrides it (the reference rejects the message otherwise) *)
Definition is_some {A} (o : option A) : bool := match o with Some _ => true | None => false end.
Definition payload_valid (nested : nat -> list byte -> option aval) (f : fdesc) (p : payload) : bool :=
  match card_of f with
  | MapOf => is_some (nested (fentry f) (len_bytes p))
  | Repeated => is_some (elems_of nested f p)
  | _ => is_some (elem_of nested f p)
  end.
Definition record_valid (nested : nat -> list byte -> option aval) (sc : schema) (fs : list fdesc) (r : record) : bool :=
  match find_field fs (fst r) with
  | Some (_, f) => if accepts sc f (snd r) then payload_valid nested f (snd r) else true
  | None => true
  end.

(* [sem n sc c rs]: the message of class c denoted by the records rs; None when the reference
   rejects the message (invalid UTF-8 in a string field, malformed packed or nested payload).
   n bounds the nesting depth; S (length bs) is always enough for the records of bs. *)
Fixpoint sem (n : nat) (sc : schema) (c : nat) (rs : list record) : option aval :=
  match n with
  | O => None
  | S n' =>
      let fs := cfields (get_class sc c) in
      let nested (c' : nat) (b : list byte) : option aval :=
        let? rs' := parse_wire b in sem n' sc c' rs' in
      if forallb (record_valid nested sc fs) rs then
        let '(st, unk) := gather sc fs rs in
        let? fields := omap_all (fun '(f, ps) => interp_field nested sc f ps) (combine fs st) in
        Some (AMsg fields unk)
      else None
  end.

Definition sem_bytes (sc : schema) (c : nat) (bs : list byte) : option aval :=
  let? rs := parse_wire bs in sem (S (length bs)) sc c rs.

(* ------------------------------------------------------------------ 4. presence *)
(* HasField of the field numbered num (fields with presence), as the reference reports it *)
Definition has_field (a : aval) (fs : list fdesc) (num : Z) : bool :=
  match a, find_field fs num with
  | AMsg fields _, Some (i, _) => match nth i fields ANone with ASome _ => true | _ => false end
  | _, _ => false
  end.
