(* L0: what google.protobuf.Timestamp / Duration *mean*, written independently of
   betterproto (validated against google.protobuf's Timestamp.FromDatetime /
   Duration.FromTimedelta / ToJsonString / FromJsonString by tie T3 of
   harness/props/c15.py).

   An instant is an integer number of microseconds since 1970-01-01T00:00:00Z,
   a span an integer number of microseconds (Python's datetime / timedelta
   resolution).  Both messages are a pair (seconds : int64, nanos : int32).

   * Timestamp: nanos always counts FORWARD from seconds, 0 <= nanos < 10^9
     (so -1 us is (-1, 999999000)).
   * Duration: seconds and nanos never have opposite signs, |nanos| < 10^9
     (so -1 us is (0, -1000) and -1.5 s is (-1, -500000000)).

   The calendar (year-month-day hh:mm:ss of an instant) is NOT specified here:
   it is an oracle (Python's isoformat / dateutil's isoparse, the reference's
   own strftime); only the fraction / sign / suffix structure of the JSON forms is. *)
From BP Require Import Base.Prelude Spec.Varint.

(* ---- ranges of the .proto documentation ---- *)
Definition TS_MIN_US : Z := -62135596800 * 1000000.          (* 0001-01-01T00:00:00Z *)
Definition TS_MAX_US : Z := 253402300799 * 1000000 + 999999. (* 9999-12-31T23:59:59.999999Z *)
Definition DUR_MAX_S : Z := 315576000000.                    (* +-10000 years *)
Definition in_ts_range (t : Z) : Prop := TS_MIN_US <= t <= TS_MAX_US.
Definition in_dur_range (d : Z) : Prop := - (DUR_MAX_S * 1000000) <= d <= DUR_MAX_S * 1000000.

(* ---- normal forms, relationally ---- *)
(* (s, n) denotes the instant / span of t microseconds *)
Definition denotes_us (s n t : Z) : Prop := s * 1000000000 + n = 1000 * t.
Definition ts_normal (s n : Z) : Prop := 0 <= n < 1000000000.
Definition dur_normal (s n : Z) : Prop :=
  - 1000000000 < n < 1000000000 /\ (0 < s -> 0 <= n) /\ (s < 0 -> n <= 0).

(* ---- normal forms, executably (what the reference computes) ---- *)
Definition ts_of_us (t : Z) : Z * Z := (t / 1000000, (t mod 1000000) * 1000).   (* floor *)
Definition dur_of_us (d : Z) : Z * Z := (Z.quot d 1000000, Z.rem d 1000000 * 1000). (* toward zero *)

(* back to microseconds: Timestamp.ToDatetime / Duration.ToTimedelta round the
   sub-microsecond part toward zero *)
Definition ts_to_us (s n : Z) : Z := s * 1000000 + n / 1000.
Definition dur_to_us (s n : Z) : Z := s * 1000000 + Z.quot n 1000.

(* ---- wire form of the two-field message (proto3: zero fields are omitted, fields in
   number order, int32/int64 negatives as 64-bit two's complement varints) ---- *)
Definition field_varint (key : byte) (v : Z) (bs : list byte) : Prop :=
  (v = 0 /\ bs = []) \/ (v <> 0 /\ exists b, bs = key :: b /\ canonical (v mod 2 ^ 64) b).
Definition sn_wire (s n : Z) (bs : list byte) : Prop :=
  exists f1 f2, bs = f1 ++ f2 /\ field_varint x08 s f1 /\ field_varint x10 n f2.

(* a message-typed field number [fno] holding the serialised message [inner]:
   tag (fno << 3 | 2), length, payload - both varints canonical *)
Definition msg_field_wire (fno : Z) (inner bs : list byte) : Prop :=
  exists kb lb, bs = kb ++ lb ++ inner /\ canonical (2 + fno * 8) kb /\ canonical (Zlength inner) lb.
(* a message with one Timestamp (Duration) field: proto3 omits the field when it is the
   default (betterproto: the epoch / the zero span) *)
Definition ts_field_wire (fno t : Z) (bs : list byte) : Prop :=
  (t = 0 /\ bs = []) \/
  (t <> 0 /\ exists inner, msg_field_wire fno inner bs /\ sn_wire (fst (ts_of_us t)) (snd (ts_of_us t)) inner).
Definition dur_field_wire (fno d : Z) (bs : list byte) : Prop :=
  (d = 0 /\ bs = []) \/
  (d <> 0 /\ exists inner, msg_field_wire fno inner bs /\ sn_wire (fst (dur_of_us d)) (snd (dur_of_us d)) inner).

(* ---- decimal notation (positional, most significant digit first) ---- *)
Definition digit (d : Z) : byte := byte_of_Z (48 + d).

Fixpoint digs (fuel : nat) (n : Z) : list byte :=
  match fuel with
  | O => []
  | S f => (if n / 10 =? 0 then [] else digs f (n / 10)) ++ [digit (n mod 10)]
  end.
(* the decimal numeral of n >= 0, no leading zeros ("0" for 0) *)
Definition dec (n : Z) : list byte := digs (S (Z.to_nat (Z.log2 n))) n.
(* exactly k digits of n (n mod 10^k), zero padded *)
Fixpoint pad (k : nat) (n : Z) : list byte :=
  match k with O => [] | S k' => pad k' (n / 10) ++ [digit (n mod 10)] end.

Definition is_digit (b : byte) : bool := (48 <=? Z_of_byte b) && (Z_of_byte b <=? 57).
(* value of a digit string read left to right *)
Definition dval (l : list byte) : Z := fold_left (fun a b => 10 * a + (Z_of_byte b - 48)) l 0.
Fixpoint span_digits (l : list byte) : list byte * list byte :=
  match l with
  | b :: r => if is_digit b then let '(d, rest) := span_digits r in (b :: d, rest) else ([], l)
  | [] => ([], [])
  end.

Definition cDOT : byte := x2e.   (* "." *)
Definition cMINUS : byte := x2d. (* "-" *)
Definition cPLUS : byte := x2b.  (* "+" *)
Definition cZ : byte := x5a.     (* "Z" *)
Definition cS : byte := x73.     (* "s" *)

(* ---- JSON forms (proto3 JSON mapping) ---- *)
(* fraction of a second given as nanos in [0, 10^9): 0, 3, 6 or 9 digits, as few as are exact *)
Definition frac (n : Z) : list byte :=
  if n mod 1000000000 =? 0 then []
  else if n mod 1000000 =? 0 then cDOT :: pad 3 (n / 1000000)
  else if n mod 1000 =? 0 then cDOT :: pad 6 (n / 1000)
  else cDOT :: pad 9 n.

(* RFC 3339, UTC, "Z" suffix; [cal] is the calendar part "YYYY-MM-DDTHH:MM:SS" of the
   whole second (oracle) *)
Definition ts_json (cal : list byte) (n : Z) : list byte := cal ++ frac n ++ [cZ].

(* decimal seconds with suffix "s"; sign once, in front *)
Definition dur_json (s n : Z) : list byte :=
  (if (s <? 0) || (n <? 0) then [cMINUS] else []) ++ dec (Z.abs s) ++ frac (Z.abs n) ++ [cS].

(* what a conforming reader makes of a Duration string: "-"? digits ("." 1..9 digits)? "s".
   (Duration.FromJsonString; any number of fractional digits up to nanosecond precision) *)
Definition is_nil {A} (l : list A) : bool := match l with [] => true | _ => false end.

Definition dur_parse_unsigned (neg : bool) (r0 : list byte) : option (Z * Z) :=
  let '(ip, r1) := span_digits r0 in
  let sgn := if neg then -1 else 1 in
  if is_nil ip then None else
  match r1 with
  | b :: r2 =>
      if Byte.eqb b cS then (if is_nil r2 then Some (sgn * dval ip, 0) else None)
      else if Byte.eqb b cDOT then
        let '(fp, r3) := span_digits r2 in
        if is_nil fp then None else
        match r3 with
        | c :: r4 =>
            if Byte.eqb c cS && is_nil r4 && (Z.of_nat (length fp) <=? 9)
            then Some (sgn * dval ip, sgn * (dval fp * 10 ^ (9 - Z.of_nat (length fp))))
            else None
        | [] => None
        end
      else None
  | [] => None
  end.

Definition dur_parse (v : list byte) : option (Z * Z) :=
  match v with
  | b :: r => if Byte.eqb b cMINUS then dur_parse_unsigned true r else dur_parse_unsigned false v
  | [] => None
  end.

(* what a reader makes of the part of an RFC 3339 UTC string that follows the calendar
   part: "Z" or "." digits "Z"; microseconds (digits beyond the sixth are dropped) *)
Definition ts_suffix_parse (v : list byte) : option Z :=
  match v with
  | b :: r =>
      if Byte.eqb b cZ then (if is_nil r then Some 0 else None)
      else if Byte.eqb b cDOT then
        let '(fp, r2) := span_digits r in
        if is_nil fp then None else
        match r2 with
        | c :: r3 =>
            if Byte.eqb c cZ && is_nil r3 then
              let fp6 := firstn 6 fp in Some (dval fp6 * 10 ^ (6 - Z.of_nat (length fp6)))
            else None
        | [] => None
        end
      else None
  | [] => None
  end.
