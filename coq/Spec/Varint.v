(* L0: what a protobuf varint *is*, independent of betterproto.
   A varint is a non-empty byte sequence in which every byte but the last has
   bit 7 set; it denotes the little-endian base-128 number formed by the low 7
   bits of each byte.  The canonical (minimal) form has no trailing zero group.
   Protobuf allows up to 10 bytes. *)
From BP Require Import Base.Prelude.

Fixpoint varint_value (bs : list byte) : Z :=
  match bs with
  | [] => 0
  | b :: r => Z_of_byte b mod 128 + 128 * varint_value r
  end.

Fixpoint varint_shape (bs : list byte) : Prop :=
  match bs with
  | [] => False
  | b :: r => match r with
              | [] => Z_of_byte b < 128
              | _ :: _ => 128 <= Z_of_byte b /\ varint_shape r
              end
  end.

(* every legal representation of n, padded ones included *)
Definition VarintRep (n : Z) (bs : list byte) : Prop :=
  varint_shape bs /\ varint_value bs = n /\ (length bs <= 10)%nat.

(* the one canonical representation *)
Definition canonical (n : Z) (bs : list byte) : Prop :=
  varint_shape bs /\ varint_value bs = n /\ (length bs = 1%nat \/ last bs x00 <> x00).

(* zig-zag as the encoding documentation defines it *)
Definition zigzag_spec (v : Z) : Z := if v <? 0 then - 2 * v - 1 else 2 * v.

(* two's complement little-endian, n bytes *)
Definition twos_le (n : nat) (v : Z) : list byte := le_bytes n (v mod 256 ^ Z.of_nat n).
