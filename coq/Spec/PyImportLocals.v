(* Spec/PyImportLocals.v — what a dotted annotation string denotes when it is evaluated with a
   CLASS namespace in scope, as `typing.get_type_hints(cls)` / `typing.get_type_hints(cls, globalns)`
   (localns left to default) and pydantic's dataclass machinery do:

       eval(expr, module.__dict__, dict(vars(cls)))

   Written from the Python language reference (eval with separate globals / locals: a name is looked
   up in the locals mapping first, then in the globals, then in builtins) and from typing.get_type_hints'
   documented behaviour for classes ("localns defaults to the class namespace"), independently of
   betterproto.  Extends Spec/PyImport.v, which is the case of an EMPTY locals mapping (what
   betterproto itself does: Message._type_hints calls get_type_hints(cls, module.__dict__, {})).

   [cls_names] is the set of keys of the class namespace, as a list: for a generated message these are
   the Python names of its fields (each bound to the field's default object by @dataclass) and whatever
   else the class body binds (methods, __module__, __doc__, ...).

   Modelling decision (stated, not derived): an object stored in a class body under one of these names
   is neither a module nor one of the world's generated classes, and it has no attribute named like a
   generated class.  Hence:
     - an attribute access on it raises (AttributeError)        -> the evaluation fails;
     - a bare name that resolves to it evaluates to a non-class  -> the annotation does not denote a
       module or class of the world.
   Both are "None" of [resolve_with_locals]; [eval_with_locals] keeps them apart. *)
From BP Require Import Base.Prelude Spec.PyImport.
Local Open Scope nat_scope.

(* result of evaluating a (sub)expression in the two-level namespace *)
Inductive lvalue :=
| LGlobal (v : value)          (* a module or class object reached through the module's globals *)
| LClassAttr (x : name).       (* the object the class body binds to x (e.g. a field's default) *)

Definition mem_name (x : name) (l : list name) : bool := existsb (bytes_eqb x) l.

(* name lookup of eval(expr, globals, locals): locals first *)
Definition lookup_scoped (w : world) (P : path) (e : env) (cls_names : list name) (x : name) : option lvalue :=
  if mem_name x cls_names then Some (LClassAttr x)
  else match lookup_name w P e x with Some v => Some (LGlobal v) | None => None end.

Definition lattr (w : world) (v : lvalue) (n : name) : option lvalue :=
  match v with
  | LGlobal g => match attr w g n with Some g' => Some (LGlobal g') | None => None end
  | LClassAttr _ => None         (* AttributeError: the shadowing object is not a module *)
  end.

Fixpoint lattrs (w : world) (v : lvalue) (ns : list name) : option lvalue :=
  match ns with
  | [] => Some v
  | n :: r => match lattr w v n with Some v' => lattrs w v' r | None => None end
  end.

(* eval("a.b.C", module globals, class namespace) *)
Definition eval_with_locals (w : world) (P : path) (e : env) (cls_names : list name) (expr : list byte) : option lvalue :=
  match parse_dotted expr with
  | Some (x :: ns) => match lookup_scoped w P e cls_names x with Some v => lattrs w v ns | None => None end
  | _ => None
  end.

(* ... and the module / class it denotes, if it denotes one *)
Definition resolve_with_locals (w : world) (P : path) (e : env) (cls_names : list name) (expr : list byte) : option value :=
  match eval_with_locals w P e cls_names expr with
  | Some (LGlobal v) => Some v
  | _ => None
  end.

Definition resolve_annotation_with_locals (w : world) (P : path) (e : env) (cls_names : list name) (ann : list byte) : option value :=
  match unquote ann with Some x => resolve_with_locals w P e cls_names x | None => None end.

(* the module executes the import line that came with the reference; the annotation is then
   evaluated in the module's globals with the class namespace as locals *)
Definition denotes_with_locals (w : world) (P : path) (cls_names : list name)
                               (ref : list byte * option (list byte)) (v : value) : Prop :=
  exists e, exec_all w P (match snd ref with Some s => [s] | None => [] end) = Some e
            /\ resolve_annotation_with_locals w P e cls_names (fst ref) = Some v.

(* the first name of a dotted expression / of a quoted annotation: the only name eval looks up in
   the namespaces (everything after it is attribute access) *)
Definition expr_head (expr : list byte) : option name :=
  match parse_dotted expr with Some (x :: _) => Some x | _ => None end.

Definition annotation_head (ann : list byte) : option name :=
  match unquote ann with Some x => expr_head x | None => None end.
