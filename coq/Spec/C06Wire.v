(* L0 for C06: what "a record with field number n occurs in the input" and "the proto3 default of
   a field" mean, written without reference to betterproto's codec (Model/Encode.v, Model/Decode.v
   are not imported).  The only shared vocabulary is the schema description (Model/Object.v:
   field number, proto type, cardinality, oneof group) and Spec/Varint.v's definition of a varint.

   Record grammar (protobuf encoding documentation):
     record  ::= tag payload        tag = varint (number * 8 + wire type), number >= 1
     payload ::= varint                       wire type 0
               | 8 bytes                      wire type 1
               | varint(len) len bytes        wire type 2
               | 4 bytes                      wire type 5
   Groups (wire types 3/4) are outside this grammar: the C06 decode theorem speaks about byte
   strings that are concatenations of complete records of the four data wire types.
   A varint may be padded (every representation of at most 10 bytes is legal). *)
From BP Require Import Base.Prelude Model.Types Model.Object.
From BP Require Import Spec.Varint.

Record wrec := mkR {
  rnum : Z;              (* field number *)
  rwt : Z;               (* wire type *)
  rval : Z;              (* value of a varint record *)
  rbytes : list byte }.  (* payload of a fixed / length-delimited record *)

Inductive is_record : wrec -> list byte -> Prop :=
| IR_varint num v tb vb :
    1 <= num -> VarintRep (num * 8 + 0) tb -> VarintRep v vb ->
    is_record (mkR num 0 v []) (tb ++ vb)
| IR_fixed64 num d tb :
    1 <= num -> VarintRep (num * 8 + 1) tb -> length d = 8%nat ->
    is_record (mkR num 1 0 d) (tb ++ d)
| IR_len num d tb lb :
    1 <= num -> VarintRep (num * 8 + 2) tb -> VarintRep (Zlength d) lb ->
    is_record (mkR num 2 0 d) (tb ++ lb ++ d)
| IR_fixed32 num d tb :
    1 <= num -> VarintRep (num * 8 + 5) tb -> length d = 4%nat ->
    is_record (mkR num 5 0 d) (tb ++ d).

Inductive is_records : list wrec -> list byte -> Prop :=
| IRs_nil : is_records [] []
| IRs_cons r rs a b : is_record r a -> is_records rs b -> is_records (r :: rs) (a ++ b).

(* ---- an executable reader of the same grammar (used by the harness to compare this file with
        its Python twin and, through it, with google.protobuf; sound for the relation above:
        Proofs/C06SpecP.v read_records_sound) ---- *)
Fixpoint take_varint (n : nat) (bs : list byte) : option (list byte * list byte) :=
  match n, bs with
  | O, _ => None
  | _, [] => None
  | S n', b :: r =>
      if Z_of_byte b <? 128 then Some ([b], r)
      else match take_varint n' r with
           | Some (v, rest) => Some (b :: v, rest)
           | None => None
           end
  end.

Definition take_bytes (n : nat) (bs : list byte) : option (list byte * list byte) :=
  if Nat.leb n (length bs) then Some (firstn n bs, skipn n bs) else None.

Definition read_record (bs : list byte) : option (wrec * list byte) :=
  match take_varint 10 bs with
  | None => None
  | Some (tb, r1) =>
      let tag := varint_value tb in
      let num := tag / 8 in
      let wt := tag mod 8 in
      if num <? 1 then None
      else if wt =? 0 then
        match take_varint 10 r1 with
        | Some (vb, r2) => Some (mkR num 0 (varint_value vb) [], r2)
        | None => None
        end
      else if wt =? 1 then
        match take_bytes 8 r1 with Some (d, r2) => Some (mkR num 1 0 d, r2) | None => None end
      else if wt =? 5 then
        match take_bytes 4 r1 with Some (d, r2) => Some (mkR num 5 0 d, r2) | None => None end
      else if wt =? 2 then
        match take_varint 10 r1 with
        | Some (lb, r2) =>
            match take_bytes (Z.to_nat (varint_value lb)) r2 with
            | Some (d, r3) => Some (mkR num 2 0 d, r3)
            | None => None
            end
        | None => None
        end
      else None
  end.

Fixpoint read_records (fuel : nat) (bs : list byte) : option (list wrec) :=
  match bs with
  | [] => Some []
  | _ =>
      match fuel with
      | O => None
      | S fuel' =>
          match read_record bs with
          | Some (r, rest) =>
              match read_records fuel' rest with
              | Some rs => Some (r :: rs)
              | None => None
              end
          | None => None
          end
      end
  end.

Definition parse_records (bs : list byte) : option (list wrec) := read_records (length bs) bs.

(* ---- which wire type a record must have to belong to a field (protobuf encoding documentation:
        varint for the integer / bool / enum types, 32-bit for float fixed32 sfixed32, 64-bit for
        double fixed64 sfixed64, length-delimited for string bytes messages maps and for the packed
        form of a repeated numeric field) ---- *)
Definition base_wire_type (t : ptype) : Z :=
  match t with
  | TEnum | TBool | TInt32 | TInt64 | TUInt32 | TUInt64 | TSInt32 | TSInt64 => 0
  | TDouble | TFixed64 | TSFixed64 => 1
  | TFloat | TFixed32 | TSFixed32 => 5
  | TString | TBytes | TMessage | TMap => 2
  end.

Definition is_repeated (f : fdesc) : bool := match fhint f with HList _ => true | _ => false end.

Definition fits (f : fdesc) (wt : Z) : bool :=
  (wt =? base_wire_type (fty f)) || ((wt =? 2) && is_repeated f).

(* a record that belongs to field f occurs in the list *)
Definition has_record (f : fdesc) (rs : list wrec) : bool :=
  existsb (fun r => (rnum r =? fnum f) && fits f (rwt r)) rs.

(* the field a record belongs to: the field with that number, provided the wire type fits *)
Definition owner (cd : cdesc) (r : wrec) : option nat :=
  (fix go (i : nat) (fs : list fdesc) : option nat :=
     match fs with
     | [] => None
     | f :: fs' => if rnum r =? fnum f then (if fits f (rwt r) then Some i else None) else go (S i) fs'
     end) O (cfields cd).

Definition in_group (cd : cdesc) (g : nat) (i : nat) : bool :=
  match nth_error (cfields cd) i with
  | Some f => match fgroup f with Some g' => Nat.eqb g g' | None => false end
  | None => false
  end.

(* WhichOneof: the member of group g whose record comes last *)
Definition last_member (cd : cdesc) (g : nat) (rs : list wrec) : option nat :=
  fold_left (fun acc r => match owner cd r with
                          | Some i => if in_group cd g i then Some i else acc
                          | None => acc
                          end) rs None.

(* ---- proto3 defaults, by proto type and cardinality (language guide, "Default values"):
        numeric 0, bool false, string / bytes empty, enum the zero value, repeated empty, map empty,
        a message field: the default message (every field unset); fields with explicit presence
        that are mapped to Optional[...] in Python (proto3 optional, wrapper types): None;
        Timestamp the epoch, Duration zero; an unselected oneof member is not readable ---- *)
Definition unset_message (sc : schema) (c : nat) : obj :=
  Obj c (map (fun f => if fopt f then PNone else PPlaceholder) (cfields (get_class sc c))) false []
      (repeat None (cngroups (get_class sc c))).

Definition proto3_default (sc : schema) (f : fdesc) : result pv :=
  match fgroup f with
  | Some _ => Err EAttribute
  | None =>
      if fopt f then Ok PNone
      else match fwraps f with
      | Some _ => Ok PNone
      | None =>
          if is_repeated f then Ok (PList [])
          else match fty f with
          | TMap => Ok (PDict [])
          | TBool => Ok (PBool false)
          | TFloat | TDouble => Ok (PFloat 0)
          | TString => Ok (PStr [])
          | TBytes => Ok (PBytes [])
          | TMessage =>
              match fhint f with
              | HPlain PyDatetime => Ok (PDatetime 0)
              | HPlain PyTimedelta => Ok (PTimedelta 0)
              | HPlain (PyMsg c) => Ok (PMsg (unset_message sc c))
              | _ => Err EOther
              end
          | _ => Ok (PInt 0)
          end
      end
  end.

(* ---- presence classes of a field (proto3 language guide, "Field presence") ---- *)
(* plain scalar / enum (and the value types datetime / timedelta): no optional, no oneof, no message object *)
Definition implicit_field (f : fdesc) : Prop :=
  fgroup f = None /\ fopt f = false /\
  exists t, fhint f = HPlain t /\ forall c, t <> PyMsg c.


(* proto3 optional and wrapper-typed fields (both are Optional[...] in Python; never oneof members) *)
Definition optional_like (f : fdesc) : Prop :=
  fgroup f = None /\ (fopt f = true \/ exists w t, fwraps f = Some w /\ fhint f = HOptional t).


(* the kinds with explicit presence, as a property of the field alone *)
Definition explicit_field (f : fdesc) : Prop := optional_like f \/ exists g, fgroup f = Some g.


Definition plain_msg_field (f : fdesc) : Prop :=
  fgroup f = None /\ fopt f = false /\ fwraps f = None /\ fty f = TMessage.


Definition msg_hinted (f : fdesc) : Prop := exists c', fhint f = HPlain (PyMsg c').


Definition plain_msg (f : fdesc) : Prop := plain_msg_field f /\ msg_hinted f.


(* the three kinds the property names: proto3 optional and wrapper fields (never oneof members in a
   well-formed schema), and the member its oneof group selects *)
Definition explicit_kind (cur : list (option nat)) (i : nat) (f : fdesc) : Prop :=
  (fgroup f = None /\ (fopt f = true \/ exists w t, fwraps f = Some w /\ fhint f = HOptional t))
  \/ group_selects cur f i = Some true.


(* a byte string that starts with the tag (number, wire type) of a record *)
Definition starts_with_tag (num wt : Z) (bs : list byte) : Prop :=
  exists tb rest, VarintRep (num * 8 + wt) tb /\ bs = tb ++ rest.


(* the class table starts with betterproto's own classes (Timestamp, Duration, nine wrappers), whose
   fields are plain ungrouped scalars: what msggen prints as `builtin_classes ++ ...` *)
Definition std_builtins_b (sc : schema) : bool :=
  forallb (fun c => forallb (fun f => match fhint f, fgroup f with
                                      | HPlain (PyMsg _), _ => false
                                      | HPlain _, None => negb (ptype_eqb (fty f) TMessage) && negb (ptype_eqb (fty f) TMap)
                                      | _, _ => false
                                      end) (cfields (get_class sc c)))
          (seq 0 (length builtin_classes)).

(* what the harness compares with its Python twin *)
Definition c06_spec_obs (sc : schema) (c : nat) (bs : list byte) : cv :=
  match parse_records bs with
  | None => CE EOther
  | Some rs =>
      let cd := get_class sc c in
      CL [CL (map (fun f => cbool (has_record f rs)) (cfields cd));
          CL (map (fun g => copt (fun i => CZ (Z.of_nat i)) (last_member cd g rs)) (seq 0 (cngroups cd)))]
  end.
