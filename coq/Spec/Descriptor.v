(* C03 — the MEANING of a FileDescriptorSet, read the way descriptor.proto documents it,
   independently of the plugin's heuristics.

   * strings are UTF-8 byte lists; the ASCII helpers below are the vocabulary shared with Model/Plugin.v
   * [descriptor] is the part of FileDescriptorProto the property speaks about
   * [class_table] is what a Python package looks like to `dataclasses.fields` + resolved type hints
   * [class_table_of D] is the class table the schema D denotes:
       - one class per message (map-entry types excepted) and per enum, nested ones included,
         identified by its full dotted path;
       - a field is a map iff its type_name is exactly a nested type of its parent whose options say
         map_entry; key and value are the entry's fields number 1 and 2;
       - a field is in a (real) oneof iff oneof_index is present and the field is not proto3_optional;
       - type names are resolved through the symbol table of D (no guessing from capital letters).
     The naming functions (how a proto name becomes a Python identifier) are parameters: naming is
     property C19's business; here they are only required to be injective per scope ([names_ok], in
     Proofs/PluginP.v).
   * [protoc_wf D] is the boolean predicate stating what protoc guarantees about the descriptors it emits
     (checked by the harness on every descriptor set protoc produces for the generated schemas). *)
From BP Require Import Base.Prelude.

Definition str := list byte.
Definition str_eqb : str -> str -> bool := bytes_eqb.

(* ---- ASCII helpers -------------------------------------------------------------------- *)
Definition c_dot : byte := x2e.
Definition c_us : byte := x5f.

Definition is_upper (c : byte) : bool :=
  match c with
  | x41 | x42 | x43 | x44 | x45 | x46 | x47 | x48 | x49 | x4a | x4b | x4c | x4d
  | x4e | x4f | x50 | x51 | x52 | x53 | x54 | x55 | x56 | x57 | x58 | x59 | x5a => true
  | _ => false
  end.

Definition lower_b (c : byte) : byte :=
  match c with
  | x41 => x61 | x42 => x62 | x43 => x63 | x44 => x64 | x45 => x65 | x46 => x66 | x47 => x67
  | x48 => x68 | x49 => x69 | x4a => x6a | x4b => x6b | x4c => x6c | x4d => x6d | x4e => x6e
  | x4f => x6f | x50 => x70 | x51 => x71 | x52 => x72 | x53 => x73 | x54 => x74 | x55 => x75
  | x56 => x76 | x57 => x77 | x58 => x78 | x59 => x79 | x5a => x7a
  | c => c
  end.

Definition upper_b (c : byte) : byte :=
  match c with
  | x61 => x41 | x62 => x42 | x63 => x43 | x64 => x44 | x65 => x45 | x66 => x46 | x67 => x47
  | x68 => x48 | x69 => x49 | x6a => x4a | x6b => x4b | x6c => x4c | x6d => x4d | x6e => x4e
  | x6f => x4f | x70 => x50 | x71 => x51 | x72 => x52 | x73 => x53 | x74 => x54 | x75 => x55
  | x76 => x56 | x77 => x57 | x78 => x58 | x79 => x59 | x7a => x5a
  | c => c
  end.

Definition is_dot (c : byte) : bool := Byte.eqb c c_dot.
Definition is_us (c : byte) : bool := Byte.eqb c c_us.

(* str.lower() / str.upper() restricted to ASCII (identifiers protoc accepts are ASCII) *)
Definition lower (s : str) : str := map lower_b s.
Definition upper (s : str) : str := map upper_b s.
(* s.replace("_", "") *)
Definition strip_us (s : str) : str := filter (fun c => negb (is_us c)) s.

(* s.split(".") *)
Fixpoint split_dot_aux (cur : str) (s : str) : list str :=
  match s with
  | [] => [rev cur]
  | c :: r => if is_dot c then rev cur :: split_dot_aux [] r else split_dot_aux (c :: cur) r
  end.
Definition split_dot (s : str) : list str := split_dot_aux [] s.

(* s.split(".").pop() : what follows the last dot *)
Fixpoint last_seg_aux (cur : str) (s : str) : str :=
  match s with
  | [] => rev cur
  | c :: r => if is_dot c then last_seg_aux [] r else last_seg_aux (c :: cur) r
  end.
Definition last_seg (s : str) : str := last_seg_aux [] s.

Fixpoint join (sep : str) (l : list str) : str :=
  match l with
  | [] => []
  | [x] => x
  | x :: r => x ++ sep ++ join sep r
  end.

Fixpoint prefix_of (p s : str) : option str :=   (* Some rest if s = p ++ rest *)
  match p, s with
  | [], _ => Some s
  | a :: p', b :: s' => if Byte.eqb a b then prefix_of p' s' else None
  | _, [] => None
  end.

Definition is_nil {A} (l : list A) : bool := match l with [] => true | _ => false end.

Fixpoint lookup {A} (k : str) (l : list (str * A)) : option A :=
  match l with
  | [] => None
  | (k', v) :: r => if str_eqb k k' then Some v else lookup k r
  end.

Fixpoint lookupZ {A} (k : Z) (l : list (Z * A)) : option A :=
  match l with
  | [] => None
  | (k', v) :: r => if Z.eqb k k' then Some v else lookupZ k r
  end.

Definition zmem (z : Z) (l : list Z) : bool := existsb (Z.eqb z) l.
Definition smem (s : str) (l : list str) : bool := existsb (str_eqb s) l.

Fixpoint nodupb (l : list str) : bool :=
  match l with
  | [] => true
  | x :: r => negb (smem x r) && nodupb r
  end.

(* ---- descriptors ---------------------------------------------------------------------- *)
Record field_d := mkField {
  fd_name : str;
  fd_number : Z;
  fd_label : Z;                  (* FieldDescriptorProto.Label: 1 optional, 2 required, 3 repeated *)
  fd_type : Z;                   (* FieldDescriptorProto.Type number *)
  fd_type_name : str;            (* fully-qualified, leading dot; "" for scalars *)
  fd_oneof_index : option Z;     (* None = the field is absent from the wire *)
  fd_proto3_optional : bool
}.

Record enum_d := mkEnum { ed_name : str; ed_values : list (str * Z) }.

Inductive msg_d := mkMsg {
  md_name : str;
  md_fields : list field_d;
  md_nested : list msg_d;
  md_enums : list enum_d;
  md_oneofs : list str;          (* oneof_decl names *)
  md_map_entry : bool            (* options.map_entry *)
}.

Record file_d := mkFile {
  fl_name : str; fl_package : str; fl_messages : list msg_d; fl_enums : list enum_d
}.

(* CodeGeneratorRequest.proto_file / FileDescriptorSet.file, in order *)
Definition descriptor := list file_d.

(* ---- class tables --------------------------------------------------------------------- *)
Inductive pytype :=
| PyInt | PyFloat | PyBool | PyStr | PyBytes | PyDatetime | PyTimedelta
| PyRef (module : str) (cls : str)       (* the class [cls] of module [module] (dotted package) *)
| PyOptional (t : pytype)
| PyList (t : pytype)
| PyDict (k v : pytype).

Record py_field := mkPyField {
  pf_name : str;
  pf_number : Z;
  pf_proto_type : str;                 (* FieldMetadata.proto_type *)
  pf_map_types : option (str * str);
  pf_group : option str;
  pf_wraps : option str;
  pf_optional : bool;
  pf_hint : pytype                     (* resolved type hint *)
}.

Inductive py_body :=
| ClsMessage (fields : list py_field)
| ClsEnum (members : list (str * Z)).

Definition py_class : Type := (str * py_body)%type.
Definition py_module : Type := (str * list py_class)%type.      (* dotted package, classes in definition order *)
Definition class_table := list py_module.

(* the module in which the classes of proto package [pkg] live: google.protobuf is provided by the
   bundled library, every other package is generated *)
Definition google_protobuf : str := [x67; x6f; x6f; x67; x6c; x65; x2e; x70; x72; x6f; x74; x6f; x62; x75; x66].
Definition bundled_google_protobuf : str :=
  [x62; x65; x74; x74; x65; x72; x70; x72; x6f; x74; x6f; x2e; x6c; x69; x62; x2e] ++ google_protobuf.
Definition module_of_package (pkg : str) : str :=
  if str_eqb pkg google_protobuf then bundled_google_protobuf else pkg.

(* ---- canonical values (for the executable comparison with the implementation) ---------- *)
Fixpoint cv_hint (t : pytype) : cv :=
  match t with
  | PyInt => CL [CZ 0] | PyFloat => CL [CZ 1] | PyBool => CL [CZ 2] | PyStr => CL [CZ 3] | PyBytes => CL [CZ 4]
  | PyDatetime => CL [CZ 5] | PyTimedelta => CL [CZ 6]
  | PyRef m c => CL [CZ 7; CB m; CB c]
  | PyOptional t => CL [CZ 8; cv_hint t]
  | PyList t => CL [CZ 9; cv_hint t]
  | PyDict k v => CL [CZ 10; cv_hint k; cv_hint v]
  end.

Definition cv_field (f : py_field) : cv :=
  CL [CB (pf_name f); CZ (pf_number f); CB (pf_proto_type f);
      copt (fun '(k, v) => CL [CB k; CB v]) (pf_map_types f);
      copt CB (pf_group f); copt CB (pf_wraps f); cbool (pf_optional f); cv_hint (pf_hint f)].

Definition cv_class (c : py_class) : cv :=
  match snd c with
  | ClsMessage fs => CL [CB (fst c); CZ 0; CL (map cv_field fs)]
  | ClsEnum ms => CL [CB (fst c); CZ 1; CL (map (fun '(n, v) => CL [CB n; CZ v]) ms)]
  end.

Definition cv_table (t : class_table) : cv :=
  CL (map (fun '(p, cs) => CL [CB p; CL (map cv_class cs)]) t).

(* ---- descriptor.proto's own numbering of FieldDescriptorProto.Type ---------------------
   (written from descriptor.proto, NOT read from the plugin's bundled copy) *)
Definition T_DOUBLE := 1. Definition T_FLOAT := 2. Definition T_INT64 := 3. Definition T_UINT64 := 4.
Definition T_INT32 := 5. Definition T_FIXED64 := 6. Definition T_FIXED32 := 7. Definition T_BOOL := 8.
Definition T_STRING := 9. Definition T_GROUP := 10. Definition T_MESSAGE := 11. Definition T_BYTES := 12.
Definition T_UINT32 := 13. Definition T_ENUM := 14. Definition T_SFIXED32 := 15. Definition T_SFIXED64 := 16.
Definition T_SINT32 := 17. Definition T_SINT64 := 18.
Definition L_REPEATED := 3.

Definition b_ (l : list byte) : str := l.
(* scalar kinds: the name betterproto records as proto_type, and the Python type of a value *)
Definition scalar_kind (t : Z) : option (str * pytype) :=
  if t =? T_DOUBLE then Some (b_ [x64; x6f; x75; x62; x6c; x65], PyFloat)
  else if t =? T_FLOAT then Some (b_ [x66; x6c; x6f; x61; x74], PyFloat)
  else if t =? T_INT64 then Some (b_ [x69; x6e; x74; x36; x34], PyInt)
  else if t =? T_UINT64 then Some (b_ [x75; x69; x6e; x74; x36; x34], PyInt)
  else if t =? T_INT32 then Some (b_ [x69; x6e; x74; x33; x32], PyInt)
  else if t =? T_FIXED64 then Some (b_ [x66; x69; x78; x65; x64; x36; x34], PyInt)
  else if t =? T_FIXED32 then Some (b_ [x66; x69; x78; x65; x64; x33; x32], PyInt)
  else if t =? T_BOOL then Some (b_ [x62; x6f; x6f; x6c], PyBool)
  else if t =? T_STRING then Some (b_ [x73; x74; x72; x69; x6e; x67], PyStr)
  else if t =? T_BYTES then Some (b_ [x62; x79; x74; x65; x73], PyBytes)
  else if t =? T_UINT32 then Some (b_ [x75; x69; x6e; x74; x33; x32], PyInt)
  else if t =? T_SFIXED32 then Some (b_ [x73; x66; x69; x78; x65; x64; x33; x32], PyInt)
  else if t =? T_SFIXED64 then Some (b_ [x73; x66; x69; x78; x65; x64; x36; x34], PyInt)
  else if t =? T_SINT32 then Some (b_ [x73; x69; x6e; x74; x33; x32], PyInt)
  else if t =? T_SINT64 then Some (b_ [x73; x69; x6e; x74; x36; x34], PyInt)
  else None.

Definition s_message : str := [x6d; x65; x73; x73; x61; x67; x65].
Definition s_enum : str := [x65; x6e; x75; x6d].
Definition s_map : str := [x6d; x61; x70].
Definition s_entry : str := [x65; x6e; x74; x72; x79].      (* "entry" *)
Definition s_Entry : str := [x45; x6e; x74; x72; x79].      (* "Entry" *)

(* the name betterproto records for the type of a map key / value (TYPE_* constant values) *)
Definition kind_name (t : Z) : option str :=
  match scalar_kind t with
  | Some (n, _) => Some n
  | None => if t =? T_MESSAGE then Some s_message else if t =? T_ENUM then Some s_enum else None
  end.

(* wrappers.proto: the nine wrapper messages, the scalar kind of their `value` field and its Python type;
   timestamp.proto / duration.proto map to datetime / timedelta *)
Definition gp (l : list byte) : str := c_dot :: google_protobuf ++ c_dot :: l.
Definition wkt_wrappers : list (str * (str * pytype)) :=
  [ (gp [x44; x6f; x75; x62; x6c; x65; x56; x61; x6c; x75; x65], (b_ [x64; x6f; x75; x62; x6c; x65], PyFloat));   (* DoubleValue *)
    (gp [x46; x6c; x6f; x61; x74; x56; x61; x6c; x75; x65], (b_ [x66; x6c; x6f; x61; x74], PyFloat));             (* FloatValue *)
    (gp [x49; x6e; x74; x36; x34; x56; x61; x6c; x75; x65], (b_ [x69; x6e; x74; x36; x34], PyInt));               (* Int64Value *)
    (gp [x55; x49; x6e; x74; x36; x34; x56; x61; x6c; x75; x65], (b_ [x75; x69; x6e; x74; x36; x34], PyInt));     (* UInt64Value *)
    (gp [x49; x6e; x74; x33; x32; x56; x61; x6c; x75; x65], (b_ [x69; x6e; x74; x33; x32], PyInt));               (* Int32Value *)
    (gp [x55; x49; x6e; x74; x33; x32; x56; x61; x6c; x75; x65], (b_ [x75; x69; x6e; x74; x33; x32], PyInt));     (* UInt32Value *)
    (gp [x42; x6f; x6f; x6c; x56; x61; x6c; x75; x65], (b_ [x62; x6f; x6f; x6c], PyBool));                        (* BoolValue *)
    (gp [x53; x74; x72; x69; x6e; x67; x56; x61; x6c; x75; x65], (b_ [x73; x74; x72; x69; x6e; x67], PyStr));     (* StringValue *)
    (gp [x42; x79; x74; x65; x73; x56; x61; x6c; x75; x65], (b_ [x62; x79; x74; x65; x73], PyBytes)) ].           (* BytesValue *)
Definition wkt_timestamp : str := gp [x54; x69; x6d; x65; x73; x74; x61; x6d; x70].
Definition wkt_duration : str := gp [x44; x75; x72; x61; x74; x69; x6f; x6e].

(* protoc's MapEntryName (compiler/parser.cc): drop underscores, capitalise the first letter and every
   letter that followed an underscore, append "Entry" *)
Fixpoint camel (cap : bool) (s : str) : str :=
  match s with
  | [] => []
  | c :: r => if is_us c then camel true r else (if cap then upper_b c else c) :: camel false r
  end.
Definition map_entry_name (field_name : str) : str := camel true field_name ++ s_Entry.

(* ---- the symbol table of a descriptor set ------------------------------------------------ *)
Definition dotted (p : list str) : str := join [c_dot] p.
Definition full_name (pkg : str) (p : list str) : str :=
  c_dot :: (if is_nil pkg then dotted p else pkg ++ c_dot :: dotted p).

(* every message below [m] (itself included), with its path; declaration preorder *)
Fixpoint all_msgs (pre : list str) (m : msg_d) : list (list str * msg_d) :=
  let p := pre ++ [md_name m] in
  (p, m) :: flat_map (all_msgs p) (md_nested m).

(* every enum declared inside [m] or below, with its path; declaration preorder, a message's own
   enums before those of its nested messages *)
Fixpoint all_enums_in (pre : list str) (m : msg_d) : list (list str * enum_d) :=
  let p := pre ++ [md_name m] in
  map (fun e => (p ++ [ed_name e], e)) (md_enums m) ++ flat_map (all_enums_in p) (md_nested m).

Definition file_msgs (f : file_d) : list (list str * msg_d) := flat_map (all_msgs []) (fl_messages f).
Definition file_enums (f : file_d) : list (list str * enum_d) :=
  map (fun e => ([ed_name e], e)) (fl_enums f) ++ flat_map (all_enums_in []) (fl_messages f).

Inductive sym :=
| SymMsg (pkg : str) (path : list str) (m : msg_d)
| SymEnum (pkg : str) (path : list str) (e : enum_d).
Definition sym_pkg (s : sym) := match s with SymMsg p _ _ | SymEnum p _ _ => p end.
Definition sym_path (s : sym) := match s with SymMsg _ p _ | SymEnum _ p _ => p end.
Definition sym_full_name (s : sym) : str := full_name (sym_pkg s) (sym_path s).

Definition file_symbols (f : file_d) : list sym :=
  map (fun '(p, m) => SymMsg (fl_package f) p m) (file_msgs f) ++
  map (fun '(p, e) => SymEnum (fl_package f) p e) (file_enums f).
Definition symbols (D : descriptor) : list sym := flat_map file_symbols D.
Definition resolve (D : descriptor) (type_name : str) : option sym :=
  find (fun s => str_eqb (sym_full_name s) type_name) (symbols D).

(* packages in order of first appearance; the files of a package in request order *)
Fixpoint packages_aux (seen : list str) (D : descriptor) : list str :=
  match D with
  | [] => []
  | f :: r => if smem (fl_package f) seen then packages_aux seen r
              else fl_package f :: packages_aux (fl_package f :: seen) r
  end.
Definition packages (D : descriptor) : list str := packages_aux [] D.
Definition files_of (D : descriptor) (pkg : str) : list file_d :=
  filter (fun f => str_eqb (fl_package f) pkg) D.

(* ---- the reading of one field --------------------------------------------------------------- *)
(* the map-entry type a field refers to: a nested type of ITS OWN parent, flagged map_entry, whose
   full name is exactly the field's type_name *)
Definition spec_map_entry (pkg : str) (ppath : list str) (parent : msg_d) (f : field_d) : option msg_d :=
  if fd_type f =? T_MESSAGE then
    find (fun n => md_map_entry n && str_eqb (full_name pkg (ppath ++ [md_name n])) (fd_type_name f))
         (md_nested parent)
  else None.
Definition spec_is_map pkg ppath parent f : bool :=
  match spec_map_entry pkg ppath parent f with Some _ => true | None => false end.

Definition field_numbered (n : Z) (m : msg_d) : option field_d :=
  find (fun f => fd_number f =? n) (md_fields m).

Section Spec.
  (* how proto names become Python identifiers (property C19); opaque here *)
  Variable field_name : str -> str.
  Variable class_name : str -> str.
  Variable enum_member_name : str -> str -> str.   (* member name, (flattened) enum name *)

  Definition flat (p : list str) : str := concat (map (fun s => c_us :: s) p).   (* "_Outer_Inner" *)

  (* Python type of one value of the field's type *)
  Definition spec_value_type (D : descriptor) (f : field_d) : option pytype :=
    match scalar_kind (fd_type f) with
    | Some (_, py) => Some py
    | None =>
        if (fd_type f =? T_MESSAGE) || (fd_type f =? T_ENUM) then
          match lookup (fd_type_name f) wkt_wrappers with
          | Some (_, py) => Some (PyOptional py)
          | None =>
              if str_eqb (fd_type_name f) wkt_duration then Some PyTimedelta
              else if str_eqb (fd_type_name f) wkt_timestamp then Some PyDatetime
              else match resolve D (fd_type_name f) with
                   | Some s => Some (PyRef (module_of_package (sym_pkg s)) (class_name (dotted (sym_path s))))
                   | None => None
                   end
          end
        else None
    end.

  Definition spec_wraps (f : field_d) : option str :=
    if fd_type f =? T_MESSAGE then
      match lookup (fd_type_name f) wkt_wrappers with Some (k, _) => Some k | None => None end
    else None.

  Definition spec_group (parent : msg_d) (f : field_d) : option (option str) :=
    match fd_oneof_index f with
    | Some i => if fd_proto3_optional f then Some None
                else if (0 <=? i) && (i <? Zlength (md_oneofs parent))
                     then Some (Some (nth (Z.to_nat i) (md_oneofs parent) []))
                     else None
    | None => Some None
    end.

  (* [None]: the descriptor is not one the specification gives a meaning to (excluded by protoc_wf) *)
  Definition spec_field (D : descriptor) (pkg : str) (ppath : list str) (parent : msg_d) (f : field_d)
    : option py_field :=
    match spec_map_entry pkg ppath parent f with
    | Some entry =>
        match field_numbered 1 entry, field_numbered 2 entry with
        | Some k, Some v =>
            match kind_name (fd_type k), kind_name (fd_type v), spec_value_type D k, spec_value_type D v with
            | Some kn, Some vn, Some kt, Some vt =>
                Some (mkPyField (field_name (fd_name f)) (fd_number f) s_map (Some (kn, vn)) None None false
                                (PyDict kt vt))
            | _, _, _, _ => None
            end
        | _, _ => None
        end
    | None =>
        match kind_name (fd_type f), spec_value_type D f, spec_group parent f with
        | Some kn, Some vt, Some grp =>
            let hint := if fd_label f =? L_REPEATED then PyList vt
                        else if fd_proto3_optional f then
                               match vt with PyOptional _ => vt | _ => PyOptional vt end
                        else vt in
            Some (mkPyField (field_name (fd_name f)) (fd_number f) kn None grp (spec_wraps f)
                            (fd_proto3_optional f) hint)
        | _, _, _ => None
        end
    end.

  Fixpoint all_some {A} (l : list (option A)) : option (list A) :=
    match l with
    | [] => Some []
    | Some a :: r => match all_some r with Some r' => Some (a :: r') | None => None end
    | None :: _ => None
    end.

  Definition spec_message_class D pkg (pm : list str * msg_d) : option py_class :=
    match all_some (map (spec_field D pkg (fst pm) (snd pm)) (md_fields (snd pm))) with
    | Some fs => Some (class_name (dotted (fst pm)), ClsMessage fs)
    | None => None
    end.

  Definition spec_enum_class (pe : list str * enum_d) : py_class :=
    (class_name (dotted (fst pe)),
     ClsEnum (map (fun '(n, v) => (enum_member_name n (flat (fst pe)), v)) (ed_values (snd pe)))).

  (* the module of one package: its enums, then its messages (map-entry types are not classes) *)
  Definition spec_module (D : descriptor) (pkg : str) : option py_module :=
    let fs := files_of D pkg in
    let enums := map spec_enum_class (flat_map file_enums fs) in
    match all_some (map (spec_message_class D pkg)
                        (filter (fun pm => negb (md_map_entry (snd pm))) (flat_map file_msgs fs))) with
    | Some msgs => Some (pkg, enums ++ msgs)
    | None => None
    end.

  (* google.protobuf is provided by the bundled library, not generated *)
  Definition output_packages (D : descriptor) : list str :=
    filter (fun p => negb (str_eqb p google_protobuf)) (packages D).

  Definition class_table_of (D : descriptor) : option class_table :=
    all_some (map (spec_module D) (output_packages D)).
End Spec.

(* ---- what protoc guarantees about its output ---------------------------------------------- *)
Definition ident_char (c : byte) : bool :=
  let n := Byte.to_N c in
  ((48 <=? n) && (n <=? 57) || (65 <=? n) && (n <=? 90) || (97 <=? n) && (n <=? 122) || (n =? 95))%N.
Definition ident (s : str) : bool := negb (is_nil s) && forallb ident_char s.

Definition field_wf (D : descriptor) (pkg : str) (ppath : list str) (parent : msg_d) (f : field_d) : bool :=
  (* the type is one of descriptor.proto's, and type_name is present exactly for message / enum
     fields, fully qualified, and names a message resp. an enum of the descriptor set *)
  (match scalar_kind (fd_type f) with
   | Some _ => is_nil (fd_type_name f)
   | None =>
       match resolve D (fd_type_name f) with
       | Some (SymMsg _ _ _) => fd_type f =? T_MESSAGE
       | Some (SymEnum _ _ _) => fd_type f =? T_ENUM
       | None => false
       end
   end)
  (* oneof_index, when present, indexes oneof_decl *)
  && (match fd_oneof_index f with
      | Some i => (0 <=? i) && (i <? Zlength (md_oneofs parent))
      | None => true
      end)
  (* a map-entry type is named after the map field that refers to it *)
  && forallb (fun n => negb (md_map_entry n
                             && str_eqb (full_name pkg (ppath ++ [md_name n])) (fd_type_name f))
                       || str_eqb (md_name n) (map_entry_name (fd_name f)))
             (md_nested parent).

Definition map_entry_wf (m : msg_d) : bool :=
  (* key = 1, value = 2, in this order, nothing else *)
  match md_fields m with
  | [k; v] => (fd_number k =? 1) && (fd_number v =? 2)
  | _ => false
  end.

Definition msg_wf (D : descriptor) (pkg : str) (pm : list str * msg_d) : bool :=
  let m := snd pm in
  ident (md_name m)
  && forallb (field_wf D pkg (fst pm) m) (md_fields m)
  && forallb (fun e => ident (ed_name e)) (md_enums m)
  && nodupb (map md_name (md_nested m))
  && (negb (md_map_entry m) || map_entry_wf m).

Definition file_wf (D : descriptor) (f : file_d) : bool :=
  forallb (msg_wf D (fl_package f)) (file_msgs f)
  && forallb (fun e => ident (ed_name e)) (fl_enums f)
  && forallb (fun c => ident_char c || is_dot c) (fl_package f).

Definition protoc_wf (D : descriptor) : bool := forallb (file_wf D) D.
