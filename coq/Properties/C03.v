(* C03 — the protoc plugin's output implements the schema.
   Property-level statements only; every proof is a single [exact] of a lemma from Proofs/PluginP.v,
   Proofs/PluginWitP.v, Proofs/C03Bridge{A,B,C,D,E,Wit}.v or Proofs/C03Chain{A,B,C,Wit}.v, followed by Print Assumptions.

   Reading guide
     descriptor          Spec/Descriptor.v   FileDescriptorSet as protoc emits it (any number of files, messages, nesting depth)
     protoc_wf D         Spec/Descriptor.v   what protoc guarantees: identifiers, type names resolve to the right kind,
                                             oneof_index in range, map-entry types named MapEntryName(field) with key = 1, value = 2,
                                             nested type names distinct
     class_table_of      Spec/Descriptor.v   the MEANING of D: one class per message / enum, fields with number, proto type,
                                             cardinality (hint shape, optional flag, map types), oneof group, wrapper /
                                             Timestamp / Duration mapping, enum members with their numbers
     compile, reflect    Model/Plugin.v      what the plugin emits (heuristics included) and what Python makes of it
     names_ok            Proofs/PluginP.v    the naming side conditions; each conjunct is a known-finding class when false:
                                             pkg_names_ok (K2), flat_dotted_ok + class_nodup (K1), fields_nodup + members_nodup (K8),
                                             map_keys_ok (K13), wraps_ok (K14)
     schema_of_table     Model/C03Bridge.v   THE BRIDGE to the runtime codec model (Model/Object.v): the class table as a runtime
                                             schema, numbered the way harness/msggen.py numbers it (11 bundled classes, one cdesc per
                                             message class, synthetic Entry classes after them, enum table, references by index)
     table_ok, bridge_ok Model/C03Bridge.v   decidable side conditions of the bridge on a table / on a descriptor set (each conjunct
                                             of bridge_ok is marked there: guaranteed by protoc / limit of the runtime model's
                                             wf_schema / outside the classes the runtime model has)
     c01_schema_ok       Model/C01Def.v      the schema hypothesis of the runtime theorems (C01 C02 C04 C08 C10 ...): wf_schema +
                                             builtins_exact + entries_ok
   The naming functions field_name / class_name / enum_member_name (pythonize_field_name, pythonize_class_name,
   pythonize_enum_member_name of compile/naming.py; property C19) are universally quantified: the theorems hold for
   EVERY choice of them that satisfies names_ok on D, and the harness evaluates names_ok with the real functions. *)
(* the runtime model first: where it and Spec.Descriptor use the same constructor names (PyInt ...), the unqualified
   name is Spec.Descriptor's, as in the theorems about the plugin below *)
From BP Require Import Model.Types Model.Object Model.Eq Model.Encode Model.Decode Model.WellFormed Model.C01Def.
From BP Require Import Base.Prelude Spec.Descriptor gen.C03Tables Model.Plugin Proofs.PluginP Proofs.PluginWitP.
From BP Require Import Model.C03Bridge Proofs.C03BridgeA Proofs.C03BridgeC Proofs.C03BridgeD Proofs.C03BridgeE Proofs.C03BridgeWit.
(* the chain section (last section of this file): definitions of the runtime properties are used under qualified names *)
From BP Require Import Model.C03Chain Proofs.C03ChainB Proofs.C03ChainC Proofs.C03ChainWit.
From BP Require Model.Json Spec.Wire Proofs.C02Abs Proofs.C04Def Proofs.C08EvoDef Model.C08Step Model.C17Typed Model.C10Stream Model.C10Rt.
From BP Require Model.History Model.C14Ops Model.C14Pickle Proofs.C14Thm Proofs.C05MsgDef Proofs.C05AccDef Proofs.C05Model Spec.C06Wire Model.C06Obs.
From BP Require Model.C07Ops Model.C07Wire Proofs.C07InvP Proofs.C07ValP.
From BP Require Import Proofs.C03GapA Proofs.C03GapWit Proofs.C03GapB Proofs.C03GapWit2.
From BP Require Model.C01Reach Model.C01Parse Model.C17Nested.
From Coq Require Import String.
Open Scope list_scope.
Open Scope Z_scope.

(* For every descriptor set protoc can emit (no bound on files, messages, fields or nesting depth) and every
   naming that is injective per scope: the class table Python builds from the plugin's output IS the class
   table the schema denotes — one class per message and enum (nested ones included, map-entry types
   excepted), and per field its number, proto type, cardinality, map key/value types, oneof group, wraps,
   optional flag and resolved type hint; per enum member its number. *)
Theorem C03_field_faithful :
  forall (field_name class_name : str -> str) (enum_member_name : str -> str -> str) (D : descriptor),
    protoc_wf D = true -> names_ok field_name class_name enum_member_name D = true ->
    exists t, class_table_of field_name class_name enum_member_name D = Some t
              /\ reflect (compile field_name class_name enum_member_name D) = Ok t.
Proof. exact field_faithful. Qed.
Print Assumptions C03_field_faithful.

(* the is_map name heuristic never misses a map field of a descriptor protoc emitted (no naming condition) ... *)
Theorem C03_is_map_complete :
  forall D f p m x, protoc_wf D = true -> In f D -> In (p, m) (file_msgs f) -> In x (md_fields m) ->
    spec_is_map (fl_package f) p m x = true -> is_map x m = true.
Proof. exact is_map_no_false_negative. Qed.
Print Assumptions C03_is_map_complete.

(* ... and coincides with the specification's reading exactly when map_keys_ok holds *)
Theorem C03_is_map_exact :
  forall D f p m x, protoc_wf D = true -> map_keys_ok D = true ->
    In f D -> In (p, m) (file_msgs f) -> In x (md_fields m) ->
    is_map x m = spec_is_map (fl_package f) p m x.
Proof. exact is_map_exact. Qed.
Print Assumptions C03_is_map_exact.

(* the package regex of parse_source_type_name splits every type name of D where the symbol table does,
   provided packages are capital-free and top-level type names contain a capital *)
Theorem C03_type_name_split :
  forall D tn s, protoc_wf D = true -> pkg_names_ok D = true -> resolve D tn = Some s ->
    parse_source_type_name tn = (sym_pkg s, dotted (sym_path s)).
Proof. exact type_name_split. Qed.
Print Assumptions C03_type_name_split.

(* MapEntryName and the heuristic's key: lower(strip_(CamelCase(name) + "Entry")) = lower(strip_(name)) + "entry" *)
Theorem C03_map_entry_key :
  forall name, lower (strip_us (map_entry_name name)) = lower (strip_us name) ++ s_entry
               /\ lower (map_entry_name name) = lower (strip_us name) ++ s_entry.
Proof. exact (fun n => conj (lower_strip_map_entry_name n) (lower_map_entry_name n)). Qed.
Print Assumptions C03_map_entry_key.

(* both bundled google.protobuf libraries (std and pydantic, with their .compiler modules) agree with
   descriptor.proto / plugin.proto / the well-known-type protos on every field number they share
   (finite sweep over the regenerated tables) *)
Theorem C03_bundled_agree : forallb agree_on_shared_numbers bundled_vs_reference = true.
Proof. exact bundled_agree. Qed.
Print Assumptions C03_bundled_agree.

Theorem C03_bundled_enums_agree : forallb enum_agree_on_shared_names bundled_enums_vs_reference = true.
Proof. exact bundled_enums_agree. Qed.
Print Assumptions C03_bundled_enums_agree.

(* every output package directory, each of its ancestors and the root are in the set of directories that
   receive an __init__.py *)
Theorem C03_output_dirs :
  forall D p q, In p (output_packages D) -> In q (prefixes (pkg_dir p)) -> In q (output_dirs D).
Proof. exact output_dirs_complete. Qed.
Print Assumptions C03_output_dirs.

Theorem C03_output_dirs_self_and_root :
  forall D p, In p (output_packages D) -> In (pkg_dir p) (output_dirs D) /\ In [] (output_dirs D).
Proof. exact (fun D p H => conj (output_dirs_complete D p _ H (prefixes_self_in _)) (output_dirs_complete D p _ H (prefixes_nil_in _))). Qed.
Print Assumptions C03_output_dirs_self_and_root.

(* ---- where the pinned plugin violates the full statement (names_ok cannot be dropped) ---- *)
Theorem C03_collision_refuted :
  protoc_wf D_k1 = true
  /\ reflect (compile w_field_name w_class_name w_member_name D_k1)
     <> res_of_opt (class_table_of w_field_name w_class_name w_member_name D_k1).
Proof. exact collision_refuted. Qed.
Print Assumptions C03_collision_refuted.

Theorem C03_member_collision_refuted :
  protoc_wf D_k8 = true
  /\ reflect (compile w_field_name w_class_name w_member_name D_k8)
     <> res_of_opt (class_table_of w_field_name w_class_name w_member_name D_k8).
Proof. exact member_collision_refuted. Qed.
Print Assumptions C03_member_collision_refuted.

Theorem C03_package_regex_refuted :
  protoc_wf D_k2 = true
  /\ reflect (compile w_field_name w_class_name w_member_name D_k2)
     <> res_of_opt (class_table_of w_field_name w_class_name w_member_name D_k2)
  /\ parse_source_type_name (b ".wp.lower.inner") = (b "wp.lower", b "inner").
Proof. exact package_regex_refuted. Qed.
Print Assumptions C03_package_regex_refuted.

Theorem C03_is_map_refuted :
  protoc_wf D_k13 = true
  /\ exists f p m x, In f D_k13 /\ In (p, m) (file_msgs f) /\ In x (md_fields m)
       /\ is_map x m = true /\ spec_is_map (fl_package f) p m x = false.
Proof. exact is_map_refuted. Qed.
Print Assumptions C03_is_map_refuted.

Theorem C03_wraps_refuted :
  field_wraps (b ".google.protobuf.EnumValue") = Some (b "enum")
  /\ lookup (b ".google.protobuf.EnumValue") wkt_wrappers = None.
Proof. exact wraps_refuted. Qed.
Print Assumptions C03_wraps_refuted.

(* ---- the bridge: what the plugin emits satisfies the hypotheses of the runtime theorems ----
   Tables: a class table whose fields all have a shape the runtime model knows (table_ok: field numbers in
   1 .. 2^29-1 and pairwise distinct per class, TYPE_ strings known, hint / proto type / wraps / optional / group /
   map types consistent, every class reference resolvable BY NAME inside the table) is translated to a schema that
   satisfies c01_schema_ok: class and enum indices in range, every map field's fentry is the index of its own
   synthetic Entry class and that class is annotated like the map, group indices below cngroups, bundled classes
   first and exact. No bound on the number of modules, classes, fields. *)
Theorem C03_table_schema_ok :
  forall t : class_table, table_ok t = true -> c01_schema_ok (schema_of_table t) = true.
Proof. exact table_schema_ok. Qed.
Print Assumptions C03_table_schema_ok.

(* Descriptors: for every descriptor set protoc can emit (protoc_wf), every naming with names_ok, and bridge_ok D:
   the class table Python builds from the plugin's output (= the one the schema denotes, C03_field_faithful)
   satisfies table_ok, and its runtime schema satisfies c01_schema_ok. Any number of files, messages, nesting depth.
   bridge_ok D (Model/C03Bridge.v), per message of a generated package:
     [protoc guarantees] field numbers pairwise distinct and in 1 .. 2^29-1; map keys of an integral / bool / string
                         kind; a repeated field is neither a oneof member nor proto3-optional; wrapper / Timestamp /
                         Duration names are used as MESSAGE types; no field refers to a map-entry type directly;
     [runtime model]     a wrapper-typed field (google.protobuf.Int32Value ...) is singular, outside every oneof and not
                         proto3-optional (betterproto handles these; wf_schema, and with it the C01 .. C10 theorems, do not);
     [runtime defect]    a map's value type is not a wrapper (C03_map_wrapper_value_refuted below: the real classes fail);
     [no class]          no field refers to another google.protobuf type (Any, Struct, Empty, FieldMask, NullValue ...):
                         the runtime model has only Timestamp, Duration and the nine wrappers.
   proto2 groups are excluded by protoc_wf (a TYPE_GROUP field has no reading in class_table_of); `required` is read
   like a singular field and needs no condition. *)
Theorem C03_generated_schema_ok :
  forall (field_name class_name : str -> str) (enum_member_name : str -> str -> str) (D : descriptor),
    protoc_wf D = true -> names_ok field_name class_name enum_member_name D = true -> bridge_ok D = true ->
    exists t, class_table_of field_name class_name enum_member_name D = Some t
              /\ reflect (compile field_name class_name enum_member_name D) = Ok t
              /\ table_ok t = true
              /\ c01_schema_ok (schema_of_table t) = true.
Proof. exact generated_schema_ok. Qed.
Print Assumptions C03_generated_schema_ok.

(* ... hence C01's round trip holds of every generated message class and every c01_value_ok value of it
   (the conclusion of C01_roundtrip, instantiated at the generated schema; the same instantiation gives C02, C04,
   C08, C10 ... whose schema hypothesis is c01_schema_ok or its conjunct wf_schema) *)
Theorem C03_generated_roundtrip :
  forall (field_name class_name : str -> str) (enum_member_name : str -> str -> str) (D : descriptor),
    protoc_wf D = true -> names_ok field_name class_name enum_member_name D = true -> bridge_ok D = true ->
    exists t, reflect (compile field_name class_name enum_member_name D) = Ok t /\
      let sc := schema_of_table t in
      forall m, c01_value_ok sc m = true ->
        exists bs, enc_obj sc m = Ok bs /\
          (Zlength bs < 2 ^ 64 ->
           exists m', parse sc (ocls m) bs = Ok m' /\ m' = norm_obj sc m /\
             (deep nan_free (PMsg m) = true -> obj_eq sc m m' = true) /\
             (forall g, which_one_of m' g = which_one_of m g) /\
             (sow_ok sc m = true -> obs_top sc m m' = true) /\
             enc_obj sc m' = Ok bs).
Proof. exact generated_roundtrip. Qed.
Print Assumptions C03_generated_roundtrip.

(* references BY INDEX are right, not merely in range: the class index schema_of_table gives to a reference to message
   M of a generated package is the index of the class generated for M itself (its fields, in order, carry M's field
   numbers and the Python names of M's fields), and the enum index given to a reference to enum E is the position of
   E's own member table (member names as the plugin pythonises them, with E's numbers). Needs only that class names are
   distinct per package (class_nodup, a conjunct of names_ok). *)
Theorem C03_message_reference_faithful :
  forall (field_name class_name : str -> str) (enum_member_name : str -> str -> str) (D : descriptor) (t : class_table),
    class_table_of field_name class_name enum_member_name D = Some t -> class_nodup class_name D = true ->
    forall pkg p m, In (SymMsg pkg p m) (symbols D) -> pkg <> google_protobuf -> md_map_entry m = false ->
      exists c, pyty_of (class_rows t) (PyRef (module_of_package pkg) (class_name (dotted p))) = Some (PyMsg c)
        /\ (NB <= c < NB + List.length (msg_rows (class_rows t)))%nat
        /\ map fnum (cfields (get_class (schema_of_table t) c)) = map fd_number (md_fields m)
        /\ map fname (cfields (get_class (schema_of_table t) c)) = map (fun x => field_name (fd_name x)) (md_fields m).
Proof. exact message_ref_faithful. Qed.
Print Assumptions C03_message_reference_faithful.

Theorem C03_enum_reference_faithful :
  forall (field_name class_name : str -> str) (enum_member_name : str -> str -> str) (D : descriptor) (t : class_table),
    class_table_of field_name class_name enum_member_name D = Some t -> class_nodup class_name D = true ->
    forall pkg p e, In (SymEnum pkg p e) (symbols D) -> pkg <> google_protobuf ->
      exists j, pyty_of (class_rows t) (PyRef (module_of_package pkg) (class_name (dotted p))) = Some (PyEnum j)
        /\ nth_error (enums (schema_of_table t)) j
           = Some (mkE (map (fun nv => (enum_member_name (fst nv) (flat p), snd nv)) (ed_values e))).
Proof. exact enum_ref_faithful. Qed.
Print Assumptions C03_enum_reference_faithful.

(* ... and the class generated for M agrees with M's descriptor FIELD BY FIELD (field_agrees, Model/C03Bridge.v): number,
   Python name, proto type as descriptor.proto numbers it (ptype_of_dtype: no TYPE_ strings involved), for a map its key
   and value proto types, Dict hint and no group / wraps / optional; otherwise the proto3-optional flag, the wrapped
   scalar type read off the wrapper's NAME (wrapper_ptypes), membership in a real oneof, and the hint shape (List iff
   repeated, Optional iff proto3-optional or wrapper-typed, plain otherwise).  Under bridge_ok (it is what excludes an
   ENUM-typed field named like a wrapper). *)
Theorem C03_class_faithful :
  forall (field_name class_name : str -> str) (enum_member_name : str -> str -> str) (D : descriptor) (t : class_table),
    class_table_of field_name class_name enum_member_name D = Some t -> class_nodup class_name D = true ->
    bridge_ok D = true ->
    forall pkg p m, In (SymMsg pkg p m) (symbols D) -> pkg <> google_protobuf -> md_map_entry m = false ->
      exists c, pyty_of (class_rows t) (PyRef (module_of_package pkg) (class_name (dotted p))) = Some (PyMsg c)
        /\ Forall2 (field_agrees field_name pkg p m) (md_fields m) (cfields (get_class (schema_of_table t) c)).
Proof. exact class_faithful. Qed.
Print Assumptions C03_class_faithful.

(* bridge_ok cannot be dropped.  `map<string, google.protobuf.Int32Value> mw = 1;`: protoc accepts it, the plugin
   compiles it as the specification says (hint Dict[str, Optional[int]], map_types (string, message), nowhere to record
   that the VALUE is wrapped), and the generated schema is not wf: a REAL defect, the generated class cannot parse
   the bytes the reference writes for {"a": 1} (AttributeError: 'int' object has no attribute 'parse') and writes wrong
   bytes itself (known finding K34, replayed against the real classes on every run) *)
Theorem C03_map_wrapper_value_refuted :
  protoc_wf D_map_wrapper = true /\ names_ok w_field_name w_class_name w_member_name D_map_wrapper = true
  /\ bridge_ok D_map_wrapper = false
  /\ exists t, class_table_of w_field_name w_class_name w_member_name D_map_wrapper = Some t
               /\ reflect (compile w_field_name w_class_name w_member_name D_map_wrapper) = Ok t
               /\ table_ok t = false /\ wf_schema (schema_of_table t) = false.
Proof. exact map_wrapper_value_not_wf. Qed.
Print Assumptions C03_map_wrapper_value_refuted.

(* ... and two shapes that betterproto handles but the runtime MODEL does not cover: `repeated google.protobuf.Int32Value`
   (wf_schema has no wrapped list elements) and a field of type google.protobuf.Any (no class for it in the model) *)
Theorem C03_bridge_scope_refuted : gen_not_wf D_rep_wrapper /\ gen_not_wf D_any.
Proof. exact (conj rep_wrapper_not_wf any_ref_not_wf). Qed.
Print Assumptions C03_bridge_scope_refuted.

(* ---- non-vacuity ---- *)
(* a schema with nesting, recursion, two maps, a oneof, proto3 optional, repeated, a negative enum number,
   Timestamp and a wrapper satisfies both premises of C03_field_faithful ... *)
Example C03_ex_premises :
  protoc_wf D_ok = true /\ names_ok w_field_name w_class_name w_member_name D_ok = true.
Proof. exact D_ok_premises. Qed.
(* ... and its class table is the expected non-trivial one *)
Example C03_ex_table :
  match class_table_of w_field_name w_class_name w_member_name D_ok with
  | Some [(pkg, classes)] => pkg = b "p.q" /\ map fst classes = [b "Color"; b "OuterInnerKind"; b "Outer"; b "OuterInner"]
  | _ => False
  end.
Proof. exact (proj2 D_ok_table). Qed.
Example C03_ex_field :
  match class_table_of w_field_name w_class_name w_member_name D_ok with
  | Some [(_, [_; _; (_, ClsMessage (f1 :: _)); _])] =>
      f1 = mkPyField (b "by_name") 1 (b "map") (Some (b "string", b "message")) None None false
                     (PyDict PyStr (PyRef (b "p.q") (b "OuterInner")))
  | _ => False
  end.
Proof. exact D_ok_field. Qed.
(* the premise of C03_is_map_exact holds on it, and a map field is recognised *)
Example C03_ex_map_keys : map_keys_ok D_ok = true.
Proof. vm_compute. reflexivity. Qed.
(* the bundled sweep compares at least 40 classes, 300 shared field numbers and 10 enums *)
Example C03_ex_bundled :
  (40 <=? Zlength bundled_vs_reference) = true
  /\ (300 <=? fold_right Z.add 0 (map shared_numbers bundled_vs_reference)) = true
  /\ (10 <=? Zlength bundled_enums_vs_reference) = true.
Proof. exact bundled_nonvacuous. Qed.
Example C03_ex_parse : parse_source_type_name (b ".a.b.Outer.Inner") = (b "a.b", b "Outer.Inner").
Proof. vm_compute. reflexivity. Qed.
(* the bridge is not vacuous: D_ok (nested messages, two enums, a map of messages and a map of enums, a oneof, a proto3
   optional, a repeated message field, a Timestamp and a wrapper) satisfies all three premises; its generated schema has
   11 + 2 message classes + 2 Entry classes and 2 enums, and is c01_schema_ok ... *)
Example C03_ex_bridge :
  protoc_wf D_ok = true /\ names_ok w_field_name w_class_name w_member_name D_ok = true /\ bridge_ok D_ok = true
  /\ class_table_of w_field_name w_class_name w_member_name D_ok = Some T_ok
  /\ table_ok T_ok = true /\ c01_schema_ok S_ok = true
  /\ List.length (classes S_ok) = 15%nat /\ List.length (enums S_ok) = 2%nat.
Proof. exact D_ok_bridge. Qed.
Example C03_ex_bridge_schema : S_ok = schema_of_table T_ok.
Proof. exact S_ok_eq. Qed.
(* ... the generated class Outer is what one expects (number, proto type, hint, group, Entry class per field) ... *)
Example C03_ex_bridge_outer :
  map (fun f => (fnum f, fty f, fhint f, fgroup f, fentry f)) (cfields (get_class S_ok 11)) =
  [(1, TMap, HDict Object.PyStr (PyMsg 12), None, 13%nat); (2, TInt32, HPlain Object.PyInt, Some 0%nat, 0%nat);
   (3, TEnum, HPlain (PyEnum 0), Some 0%nat, 0%nat); (4, TDouble, HOptional Object.PyFloat, None, 0%nat);
   (5, TMessage, HList (PyMsg 12), None, 0%nat); (6, TMessage, HPlain Object.PyDatetime, None, 0%nat);
   (7, TMessage, HOptional Object.PyBool, None, 0%nat); (8, TMap, HDict Object.PyInt (PyEnum 0), None, 14%nat)].
Proof. exact S_ok_outer. Qed.
(* ... and a value of it that uses the map, the oneof (negative enum member selected), the optional, the repeated field,
   the Timestamp and the wrapper satisfies c01_value_ok and round-trips (the premise of C03_generated_roundtrip is met) *)
Example C03_ex_bridge_value :
  c01_value_ok S_ok ok_outer = true /\ deep nan_free (PMsg ok_outer) = true /\ c01_holds S_ok ok_outer = true
  /\ match enc_obj S_ok ok_outer with Ok bs => (30 < List.length bs)%nat | Err _ => False end.
Proof. exact ok_outer_value. Qed.
(* the reference theorems apply to D_ok: Outer.Inner (a nested message, class name OuterInner) is class 12, the nested
   enum Outer.Inner.Kind is enum 1 *)
Example C03_ex_bridge_refs :
  In (SymMsg (b "p.q") [b "Outer"; b "Inner"] (mkMsg (b "Inner")
        [mkField (b "back") 1 1 11 (b ".p.q.Outer") None false; mkField (b "k") 2 1 14 (b ".p.q.Outer.Inner.Kind") None false]
        [] [mkEnum (b "Kind") [(b "ZERO", 0)]] [] false)) (symbols D_ok)
  /\ class_nodup w_class_name D_ok = true
  /\ pyty_of (class_rows T_ok) (PyRef (b "p.q") (b "OuterInner")) = Some (PyMsg 12)
  /\ pyty_of (class_rows T_ok) (PyRef (b "p.q") (b "OuterInnerKind")) = Some (PyEnum 1).
Proof. vm_compute. repeat split; try reflexivity. right. right. right. right. right. right. right. right. right. right. right. left. reflexivity. Qed.

(* =====================================================================================================================
   THE CHAIN: every runtime headline theorem, for everything the plugin emits.
   Shape of each statement: for every descriptor set D protoc can emit (protoc_wf), every naming with names_ok, and
   bridge_ok D, there is the class table t Python builds from the plugin's output (reflect (compile D) = Ok t, hence
   unique) such that for the runtime schema sc = schema_of_table t the CONCLUSION of the runtime theorem holds of every
   value / byte string / set of deleted fields meeting that theorem's VALUE-level hypotheses (all decidable, Properties/C0x.v).
   The SCHEMA-level hypotheses are discharged once and for all by C03_generated_side_conditions:
     c01_schema_ok, wf_schema       the bridge (C03_generated_schema_ok)
     builtins_std (C02), std_builtins_b (C06), has_builtins (C17)
                                    the schema is `builtin_classes ++ ...` / builtins_exact
     entries_agree (C17)            = entries_ok, a conjunct of c01_schema_ok
     masks_ok (C08, C10)            EQUALS gen_masks_ok t masks (Model/C03Chain.v): the masks of the bundled classes and of the
                                    synthetic map-Entry classes delete nothing - i.e. ANY subset of the fields of ANY generated
                                    message class; user_masks um (one mask per generated message class) always qualifies
     keys_ok cs (C04, C05)          NOT derivable from names_ok: it EQUALS gen_keys_ok cs field_name D (Model/C03Chain.v: the
                                    keys_ok test on the pythonised field names of every message of a generated package), which
                                    stays as the one residual decidable premise of the JSON corollaries (C03_keys_residual_refuted:
                                    fields a_1 / a1 are distinct Python names with one camelCase key)
     js_matches (C05)               stays as a hypothesis on the schema: the class table holds the pythonised names only, js_matches
                                    speaks about the PROTO names (json_name_safe, K3) and the enum value names.
   C09 (len / dump) and the invariant theorems of C07 have no schema hypothesis at all and apply to the generated schema
   verbatim; of C07 the headline with a schema hypothesis (wf_schema) is restated (C03_generated_oneof).
   ===================================================================================================================== *)
Theorem C03_generated_side_conditions :
  forall (field_name class_name : str -> str) (enum_member_name : str -> str -> str) (D : descriptor),
    protoc_wf D = true -> names_ok field_name class_name enum_member_name D = true -> bridge_ok D = true ->
    exists t, class_table_of field_name class_name enum_member_name D = Some t
      /\ reflect (compile field_name class_name enum_member_name D) = Ok t
      /\ table_ok t = true
      /\ let sc := schema_of_table t in
         c01_schema_ok sc = true /\ wf_schema sc = true
         /\ C02Abs.builtins_std sc = true
         /\ C17Typed.has_builtins sc /\ C17Typed.entries_agree sc = true
         /\ C06Wire.std_builtins_b sc = true
         /\ (forall cs, C04Def.keys_ok cs sc = gen_keys_ok cs field_name D)
         /\ (forall masks, C08EvoDef.masks_ok sc masks = gen_masks_ok t masks)
         /\ (forall um, (List.length um <= n_msgs t)%nat -> C08EvoDef.masks_ok sc (user_masks um) = true).
Proof. exact generated_side_conditions. Qed.
Print Assumptions C03_generated_side_conditions.

(* C02 for generated classes: what a generated class writes is a legal proto3 serialisation inside [supported] that denotes
   the decoded form of the message (the message itself under enc_faithful), and every legal byte string inside [supported]
   is decoded by the generated class to exactly its denotation (C02_encode_legal, C02_encode_denotes, C02_decode_refines) *)
Theorem C03_generated_interop :
  forall (field_name class_name : str -> str) (enum_member_name : str -> str -> str) (D : descriptor),
    protoc_wf D = true -> names_ok field_name class_name enum_member_name D = true -> bridge_ok D = true ->
    exists t, reflect (compile field_name class_name enum_member_name D) = Ok t /\
      let sc := schema_of_table t in
      (forall m, c01_value_ok sc m = true ->
         exists bs, enc_obj sc m = Ok bs /\
           (Zlength bs < 2 ^ 35 ->
            exists rs a, Wire.parse_wire bs = Some rs /\ Wire.sem (S (List.length bs)) sc (ocls m) rs = Some a /\
              a = C02Abs.abs_obj sc (norm_obj sc m) /\ C02Abs.supported (S (List.length bs)) sc (ocls m) rs = true)) /\
      (forall m, c01_value_ok sc m = true -> C02Abs.enc_faithful sc m = true ->
         exists bs, enc_obj sc m = Ok bs /\
           (Zlength bs < 2 ^ 35 ->
            exists rs, Wire.parse_wire bs = Some rs /\ Wire.sem (S (List.length bs)) sc (ocls m) rs = Some (C02Abs.abs_obj sc m) /\
              C02Abs.supported (S (List.length bs)) sc (ocls m) rs = true)) /\
      (forall c bs rs a, Wire.parse_wire bs = Some rs -> Wire.sem (S (List.length bs)) sc c rs = Some a ->
         C02Abs.supported (S (List.length bs)) sc c rs = true ->
         exists m', parse sc c bs = Ok m' /\ C02Abs.abs_obj sc m' = a).
Proof. exact generated_interop. Qed.
Print Assumptions C03_generated_interop.

(* C04 for generated classes: keys_ok of the generated schema IS gen_keys_ok on the descriptor; under it, for casing cs, every
   [good] value of a generated class survives to_dict / from_dict (both forms) and to_json / from_json (C04_dict_rt, C04_text_rt);
   to_dict is json.dumps-serialisable without it (C04_dumps_total) *)
Theorem C03_generated_json :
  forall (field_name class_name : str -> str) (enum_member_name : str -> str -> str) (D : descriptor),
    protoc_wf D = true -> names_ok field_name class_name enum_member_name D = true -> bridge_ok D = true ->
    exists t, reflect (compile field_name class_name enum_member_name D) = Ok t /\
      let sc := schema_of_table t in
      (forall cs, C04Def.keys_ok cs sc = gen_keys_ok cs field_name D) /\
      (forall cs m, gen_keys_ok cs field_name D = true -> C04Def.good sc m = true ->
         (exists m', Json.from_dict_cls sc (ocls m) (Json.to_dict cs false sc m) = Ok m' /\
                     Json.from_dict_inst sc (new sc (ocls m)) (Json.to_dict cs false sc m) = Ok m' /\
                     obj_eq sc m' m = true /\ enc_obj sc m' = enc_obj sc m) /\
         (exists m', Json.json_rt_cls cs false sc m = Ok m' /\
                     Json.json_rt_inst cs false sc m (new sc (ocls m)) = Ok m' /\
                     obj_eq sc m' m = true /\ enc_obj sc m' = enc_obj sc m)) /\
      (forall cs m, in_range sc m = true -> C04Def.oneof_ok sc m = true -> Json.dumpsable (Json.to_dict cs false sc m) = true).
Proof. exact generated_json. Qed.
Print Assumptions C03_generated_json.

(* the premise gen_keys_ok is a genuine one: names_ok (fields_nodup: distinct Python names) does not give distinct camelCase keys *)
Theorem C03_keys_residual_refuted :
  protoc_wf D_keys = true /\ names_ok w_field_name w_class_name w_member_name D_keys = true /\ bridge_ok D_keys = true
  /\ gen_keys_ok Json.CAMEL w_field_name D_keys = false /\ gen_keys_ok Json.SNAKE w_field_name D_keys = true.
Proof. exact chain_keys_residual. Qed.
Print Assumptions C03_keys_residual_refuted.

(* C17 for generated classes: whatever a generated class parses - from ANY byte string - is well typed, inside the decoder's
   ranges, of the requested class, and can be encoded again (C17_welltyped; the totality / rejection theorems of C17 have no
   schema hypothesis) *)
Theorem C03_generated_welltyped_decode :
  forall (field_name class_name : str -> str) (enum_member_name : str -> str -> str) (D : descriptor),
    protoc_wf D = true -> names_ok field_name class_name enum_member_name D = true -> bridge_ok D = true ->
    exists t, reflect (compile field_name class_name enum_member_name D) = Ok t /\
      let sc := schema_of_table t in
      forall c bs m, parse sc c bs = Ok m ->
        C17Typed.well_typed sc m = true /\ C17Typed.decoded_range sc m = true /\ ocls m = c /\
        exists bs', enc_obj sc m = Ok bs'.
Proof. exact generated_welltyped_decode. Qed.
Print Assumptions C03_generated_welltyped_decode.

(* C08 for generated classes: ANY subset of the fields of ANY generated message class deleted (gen_masks_ok; every family
   user_masks um of one mask per message class qualifies): the older classes read and re-write bytes(m) and the generated
   classes read the result back to the decoded form of m (C08_evolution) *)
Theorem C03_generated_evolution :
  forall (field_name class_name : str -> str) (enum_member_name : str -> str -> str) (D : descriptor),
    protoc_wf D = true -> names_ok field_name class_name enum_member_name D = true -> bridge_ok D = true ->
    exists t, reflect (compile field_name class_name enum_member_name D) = Ok t /\
      let sn := schema_of_table t in
      (forall um, (List.length um <= n_msgs t)%nat -> gen_masks_ok t (user_masks um) = true) /\
      forall masks m, gen_masks_ok t masks = true -> c01_value_ok sn m = true ->
        exists b1, enc_obj sn m = Ok b1 /\
          (Zlength b1 < 2 ^ 64 ->
           exists mo b2 m2,
             parse (C08Step.drop_fields masks sn) (ocls m) b1 = Ok mo /\
             enc_obj (C08Step.drop_fields masks sn) mo = Ok b2 /\ List.length b2 = List.length b1 /\
             parse sn (ocls m) b2 = Ok m2 /\ m2 = norm_obj sn m /\
             (deep nan_free (PMsg m) = true -> obj_eq sn m2 m = true /\ obj_eq sn m m2 = true) /\
             (forall g, which_one_of m2 g = which_one_of m g) /\
             enc_obj sn m2 = Ok b1).
Proof. exact generated_evolution. Qed.
Print Assumptions C03_generated_evolution.

(* C10 for generated classes: the delimited stream round trip, the stream cut anywhere, and the reader older than the writer
   (C10_stream_roundtrip, C10_truncate_roundtrip, C10_stream_older_reader) *)
Theorem C03_generated_streams :
  forall (field_name class_name : str -> str) (enum_member_name : str -> str -> str) (D : descriptor),
    protoc_wf D = true -> names_ok field_name class_name enum_member_name D = true -> bridge_ok D = true ->
    exists t, reflect (compile field_name class_name enum_member_name D) = Ok t /\
      let sc := schema_of_table t in
      (forall ms rest,
         Forall (fun m => c01_value_ok sc m = true /\ deep nan_free (PMsg m) = true) ms ->
         Forall (fun m => C10Rt.msg_small sc m = true) ms ->
         exists stream,
           C10Stream.dump_stream sc ms = Ok stream /\
           C10Stream.loads sc (map ocls ms) (stream ++ rest) = (map (norm_obj sc) ms, Ok rest) /\
           Forall (fun m => obj_eq sc m (norm_obj sc m) = true /\ obj_eq sc (norm_obj sc m) m = true /\
                            enc_obj sc (norm_obj sc m) = enc_obj sc m /\
                            (forall g, which_one_of (norm_obj sc m) g = which_one_of m g)) ms /\
           C10Stream.dump_stream sc (map (norm_obj sc) ms) = Ok stream) /\
      (forall ms stream k,
         Forall (fun m => c01_value_ok sc m = true /\ deep nan_free (PMsg m) = true) ms ->
         Forall (fun m => C10Rt.msg_small sc m = true) ms ->
         C10Stream.dump_stream sc ms = Ok stream ->
         exists r,
           C10Stream.loads sc (map ocls ms) (firstn k stream)
             = (map (norm_obj sc) (firstn (C10Rt.whole_frames sc ms k) ms), r) /\
           (if (k <? List.length stream)%nat
            then (exists e, r = Err e /\ e <> EFuel) /\ (C10Rt.whole_frames sc ms k < List.length ms)%nat
            else r = Ok [] /\ C10Rt.whole_frames sc ms k = List.length ms) /\
           Forall (fun m => obj_eq sc m (norm_obj sc m) = true /\ obj_eq sc (norm_obj sc m) m = true /\
                            enc_obj sc (norm_obj sc m) = enc_obj sc m /\
                            (forall g, which_one_of (norm_obj sc m) g = which_one_of m g))
                  (firstn (C10Rt.whole_frames sc ms k) ms)) /\
      (forall masks ms rest, gen_masks_ok t masks = true ->
         Forall (fun m => c01_value_ok sc m = true) ms -> Forall (fun m => C10Rt.msg_small sc m = true) ms ->
         exists stream mos stream2,
           C10Stream.dump_stream sc ms = Ok stream /\
           Forall2 (C10Rt.older_view sc masks) ms mos /\
           C10Stream.loads (C08Step.drop_fields masks sc) (map ocls ms) (stream ++ rest) = (mos, Ok rest) /\
           C10Stream.dump_stream (C08Step.drop_fields masks sc) mos = Ok stream2 /\ List.length stream2 = List.length stream /\
           (forall rest', C10Stream.loads sc (map ocls ms) (stream2 ++ rest') = (map (norm_obj sc) ms, Ok rest')) /\
           Forall (fun m => C10Rt.same_message sc m (norm_obj sc m)) ms).
Proof. exact generated_streams. Qed.
Print Assumptions C03_generated_streams.

(* C14 for generated classes: pickle (C14_pickle; pickle_pre reduces to its value-level conjuncts), copy and deepcopy
   (C14_copy_faithful, C14_deepcopy_faithful_partial: indistinguishable = same bytes, == against every value in both operand
   positions, same bool, presence at every path, unknown bytes, class).  Independence of the copies is aliasing: harness only,
   as in C14 *)
Theorem C03_generated_pickle :
  forall (field_name class_name : str -> str) (enum_member_name : str -> str -> str) (D : descriptor),
    protoc_wf D = true -> names_ok field_name class_name enum_member_name D = true -> bridge_ok D = true ->
    exists t, reflect (compile field_name class_name enum_member_name D) = Ok t /\
      let sc := schema_of_table t in
      (forall o, C14Pickle.pickle_pre sc o
                 = c01_value_ok sc (C08Step.clear_unk o) && C14Pickle.unk_records_ok sc o && C14Pickle.enc_small sc o) /\
      (forall o o2,
         c01_value_ok sc (C08Step.clear_unk o) = true -> C14Pickle.unk_records_ok sc o = true ->
         C14Pickle.enc_small sc o = true -> C14Ops.mat_obj sc o o2 = true ->
         exists o', History.pickle_rt sc o2 = Ok o' /\
           enc_obj sc o' = enc_obj sc o2 /\ ounk o' = ounk o2 /\ ocls o' = ocls o2 /\ osow o' = true /\
           (forall g, which_one_of o' g = which_one_of o2 g) /\
           (deep nan_free (PMsg o) = true -> obj_eq sc o' o2 = true /\ obj_eq sc o2 o' = true) /\
           (sow_ok sc o = true ->
            C14Ops.presence_below sc o' [] = C14Ops.presence_below sc o2 [] /\
            forall i, C14Pickle.child_flag sc o' i = C14Pickle.child_flag sc o2 i) /\
           (deep (sow_ok sc) (PMsg o) = true -> deep (C14Pickle.flags_ok sc) (PMsg o) = true ->
            forall p, C14Ops.presence_below sc o' p = C14Ops.presence_below sc o2 p)) /\
      (forall o, C14Ops.shaped_top sc o = true ->
         C14Thm.indistinguishable sc o (History.copy sc o) /\
         osow (History.copy sc o) = osow o /\ ocur (History.copy sc o) = ocur o) /\
      (forall o, C14Ops.shaped_obj sc o = true ->
         C14Thm.indistinguishable sc o (History.deepcopy sc o) /\
         osow (History.deepcopy sc o) = osow o /\ ocur (History.deepcopy sc o) = ocur o).
Proof. exact generated_pickle. Qed.
Print Assumptions C03_generated_pickle.

(* C05 for generated classes, against the reference-side schema in which every proto field name IS the attribute name
   (jschema_of): js_matches stays a hypothesis (see the head of this section); keys_ok CAMEL is gen_keys_ok CAMEL
   (C05_emit_jschema_of, C05_accept_jschema_of) *)
Theorem C03_generated_json_canonical :
  forall (field_name class_name : str -> str) (enum_member_name : str -> str -> str) (D : descriptor),
    protoc_wf D = true -> names_ok field_name class_name enum_member_name D = true -> bridge_ok D = true ->
    exists t, reflect (compile field_name class_name enum_member_name D) = Ok t /\
      let sc := schema_of_table t in
      C05MsgDef.js_matches 0 sc (C05MsgDef.jschema_of sc) = true ->
      (forall o, C05MsgDef.emit_good sc o = true -> (ocls o < List.length (classes sc))%nat ->
         C05Model.model_emit_accepts sc (C05MsgDef.jschema_of sc) (ocls o) o = Some (C05MsgDef.abs_obj sc o)) /\
      (gen_keys_ok Json.CAMEL field_name D = true ->
       forall c a, C05AccDef.wf_aval sc (C05MsgDef.jschema_of sc) 0 (C05Model.S.JMsg c) a = true ->
         C05Model.model_reads_canonical sc (C05MsgDef.jschema_of sc) c c a = Some a).
Proof. exact generated_json_canonical. Qed.
Print Assumptions C03_generated_json_canonical.

(* C06 for generated classes: a fresh instance encodes to nothing and reads as the proto3 defaults; after decoding, oneof
   selection, None-ness / is_set of optional-like fields and serialized_on_wire of plain sub-messages are exactly "a record
   of that field arrived" (C06_fresh, C06_decode_presence_oneof / _optional / _submessage) *)
Theorem C03_generated_presence :
  forall (field_name class_name : str -> str) (enum_member_name : str -> str -> str) (D : descriptor),
    protoc_wf D = true -> names_ok field_name class_name enum_member_name D = true -> bridge_ok D = true ->
    exists t, reflect (compile field_name class_name enum_member_name D) = Ok t /\
      let sc := schema_of_table t in
      (forall c, enc_obj sc (new sc c) = Ok [] /\
         forall i f, nth_error (cfields (get_class sc c)) i = Some f -> read sc (new sc c) i = C06Wire.proto3_default sc f) /\
      (forall c bs rs m, C06Wire.is_records rs bs -> parse sc c bs = Ok m ->
         (forall g, which_one_of m g = C06Wire.last_member (get_class sc c) g rs) /\
         (forall j f, nth_error (cfields (get_class sc c)) j = Some f -> C06Wire.optional_like f ->
            C06Obs.value_not_none sc m j = C06Wire.has_record f rs /\
            (fopt f = true -> C06Obs.is_set sc m j = C06Wire.has_record f rs)) /\
         (forall j f, nth_error (cfields (get_class sc c)) j = Some f -> C06Wire.plain_msg f ->
            C06Obs.child_on_wire m j = C06Wire.has_record f rs)).
Proof. exact generated_presence. Qed.
Print Assumptions C03_generated_presence.

(* C07 for generated classes: after EVERY history of operations on a generated message whose assignments to oneof members
   are values (op_ok) - parse, pickle, copies, from_dict, observers, nested assignments unrestricted - bytes() shows exactly the
   selected member of each oneof group and no other member (C07_observable_reachable) *)
Theorem C03_generated_oneof :
  forall (field_name class_name : str -> str) (enum_member_name : str -> str -> str) (D : descriptor),
    protoc_wf D = true -> names_ok field_name class_name enum_member_name D = true -> bridge_ok D = true ->
    exists t, reflect (compile field_name class_name enum_member_name D) = Ok t /\
      let sc := schema_of_table t in
      forall c ops o bs,
        Forall (C07ValP.op_ok sc c) ops -> C07Ops.run7 sc (new sc c) ops = Ok o -> enc_obj sc o = Ok bs ->
        exists body rs,
          bs = body ++ ounk o /\ C07Wire.records body = Some rs /\
          forall g, (g < cngroups (get_class sc (ocls o)))%nat ->
            match which_one_of o g with
            | Some i =>
                exists f, nth_error (C07InvP.cfs sc o) i = Some f /\ In (fnum f) (C07Wire.numbers rs) /\
                          forall j f', j <> i -> nth_error (C07InvP.cfs sc o) j = Some f' -> fgroup f' = Some g ->
                                       ~ In (fnum f') (C07Wire.numbers rs)
            | None =>
                forall j f', nth_error (C07InvP.cfs sc o) j = Some f' -> fgroup f' = Some g ->
                             ~ In (fnum f') (C07Wire.numbers rs)
            end.
Proof. exact generated_oneof. Qed.
Print Assumptions C03_generated_oneof.

(* ---- non-vacuity of the chain: D_ok, its table T_ok and schema S_ok, the value ok_outer of the generated class Outer ---- *)
(* the three descriptor-level premises, the table and the schema every corollary speaks about *)
Example C03_ex_chain_premises :
  protoc_wf D_ok = true /\ names_ok w_field_name w_class_name w_member_name D_ok = true /\ bridge_ok D_ok = true
  /\ reflect (compile w_field_name w_class_name w_member_name D_ok) = Ok T_ok /\ S_ok = schema_of_table T_ok
  /\ n_msgs T_ok = 2%nat /\ n_entries T_ok = 2%nat.
Proof. exact chain_premises. Qed.
(* C03_generated_interop: ok_outer meets the writer's hypotheses (58 bytes, 8 records, denoting the message itself, inside
   supported), so its bytes meet the reader's *)
Example C03_ex_chain_interop :
  c01_value_ok S_ok ok_outer = true /\ C02Abs.enc_faithful S_ok ok_outer = true /\ enc_obj S_ok ok_outer = Ok ok_bytes
  /\ (Zlength ok_bytes <? 2 ^ 35) = true /\ List.length ok_bytes = 58%nat
  /\ match Wire.parse_wire ok_bytes with
     | Some rs => List.length rs = 8%nat
                  /\ Wire.sem (S (List.length ok_bytes)) S_ok 11 rs = Some (C02Abs.abs_obj S_ok ok_outer)
                  /\ C02Abs.supported (S (List.length ok_bytes)) S_ok 11 rs = true
     | None => False
     end
  /\ match parse S_ok 11 ok_bytes with Ok m' => C02Abs.abs_obj S_ok m' = C02Abs.abs_obj S_ok ok_outer | Err _ => False end.
Proof. exact chain_interop. Qed.
(* C03_generated_json: the residual premise holds of D_ok for both casings, ok_outer is good, the text round trip rebuilds it *)
Example C03_ex_chain_json :
  gen_keys_ok Json.CAMEL w_field_name D_ok = true /\ gen_keys_ok Json.SNAKE w_field_name D_ok = true
  /\ C04Def.keys_ok Json.CAMEL S_ok = true /\ C04Def.keys_ok Json.SNAKE S_ok = true
  /\ C04Def.good S_ok ok_outer = true
  /\ match Json.to_dict Json.CAMEL false S_ok ok_outer with Json.JObj d => List.length d = 7%nat | _ => False end
  /\ match Json.json_rt_inst Json.CAMEL false S_ok ok_outer (new S_ok 11) with
     | Ok m' => obj_eq S_ok m' ok_outer = true /\ enc_obj S_ok m' = Ok ok_bytes
     | Err _ => False
     end.
Proof. exact chain_json. Qed.
(* C03_generated_welltyped_decode: Outer parses ok_bytes followed by an unknown group *)
Example C03_ex_chain_welltyped :
  match parse S_ok 11 (ok_bytes ++ [x9b; x06; x08; x01; x9c; x06]) with
  | Ok m => C17Typed.well_typed S_ok m = true /\ C17Typed.decoded_range S_ok m = true /\ ocls m = 11%nat
            /\ ounk m = [x9b; x06; x08; x01; x9c; x06]
  | Err _ => False
  end.
Proof. exact chain_welltyped. Qed.
(* C03_generated_evolution: Outer loses a (the unselected member of the oneof), od, bv; Inner loses back; the bundled and the
   Entry classes keep their fields; the older reader keeps 13 unknown bytes, re-writes 58 different bytes, the generated
   class reads them back to the decoded form.  A mask on an Entry class is not admissible *)
Example C03_ex_chain_evolution :
  (List.length ok_um <= n_msgs T_ok)%nat /\ gen_masks_ok T_ok (user_masks ok_um) = true
  /\ C08EvoDef.masks_ok S_ok (user_masks ok_um) = true
  /\ map (fun c => List.length (cfields (get_class (C08Step.drop_fields (user_masks ok_um) S_ok) c))) [0; 10; 11; 12; 13; 14]%nat
     = [2; 1; 5; 1; 2; 2]%nat
  /\ match parse (C08Step.drop_fields (user_masks ok_um) S_ok) 11 ok_bytes with
     | Ok mo => List.length (ounk mo) = 13%nat /\
                match enc_obj (C08Step.drop_fields (user_masks ok_um) S_ok) mo with
                | Ok b2 => List.length b2 = 58%nat /\ b2 <> ok_bytes /\ parse S_ok 11 b2 = Ok (norm_obj S_ok ok_outer)
                | Err _ => False
                end
     | Err _ => False
     end.
Proof. exact chain_evolution. Qed.
Example C03_ex_chain_evolution_entry_mask : gen_masks_ok T_ok (user_masks [[]; []; [true; false]]) = false.
Proof. exact chain_evolution_entry_mask. Qed.
(* C03_generated_streams: three messages of the two generated classes *)
Example C03_ex_chain_streams :
  Forall (fun m => c01_value_ok S_ok m = true /\ deep nan_free (PMsg m) = true) ok_ms /\
  Forall (fun m => C10Rt.msg_small S_ok m = true) ok_ms /\
  map ocls ok_ms = [11; 12; 11]%nat
  /\ match C10Stream.dump_stream S_ok ok_ms with
     | Ok stream => List.length stream = 119%nat
                    /\ C10Stream.loads S_ok (map ocls ok_ms) (stream ++ [xff]) = (map (norm_obj S_ok) ok_ms, Ok [xff])
                    /\ C10Rt.whole_frames S_ok ok_ms 70 = 2%nat
     | Err _ => False
     end.
Proof. exact (conj (proj1 chain_streams_hyps) (conj (proj2 chain_streams_hyps) (proj2 chain_streams))). Qed.
(* C03_generated_pickle *)
Example C03_ex_chain_pickle :
  c01_value_ok S_ok (C08Step.clear_unk ok_outer) = true /\ C14Pickle.unk_records_ok S_ok ok_outer = true
  /\ C14Pickle.enc_small S_ok ok_outer = true /\ C14Ops.mat_obj S_ok ok_outer ok_outer = true
  /\ C14Pickle.pickle_pre S_ok ok_outer = true
  /\ sow_ok S_ok ok_outer = true /\ deep nan_free (PMsg ok_outer) = true
  /\ C14Ops.shaped_top S_ok ok_outer = true /\ C14Ops.shaped_obj S_ok ok_outer = true
  /\ History.pickle_rt S_ok ok_outer = Ok (norm_obj S_ok ok_outer).
Proof. exact chain_pickle. Qed.
(* C03_generated_json_canonical: js_matches holds of S_ok *)
Example C03_ex_chain_json_canonical :
  C05MsgDef.js_matches 0 S_ok (C05MsgDef.jschema_of S_ok) = true /\ C05MsgDef.emit_good S_ok ok_outer = true
  /\ (ocls ok_outer < List.length (classes S_ok))%nat
  /\ C05Model.model_emit_accepts S_ok (C05MsgDef.jschema_of S_ok) 11 ok_outer = Some (C05MsgDef.abs_obj S_ok ok_outer)
  /\ C05AccDef.wf_aval S_ok (C05MsgDef.jschema_of S_ok) 0 (C05Model.S.JMsg 11) (C05MsgDef.abs_obj S_ok ok_outer) = true.
Proof. exact chain_json_canonical. Qed.
(* C03_generated_presence *)
Example C03_ex_chain_presence :
  exists rs m, C06Wire.is_records rs ok_bytes /\ parse S_ok 11 ok_bytes = Ok m
    /\ C06Wire.last_member (get_class S_ok 11) 0 rs = Some 2%nat /\ which_one_of m 0 = Some 2%nat
    /\ map (fun f => C06Wire.has_record f rs) (cfields (get_class S_ok 11)) = [true; false; true; true; true; true; true; true]
    /\ C06Obs.value_not_none S_ok m 3 = true /\ C06Obs.is_set S_ok m 3 = true.
Proof. exact chain_presence. Qed.
(* C03_generated_oneof: a = 5, then c = NEG (the other member of oneof pick), bytes, pickle, copy on the generated class Outer *)
Example C03_ex_chain_oneof :
  Forall (C07ValP.op_ok S_ok 11) ok_ops /\
  match C07Ops.run7 S_ok (new S_ok 11) ok_ops with
  | Ok o => which_one_of o 0 = Some 2%nat /\ read S_ok o 1 = Err EAttribute
            /\ enc_obj S_ok o = Ok [x18; xff; xff; xff; xff; xff; xff; xff; xff; xff; x01]
            /\ C07Wire.records [x18; xff; xff; xff; xff; xff; xff; xff; xff; xff; x01] = Some [(3, 0)]
  | Err _ => False
  end.
Proof. exact chain_oneof. Qed.

(* =====================================================================================================================
   SIXTH BATCH: the property text compared clause by clause with the theorems above (table: header of Proofs/C03GapA.v).
   Notation: spec_field .. pkg p m x = Some pf reads "pf is the field the schema denotes for field x of message m (path p) of
   package pkg"; by C03_compiled_message_class the fields of the class the plugin emits for m are related to md_fields m by
   exactly this, one by one and in order, so every reading below is a statement about the plugin's output.
   ===================================================================================================================== *)

(* clauses (1) + (2): the modules are exactly the generated packages (each once, order of first appearance); in each module
   there are exactly as many classes as the package has enums + non-map-entry messages, named after them in order, pairwise
   distinct (and the types' paths are pairwise distinct); CONVERSELY every class of the table is the class of an enum or of a
   non-map-entry message of D (no extra class, none for a map-entry type); the table is unique *)
Theorem C03_classes_exact :
  forall (field_name class_name : str -> str) (enum_member_name : str -> str -> str) (D : descriptor),
    protoc_wf D = true -> names_ok field_name class_name enum_member_name D = true ->
    exists t, reflect (compile field_name class_name enum_member_name D) = Ok t
      /\ (forall t', reflect (compile field_name class_name enum_member_name D) = Ok t' -> t' = t)
      /\ map fst t = output_packages D /\ NoDup (map fst t)
      /\ forall pkg cls, In (pkg, cls) t ->
           map fst cls = map (fun q => class_name (dotted q)) (class_paths D pkg)
           /\ List.length cls = List.length (class_paths D pkg)
           /\ NoDup (map fst cls) /\ NoDup (class_paths D pkg)
           /\ forall n body, In (n, body) cls ->
                pkg <> google_protobuf /\
                ((exists p e, In (SymEnum pkg p e) (symbols D) /\ n = class_name (dotted p)
                    /\ body = ClsEnum (map (fun nv => (enum_member_name (fst nv) (flat p), snd nv)) (ed_values e)))
                 \/ (exists p m fs, In (SymMsg pkg p m) (symbols D) /\ md_map_entry m = false /\ n = class_name (dotted p)
                       /\ body = ClsMessage fs
                       /\ Forall2 (fun x pf => spec_field field_name class_name D pkg p m x = Some pf) (md_fields m) fs)).
Proof. exact compiled_classes_exact. Qed.
Print Assumptions C03_classes_exact.

(* clauses (2) + (3): EACH message (nested ones included: symbols D lists every depth) of a generated package has its class in
   the one module of its package, that class is the only one of its name there, and it has exactly one field per schema field:
   as many, same numbers and pythonised names in order, names pairwise distinct, each related to its schema field by spec_field *)
Theorem C03_compiled_message_class :
  forall (field_name class_name : str -> str) (enum_member_name : str -> str -> str) (D : descriptor),
    protoc_wf D = true -> names_ok field_name class_name enum_member_name D = true ->
    forall pkg p m, In (SymMsg pkg p m) (symbols D) -> pkg <> google_protobuf -> md_map_entry m = false ->
    exists t cls fs, reflect (compile field_name class_name enum_member_name D) = Ok t
      /\ In (pkg, cls) t /\ (forall cls', In (pkg, cls') t -> cls' = cls)
      /\ In (class_name (dotted p), ClsMessage fs) cls
      /\ (forall body, In (class_name (dotted p), body) cls -> body = ClsMessage fs)
      /\ Forall2 (fun x pf => spec_field field_name class_name D pkg p m x = Some pf) (md_fields m) fs
      /\ List.length fs = List.length (md_fields m)
      /\ map pf_number fs = map fd_number (md_fields m)
      /\ map pf_name fs = map (fun x => field_name (fd_name x)) (md_fields m)
      /\ NoDup (map pf_name fs).
Proof. exact compiled_message_class. Qed.
Print Assumptions C03_compiled_message_class.

(* clauses (2) + (4): each enum has its one class; its members are (pythonised name, THE SCHEMA'S NUMBER) in declaration
   order - no condition on the numbers, so negative and aliased (repeated) numbers are carried as they are; names distinct *)
Theorem C03_compiled_enum_class :
  forall (field_name class_name : str -> str) (enum_member_name : str -> str -> str) (D : descriptor),
    protoc_wf D = true -> names_ok field_name class_name enum_member_name D = true ->
    forall pkg p e, In (SymEnum pkg p e) (symbols D) -> pkg <> google_protobuf ->
    exists t cls ms, reflect (compile field_name class_name enum_member_name D) = Ok t
      /\ In (pkg, cls) t /\ In (class_name (dotted p), ClsEnum ms) cls
      /\ (forall body, In (class_name (dotted p), body) cls -> body = ClsEnum ms)
      /\ ms = map (fun nv => (enum_member_name (fst nv) (flat p), snd nv)) (ed_values e)
      /\ map snd ms = map snd (ed_values e)
      /\ NoDup (map fst ms).
Proof. exact compiled_enum_class. Qed.
Print Assumptions C03_compiled_enum_class.

(* clause (3), the readings of one field; for every descriptor, package, message, field (no side condition) *)
(* cardinality "map": map_types is present iff the hint is a Dict iff the field is a map in the specification's reading *)
Theorem C03_field_map_iff :
  forall field_name class_name D pkg p m x pf, spec_field field_name class_name D pkg p m x = Some pf ->
    is_some (pf_map_types pf) = spec_is_map pkg p m x
    /\ ((exists k v, pf_hint pf = PyDict k v) <-> spec_is_map pkg p m x = true)
    /\ (spec_is_map pkg p m x = true ->
        pf_proto_type pf = s_map /\ pf_group pf = None /\ pf_wraps pf = None /\ pf_optional pf = false).
Proof. exact field_map_iff. Qed.
Print Assumptions C03_field_map_iff.

(* "... with its key and value types": of the nested map-entry type of the parent whose full name IS the field's type name,
   the fields NUMBERED 1 and 2 (not the first and second) give the two proto types and the two Python types *)
Theorem C03_field_map_types :
  forall field_name class_name D pkg p m x pf, spec_field field_name class_name D pkg p m x = Some pf ->
  forall e, spec_map_entry pkg p m x = Some e ->
    In e (md_nested m) /\ md_map_entry e = true /\ full_name pkg (p ++ [md_name e]) = fd_type_name x
    /\ exists k v kn vn kt vt,
         field_numbered 1 e = Some k /\ field_numbered 2 e = Some v
         /\ kind_name (fd_type k) = Some kn /\ kind_name (fd_type v) = Some vn
         /\ spec_value_type class_name D k = Some kt /\ spec_value_type class_name D v = Some vt
         /\ pf_map_types pf = Some (kn, vn) /\ pf_hint pf = PyDict kt vt.
Proof. exact field_map_types. Qed.
Print Assumptions C03_field_map_types.

(* cardinality "repeated": a List hint exactly for the non-map fields with label repeated *)
Theorem C03_field_repeated_iff :
  forall field_name class_name D pkg p m x pf, spec_field field_name class_name D pkg p m x = Some pf ->
    ((exists u, pf_hint pf = PyList u) <-> (spec_is_map pkg p m x = false /\ fd_label x = L_REPEATED)).
Proof. exact field_repeated_iff. Qed.
Print Assumptions C03_field_repeated_iff.

(* cardinality "optional": the flag is exactly proto3_optional on a non-map field, and the hint of such a (non-repeated) field is
   Optional[value type] (a wrapper's Optional is not doubled) *)
Theorem C03_field_optional_iff :
  forall field_name class_name D pkg p m x pf, spec_field field_name class_name D pkg p m x = Some pf ->
    pf_optional pf = negb (spec_is_map pkg p m x) && fd_proto3_optional x
    /\ (spec_is_map pkg p m x = false -> fd_label x <> L_REPEATED -> fd_proto3_optional x = true ->
        exists u, pf_hint pf = PyOptional u /\ spec_value_type class_name D x = Some u \/
                  spec_value_type class_name D x = Some (PyOptional u) /\ pf_hint pf = PyOptional u).
Proof. exact field_optional_iff. Qed.
Print Assumptions C03_field_optional_iff.

(* cardinality "singular": the hint is the value type itself *)
Theorem C03_field_singular :
  forall field_name class_name D pkg p m x pf, spec_field field_name class_name D pkg p m x = Some pf ->
    spec_is_map pkg p m x = false -> fd_label x <> L_REPEATED -> fd_proto3_optional x = false ->
    spec_value_type class_name D x = Some (pf_hint pf) /\ pf_optional pf = false /\ pf_map_types pf = None.
Proof. exact field_singular. Qed.
Print Assumptions C03_field_singular.

(* oneof group: group = g EXACTLY for the members of a real oneof (oneof_index present, not the synthetic oneof of a proto3
   optional, not a map) whose declared name is g *)
Theorem C03_field_group_iff :
  forall field_name class_name D pkg p m x pf, spec_field field_name class_name D pkg p m x = Some pf ->
  forall g, pf_group pf = Some g <->
    (spec_is_map pkg p m x = false /\ fd_proto3_optional x = false
     /\ exists i, fd_oneof_index x = Some i /\ 0 <= i < Zlength (md_oneofs m) /\ g = nth (Z.to_nat i) (md_oneofs m) []).
Proof. exact field_group_iff. Qed.
Print Assumptions C03_field_group_iff.

(* scalar type: for each of the scalar kinds of descriptor.proto the field carries the kind's name as proto_type, the kind's
   Python type under the cardinality's hint shape, no wraps, no map types; and there are exactly 15 such kinds *)
Theorem C03_field_scalar :
  forall field_name class_name D pkg p m x pf, spec_field field_name class_name D pkg p m x = Some pf ->
  forall n py, scalar_kind (fd_type x) = Some (n, py) ->
    spec_is_map pkg p m x = false /\ pf_proto_type pf = n /\ pf_wraps pf = None /\ pf_map_types pf = None
    /\ pf_hint pf = plain_hint x py.
Proof. exact field_scalar. Qed.
Print Assumptions C03_field_scalar.

Theorem C03_scalar_kinds_15 :
  List.length scalar_numbers = 15%nat
  /\ nodupb (map (fun t => match scalar_kind t with Some (n, _) => n | None => [] end) scalar_numbers) = true
  /\ (forall t, is_some (scalar_kind t) = true -> In t scalar_numbers).
Proof. exact scalar_kinds_15. Qed.
Print Assumptions C03_scalar_kinds_15.

(* wrapper / Timestamp / Duration mapping: wraps = Some k EXACTLY for the message-typed fields whose type name is one of the nine
   wrappers of wrappers.proto, k the scalar kind of its value; hint Optional[py]; Timestamp -> datetime, Duration -> timedelta *)
Theorem C03_field_wkt_iff :
  forall field_name class_name D pkg p m x pf, spec_field field_name class_name D pkg p m x = Some pf ->
  spec_is_map pkg p m x = false ->
    (forall k, pf_wraps pf = Some k <->
               (fd_type x = T_MESSAGE /\ exists py, lookup (fd_type_name x) wkt_wrappers = Some (k, py)))
    /\ (forall k py, fd_type x = T_MESSAGE -> lookup (fd_type_name x) wkt_wrappers = Some (k, py) ->
          pf_proto_type pf = s_message /\ pf_hint pf = plain_hint x (PyOptional py))
    /\ (fd_type x = T_MESSAGE -> fd_type_name x = wkt_timestamp -> pf_hint pf = plain_hint x PyDatetime /\ pf_wraps pf = None)
    /\ (fd_type x = T_MESSAGE -> fd_type_name x = wkt_duration -> pf_hint pf = plain_hint x PyTimedelta /\ pf_wraps pf = None).
Proof. exact field_wkt_iff. Qed.
Print Assumptions C03_field_wkt_iff.

(* ---- non-vacuity of the sixth batch ---- *)
(* the message Outer of D_ok meets the premises of C03_compiled_message_class (with C03_ex_premises); it has eight fields *)
Example C03_ex_gap_message :
  In (SymMsg (b "p.q") [b "Outer"] gap_outer) (symbols D_ok) /\ b "p.q" <> google_protobuf
  /\ md_map_entry gap_outer = false /\ List.length (md_fields gap_outer) = 8%nat.
Proof. exact gap_outer_in. Qed.
(* spec_field gives each of them a meaning (the premise of the C03_field_* readings), and the readings are the expected
   non-trivial ones: (number, map?, oneof member?, optional flag, wraps?) *)
Example C03_ex_gap_fields :
  map (fun x => match spec_field w_field_name w_class_name D_ok (b "p.q") [b "Outer"] gap_outer x with
                | Some pf => (pf_number pf, is_some (pf_map_types pf), is_some (pf_group pf), pf_optional pf, is_some (pf_wraps pf))
                | None => (0, false, false, false, false)
                end) (md_fields gap_outer)
  = [(1, true, false, false, false); (2, false, true, false, false); (3, false, true, false, false);
     (4, false, false, true, false); (5, false, false, false, false); (6, false, false, false, false);
     (7, false, false, false, true); (8, true, false, false, false)].
Proof. exact gap_outer_fields. Qed.
(* the enum Color of D_ok (premise of C03_compiled_enum_class) has a negative number *)
Example C03_ex_gap_enum :
  exists e, In (SymEnum (b "p.q") [b "Color"] e) (symbols D_ok) /\ existsb (fun nv => snd nv <? 0) (ed_values e) = true.
Proof. exact gap_enum_in. Qed.

(* ---- hypotheses: exactness (clause (1), gaps b and c) ---- *)
(* protoc_wf cannot be dropped: a map-entry type whose fields come as (value = 2, key = 1) - names_ok holds, protoc_wf fails
   (map_entry_wf), and the plugin, which reads the entry's fields BY POSITION, is not the schema's table (key and value swapped) *)
Theorem C03_protoc_wf_needed_refuted :
  protoc_wf D_swapped = false /\ names_ok w_field_name w_class_name w_member_name D_swapped = true
  /\ differs w_field_name w_class_name w_member_name D_swapped = true.
Proof. exact protoc_wf_needed_refuted. Qed.
Print Assumptions C03_protoc_wf_needed_refuted.

(* every one of the seven conjuncts of names_ok is needed on its own: for each there is a protoc_wf descriptor set (and a naming)
   on which exactly that conjunct fails and the plugin's table differs from the schema's
   (conjuncts = [pkg_names_ok; flat_dotted_ok; class_nodup; fields_nodup; members_nodup; map_keys_ok; wraps_ok]) *)
Theorem C03_names_ok_conjuncts_exact :
  (protoc_wf D_k2 = true /\ conjuncts w_field_name w_class_name w_member_name D_k2 = [false; true; true; true; true; true; true]
   /\ differs w_field_name w_class_name w_member_name D_k2 = true)
  /\ (protoc_wf D_flat = true /\ conjuncts w_field_name w_class_id w_member_name D_flat = [true; false; true; true; true; true; true]
      /\ differs w_field_name w_class_id w_member_name D_flat = true)
  /\ (protoc_wf D_k1 = true /\ conjuncts w_field_name w_class_name w_member_name D_k1 = [true; true; false; true; true; true; true]
      /\ differs w_field_name w_class_name w_member_name D_k1 = true)
  /\ (protoc_wf D_k8 = true /\ conjuncts w_field_name w_class_name w_member_name D_k8 = [true; true; true; false; true; true; true]
      /\ differs w_field_name w_class_name w_member_name D_k8 = true)
  /\ (protoc_wf D_members = true /\ conjuncts w_field_name w_class_name w_member_strip D_members = [true; true; true; true; false; true; true]
      /\ differs w_field_name w_class_name w_member_strip D_members = true)
  /\ (protoc_wf D_k13 = true /\ conjuncts w_field_name w_class_name w_member_name D_k13 = [true; true; true; true; true; false; true]
      /\ differs w_field_name w_class_name w_member_name D_k13 = true)
  /\ (protoc_wf D_wraps = true /\ conjuncts w_field_name w_class_name w_member_name D_wraps = [true; true; true; true; true; true; false]
      /\ differs w_field_name w_class_name w_member_name D_wraps = true).
Proof. exact names_ok_conjuncts_exact. Qed.
Print Assumptions C03_names_ok_conjuncts_exact.

(* ---- compositions (clause (6)) ---- *)
(* C01 with its value hypotheses discharged (C01_roundtrip_reachable_parse), for generated classes: every object that a history of
   public-API operations - parse included - reaches from a fresh instance of a generated class round-trips in full; the only
   hypotheses left are the descriptor-level ones and the decidable operation-level hist_ok *)
Theorem C03_generated_roundtrip_reachable :
  forall (field_name class_name : str -> str) (enum_member_name : str -> str -> str) (D : descriptor),
    protoc_wf D = true -> names_ok field_name class_name enum_member_name D = true -> bridge_ok D = true ->
    exists t, reflect (compile field_name class_name enum_member_name D) = Ok t /\
      let sc := schema_of_table t in
      forall c ops m,
        C01Reach.hist_ok C01Parse.op_reach_ok_p sc (new sc c) ops = true -> C07Ops.run7 sc (new sc c) ops = Ok m ->
        exists bs, enc_obj sc m = Ok bs /\
          (Zlength bs < 2 ^ 64 ->
           exists m', parse sc (ocls m) bs = Ok m' /\ m' = norm_obj sc m /\
             (deep nan_free (PMsg m) = true -> obj_eq sc m m' = true) /\
             (forall g, which_one_of m' g = which_one_of m g) /\
             obs_top sc m m' = true /\
             enc_obj sc m' = Ok bs).
Proof. exact generated_roundtrip_reachable. Qed.
Print Assumptions C03_generated_roundtrip_reachable.

(* C17_accept_iff for generated classes: a generated class parses a byte string iff the string is [valid] for it *)
Theorem C03_generated_accept_iff :
  forall (field_name class_name : str -> str) (enum_member_name : str -> str -> str) (D : descriptor),
    protoc_wf D = true -> names_ok field_name class_name enum_member_name D = true -> bridge_ok D = true ->
    exists t, reflect (compile field_name class_name enum_member_name D) = Ok t /\
      let sc := schema_of_table t in
      forall c bs, (exists m, parse sc c bs = Ok m) <-> C17Nested.valid sc c bs.
Proof. exact generated_accept_iff. Qed.
Print Assumptions C03_generated_accept_iff.

(* non-vacuity (descriptor-level premises: C03_ex_chain_premises): the history ok_ops on the generated class Outer meets hist_ok
   and selects the second member of the oneof; Outer accepts ok_bytes and rejects a cut record *)
Example C03_ex_gap_reach :
  C01Reach.hist_ok C01Parse.op_reach_ok_p S_ok (new S_ok 11) ok_ops = true
  /\ match C07Ops.run7 S_ok (new S_ok 11) ok_ops with Ok o => which_one_of o 0 = Some 2%nat | Err _ => False end.
Proof. exact gap_reach_hist. Qed.
Example C03_ex_gap_accept :
  match parse S_ok 11 ok_bytes with Ok _ => True | Err _ => False end
  /\ match parse S_ok 11 [x0a; x05] with Ok _ => False | Err _ => True end.
Proof. exact gap_accept. Qed.
