(* C03 — the protoc plugin's output implements the schema.
   Property-level statements only; every proof is a single [exact] of a lemma from Proofs/PluginP.v or
   Proofs/PluginWitP.v, followed by Print Assumptions.

   Reading guide
     descriptor          Spec/Descriptor.v   FileDescriptorSet as protoc emits it (any number of files, messages, nesting depth)
     protoc_wf D         Spec/Descriptor.v   what protoc guarantees: identifiers, type names resolve to the right kind,
                                             oneof_index in range, map-entry types named MapEntryName(field) with key = 1, value = 2,
                                             nested type names distinct
     class_table_of      Spec/Descriptor.v   the MEANING of D: one class per message / enum, fields with number, proto type,
                                             cardinality (hint shape, optional flag, map types), oneof group, wrapper /
                                             Timestamp / Duration mapping, enum members with their numbers
     compile, reflect    Model/Plugin.v      what the plugin emits (heuristics included) and what Python makes of it
     names_ok            Proofs/PluginP.v    the naming side conditions; each conjunct is a known-finding class when false:
                                             pkg_names_ok (K2), flat_dotted_ok + class_nodup (K1), fields_nodup + members_nodup (K8),
                                             map_keys_ok (K13), wraps_ok (K14)
   The naming functions field_name / class_name / enum_member_name (pythonize_field_name, pythonize_class_name,
   pythonize_enum_member_name of compile/naming.py; property C19) are universally quantified: the theorems hold for
   EVERY choice of them that satisfies names_ok on D, and the harness evaluates names_ok with the real functions. *)
From BP Require Import Base.Prelude Spec.Descriptor gen.C03Tables Model.Plugin Proofs.PluginP Proofs.PluginWitP.
From Coq Require Import String.
Open Scope list_scope.
Open Scope Z_scope.

(* For every descriptor set protoc can emit (no bound on files, messages, fields or nesting depth) and every
   naming that is injective per scope: the class table Python builds from the plugin's output IS the class
   table the schema denotes — one class per message and enum (nested ones included, map-entry types
   excepted), and per field its number, proto type, cardinality, map key/value types, oneof group, wraps,
   optional flag and resolved type hint; per enum member its number. *)
Theorem C03_field_faithful :
  forall (field_name class_name : str -> str) (enum_member_name : str -> str -> str) (D : descriptor),
    protoc_wf D = true -> names_ok field_name class_name enum_member_name D = true ->
    exists t, class_table_of field_name class_name enum_member_name D = Some t
              /\ reflect (compile field_name class_name enum_member_name D) = Ok t.
Proof. exact field_faithful. Qed.
Print Assumptions C03_field_faithful.

(* the is_map name heuristic never misses a map field of a descriptor protoc emitted (no naming condition) ... *)
Theorem C03_is_map_complete :
  forall D f p m x, protoc_wf D = true -> In f D -> In (p, m) (file_msgs f) -> In x (md_fields m) ->
    spec_is_map (fl_package f) p m x = true -> is_map x m = true.
Proof. exact is_map_no_false_negative. Qed.
Print Assumptions C03_is_map_complete.

(* ... and coincides with the specification's reading exactly when map_keys_ok holds *)
Theorem C03_is_map_exact :
  forall D f p m x, protoc_wf D = true -> map_keys_ok D = true ->
    In f D -> In (p, m) (file_msgs f) -> In x (md_fields m) ->
    is_map x m = spec_is_map (fl_package f) p m x.
Proof. exact is_map_exact. Qed.
Print Assumptions C03_is_map_exact.

(* the package regex of parse_source_type_name splits every type name of D where the symbol table does,
   provided packages are capital-free and top-level type names contain a capital *)
Theorem C03_type_name_split :
  forall D tn s, protoc_wf D = true -> pkg_names_ok D = true -> resolve D tn = Some s ->
    parse_source_type_name tn = (sym_pkg s, dotted (sym_path s)).
Proof. exact type_name_split. Qed.
Print Assumptions C03_type_name_split.

(* MapEntryName and the heuristic's key: lower(strip_(CamelCase(name) + "Entry")) = lower(strip_(name)) + "entry" *)
Theorem C03_map_entry_key :
  forall name, lower (strip_us (map_entry_name name)) = lower (strip_us name) ++ s_entry
               /\ lower (map_entry_name name) = lower (strip_us name) ++ s_entry.
Proof. exact (fun n => conj (lower_strip_map_entry_name n) (lower_map_entry_name n)). Qed.
Print Assumptions C03_map_entry_key.

(* both bundled google.protobuf libraries (std and pydantic, with their .compiler modules) agree with
   descriptor.proto / plugin.proto / the well-known-type protos on every field number they share
   (finite sweep over the regenerated tables) *)
Theorem C03_bundled_agree : forallb agree_on_shared_numbers bundled_vs_reference = true.
Proof. exact bundled_agree. Qed.
Print Assumptions C03_bundled_agree.

Theorem C03_bundled_enums_agree : forallb enum_agree_on_shared_names bundled_enums_vs_reference = true.
Proof. exact bundled_enums_agree. Qed.
Print Assumptions C03_bundled_enums_agree.

(* every output package directory, each of its ancestors and the root are in the set of directories that
   receive an __init__.py *)
Theorem C03_output_dirs :
  forall D p q, In p (output_packages D) -> In q (prefixes (pkg_dir p)) -> In q (output_dirs D).
Proof. exact output_dirs_complete. Qed.
Print Assumptions C03_output_dirs.

Theorem C03_output_dirs_self_and_root :
  forall D p, In p (output_packages D) -> In (pkg_dir p) (output_dirs D) /\ In [] (output_dirs D).
Proof. exact (fun D p H => conj (output_dirs_complete D p _ H (prefixes_self_in _)) (output_dirs_complete D p _ H (prefixes_nil_in _))). Qed.
Print Assumptions C03_output_dirs_self_and_root.

(* ---- where the pinned plugin violates the full statement (names_ok cannot be dropped) ---- *)
Theorem C03_collision_refuted :
  protoc_wf D_k1 = true
  /\ reflect (compile w_field_name w_class_name w_member_name D_k1)
     <> res_of_opt (class_table_of w_field_name w_class_name w_member_name D_k1).
Proof. exact collision_refuted. Qed.
Print Assumptions C03_collision_refuted.

Theorem C03_member_collision_refuted :
  protoc_wf D_k8 = true
  /\ reflect (compile w_field_name w_class_name w_member_name D_k8)
     <> res_of_opt (class_table_of w_field_name w_class_name w_member_name D_k8).
Proof. exact member_collision_refuted. Qed.
Print Assumptions C03_member_collision_refuted.

Theorem C03_package_regex_refuted :
  protoc_wf D_k2 = true
  /\ reflect (compile w_field_name w_class_name w_member_name D_k2)
     <> res_of_opt (class_table_of w_field_name w_class_name w_member_name D_k2)
  /\ parse_source_type_name (b ".wp.lower.inner") = (b "wp.lower", b "inner").
Proof. exact package_regex_refuted. Qed.
Print Assumptions C03_package_regex_refuted.

Theorem C03_is_map_refuted :
  protoc_wf D_k13 = true
  /\ exists f p m x, In f D_k13 /\ In (p, m) (file_msgs f) /\ In x (md_fields m)
       /\ is_map x m = true /\ spec_is_map (fl_package f) p m x = false.
Proof. exact is_map_refuted. Qed.
Print Assumptions C03_is_map_refuted.

Theorem C03_wraps_refuted :
  field_wraps (b ".google.protobuf.EnumValue") = Some (b "enum")
  /\ lookup (b ".google.protobuf.EnumValue") wkt_wrappers = None.
Proof. exact wraps_refuted. Qed.
Print Assumptions C03_wraps_refuted.

(* ---- non-vacuity ---- *)
(* a schema with nesting, recursion, two maps, a oneof, proto3 optional, repeated, a negative enum number,
   Timestamp and a wrapper satisfies both premises of C03_field_faithful ... *)
Example C03_ex_premises :
  protoc_wf D_ok = true /\ names_ok w_field_name w_class_name w_member_name D_ok = true.
Proof. exact D_ok_premises. Qed.
(* ... and its class table is the expected non-trivial one *)
Example C03_ex_table :
  match class_table_of w_field_name w_class_name w_member_name D_ok with
  | Some [(pkg, classes)] => pkg = b "p.q" /\ map fst classes = [b "Color"; b "OuterInnerKind"; b "Outer"; b "OuterInner"]
  | _ => False
  end.
Proof. exact (proj2 D_ok_table). Qed.
Example C03_ex_field :
  match class_table_of w_field_name w_class_name w_member_name D_ok with
  | Some [(_, [_; _; (_, ClsMessage (f1 :: _)); _])] =>
      f1 = mkPyField (b "by_name") 1 (b "map") (Some (b "string", b "message")) None None false
                     (PyDict PyStr (PyRef (b "p.q") (b "OuterInner")))
  | _ => False
  end.
Proof. exact D_ok_field. Qed.
(* the premise of C03_is_map_exact holds on it, and a map field is recognised *)
Example C03_ex_map_keys : map_keys_ok D_ok = true.
Proof. vm_compute. reflexivity. Qed.
(* the bundled sweep compares at least 40 classes, 300 shared field numbers and 10 enums *)
Example C03_ex_bundled :
  (40 <=? Zlength bundled_vs_reference) = true
  /\ (300 <=? fold_right Z.add 0 (map shared_numbers bundled_vs_reference)) = true
  /\ (10 <=? Zlength bundled_enums_vs_reference) = true.
Proof. exact bundled_nonvacuous. Qed.
Example C03_ex_parse : parse_source_type_name (b ".a.b.Outer.Inner") = (b "a.b", b "Outer.Inner").
Proof. vm_compute. reflexivity. Qed.
